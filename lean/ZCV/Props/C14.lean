import ZCV.Lemmas.CodeEqCmdline
import ZCV.Lemmas.OverrideBad
import ZCV.Lemmas.Datatypes
import ZCV.Lemmas.NoInternalLower
import ZCV.Lemmas.DischargeElab
import ZCV.Lemmas.DischargeExamples
import ZCV.Props.C09
import ZCV.Props.C10
import ZCV.Lemmas.ImportOvFree
import ZCV.Lemmas.ImportOvEx
/-!
C14 — command-line overrides act like editing the addressed keys in the text.

* the specifier syntax (`addOption`);
* `loadTreeOv` (the tree-driven loader started with the option bag, `ZCV/Lemmas/OverrideEval.lean`) against the
  edit specification `ZCV/Spec/Edit.lean`: same configuration, same error, or rejection on both sides;
* the loader reading TEXT with overrides against `loadTreeOv` on the tree of the text;
* corollaries: values verbatim, unknown section, key not allowed, unconvertible value.

Two hypotheses recur.  `tyCanon s items`: section headers are spelled as the schema stores type names (true of every
tree the parser builds, `treeOf_tyCanon`).  `OvsOK ovs`: every path component that has to select a section is a
basic key (`[a-zA-Z][-._a-zA-Z0-9]*`): the code runs every such component through the `basic-key` datatype and
refuses the whole load with a syntax error when that fails, even if the component equals a section NAME that is not
a basic key — the statement of C14 does not say so; see `C14_nonident_component_rejected` and
`C14_not_ovsOK_rejected` (such override lists are rejected whatever the text).
-/
namespace ZCV.Props.C14
open ZCV ZCV.Cfg ZCV.Conf

/-! ### the specifier syntax -/

/-- a specifier without `=` is refused when it is added -/
theorem C14_no_equals_refused (spec : Str) (h : spec.contains '=' = false) :
    ∃ e, addOption spec = .error (.cfg e) ∧ e.kind = .syntax := by
  unfold addOption
  simp only [h, Bool.not_false, ↓reduceIte]
  exact ⟨_, rfl, rfl⟩

/-- a specifier with an empty path component is refused when it is added -/
theorem C14_empty_component_refused (spec : Str) (h : spec.contains '=' = true)
    (he : (addOption.splitOn (spec.takeWhile (· != '=')) '/').contains [] = true) :
    ∃ e, addOption spec = .error (.cfg e) ∧ e.kind = .syntax := by
  unfold addOption
  simp only [h, Bool.not_true, Bool.false_eq_true, ↓reduceIte, he]
  exact ⟨_, rfl, rfl⟩

/-- every other specifier is accepted, with the value taken verbatim after the first `=` -/
theorem C14_wellformed_accepted (spec : Str) (h : spec.contains '=' = true)
    (he : (addOption.splitOn (spec.takeWhile (· != '=')) '/').contains [] = false) :
    addOption spec = .ok { path := addOption.splitOn (spec.takeWhile (· != '=')) '/',
                           val := (spec.dropWhile (· != '=')).drop 1 } := by
  unfold addOption
  simp only [h, Bool.not_true, Bool.false_eq_true, ↓reduceIte, he]

/-! ### overrides = edit, then load -/

/-- **Overrides act like the edit** (supplied lines spelled with the normalised key; no assumption on key types).
    For every family of datatype functions, every schema, every tree with canonical headers and every list of
    overrides whose section components are basic keys: if the edit of `ZCV/Spec/Edit.lean` is possible, loading the
    tree with the overrides gives EXACTLY what loading the edited tree gives — the same configuration or the very same
    error as the matchers raise it (kind, line, url, value: the supplied lines carry line -1 and url
    `<command-line option>`; the parser, when it reads TEXT, re-stamps errors with the line it is at, which is why the
    text-level theorem below speaks of outcomes only); if the edit is impossible (an override addresses no section, or
    its key is refused by the section's key type), the load with overrides is rejected. -/
theorem C14_override_eq_editNorm (conv : Conv) (s : Schema) (items : List Item) (ovs : List OptItem)
    (hcan : tyCanon s items = true) (hovs : OvsOK ovs) :
    (∀ items', editNorm conv s items ovs = .ok items' → loadTreeOv conv s items ovs = loadTree conv s items') ∧
    (∀ r, editNorm conv s items ovs = .error r → ∃ e, loadTreeOv conv s items ovs = .error e) := by
  have h := loadTreeOv_editBody conv s false (fun h => by cases h) items ovs hcan hovs
  unfold editNorm
  constructor
  · intro items' he; rw [he] at h; exact h
  · intro r he; rw [he] at h; exact h

/-- **Overrides act like the edit by hand** (supplied lines carry the key as typed on the command line).
    Same statement as `C14_override_eq_editNorm` for `edit`, under the hypothesis that the key types the schema uses are
    idempotent (`KeyIdemOn`; true of the stock key types, `C14_keyIdem_stock`).  The hypothesis cannot be dropped: the
    code normalises an override key twice (`OptionBag.__init__`, then `BaseMatcher.addValue`), a key line of the text
    once — see `C14_key_as_given_needs_idempotence`. -/
theorem C14_override_eq_edit (conv : Conv) (s : Schema) (items : List Item) (ovs : List OptItem)
    (hidem : KeyIdemOn conv s) (hcan : tyCanon s items = true) (hovs : OvsOK ovs) :
    (∀ items', edit conv s items ovs = .ok items' → loadTreeOv conv s items ovs = loadTree conv s items') ∧
    (∀ r, edit conv s items ovs = .error r → ∃ e, loadTreeOv conv s items ovs = .error e) := by
  have h := loadTreeOv_editBody conv s true (fun _ => hidem) items ovs hcan hovs
  unfold edit
  constructor
  · intro items' he; rw [he] at h; exact h
  · intro r he; rw [he] at h; exact h

/-- the same in one equation on outcomes: the configuration returned with overrides is the one returned for the
    edited tree, and there is none iff the edit is impossible or the edited tree is rejected -/
theorem C14_override_eq_edit_outcome (conv : Conv) (s : Schema) (items : List Item) (ovs : List OptItem)
    (hidem : KeyIdemOn conv s) (hcan : tyCanon s items = true) (hovs : OvsOK ovs) :
    (loadTreeOv conv s items ovs).toOption =
      (edit conv s items ovs).toOption.bind fun items' => (loadTree conv s items').toOption := by
  obtain ⟨h1, h2⟩ := C14_override_eq_edit conv s items ovs hidem hcan hovs
  cases he : edit conv s items ovs with
  | ok items' => rw [h1 items' he]; rfl
  | error r => obtain ⟨e, h⟩ := h2 r he; rw [h]; rfl

/-- rejection on one side iff on the other -/
theorem C14_rejected_iff (conv : Conv) (s : Schema) (items : List Item) (ovs : List OptItem)
    (hidem : KeyIdemOn conv s) (hcan : tyCanon s items = true) (hovs : OvsOK ovs) :
    (∃ e, loadTreeOv conv s items ovs = .error e) ↔
      ((∃ r, edit conv s items ovs = .error r) ∨
       ∃ items' e, edit conv s items ovs = .ok items' ∧ loadTree conv s items' = .error e) := by
  obtain ⟨h1, h2⟩ := C14_override_eq_edit conv s items ovs hidem hcan hovs
  constructor
  · rintro ⟨e, he⟩
    cases hed : edit conv s items ovs with
    | error r => exact Or.inl ⟨r, rfl⟩
    | ok items' => exact Or.inr ⟨items', e, rfl, by rw [← h1 items' hed]; exact he⟩
  · rintro (⟨r, hr⟩ | ⟨items', e, hed, he⟩)
    · exact h2 r hr
    · exact ⟨e, by rw [h1 items' hed]; exact he⟩

/-- no overrides: nothing is edited, and the loader is the plain loader -/
theorem C14_no_overrides (conv : Conv) (s : Schema) (items : List Item) :
    edit conv s items [] = .ok items ∧ loadTreeOv conv s items [] = loadTree conv s items :=
  ⟨editBody_nil conv s true s.top.keytype items, loadTreeOv_nil conv s items⟩

/-- the edited tree spells its headers as the original tree does (so C01/C02 apply to it) -/
theorem C14_edit_tyCanon (conv : Conv) (s : Schema) (items items' : List Item) (ovs : List OptItem)
    (hcan : tyCanon s items = true) (h : edit conv s items ovs = .ok items') : tyCanon s items' = true :=
  editBody_tyCanon conv s true s.top.keytype items ovs items' hcan h

/-- **With overrides the loader returns exactly what the schema defines for the edited text** (`denote`, C02), and
    it returns a configuration iff the edit is possible and the edited text conforms (C01). -/
theorem C14_override_denote (conv : Conv) (s : Schema) (items : List Item) (ovs : List OptItem)
    (hs : schemaOK s = true) (hidem : KeyIdemOn conv s) (hcan : tyCanon s items = true) (hovs : OvsOK ovs) :
    (loadTreeOv conv s items ovs).toOption = (edit conv s items ovs).toOption.bind (denote conv s) := by
  rw [C14_override_eq_edit_outcome conv s items ovs hidem hcan hovs]
  cases he : edit conv s items ovs with
  | error r => rfl
  | ok items' =>
    show (loadTree conv s items').toOption = denote conv s items'
    exact loadTree_eq_denote conv s items' hs (C14_edit_tyCanon conv s items items' ovs hcan he)

/-- **The same for configuration TEXT.**  For every text without `%import` (lines, `%define`s, `%include`s of any
    depth, through the parser model) and every list of specifiers: the configuration returned by
    `loadConfigFile(schema, text, overrides=specs)` is the configuration returned for the tree of the text edited as
    the (split) specifiers ask, and there is none iff a specifier is refused, the parser rejects the text, the edit is
    impossible or the edited tree is rejected.  `hlow`, `hkeys`: facts about the generated Unicode table and the schema's
    type names checked by the translator. -/
theorem C14_text_override_eq_edit (conv : Conv) (env : Env) (pkgs : Str → Pkg) (s : Schema) (url : Option Str)
    (lines : List Str) (specs : List Str)
    (hs : schemaOK s = true) (hlow : ∀ x : Str, lower (lower x) = lower x) (hkeys : ∀ p ∈ s.types, lower p.1 = p.1)
    (hidem : KeyIdemOn conv s)
    (hni : ∀ l ∈ lines, NoImportLine l) (hres : ∀ u ls, env.res u = some ls → ∀ l ∈ ls, NoImportLine l)
    (hovs : ∀ ovs, specs.mapM addOption = .ok ovs → OvsOK ovs) :
    (load conv env pkgs s url lines specs).toOption.map (·.value) =
      (specs.mapM addOption).toOption.bind fun ovs =>
        (treeOf env url lines).toOption.bind fun items =>
          (edit conv s items ovs).toOption.bind fun items' => (loadTree conv s items').toOption := by
  rw [load_eq_loadTreeOv conv env pkgs s url lines specs hni hres]
  cases hsp : specs.mapM addOption with
  | error e => rfl
  | ok ovs =>
    cases ht : treeOf env url lines with
    | error e => rfl
    | ok items =>
      have hcan := treeOf_tyCanon env url lines s items hs hlow hkeys ht
      exact C14_override_eq_edit_outcome conv s items ovs hidem hcan (hovs ovs hsp)

/-- the tree-driven loader with overrides is the text-driven one: for a text without `%import`, loading the lines with
    the specifiers = splitting the specifiers, building the tree, loading the tree with the overrides -/
theorem C14_text_eq_tree (conv : Conv) (env : Env) (pkgs : Str → Pkg) (s : Schema) (url : Option Str) (lines : List Str)
    (specs : List Str)
    (hni : ∀ l ∈ lines, NoImportLine l) (hres : ∀ u ls, env.res u = some ls → ∀ l ∈ ls, NoImportLine l) :
    (load conv env pkgs s url lines specs).toOption.map (·.value) =
      (specs.mapM addOption).toOption.bind fun ovs =>
        (treeOf env url lines).toOption.bind fun items => (loadTreeOv conv s items ovs).toOption :=
  load_eq_loadTreeOv conv env pkgs s url lines specs hni hres

/-! ### the stock key types are idempotent -/

/-- a schema whose key types are among `basic-key`, `identifier` and `string` (with the stock datatype functions)
    satisfies the idempotence hypothesis -/
theorem C14_keyIdem_stock (s : Schema)
    (h : ∀ t, InSchema s t → String.ofList t.keytype = "basic-key" ∨ String.ofList t.keytype = "identifier" ∨
      String.ofList t.keytype = "string") : KeyIdemOn stockConv s := by
  intro t ht k r hk
  show stockKey t.keytype r = .ok r
  change stockKey t.keytype k = .ok r at hk
  unfold stockKey at hk ⊢
  rcases h t ht with h1 | h1 | h1
  · rw [h1] at hk ⊢
    exact DT.basicKey_idempotent k r hk
  · rw [h1] at hk ⊢
    exact DT.identifier_idempotent k r hk
  · rw [h1] at hk ⊢
    rfl

/-! ### corollaries -/

/-- **Verbatim.**  A single top-level override `k=text`: the loader behaves as on the text in which every line for
    key `k` is dropped and the line `k text` is added, where `text` is everything after the first `=` of the specifier,
    character for character.  (Lines of a tree hold values AFTER the parser's `$`-expansion; the tree loader hands the
    value of a line to the datatype function unchanged, so no expansion is applied to `text`.) -/
theorem C14_verbatim (conv : Conv) (s : Schema) (items : List Item) (spec k n : Str)
    (hidem : KeyIdemOn conv s) (hcan : tyCanon s items = true)
    (heq : spec.contains '=' = true) (hpath : addOption.splitOn (spec.takeWhile (· != '=')) '/' = [k]) (hk0 : k ≠ [])
    (hk : conv.key s.top.keytype k = .ok n) :
    addOption spec = .ok { path := [k], val := (spec.dropWhile (· != '=')).drop 1 } ∧
    loadTreeOv conv s items [{ path := [k], val := (spec.dropWhile (· != '=')).drop 1 }] =
      loadTree conv s (items.filter (keptItem (conv.key s.top.keytype) [n]) ++
        [.kv k ((spec.dropWhile (· != '=')).drop 1) cmdPos]) := by
  constructor
  · have := C14_wellformed_accepted spec heq (by rw [hpath]; simp [hk0])
    rw [hpath] at this
    exact this
  · have hovs : OvsOK [{ path := [k], val := (spec.dropWhile (· != '=')).drop 1 }] := by
      intro o ho c hc
      simp only [List.mem_singleton] at ho
      subst ho
      simp at hc
    apply (C14_override_eq_edit conv s items _ hidem hcan hovs).1
    unfold edit editBody
    rw [splitOvs]
    simp only [hk]
    rw [splitOvs]
    simp only
    rw [editItems_nopend]
    rfl

/-- a single top-level override whose value contains `$`: the `$` reaches the datatype function -/
example : loadTreeOv
      { key := fun _ k => .ok k, val := fun _ v => .ok (.str v), sect := fun _ v => .ok v }
      { types := [], handler := none, components := [],
        top := { name := none, keytype := [], datatype := [],
                 children := [(some ['k'], .key { name := ['k'], attr := ['k'], multi := false, minOccurs := 0, dt := [],
                                                  dflt := .none, handler := none })] } }
      [.kv ['k'] ['o', 'l', 'd'] ⟨1, none⟩] [{ path := [['k']], val := ['$', 'x'] }] =
    .ok (.sect [] none [(['k'], .str ['$', 'x'])]) := by rfl

/-- **Unknown section.**  An override that goes below the top level while its first component selects no top-level
    section of the text is rejected (in the code: "not all command line options were consumed", unless something else
    fails first).  At any depth: `C14_override_eq_edit`, second part, with `Reject.unknownSection`. -/
theorem C14_unknown_section_rejected (conv : Conv) (s : Schema) (items : List Item) (ovs : List OptItem) (o : OptItem)
    (hcan : tyCanon s items = true) (hovs : OvsOK ovs) (ho : o ∈ ovs) (ho2 : 2 ≤ o.path.length)
    (hno : ∀ ty nm sub, Item.sect ty nm sub ∈ items → addresses o ty nm = false) :
    ∃ e, loadTreeOv conv s items ovs = .error e := by
  obtain ⟨r, hr⟩ := editBody_unknown_section conv s false s.top.keytype items ovs o ho ho2 hno
  exact (C14_override_eq_editNorm conv s items ovs hcan hovs).2 r hr

/-- **Key not allowed.**  A top-level override `k=v` whose key — as the loader finally looks it up: normalised by the
    key type, `n`, and normalised once more — is refused by the key type or is neither a declared key nor captured by a
    wildcard key (`keyRejected`) is rejected.  Below the top level: `C14_override_denote` (the edited text has a key
    line its section does not allow, hence does not conform). -/
theorem C14_key_not_allowed_rejected (conv : Conv) (s : Schema) (items : List Item) (ovs : List OptItem) (o : OptItem)
    (k n : Str) (hcan : tyCanon s items = true) (hovs : OvsOK ovs) (ho : o ∈ ovs) (hp : o.path = [k])
    (hk : conv.key s.top.keytype k = .ok n) (hrej : keyRejected conv s.top n) :
    ∃ e, loadTreeOv conv s items ovs = .error e := by
  obtain ⟨h1, h2⟩ := C14_override_eq_editNorm conv s items ovs hcan hovs
  cases hed : editNorm conv s items ovs with
  | error r => exact h2 r hed
  | ok items' =>
    rw [h1 items' hed, loadTree_evalB]
    obtain ⟨ks, ss, is, hs1, _, rfl⟩ := editBody_ok conv s false s.top.keytype items ovs items' hed
    have hx := splitOvs_mem_ks (conv.key s.top.keytype) o k n hp hk ovs ks ss ho hs1
    have hm := newLines_mem false ks _ hx
    obtain ⟨e, he⟩ := evalItemsB_rejects conv s n o.val cmdPos (is ++ newLines false (groupsOf ks))
      (newMatcher s.top none none) rfl (List.mem_append_right _ hm) hrej
    exact ⟨e, by rw [he]; rfl⟩

/-- **Unconvertible value.**  The errors of a load with overrides are the errors of the edited text
    (`C14_override_eq_edit`: equality of outcomes including the error), whose supplied lines carry the override value and
    the position `cmdPos`; and a value with that position which its datatype refuses with `ValueError` is reported as
    a `DataConversionError` (kind `.conversion`, not an internal error) at line -1 of `<command-line option>` carrying
    the value.  (When the parser closes the section in which this happens it replaces a negative line by the line it is
    at; class, url and value stay.) -/
theorem C14_bad_value_is_conversion_error (conv : Conv) (dt v : Str) (h : conv.val dt v = .error .valueError) :
    convVI conv dt { value := v, pos := cmdPos } =
      .error (.cfg { kind := .conversion, line := some (-1), url := some "<command-line option>".toList,
                     tag := "value", value := some v }) := by
  unfold convVI
  rw [h]
  rfl

/-- an override key that the key type of the document refuses with `ValueError` (first in the list) is reported as a
    `DataConversionError` carrying the key, at line -1 of `<command-line option>` — before the text is looked at -/
theorem C14_bad_key_is_conversion_error (conv : Conv) (s : Schema) (items : List Item) (k v : Str) (rest : List OptItem)
    (h : conv.key s.top.keytype k = .error .valueError) :
    loadTreeOv conv s items ({ path := [k], val := v } :: rest) =
      .error (.cfg { kind := .conversion, line := some (-1), url := some "<command-line option>".toList,
                     tag := "override key", value := some k }) := by
  unfold loadTreeOv bagOf
  rw [mkBag_eq_fold, List.foldlM_cons]
  simp only [Conf.mkBagStep, h]
  rfl

/-- when the edit is possible, an error of the load with overrides IS the error of the edited text -/
theorem C14_error_eq_edit_error (conv : Conv) (s : Schema) (items items' : List Item) (ovs : List OptItem)
    (hidem : KeyIdemOn conv s) (hcan : tyCanon s items = true) (hovs : OvsOK ovs)
    (hed : edit conv s items ovs = .ok items') (e : Fail) :
    loadTreeOv conv s items ovs = .error e ↔ loadTree conv s items' = .error e := by
  rw [(C14_override_eq_edit conv s items ovs hidem hcan hovs).1 items' hed]

/-- an override with an unconvertible value, end to end on a one-key schema: conversion error, line -1 -/
example : loadTreeOv
      { key := fun _ k => .ok k, val := fun _ v => if v == ['b'] then .error .valueError else .ok (.str v),
        sect := fun _ v => .ok v }
      { types := [], handler := none, components := [],
        top := { name := none, keytype := [], datatype := [],
                 children := [(some ['k'], .key { name := ['k'], attr := ['k'], multi := false, minOccurs := 0, dt := [],
                                                  dflt := .none, handler := none })] } }
      [.kv ['k'] ['o', 'l', 'd'] ⟨1, none⟩] [{ path := [['k']], val := ['b'] }] =
    .error (.cfg { kind := .conversion, line := some (-1), url := some "<command-line option>".toList,
                   tag := "value", value := some ['b'] }) := by rfl

/-- **Component that is not a basic key.**  An override with a section component (any component but the last, at
    any depth) that the `basic-key` datatype refuses — for instance `1st/key=v`, `a/b:c/key=v` — makes the load fail,
    whatever the text, even when a section is NAMED `1st` or `b:c`.  (In the code: `OptionBag.get_section_info` converts
    the first component of every pending override with `basic-key` before comparing names, raising a
    `ConfigurationSyntaxError` at the first sub-section opened; if none is opened the override is left over and
    `OptionBag.finish` refuses it.)  This is exactly the case `OvsOK` excludes from the edit equivalence. -/
theorem C14_nonident_component_rejected (conv : Conv) (s : Schema) (items : List Item) (ovs : List OptItem) (o : OptItem)
    (ho : o ∈ ovs) (c : Str) (hc : c ∈ o.path.dropLast) (e0 : ConvErr) (hbk : DT.basicKey c = .error e0) :
    ∃ e, loadTreeOv conv s items ovs = .error e :=
  loadTreeOv_badOv conv s items ovs o ho ⟨c, hc, e0, hbk⟩

/-- so the edit equivalence covers every list of overrides that is not rejected outright: a list violating `OvsOK` is
    rejected whatever the text -/
theorem C14_not_ovsOK_rejected (conv : Conv) (s : Schema) (items : List Item) (ovs : List OptItem) (h : ¬ OvsOK ovs) :
    ∃ e, loadTreeOv conv s items ovs = .error e := by
  by_cases hb : ∃ o, o ∈ ovs ∧ BadOv o
  · obtain ⟨o, ho, hbad⟩ := hb
    exact loadTreeOv_badOv conv s items ovs o ho hbad
  · exfalso
    apply h
    intro o ho c hc
    cases hk : DT.basicKey c with
    | ok r => exact ⟨r, rfl⟩
    | error e => exact absurd ⟨o, ho, c, hc, e, hk⟩ hb

/-! ### the idempotence hypothesis is needed for the key as typed -/

/-- a key type that is not idempotent: it prefixes `x` -/
def convX : Conv := { key := fun _ k => .ok ('x' :: k), val := fun _ v => .ok (.str v), sect := fun _ v => .ok v }
/-- a single-valued key named `n` -/
def keyX (n : Str) : Option Str × Info :=
  (some n, .key { name := n, attr := n, multi := false, minOccurs := 0, dt := [], dflt := .none, handler := none })
/-- a schema with the two keys `xk` and `xxk` -/
def schX : Schema :=
  { types := [], handler := none, components := [],
    top := { name := none, keytype := [], datatype := [], children := [keyX ['x', 'k'], keyX ['x', 'x', 'k']] } }

/-- With a key type that is not idempotent the override `k=v` does NOT act like the added line `k v`: the line sets
    `xk` (key type applied once), the override sets `xxk` (key type applied twice: `OptionBag.__init__`, then
    `BaseMatcher.addValue` called from `finish_optionbag`).  So `KeyIdemOn` in `C14_override_eq_edit` cannot be dropped;
    `C14_override_eq_editNorm` needs no such hypothesis because there the supplied line carries the key already
    normalised once. -/
theorem C14_key_as_given_needs_idempotence :
    ∃ (conv : Conv) (s : Schema) (items : List Item) (ovs : List OptItem) (items' : List Item),
      tyCanon s items = true ∧ OvsOK ovs ∧ edit conv s items ovs = .ok items' ∧
      loadTreeOv conv s items ovs ≠ loadTree conv s items' := by
  refine ⟨convX, schX, [], [{ path := [['k']], val := ['v'] }], [.kv ['k'] ['v'] cmdPos], tyCanon_nil _, ?_, rfl, ?_⟩
  · intro o ho c hc
    simp only [List.mem_singleton] at ho
    subst ho
    simp at hc
  · have h1 : loadTreeOv convX schX [] [{ path := [['k']], val := ['v'] }] =
        .ok (.sect [] none [(['x', 'k'], .none), (['x', 'x', 'k'], .str ['v'])]) := rfl
    have h2 : loadTree convX schX [.kv ['k'] ['v'] cmdPos] =
        .ok (.sect [] none [(['x', 'k'], .str ['v']), (['x', 'x', 'k'], .none)]) := rfl
    rw [h1, h2]
    intro h
    cases h

/-! ### a non-trivial instance of the hypotheses of the main theorems -/

namespace Ex

/-- datatype functions for the example: keys are lower-cased (ASCII), values kept as text -/
def conv1 : Conv := { key := fun _ k => .ok (asciiLower k), val := fun _ v => .ok (.str v), sect := fun _ v => .ok v }

/-- section type `sect` with a multikey `k` -/
def tS : SType :=
  { name := some "sect".toList, keytype := [], datatype := [],
    children := [(some ['k'], .key { name := ['k'], attr := ['k'], multi := true, minOccurs := 0, dt := [],
                                     dflt := .many [], handler := none })] }
/-- a schema with any number of named sections of type `sect` -/
def sch1 : Schema :=
  { types := [("sect".toList, .concrete tS)], handler := none, components := [],
    top := { name := none, keytype := [], datatype := [],
             children := [(none, .sect { name := ['+'], attr := "sects".toList, multi := true, minOccurs := 0,
                                         ty := "sect".toList, handler := none })] } }
/-- `<sect a> k 1 </sect> <sect b> k 2 </sect>` -/
def items1 : List Item :=
  [.sect "sect".toList (some ['a']) [.kv ['k'] ['1'] ⟨2, none⟩],
   .sect "sect".toList (some ['b']) [.kv ['k'] ['2'] ⟨5, none⟩]]
/-- `B/k=x sect/k=y Sect/K=z`: by name in mixed case; by type (first `sect` section); by type and key in mixed case -/
def ovs1 : List OptItem :=
  [{ path := [['B'], ['k']], val := ['x'] }, { path := ["sect".toList, ['k']], val := ['y'] },
   { path := ["Sect".toList, ['K']], val := ['z'] }]

/-- the instance satisfies the hypotheses of the main theorems -/
theorem sch1_ok : schemaOK sch1 = true := by decide
theorem items1_canon : tyCanon sch1 items1 = true := by
  simp only [items1, tyCanon_sect, tyCanon_nil, tyCanon, hdrOK]
  decide
theorem ovs1_ok : OvsOK ovs1 := by
  intro o ho c hc
  simp only [ovs1, List.mem_cons, List.not_mem_nil, or_false] at ho
  rcases ho with rfl | rfl | rfl <;> simp only [List.dropLast, List.mem_cons, List.not_mem_nil, or_false] at hc <;> subst hc <;>
    exact ⟨_, by rw [DT.basicKey_eq_spec]; rfl⟩
theorem conv1_idem : KeyIdemOn conv1 sch1 := by
  intro t _ k r hk
  cases hk
  show Except.ok (asciiLower (asciiLower k)) = _
  rw [DT.asciiLower_idem]

/-- the edit: both `sect/…` overrides go to the FIRST section of type `sect`, grouped under the key `k`; the file
    values of the overridden key are dropped -/
theorem edit1 : edit conv1 sch1 items1 ovs1 =
    .ok [.sect "sect".toList (some ['a']) [.kv ['k'] ['y'] cmdPos, .kv ['K'] ['z'] cmdPos],
         .sect "sect".toList (some ['b']) [.kv ['k'] ['x'] cmdPos]] := by rfl

/-- the hypotheses of `C14_override_eq_edit` / `C14_override_denote` hold for this instance, and the theorem yields the
    configuration loaded with the overrides -/
example : (loadTreeOv conv1 sch1 items1 ovs1).toOption =
    some (.sect [] none [("sects".toList, .list
      [.sect "sect".toList (some ['a']) [(['k'], .list [.str ['y'], .str ['z']])],
       .sect "sect".toList (some ['b']) [(['k'], .list [.str ['x']])]])]) := by
  rw [C14_override_denote conv1 sch1 items1 ovs1 sch1_ok conv1_idem items1_canon ovs1_ok, edit1]
  rfl

/-- an override addressing a section that is not there: the edit is impossible -/
example : edit conv1 sch1 items1 [{ path := [['c'], ['k']], val := ['x'] }] = .error (.unknownSection ['c']) := by rfl

/-- the hypotheses of `C14_unknown_section_rejected` hold for that override -/
example : ∀ ty nm sub, Item.sect ty nm sub ∈ items1 →
    addresses { path := [['c'], ['k']], val := ['x'] } ty nm = false := by
  intro ty nm sub h
  simp only [items1, List.mem_cons, List.not_mem_nil, or_false, Item.sect.injEq] at h
  rcases h with ⟨rfl, rfl, _⟩ | ⟨rfl, rfl, _⟩ <;> rfl

/-- the hypothesis of `C14_key_not_allowed_rejected` holds for the top-level override `z=…` (the schema has no
    top-level key) -/
example : conv1.key sch1.top.keytype ['Z'] = .ok ['z'] ∧ keyRejected conv1 sch1.top ['z'] := ⟨rfl, rfl⟩

/-- the hypothesis of `C14_nonident_component_rejected` holds for the component `1a` -/
example : DT.basicKey ['1', 'a'] = .error .valueError := by rw [DT.basicKey_eq_spec]; rfl

end Ex

/-! ### the table hypotheses discharged -/

/-- `C14_text_override_eq_edit` without the table hypothesis: `hlow` is discharged by the proved `lower_idem` -/
theorem C14_text_override_eq_edit' (conv : Conv) (env : Env) (pkgs : Str → Pkg) (s : Schema) (url : Option Str)
    (lines : List Str) (specs : List Str)
    (hs : schemaOK s = true) (hkeys : ∀ p ∈ s.types, lower p.1 = p.1)
    (hidem : KeyIdemOn conv s)
    (hni : ∀ l ∈ lines, NoImportLine l) (hres : ∀ u ls, env.res u = some ls → ∀ l ∈ ls, NoImportLine l)
    (hovs : ∀ ovs, specs.mapM addOption = .ok ovs → OvsOK ovs) :
    (load conv env pkgs s url lines specs).toOption.map (·.value) =
      (specs.mapM addOption).toOption.bind fun ovs =>
        (treeOf env url lines).toOption.bind fun items =>
          (edit conv s items ovs).toOption.bind fun items' => (loadTree conv s items').toOption :=
  C14_text_override_eq_edit conv env pkgs s url lines specs hs ZCV.lower_idem hkeys hidem hni hres hovs

/-- `C14_keyIdem_stock` with `ipaddr-or-hostname` included: a schema whose key types are among the four key types of
    the stock table (`basic-key`, `identifier`, `ipaddr-or-hostname`, `string`) satisfies the idempotence hypothesis -/
theorem C14_keyIdem_stock_all (s : Schema)
    (h : ∀ t, InSchema s t → String.ofList t.keytype = "basic-key" ∨ String.ofList t.keytype = "identifier" ∨
      String.ofList t.keytype = "ipaddr-or-hostname" ∨ String.ofList t.keytype = "string") :
    KeyIdemOn stockConv s := by
  intro t ht k r hk
  exact ZCV.Props.C09.C09_keytypes_idempotent' t.keytype (h t ht) k r hk

/-- e.g. a schema whose only key type is `ipaddr-or-hostname` (not covered by `C14_keyIdem_stock`) -/
example : KeyIdemOn stockConv
    { types := [], top := { name := none, keytype := "ipaddr-or-hostname".toList, datatype := [], children := [] },
      handler := none, components := [] } := by
  apply C14_keyIdem_stock_all
  intro t ht
  rcases ht with rfl | ⟨ty, h⟩
  · right; right; left; decide
  · simp [Schema.gettype] at h

/-- in fact the stock key-conversion table is idempotent outright — a key type outside the four converts nothing — so
    EVERY schema satisfies the idempotence hypothesis under the stock datatype functions -/
theorem C14_keyIdem_stockConv : KeyIdem stockConv := by
  intro kt k r hk
  by_cases h : kt ∈ ["basic-key".toList, "identifier".toList, "ipaddr-or-hostname".toList, "string".toList]
  · exact ZCV.Props.C09.C09_keytypes_idempotent kt h k r hk
  · have hu : stockKey kt k = .error (.other "unknown-keytype".toList) := ZCV.Props.C09.C09_keytypes_all kt h k
    have hk' : stockKey kt k = .ok r := hk
    rw [hu] at hk'; cases hk'

/-- … for every schema -/
theorem C14_keyIdemOn_stockConv (s : Schema) : KeyIdemOn stockConv s := C14_keyIdem_stockConv.on s

/-- **End to end.**  For the schema object `S` of ANY schema document the schema loader accepts (`hkey`: the key types
    the schema loader uses never turn a non-empty name into the empty string), any datatype functions whose key types
    in use are idempotent, any text without `%import` and any specifiers whose section-selecting path components are
    basic keys: the configuration returned with the overrides is the one returned for the tree of the text edited as
    the specifiers ask.  `schemaOK`, `hlow`, `hkeys` are discharged (C10, `lower_idem`, `elab_types_keys_lower`). -/
theorem C14_end_to_end (eenv : Elab.Env) (fuel : Nat) (doc : Elab.Node) (S : Schema)
    (hkey : ∀ (kt s r : Str), s ≠ [] → eenv.conv.key kt s = .ok r → r ≠ [])
    (hS : Elab.elabSchema eenv fuel doc = .ok S)
    (conv : Conv) (env : Env) (pkgs : Str → Pkg) (url : Option Str) (lines : List Str) (specs : List Str)
    (hidem : KeyIdemOn conv S)
    (hni : ∀ l ∈ lines, NoImportLine l) (hres : ∀ u ls, env.res u = some ls → ∀ l ∈ ls, NoImportLine l)
    (hovs : ∀ ovs, specs.mapM addOption = .ok ovs → OvsOK ovs) :
    (load conv env pkgs S url lines specs).toOption.map (·.value) =
      (specs.mapM addOption).toOption.bind fun ovs =>
        (treeOf env url lines).toOption.bind fun items =>
          (edit conv S items ovs).toOption.bind fun items' => (loadTree conv S items').toOption :=
  C14_text_override_eq_edit' conv env pkgs S url lines specs
    (ZCV.Props.C10.C10_elab_schemaOK eenv fuel doc S hkey hS) (Elab.elab_types_keys_lower hS) hidem hni hres hovs

/-- the same with the stock datatype functions on both sides (schema loader and configuration loader): the only
    hypotheses left are about the text (no `%import`) and the specifiers (`OvsOK`) -/
theorem C14_end_to_end_stock (eenv : Elab.Env) (fuel : Nat) (doc : Elab.Node) (S : Schema)
    (hconv : eenv.conv = stockConv) (hS : Elab.elabSchema eenv fuel doc = .ok S)
    (env : Env) (pkgs : Str → Pkg) (url : Option Str) (lines : List Str) (specs : List Str)
    (hni : ∀ l ∈ lines, NoImportLine l) (hres : ∀ u ls, env.res u = some ls → ∀ l ∈ ls, NoImportLine l)
    (hovs : ∀ ovs, specs.mapM addOption = .ok ovs → OvsOK ovs) :
    (load stockConv env pkgs S url lines specs).toOption.map (·.value) =
      (specs.mapM addOption).toOption.bind fun ovs =>
        (treeOf env url lines).toOption.bind fun items =>
          (edit stockConv S items ovs).toOption.bind fun items' => (loadTree stockConv S items').toOption :=
  C14_end_to_end eenv fuel doc S
    (by intro kt s r hs hr; rw [hconv] at hr; exact Elab.stockConv_key_ne_nil kt s r hs hr) hS stockConv env pkgs url
    lines specs (C14_keyIdemOn_stockConv S) hni hres hovs

/-- the hypotheses are satisfiable: accepted schema document (base schema + component, stock key types), import-free
    four-line text, no includable resources, no specifiers -/
example : ∃ S, Elab.elabSchema Elab.Example.env 1 Elab.Example.doc = .ok S ∧
    (load stockConv Ex.env Ex.pkgs S none DischargeEx.lines []).toOption.map (·.value) =
      (([] : List Str).mapM addOption).toOption.bind fun ovs =>
        (treeOf Ex.env none DischargeEx.lines).toOption.bind fun items =>
          (edit stockConv S items ovs).toOption.bind fun items' => (loadTree stockConv S items').toOption := by
  obtain ⟨S, hS⟩ := DischargeEx.dis_ex_doc_accepted
  refine ⟨S, hS, C14_end_to_end_stock _ 1 _ S DischargeEx.dis_ex_env_stock hS _ _ _ _ _
    DischargeEx.dis_ex_lines_noImport DischargeEx.dis_ex_res ?_⟩
  intro ovs h
  simp only [List.mapM_nil, pure, Except.pure, Except.ok.injEq] at h
  subst h
  intro o ho; cases ho

end ZCV.Props.C14

/-! ## overrides for texts WITH `%import` lines (C14 with C12)

`editI` (`ZCV/Spec/EditImport.lean`) is `edit` applied to the top-level items of a text with `%import` lines: the `%import`
lines stay where they are, the lines supplied for top-level keys go to the end of the text, and the key type of a
section the edit descends into is looked up in the schema `S` THE LOAD STARTS WITH — as the code does: the option bags are
cooked before the text is read and keep that schema (`OptionBag.schema`), while `%import` replaces the loader's schema
by a derived copy.  Consequences, all covered by the theorem below:

* a top-level key override: `%import` never changes the key type of the document — the edit is the edit of C14;
* a path into a section of a type that `S` knows: the edit of C14, whatever the text imports before or after;
* a path into a section whose type is defined by a component that THIS load imports: `S` does not know the type, the edit
  is impossible (`Reject.unknownType`) and the load is rejected, although the text edited by hand is accepted
  (`C14_override_into_imported_type_counterexample`; known finding `C14-override-into-imported-type`). -/

namespace ZCV.Props.C14
open ZCV ZCV.Cfg ZCV.Conf

/-- **Overrides act like the edit, for TEXT with `%import` lines** (supplied lines spelled with the normalised key; no
    assumption on key types).  For every text (lines, `%define`s, `%include`s of any depth, `%import`s) that meets no
    `%import` inside a section and whose imports keep the schema of the load well-formed (`importsOK`), and every list of
    specifiers whose section-selecting components are basic keys: the configuration returned by
    `loadConfigFile(schema, text, overrides=specs)` is the value `denoteI` (C12: every section judged by the schema in
    force at its position) gives the top-level items of the text EDITED as the (split) specifiers ask, against the
    schema `S` the load starts with; and there is none iff a specifier is refused, the parser rejects the text, the edit
    is impossible, or the edited items do not conform. -/
theorem C14_text_override_eq_editNorm_imports (conv : Conv) (env : Env) (pkgs : Str → Pkg) (S : Schema) (url : Option Str)
    (lines : List Str) (specs : List Str)
    (htop : importsAtTop env url lines)
    (hok : ∀ tops, treeOfI env url lines = .ok tops → importsOK pkgs S tops = true)
    (hovs : ∀ ovs, specs.mapM addOption = .ok ovs → OvsOK ovs) :
    (load conv env pkgs S url lines specs).toOption.map (·.value) =
      (specs.mapM addOption).toOption.bind fun ovs =>
        (treeOfI env url lines).toOption.bind fun tops =>
          (editNormI conv S tops ovs).toOption.bind (denoteI conv S pkgs) :=
  load_ov_eq_denoteI conv env pkgs S url lines specs false (fun h => by cases h) htop hok hovs

/-- **Overrides act like the edit BY HAND, for TEXT with `%import` lines** (supplied lines carry the key as typed on the
    command line).  Same statement for `editI`, under the hypothesis that the key types of the schema the load STARTS
    with are idempotent (`KeyIdemOn conv S`; true of the stock key types — only sections of types `S` knows can be
    addressed, so nothing is asked of the key types of imported components). -/
theorem C14_text_override_eq_edit_imports (conv : Conv) (env : Env) (pkgs : Str → Pkg) (S : Schema) (url : Option Str)
    (lines : List Str) (specs : List Str)
    (hidem : KeyIdemOn conv S)
    (htop : importsAtTop env url lines)
    (hok : ∀ tops, treeOfI env url lines = .ok tops → importsOK pkgs S tops = true)
    (hovs : ∀ ovs, specs.mapM addOption = .ok ovs → OvsOK ovs) :
    (load conv env pkgs S url lines specs).toOption.map (·.value) =
      (specs.mapM addOption).toOption.bind fun ovs =>
        (treeOfI env url lines).toOption.bind fun tops =>
          (editI conv S tops ovs).toOption.bind (denoteI conv S pkgs) :=
  load_ov_eq_denoteI conv env pkgs S url lines specs true (fun _ => hidem) htop hok hovs

/-- both directions in words: the load with overrides is rejected iff a specifier is refused, or the parser rejects the
    text, or the edit is impossible, or the edited items do not conform -/
theorem C14_imports_rejected_iff (conv : Conv) (env : Env) (pkgs : Str → Pkg) (S : Schema) (url : Option Str)
    (lines : List Str) (specs : List Str)
    (hidem : KeyIdemOn conv S)
    (htop : importsAtTop env url lines)
    (hok : ∀ tops, treeOfI env url lines = .ok tops → importsOK pkgs S tops = true)
    (hovs : ∀ ovs, specs.mapM addOption = .ok ovs → OvsOK ovs) :
    (∃ e, load conv env pkgs S url lines specs = .error e) ↔
      ((∃ e, specs.mapM addOption = .error e) ∨ (∃ e, treeOfI env url lines = .error e) ∨
       ∃ ovs tops, specs.mapM addOption = .ok ovs ∧ treeOfI env url lines = .ok tops ∧
         ((∃ r, editI conv S tops ovs = .error r) ∨
          ∃ tops', editI conv S tops ovs = .ok tops' ∧ conformsI conv S pkgs tops' = false)) := by
  have h := C14_text_override_eq_edit_imports conv env pkgs S url lines specs hidem htop hok hovs
  cases hsp : specs.mapM addOption with
  | error e1 =>
    rw [hsp] at h
    constructor
    · intro _; exact .inl ⟨e1, rfl⟩
    · intro _
      cases hl : load conv env pkgs S url lines specs with
      | error e => exact ⟨e, rfl⟩
      | ok r => rw [hl] at h; cases h
  | ok ovs =>
    rw [hsp] at h
    simp only [Cfg.toOption_ok, Option.bind_some] at h
    cases ht : treeOfI env url lines with
    | error e2 =>
      rw [ht] at h
      constructor
      · intro _; exact .inr (.inl ⟨e2, rfl⟩)
      · intro _
        cases hl : load conv env pkgs S url lines specs with
        | error e => exact ⟨e, rfl⟩
        | ok r => rw [hl] at h; cases h
    | ok tops =>
      rw [ht] at h
      simp only [Cfg.toOption_ok, Option.bind_some] at h
      cases hed : editI conv S tops ovs with
      | error r =>
        rw [hed] at h
        constructor
        · intro _; exact .inr (.inr ⟨ovs, tops, rfl, rfl, .inl ⟨r, hed⟩⟩)
        · intro _
          cases hl : load conv env pkgs S url lines specs with
          | error e => exact ⟨e, rfl⟩
          | ok r => rw [hl] at h; cases h
      | ok tops' =>
        rw [hed] at h
        simp only [Cfg.toOption_ok, Option.bind_some] at h
        constructor
        · rintro ⟨e, he⟩
          rw [he] at h
          refine .inr (.inr ⟨ovs, tops, rfl, rfl, .inr ⟨tops', hed, ?_⟩⟩)
          unfold conformsI
          rw [← h]
          rfl
        · rintro (⟨e, he⟩ | ⟨e, he⟩ | ⟨ovs2, tops2, h1, h2, h3⟩)
          · cases he
          · cases he
          · cases h1
            cases h2
            rcases h3 with ⟨r, hr⟩ | ⟨tops2', h4, h5⟩
            · rw [hed] at hr; cases hr
            · rw [hed] at h4
              cases h4
              cases hl : load conv env pkgs S url lines specs with
              | error e => exact ⟨e, rfl⟩
              | ok r =>
                rw [hl] at h
                unfold conformsI at h5
                rw [← h] at h5
                cases h5

/-- **The theorem for texts with `%import` lines specialises to `C14_text_override_eq_edit'`**: on a text without
    `%import` lines (here and in what it can include) `treeOfI` is `treeOf`, `editI` is `edit`, `denoteI` is `denote`, and
    `denote` is what `loadTree` returns.  (The hypothesis `hkeys` of the old statement is not needed.) -/
theorem C14_text_override_eq_edit_from_imports (conv : Conv) (env : Env) (pkgs : Str → Pkg) (s : Schema) (url : Option Str)
    (lines : List Str) (specs : List Str)
    (hs : schemaOK s = true) (hidem : KeyIdemOn conv s)
    (hni : ∀ l ∈ lines, NoImportLine l) (hres : ∀ u ls, env.res u = some ls → ∀ l ∈ ls, NoImportLine l)
    (hovs : ∀ ovs, specs.mapM addOption = .ok ovs → OvsOK ovs) :
    (load conv env pkgs s url lines specs).toOption.map (·.value) =
      (specs.mapM addOption).toOption.bind fun ovs =>
        (treeOf env url lines).toOption.bind fun items =>
          (edit conv s items ovs).toOption.bind fun items' => (loadTree conv s items').toOption := by
  obtain ⟨hfree, htop⟩ := treeOfI_import_free env url lines hni hres
  have hok : ∀ tops, treeOfI env url lines = .ok tops → importsOK pkgs s tops = true := by
    intro tops ht
    rw [ht] at hfree
    cases hT : treeOf env url lines with
    | error e => rw [hT] at hfree; cases hfree
    | ok items =>
      rw [hT] at hfree
      simp only [Cfg.toOption_ok, Option.map_some, Option.some.injEq] at hfree
      subst hfree
      rw [importsOK_items]
      exact hs
  rw [C14_text_override_eq_edit_imports conv env pkgs s url lines specs hidem htop hok hovs]
  cases hsp : specs.mapM addOption with
  | error e => rfl
  | ok ovs =>
    simp only [Cfg.toOption_ok, Option.bind_some]
    cases hT : treeOf env url lines with
    | error e =>
      rw [hT] at hfree
      rw [hfree]
      rfl
    | ok items =>
      rw [hT] at hfree
      simp only [Cfg.toOption_ok, Option.map_some] at hfree
      have hTI := Cfg.toOption_eq_some.mp hfree
      have hl : lowItems items = true := by
        have := treeOfI_low env url lines _ hTI
        rw [lowTops_items] at this
        exact this
      rw [hfree]
      simp only [Cfg.toOption_ok, Option.bind_some]
      unfold editI edit
      rw [editBodyI_items]
      cases hed : editBody conv s true s.top.keytype items ovs with
      | error r => rfl
      | ok items' =>
        have hl' := lowItems_editBody conv s true s.top.keytype items ovs items' hl hed
        show denoteI conv s pkgs (items'.map .item) = (loadTree conv s items').toOption
        rw [docHandlersI_items.C12_denoteI_free conv pkgs s items' hs hl',
          loadTree_eq_denote conv s items' hs (tyCanon_of_low s hs items' hl')]

/-- **The override that the code refuses.**  In the world of `ZCV/Lemmas/ImportOvEx.lean` (schema with an abstract type,
    package `p` whose component defines the implementer `leak` with a key `k`), for the text
    `%import p` / `<leak a>` / `k 1` / `</leak>` / `<st b>` / `k 1` / `</st>`:
    the load with the override `a/k=2` — a path into the section `a`, whose type `leak` the text itself imports — is
    REJECTED (the edit against the schema the load starts with is impossible: `Reject.unknownType`), whereas the text
    edited by hand (`k 2` in section `a`), loaded without overrides, is ACCEPTED.  So "overrides = editing the addressed
    keys" fails on the pinned code for such paths (known finding `C14-override-into-imported-type`; the library's own
    test suite pins the rejection).  The behaviour depends on the loader's history: an `ExtendedConfigLoader` that is
    used AGAIN after a load that imported `p` holds the extended (private) schema when it cooks the options, and accepts
    the same load; `loadConfigFile` makes a fresh loader for every load. -/
theorem C14_override_into_imported_type_counterexample :
    (∀ r, load ExOv.conv ExOv.env ExOv.pkgs ExOv.schema none (ExOv.lines '1') ExOv.specsBad ≠ .ok r) ∧
    (∃ r, load ExOv.conv ExOv.env ExOv.pkgs ExOv.schema none (ExOv.lines '2') [] = .ok r) ∧
    editI ExOv.conv ExOv.schema (ExOv.tops '1') ExOv.ovsBad = .error (.unknownType "leak".toList) := by
  refine ⟨?_, ?_, ExOv.edit_bad⟩
  · intro r hr
    have h := C14_text_override_eq_edit_imports ExOv.conv ExOv.env ExOv.pkgs ExOv.schema none (ExOv.lines '1') ExOv.specsBad
      ExOv.idem ExOv.atTop1 ExOv.ok1 ExOv.ovsBad_ok
    rw [hr, ExOv.split_bad, ExOv.tree1] at h
    simp only [Cfg.toOption_ok, Option.map_some, Option.bind_some] at h
    rw [ExOv.edit_bad] at h
    cases h
  · have h := C14_text_override_eq_edit_imports ExOv.conv ExOv.env ExOv.pkgs ExOv.schema none (ExOv.lines '2') []
      ExOv.idem ExOv.atTop2 ExOv.ok2 (by
        intro ovs h
        simp only [List.mapM_nil, pure, Except.pure, Except.ok.injEq] at h
        subst h
        intro o ho; cases ho)
    rw [ExOv.tree2] at h
    simp only [List.mapM_nil, pure, Except.pure, Cfg.toOption_ok, Option.bind_some] at h
    rw [show editI ExOv.conv ExOv.schema (ExOv.tops '2') [] = .ok (ExOv.tops '2') from
      editBodyI_nil ExOv.conv ExOv.schema true (ExOv.tops '2')] at h
    simp only [Cfg.toOption_ok, Option.bind_some] at h
    cases hl : load ExOv.conv ExOv.env ExOv.pkgs ExOv.schema none (ExOv.lines '2') [] with
    | ok r => exact ⟨r, rfl⟩
    | error e =>
      rw [hl] at h
      have hc := ExOv.denote_tops2
      unfold conformsI at hc
      rw [← h] at hc
      cases hc

/-- **non-vacuity**: a text with a `%import` line and a section of the imported type, loaded with an override into a
    section of a static type and a top-level key override: the hypotheses of `C14_text_override_eq_edit_imports` hold, the
    edit is possible, and the theorem yields the configuration — `k` of section `b` and `plain` carry the override
    values, section `a` of the imported type is untouched -/
example : (load ExOv.conv ExOv.env ExOv.pkgs ExOv.schema none (ExOv.lines '1') ExOv.specsGood).toOption.map (·.value) =
    some ExOv.vGood := by
  rw [C14_text_override_eq_edit_imports ExOv.conv ExOv.env ExOv.pkgs ExOv.schema none (ExOv.lines '1') ExOv.specsGood
    ExOv.idem ExOv.atTop1 ExOv.ok1 ExOv.ovsGood_ok, ExOv.split_good, ExOv.tree1]
  simp only [Cfg.toOption_ok, Option.bind_some]
  rw [ExOv.edit_good]
  exact ExOv.denote_good

/-- **End to end**, from a schema DOCUMENT: for the schema object `S` of any document the schema loader accepts, any
    datatype functions whose key types in use by `S` are idempotent, any text whose `%import`s are at top level and bring
    well-formed components (`compsOK`: what the schema loader guarantees of a component it has parsed), any specifiers
    whose section-selecting components are basic keys.  `schemaOK S` is discharged by C10. -/
theorem C14_end_to_end_imports (eenv : Elab.Env) (fuel : Nat) (doc : Elab.Node) (S : Schema)
    (hkey : ∀ (kt s r : Str), s ≠ [] → eenv.conv.key kt s = .ok r → r ≠ [])
    (hS : Elab.elabSchema eenv fuel doc = .ok S)
    (conv : Conv) (env : Env) (pkgs : Str → Pkg) (url : Option Str) (lines : List Str) (specs : List Str)
    (hidem : KeyIdemOn conv S)
    (htop : importsAtTop env url lines)
    (hcomp : ∀ tops, treeOfI env url lines = .ok tops → compsOK pkgs S tops = true)
    (hovs : ∀ ovs, specs.mapM addOption = .ok ovs → OvsOK ovs) :
    (load conv env pkgs S url lines specs).toOption.map (·.value) =
      (specs.mapM addOption).toOption.bind fun ovs =>
        (treeOfI env url lines).toOption.bind fun tops =>
          (editI conv S tops ovs).toOption.bind (denoteI conv S pkgs) :=
  C14_text_override_eq_edit_imports conv env pkgs S url lines specs hidem htop
    (fun tops ht => importsOK_of_compsOK pkgs tops S (ZCV.Props.C10.C10_elab_schemaOK eenv fuel doc S hkey hS) (hcomp tops ht))
    hovs

/-- the same with the stock datatype functions on both sides: the hypotheses left are about the text (`%import`s at top
    level, of well-formed components) and the specifiers (`OvsOK`) -/
theorem C14_end_to_end_imports_stock (eenv : Elab.Env) (fuel : Nat) (doc : Elab.Node) (S : Schema)
    (hconv : eenv.conv = stockConv) (hS : Elab.elabSchema eenv fuel doc = .ok S)
    (env : Env) (pkgs : Str → Pkg) (url : Option Str) (lines : List Str) (specs : List Str)
    (htop : importsAtTop env url lines)
    (hcomp : ∀ tops, treeOfI env url lines = .ok tops → compsOK pkgs S tops = true)
    (hovs : ∀ ovs, specs.mapM addOption = .ok ovs → OvsOK ovs) :
    (load stockConv env pkgs S url lines specs).toOption.map (·.value) =
      (specs.mapM addOption).toOption.bind fun ovs =>
        (treeOfI env url lines).toOption.bind fun tops =>
          (editI stockConv S tops ovs).toOption.bind (denoteI stockConv S pkgs) :=
  C14_end_to_end_imports eenv fuel doc S
    (by intro kt s r hs hr; rw [hconv] at hr; exact Elab.stockConv_key_ne_nil kt s r hs hr) hS stockConv env pkgs url
    lines specs (C14_keyIdemOn_stockConv S) htop hcomp hovs

end ZCV.Props.C14

/-!
# C14, the specifier syntax restated for the code as it is now (generated by `harness/zcv/pytrans.py`)

`Gen.Code.addOption` (`ZCV/Gen/CodeCmdline.lean`) is the translation of the Python source of
`ExtendedConfigLoader.addOption`, regenerated from the working tree on every run and rendered as the function returning
the item `(optpath, val, pos)` it appends to `self.clopts`; `ZCV/Lemmas/CodeEqCmdline.lean` proves it equal to the model's
`addOption` for every specifier.  `embedAddOption` re-tags (the model's item gets the default position the code supplies;
the `ConfigurationSyntaxError` keeps url, line, column -1 and the attribute `specifier`; the message is dropped).
-/
namespace ZCV.Props.C14
open ZCV ZCV.Cfg ZCV.CodeEq

/-- generated code = model, every specifier (no position given) -/
theorem C14_code_addOption_eq (spec : Str) : Gen.Code.addOption spec none = embedAddOption spec (addOption spec) :=
  code_addOption_eq spec

/-- giving the default position explicitly changes nothing -/
theorem C14_code_addOption_default_pos (spec : Str) :
    Gen.Code.addOption spec (some cmdlinePos) = Gen.Code.addOption spec none := code_addOption_default_pos spec

/-- the re-tagging keeps path and value of an accepted specifier -/
theorem C14_code_embedAddOption_ok_injective (spec : Str) (a b : OptItem)
    (h : embedAddOption spec (.ok a) = embedAddOption spec (.ok b)) : a.path = b.path ∧ a.val = b.val :=
  embedAddOption_ok_injective spec a b h
example : embedAddOption [] (.ok { path := [['a']], val := [] }) ≠ embedAddOption [] (.ok { path := [['b']], val := [] }) := fun h =>
  absurd (C14_code_embedAddOption_ok_injective _ _ _ h).1 (by decide)

/-- (the code) a specifier without `=` is refused WHEN IT IS ADDED: `ConfigurationSyntaxError` at the command-line
    position, carrying the specifier -/
theorem C14_code_no_equals_refused (spec : Str) (h : spec.contains '=' = false) :
    Gen.Code.addOption spec none =
      .error (.ConfigurationSyntaxError (some "<command-line option>".toList) (some (-1)) (some (-1)) (some spec)) := by
  rw [code_addOption_eq]
  unfold addOption
  simp only [h, Bool.not_false, ↓reduceIte]
  rfl
example : Gen.Code.addOption "novalue".toList none =
    .error (.ConfigurationSyntaxError (some "<command-line option>".toList) (some (-1)) (some (-1)) (some "novalue".toList)) :=
  C14_code_no_equals_refused _ (by decide)

/-- (the code) a specifier with an empty path component is refused when it is added -/
theorem C14_code_empty_component_refused (spec : Str) (h : spec.contains '=' = true)
    (he : (addOption.splitOn (spec.takeWhile (· != '=')) '/').contains [] = true) :
    Gen.Code.addOption spec none =
      .error (.ConfigurationSyntaxError (some "<command-line option>".toList) (some (-1)) (some (-1)) (some spec)) := by
  rw [code_addOption_eq]
  unfold addOption
  simp only [h, Bool.not_true, Bool.false_eq_true, ↓reduceIte, he]
  rfl
example : Gen.Code.addOption "a//b=1".toList none =
    .error (.ConfigurationSyntaxError (some "<command-line option>".toList) (some (-1)) (some (-1)) (some "a//b=1".toList)) :=
  C14_code_empty_component_refused _ (by decide) (by decide)

/-- (the code) every other specifier is accepted: the path split at `/`, the value taken verbatim after the first `=`,
    the command-line position -/
theorem C14_code_wellformed_accepted (spec : Str) (h : spec.contains '=' = true)
    (he : (addOption.splitOn (spec.takeWhile (· != '=')) '/').contains [] = false) :
    Gen.Code.addOption spec none =
      .ok (addOption.splitOn (spec.takeWhile (· != '=')) '/', (spec.dropWhile (· != '=')).drop 1, cmdlinePos) := by
  rw [code_addOption_eq, C14_wellformed_accepted spec h he]
  rfl
example : Gen.Code.addOption "a/b=c=d".toList none = .ok ([['a'], ['b']], "c=d".toList, cmdlinePos) :=
  C14_code_wellformed_accepted _ (by decide) (by decide)

/-- (the code) `OptionBag.basic_key` with the registry's `basic-key`, and `_normalize_case`: what `Cfg.bagSectionInfo` uses -/
theorem C14_code_bag_basic_key_eq (s : Str) (pos : Str × Int × Int) :
    Gen.Code.OptionBag_basic_key Gen.Code.basic_key s pos =
      match DT.basicKey s with
      | .ok k => .ok k
      | .error _ => .error (.ConfigurationSyntaxError (some pos.1) (some pos.2.1) (some pos.2.2) none) :=
  code_bag_basic_key_eq s pos
theorem C14_code_normalize_case_eq (s : Str) : Gen.Code.OptionBag_normalize_case s = .ok (lower s) := code_normalize_case_eq s

end ZCV.Props.C14
