import ZCV.Model.Matcher
namespace ZCV.Props.C14
open ZCV ZCV.Cfg

/-- a specifier without `=` is refused when it is added -/
theorem C14_no_equals_refused (spec : Str) (h : spec.contains '=' = false) :
    ∃ e, addOption spec = .error (.cfg e) ∧ e.kind = .syntax := by
  unfold addOption
  simp only [h, Bool.not_false, ↓reduceIte]
  exact ⟨_, rfl, rfl⟩

/-- a specifier with an empty path component is refused when it is added -/
theorem C14_empty_component_refused (spec : Str) (h : spec.contains '=' = true)
    (he : (addOption.splitOn (spec.takeWhile (· != '=')) '/').contains [] = true) :
    ∃ e, addOption spec = .error (.cfg e) ∧ e.kind = .syntax := by
  unfold addOption
  simp only [h, Bool.not_true, Bool.false_eq_true, ↓reduceIte, he]
  exact ⟨_, rfl, rfl⟩

/-- every other specifier is accepted, with the value taken verbatim after the first `=` -/
theorem C14_wellformed_accepted (spec : Str) (h : spec.contains '=' = true)
    (he : (addOption.splitOn (spec.takeWhile (· != '=')) '/').contains [] = false) :
    addOption spec = .ok { path := addOption.splitOn (spec.takeWhile (· != '=')) '/',
                           val := (spec.dropWhile (· != '=')).drop 1 } := by
  unfold addOption
  simp only [h, Bool.not_true, Bool.false_eq_true, ↓reduceIte, he]

end ZCV.Props.C14
