import ZCV.Model.Matcher
namespace ZCV.Props.C14
open ZCV ZCV.Cfg
end ZCV.Props.C14
