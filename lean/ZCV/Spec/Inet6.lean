import ZCV.Base
/-!
The text representation of IPv6 addresses, RFC 4291 §2.2, as a declarative grammar — in the exact variant that glibc's
`inet_pton(AF_INET6, ·)` accepts:

1. `x:x:x:x:x:x:x:x`, eight groups of one to four hexadecimal digits (either letter case) separated by single colons;
2. one `::` may stand for one or more groups of zeros (so at most seven groups are written); it may be at the start, at
   the end, or be the whole text;
3. the last two groups may be written as an IPv4 dotted quad `d.d.d.d` — glibc wants each `d` in canonical decimal
   form: ASCII digits, no leading zero, at most 255.

Nothing here refers to the algorithm (`DT.pton6`, `ZCV/Inet.lean`); only `isAsciiDigit`/`inRange` from `Base` are used.
-/
namespace ZCV.DTSpec
open ZCV

/-- a hexadecimal digit, either case -/
def v6Hex (c : Char) : Bool := isAsciiDigit c || inRange 'a' 'f' c || inRange 'A' 'F' c

/-- a group: one to four hexadecimal digits -/
def HexGroup (g : Str) : Prop := 1 ≤ g.length ∧ g.length ≤ 4 ∧ ∀ c ∈ g, v6Hex c = true

/-- the number written by ASCII decimal digits -/
def decVal (o : Str) : Nat := o.foldl (fun a c => a * 10 + (c.toNat - 48)) 0

/-- a decimal field of the IPv4 tail: ASCII digits, no leading zero (`0` alone is fine), at most 255
    (hence one to three digits: `v6_decOctet_length`) -/
def DecOctet (o : Str) : Prop :=
  o ≠ [] ∧ (∀ c ∈ o, isAsciiDigit c = true) ∧ (1 < o.length → o.head? ≠ some '0') ∧ decVal o ≤ 255

/-- `d.d.d.d` -/
def V4Text (q : Str) : Prop :=
  ∃ a b c d, q = a ++ '.' :: (b ++ '.' :: (c ++ '.' :: d)) ∧ DecOctet a ∧ DecOctet b ∧ DecOctet c ∧ DecOctet d

/-- the pieces joined by single colons -/
def joinColon : List Str → Str
  | [] => []
  | [g] => g
  | g :: gs => g ++ ':' :: joinColon gs

/-- `ps` is a list of hex groups whose last element may instead be an IPv4 dotted quad; `n` is the number of 16-bit
    groups it denotes (a dotted quad counts for two) -/
def V6Pieces (ps : List Str) (n : Nat) : Prop :=
  ∃ gs : List Str, (∀ g ∈ gs, HexGroup g) ∧
    ((ps = gs ∧ n = gs.length) ∨ (∃ q, V4Text q ∧ ps = gs ++ [q] ∧ n = gs.length + 2))

/-- **IPv6 address text**: eight groups written out (the last two possibly as a dotted quad), or — with one `::` — hex
    groups on the left and pieces on the right that denote at most seven groups together (either side may be empty) -/
def Inet6Text (s : Str) : Prop :=
  (∃ ps, V6Pieces ps 8 ∧ s = joinColon ps) ∨
  (∃ ls rs k, (∀ g ∈ ls, HexGroup g) ∧ V6Pieces rs k ∧ ls.length + k ≤ 7 ∧
    s = joinColon ls ++ ':' :: ':' :: joinColon rs)

end ZCV.DTSpec
