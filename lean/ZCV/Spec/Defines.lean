import ZCV.Spec.Subst
/-!
The `%define` namespace of one load (property C05), written from the statement: one mapping from LOWER-CASED names
to EXPANDED values; a definition is expanded once, when it is read, with the definitions read before it; a name is
written once (a second definition is accepted only if it expands to the value already recorded); a name must be a
legal substitution name; a reference sees only the definitions read before it.  Nothing of the parser model is used.
-/
namespace ZCV.DefSpec
open ZCV ZCV.SubstSpec

/-- the definitions of a load, in the order in which they were (first) read: lower-cased name ↦ expanded value -/
abbrev Defs := List (Str × Str)

/-- the value recorded for a (lower-cased) name -/
def get (d : Defs) (k : Str) : Option Str := (d.find? (·.1 == k)).map (·.2)

inductive Err where
  | illegalName (name : Str)        -- not a legal substitution name           (a syntax error)
  | redefined (name : Str)          -- defined before, with a different value  (a syntax error)
  | subst (e : SubstSpec.Err)       -- the value does not expand: undefined reference / malformed `$`
deriving Repr, DecidableEq

/-- every recorded name is a legal substitution name (true of the empty mapping and kept by `defineStep`) -/
def Legal (d : Defs) : Prop := ∀ p ∈ d, isnameSpec p.1 = true

/-- expanding a text against the definitions read so far -/
def expand (env : Str → Option Str) (d : Defs) (raw : Str) : Except Err Str :=
  match substituteSpec (get d) env raw with
  | .ok v => .ok v
  | .error e => .error (.subst e)

/-- reading `%define name raw`: the name is lower-cased and must be legal; the value is expanded once, now, with the
    definitions read so far; the name must be new, or already hold exactly this expanded value (then nothing changes) -/
def defineStep (env : Str → Option Str) (d : Defs) (name raw : Str) : Except Err Defs :=
  let k := lower name
  if !isnameSpec k then .error (.illegalName k)
  else
    match expand env d raw with
    | .error e => .error e
    | .ok v =>
      match get d k with
      | none => .ok (d ++ [(k, v)])
      | some cur => if cur = v then .ok d else .error (.redefined k)

/-- the mapping after reading a sequence of `%define name raw` lines, in reading order -/
def defineFold (env : Str → Option Str) : List (Str × Str) → Defs → Except Err Defs
  | [], d => .ok d
  | (name, raw) :: r, d =>
    match defineStep env d name raw with
    | .error e => .error e
    | .ok d' => defineFold env r d'

/-- the lines that matter to the namespace: definitions, and uses (`key raw-value` lines); anything else is `blank` -/
inductive Step where
  | define (name raw : Str)
  | use (key raw : Str)
  | blank
deriving Repr, DecidableEq

/-- reading a whole text: the final definitions and, for every `use`, the value that reaches the application —
    expanded with exactly the definitions read BEFORE that line.  A failure carries the (1-based) number of the
    offending line; `n` lines have been read before. -/
def run (env : Str → Option Str) : Nat → List Step → Defs → Except (Nat × Err) (Defs × List (Str × Str))
  | _, [], d => .ok (d, [])
  | n, .blank :: r, d => run env (n + 1) r d
  | n, .define name raw :: r, d =>
    match defineStep env d name raw with
    | .error e => .error (n + 1, e)
    | .ok d' => run env (n + 1) r d'
  | n, .use key raw :: r, d =>
    match expand env d raw with
    | .error e => .error (n + 1, e)
    | .ok v =>
      match run env (n + 1) r d with
      | .error e => .error e
      | .ok (d', vs) => .ok (d', (key, v) :: vs)

/-- the `%define` lines of a text, in reading order -/
def definesOf : List Step → List (Str × Str)
  | [] => []
  | .define name raw :: r => (name, raw) :: definesOf r
  | _ :: r => definesOf r

/-- the text does not go on with a name character (so a bare `$name` reference ends where the name ends) -/
def endsName (t : Str) : Prop := ∀ c ∈ t.head?, isNameChar c = false

/-- `RefCase s s'`: `s'` is `s` with the letter case of (some of) its `$name` / `${name}` references changed;
    literal text, `$$` and `$(ENV)` references are untouched (C15: "changing the letter case of defined names and
    their references") -/
inductive RefCase : Str → Str → Prop
  | nil : RefCase [] []
  | lit (c : Char) {t t' : Str} : c ≠ '$' → RefCase t t' → RefCase (c :: t) (c :: t')
  | esc {t t' : Str} : RefCase t t' → RefCase ('$' :: '$' :: t) ('$' :: '$' :: t')
  | brace (n n' : Str) {t t' : Str} : isnameSpec n = true → isnameSpec n' = true → lower n' = lower n →
      RefCase t t' → RefCase ('$' :: '{' :: (n ++ '}' :: t)) ('$' :: '{' :: (n' ++ '}' :: t'))
  | bare (n n' : Str) {t t' : Str} : isnameSpec n = true → isnameSpec n' = true → lower n' = lower n →
      endsName t → RefCase t t' → RefCase ('$' :: (n ++ t)) ('$' :: (n' ++ t'))
  | env (n : Str) {t t' : Str} : isnameSpec n = true →
      RefCase t t' → RefCase ('$' :: '(' :: (n ++ ')' :: t)) ('$' :: '(' :: (n ++ ')' :: t'))

end ZCV.DefSpec
