import ZCV.Model.Conv
/-!
What it means for a configuration text (after the line grammar: a tree of key lines and sections) to CONFORM to a
schema, and the value tree the schema DEFINES for a conforming text — written from the statements of C01 and C02,
independently of the order in which the loader processes lines.  The schema vocabulary (`Schema`, `SType`, `Info`)
and the datatype functions (`Conv`) are shared with the model; nothing of `Matcher` is used.
-/
namespace ZCV.Conf
open ZCV ZCV.Cfg

/-- the text after the parser -/
inductive Item where
  | kv (key val : Str) (pos : Pos)
  | sect (ty : Str) (nm : Option Str) (items : List Item)
deriving Repr, Inhabited

def isWildKey (c : Option Str × Info) : Bool := c.2.name == ['+'] && !c.2.isSection

/-- where a (normalised) key goes: the child declared with exactly this key, else the (last) wildcard key -/
def route (children : List (Option Str × Info)) (rk : Str) : Option (Option Str × Info) :=
  match children.find? (fun c => c.1 == some rk) with
  | some c => some c
  | none => (children.filter isWildKey).getLast?

/-- the implementers of an abstract type, as the schema records them now -/
def implementers (s : Schema) (abs : Str) : List Str :=
  match s.gettype abs with
  | some (.abstract_ _ subs) => subs
  | _ => []

def isAbs (s : Schema) (ty : Str) : Bool := match s.gettype ty with | some (.abstract_ _ _) => true | _ => false

/-- does this child claim a header `<ty nm>`?  A fixed-name child claims a header carrying its name; a `*`/`+` slot
    claims a header of its own type or of a type implementing its abstract type. -/
def claims (s : Schema) (ty : Str) (nm : Option Str) (c : Option Str × Info) : Bool :=
  match c.1 with
  | some k => k != [] && some k == nm
  | none =>
    match c.2 with
    | .sect si => si.ty == ty || (isAbs s si.ty && (implementers s si.ty).contains ty)
    | .key _ => false

/-- the claiming child admits the header: right kind, right type, and (for `+`) a name -/
def admits (s : Schema) (ty : Str) (nm : Option Str) (c : Option Str × Info) : Option SectInfo :=
  match c.2 with
  | .key _ => none
  | .sect si =>
    match c.1 with
    | some _ =>
      if isAbs s si.ty then (if (implementers s si.ty).contains ty then some si else none)
      else if si.ty == ty then some si else none
    | none =>
      if si.ty == ty then (if nm.isSome || si.name == ['*'] then some si else none)
      else some si

/-- the slot of a header: the FIRST child in schema order that claims it decides -/
def slotOf (s : Schema) (t : SType) (ty : Str) (nm : Option Str) : Option SectInfo :=
  match t.children.find? (claims s ty nm) with
  | some c => admits s ty nm c
  | none => none

/-- name rule: never `*` or `+` themselves; `+` = mandatory, `*` = optional, otherwise exactly the fixed name -/
def nameOK (si : SectInfo) (nm : Option Str) : Bool :=
  nm != some ['*'] && nm != some ['+'] &&
  (if si.name == ['+'] then nm.isSome else if si.name == ['*'] then true else nm == some si.name)

/-- key lines of a container with their normalised key, in file order (`none` = the key type rejects the key) -/
def keyLines (conv : Conv) (t : SType) (items : List Item) : List (Option Str × VI) :=
  items.filterMap fun
    | .kv k v p => some ((conv.key t.keytype k).toOption, { value := v, pos := p })
    | .sect _ _ _ => none

/-- the values routed to child `c`, in file order, with their normalised keys -/
def routed (children : List (Option Str × Info)) (c : Option Str × Info) (kl : List (Option Str × VI)) : List (Str × VI) :=
  kl.filterMap fun (rk?, vi) =>
    match rk? with
    | some rk => (match route children rk with
                  | some c' => if c'.2.attr == c.2.attr then some (rk, vi) else none
                  | none => none)
    | none => none

def groupKeys (l : List (Str × VI)) : List (Str × List VI) :=
  l.foldl (fun acc (k, v) =>
    if acc.any (·.1 == k) then acc.map (fun p => if p.1 == k then (p.1, p.2 ++ [v]) else p) else acc ++ [(k, [v])]) []

def nodupB : List Str → Bool
  | [] => true
  | x :: r => !r.contains x && nodupB r

def convAll (conv : Conv) (dt : Str) (vs : List VI) : Option (List Val) := vs.mapM fun vi => (conv.val dt vi.value).toOption

/-- one section header seen in a container, with the value computed for that section (`none` = it does not conform) -/
structure Sub where
  ty : Str
  nm : Option Str
  val : Option Val

/-- the sections of a container in file order, paired with their already computed values -/
def subsOf : List Item → List (Option Val) → List Sub
  | .sect ty nm _ :: r, v :: vs => { ty := ty, nm := nm, val := v } :: subsOf r vs
  | .kv _ _ _ :: r, _ :: vs => subsOf r vs
  | _, _ => []

/-- the value the schema defines for child `c` of a container of type `t` -/
def childVal (conv : Conv) (s : Schema) (t : SType) (kl : List (Option Str × VI)) (subs : List Sub)
    (c : Option Str × Info) : Option Val :=
  match c.2 with
  | .key ki =>
    let rs := routed t.children c kl
    if ki.name == ['+'] then
      if ki.multi then
        -- wildcard multikey: mapping key ↦ values in file order; schema defaults only when no key at all is supplied
        let g := groupKeys rs
        if ki.minOccurs > g.length then none
        else
          let g' := if g.isEmpty then (match ki.dflt with | .keyedMany d => d | _ => []) else g
          if g'.length < ki.minOccurs then none
          else (g'.mapM fun (kv : Str × List VI) => (convAll conv ki.dt kv.2).map fun r => (kv.1, Val.list r)).map Val.map
      else
        -- wildcard key: no key twice; at least minOccurs keys supplied by the text
        if !nodupB (rs.map (·.1)) then none
        else if ki.minOccurs > rs.length then none
        else
          let src := if rs.isEmpty then (match ki.dflt with | .keyed d => d | _ => []) else rs
          (src.mapM fun (kv : Str × VI) => ((conv.val ki.dt kv.2.value).toOption).map fun r => (kv.1, r)).map Val.map
    else if ki.multi then
      let vs := rs.map (·.2)
      let vs' := if vs.isEmpty then (match ki.dflt with | .many d => d | _ => []) else vs
      if vs'.length < ki.minOccurs then none else (convAll conv ki.dt vs').map Val.list
    else
      match rs with
      | [] =>
        if ki.minOccurs > 0 then none
        else (match ki.dflt with
              | .one d => (conv.val ki.dt d.value).toOption
              | _ => some .none)
      | [(_, vi)] => (conv.val ki.dt vi.value).toOption
      | _ => none                                   -- a single-valued key filled twice
  | .sect si =>
    -- the sections this slot receives: those whose header's slot is this child
    let mine := subs.filter fun sb => match slotOf s t sb.ty sb.nm with | some si' => si'.attr == si.attr | none => false
    if si.multi then
      if mine.length < si.minOccurs then none
      else (mine.mapM fun (sb : Sub) => sb.val).map Val.list
    else
      match mine with
      | [] => if si.minOccurs > 0 then none else some .none
      | [sb] => sb.val
      | _ => none                                   -- a single slot filled twice

/-- value of a container of concrete type `t` named `nm` holding `items`, given the values of its direct sub-sections
    (`none` = the items do not conform to `t`) -/
def containerVal (conv : Conv) (s : Schema) (t : SType) (nm : Option Str) (items : List Item) (subvals : List (Option Val)) :
    Option Val :=
  let kl := keyLines conv t items
  let subs := subsOf items subvals
  -- every key converts under the key type and goes to a declared key or to the wildcard key (never to a section's name)
  if !(kl.all fun (rk?, _) => match rk? with
        | some rk => (match route t.children rk with | some c => !c.2.isSection | none => false)
        | none => false) then none
  -- no section name is reused inside one container
  else if !nodupB (subs.filterMap fun sb => match sb.nm with | some n => if n.isEmpty then none else some n | none => none) then none
  -- every header names a known concrete type that fits a declared slot by type and by name rule, and its content conforms
  else if !(subs.all fun sb => match slotOf s t sb.ty sb.nm with
        | some si => nameOK si sb.nm && (sb.nm.isSome || si.name == ['*']) && sb.val.isSome && !isAbs s sb.ty
        | none => false) then none
  else
    (t.children.mapM fun c => (childVal conv s t kl subs c).map fun v => (c.2.attr, v)).map fun attrs =>
      Val.sect (t.name.getD []) nm attrs

mutual
/-- the value of one section item: its container value passed through its type's section datatype -/
def itemVal (conv : Conv) (s : Schema) : Item → Option Val
  | .kv _ _ _ => none
  | .sect ty nm items =>
    match s.gettype ty with
    | some (.concrete t) =>
      match containerVal conv s t nm items (itemVals conv s items) with
      | some v => (conv.sect t.datatype v).toOption
      | none => none
    | _ => none
def itemVals (conv : Conv) (s : Schema) : List Item → List (Option Val)
  | [] => []
  | i :: r => itemVal conv s i :: itemVals conv s r
end

/-- **denote**: the configuration object the schema defines for the text; `none` = the text does not conform -/
def denote (conv : Conv) (s : Schema) (items : List Item) : Option Val :=
  match containerVal conv s s.top none items (itemVals conv s items) with
  | some v => (conv.sect s.top.datatype v).toOption
  | none => none

/-- **Conforms** -/
def conforms (conv : Conv) (s : Schema) (items : List Item) : Bool := (denote conv s items).isSome

end ZCV.Conf
