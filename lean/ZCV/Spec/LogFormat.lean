import ZCV.Model.LogFormat
/-!
# C20, classic log formats: which formats are accepted, and what an ordinary record is

The vocabulary of the property "a classic-style format accepted at load time never raises when an ordinary record is
formatted": the kinds of record attributes (`fieldKinds`), the conversions each kind allows (`Kind.allows`), the records
the statement quantifies over (`Ordinary`), and the readable description of the accepted formats (`ItemsAccepted`).
-/
namespace ZCV.LogFormatSpec
open ZCV ZCV.LogFormat

/-- what a record attribute holds -/
inductive Kind
  | text      -- a `str`
  | object    -- anything with a working `str()` / `repr()`: `None`, a tuple, a dict, a `str`, …
  | smallInt  -- an `int` that is a valid code point when used with `%c`: level numbers, line numbers
  | bigInt    -- an `int` such as a thread or process id
  | real      -- a finite `float`: time stamps
  deriving DecidableEq, Repr

/-- the attributes of a `LogRecord` (Python 3.12) together with `asctime` and `message`, which `Formatter.format` sets
    before the format string is used -/
def fieldKinds : List (Str × Kind) :=
  [("name".toList, .text),
   ("msg".toList, .text),
   ("args".toList, .object),
   ("levelname".toList, .text),
   ("levelno".toList, .smallInt),
   ("pathname".toList, .text),
   ("filename".toList, .text),
   ("module".toList, .text),
   ("exc_info".toList, .object),
   ("exc_text".toList, .object),
   ("stack_info".toList, .object),
   ("lineno".toList, .smallInt),
   ("funcName".toList, .text),
   ("created".toList, .real),
   ("msecs".toList, .real),
   ("relativeCreated".toList, .real),
   ("thread".toList, .bigInt),
   ("threadName".toList, .text),
   ("processName".toList, .text),
   ("process".toList, .bigInt),
   ("taskName".toList, .object),
   ("asctime".toList, .text),
   ("message".toList, .text)]

/-- the conversions the load-time check lets through for an attribute of each kind:
    `s r a` for everything; the number conversions `d i u` / `e E f F g G` for numbers; `o x X` for `int` only;
    `c` only for level and line numbers -/
def Kind.allows : Kind → ConvClass → Bool
  | _, .text => true
  | .smallInt, _ => true
  | .bigInt, .char => false
  | .bigInt, _ => true
  | .real, .dec => true
  | .real, .real => true
  | _, _ => false

/-- `str(v)` / `repr(v)` / `ascii(v)` work: everything but an `int` of more than 4300 decimal digits
    (`sys.get_int_max_str_digits()`, Python 3.12; the sign does not count) -/
def Prints : Value → Prop
  | .int n => n.natAbs < 10 ^ 4300
  | _ => True

/-- `repr()` works on every attribute of the record, known to the logging package or not (`extra=…`): this is what a
    specifier without `(key)` — it formats the whole attribute dictionary — needs -/
def Printable (r : Dict) : Prop := ∀ k v, r k = some v → Prints v

/-- the values an ORDINARY record has for an attribute of each kind (`msg`, normally the message format string, is
    listed as text; `Kind.admitsWide` / `OrdinaryWide` drop this and other inessential restrictions) -/
def Kind.admits : Kind → Value → Prop
  | .text, v => ∃ s, v = .str s
  | .object, v => Prints v
  | .smallInt, v => ∃ n, v = .int n ∧ 0 ≤ n ∧ n < 0x110000
  | .bigInt, v => ∃ n, v = .int n ∧ 0 ≤ n ∧ n < 2 ^ 64
  | .real, v => v = .float .finite

/-- a record as the logging package produces it: every attribute is there and holds a value of its kind —
    level and line numbers in `0 ≤ n < 0x110000`, thread and process ids in `0 ≤ n < 2^64`, finite time stamps -/
def Ordinary (r : Dict) : Prop :=
  ∀ k kind, (k, kind) ∈ fieldKinds → ∃ v, r k = some v ∧ kind.admits v

/-- the records a formatter built from `fmt` gets to see: `Formatter.format` has set `message`, and `asctime` only when
    the format uses the time (`usesTime`); `adm` says which values each kind of attribute may hold -/
def RecordFor (adm : Kind → Value → Prop) (fmt : Str) (r : Dict) : Prop :=
  ∀ k kind, (k, kind) ∈ fieldKinds → (k = "asctime".toList → usesTime fmt = true) → ∃ v, r k = some v ∧ adm kind v

/-- an ordinary record, where `asctime` need only be there when `fmt` uses the time -/
def OrdinaryFor (fmt : Str) (r : Dict) : Prop := RecordFor Kind.admits fmt r

/-- `Kind.admits` as a test -/
def Kind.admitsB : Kind → Value → Bool
  | .text, .str _ => true
  | .text, _ => false
  | .object, .int n => decide (n.natAbs < 10 ^ 4300)
  | .object, _ => true
  | .smallInt, .int n => decide (0 ≤ n ∧ n < 0x110000)
  | .smallInt, _ => false
  | .bigInt, .int n => decide (0 ≤ n ∧ n < 2 ^ 64)
  | .bigInt, _ => false
  | .real, .float .finite => true
  | .real, _ => false

/-- a record given as a table of attributes is ordinary (test) -/
def ordinaryTable (tbl : List (Str × Value)) : Bool :=
  fieldKinds.all (fun p => match lookup tbl p.1 with
                           | some v => p.2.admitsB v
                           | none => false)

/-- a record given as a table is ordinary for a formatter built from `fmt` (test) -/
def ordinaryTableFor (fmt : Str) (tbl : List (Str × Value)) : Bool :=
  fieldKinds.all (fun p => (p.1 == "asctime".toList && !usesTime fmt) ||
    match lookup tbl p.1 with
    | some v => p.2.admitsB v
    | none => false)

/-- the weakest requirement on the values under which accepted formats are safe: attributes on which only `s r a` is
    accepted may hold anything that prints (anything but an `int` of more than 4300 digits); ints only have to be
    convertible to `float` (which keeps them far below the 4300-digit limit of `%d` / `%s`); `%c` is the one conversion
    that needs the small range -/
def Kind.admitsWide : Kind → Value → Prop
  | .text, v => Prints v
  | .object, v => Prints v
  | .smallInt, v => ∃ n, v = .int n ∧ 0 ≤ n ∧ n < 0x110000
  | .bigInt, v => ∃ n, v = .int n ∧ -floatLimit < n ∧ n < floatLimit
  | .real, v => v = .float .finite

def OrdinaryWide (fmt : Str) (r : Dict) : Prop := RecordFor Kind.admitsWide fmt r

/-- only the TYPES of an ordinary record: level and line numbers are arbitrary ints too (convertible to `float`) -/
def Kind.admitsTyped : Kind → Value → Prop
  | .smallInt, v => ∃ n, v = .int n ∧ -floatLimit < n ∧ n < floatLimit
  | k, v => k.admitsWide v

def OrdinaryTyped (fmt : Str) (r : Dict) : Prop := RecordFor Kind.admitsTyped fmt r

/-- width / precision: absent or a number up to `bound`; `*` is never accepted -/
def SpecOk (bound : Nat) : Spec → Prop
  | .absent => True
  | .num n => n ≤ bound
  | .star => False

/-- an explicit precision on an integer conversion (`d i u o x X`) must not exceed `INT_MAX - 3` -/
def PrecFits (cls : ConvClass) (p : Spec) : Prop :=
  (cls = .dec ∨ cls = .radix) → ∀ n, p = .num n → n ≤ cIntMax - 3

/-- the key of a specifier -/
def itemKey : Item → Option Str
  | .field key _ _ _ _ _ => key
  | _ => none

/-- a specifier without `(key)`: it formats the mapping itself, i.e. the whole attribute dictionary of the record -/
def isBare : Item → Bool
  | .field none .. => true
  | _ => false

/-- what a format with a specifier without `(key)` (an accepted format has at most one: a leading `%s`, `%r` or `%a`)
    needs from the record: `repr()` works on EVERY attribute.  Formats without such a specifier need nothing. -/
def BareOk (fmt : Str) (r : Dict) : Prop := (∃ it ∈ parse (effective fmt), isBare it = true) → Printable r

/-- conversion specifiers (complete or not), as opposed to literal text and `%%` -/
def isSpecifier : Item → Bool
  | .field .. => true
  | .badKey _ => true
  | _ => false

/-- an item the load-time check accepts; `first` = no conversion specifier stands before it.
    * literal text and `%%`;
    * `%(key)…c` where `key` is a record attribute and the conversion `c` is one its kind allows;
    * one bare `%s`, `%r` or `%a` (no key: it prints the whole attribute dictionary), only as the first specifier;
    in both cases with a numeric or absent width and precision. -/
def ItemAccepted (first : Bool) : Item → Prop
  | .lit _ => True
  | .percent => True
  | .badKey _ => False
  | .field key _ w p _ conv =>
    SpecOk ssizeMax w ∧ SpecOk cIntMax p ∧
    ∃ c cls, conv = some c ∧ classOf c = some cls ∧
      match key with
      | some k => ∃ kind, (k, kind) ∈ fieldKinds ∧ kind.allows cls = true ∧ PrecFits cls p
      | none => first = true ∧ cls = .text

def ItemsAccepted : Bool → List Item → Prop
  | _, [] => True
  | first, it :: rest => ItemAccepted first it ∧ ItemsAccepted (first && !isSpecifier it) rest

/-- the item is not a `%c` conversion -/
def noCharConv : Item → Prop
  | .field _ _ _ _ _ (some c) => classOf c ≠ some .char
  | _ => True

/-- a specifier `%(key)…c` without length modifier (`h`, `l`, `L`) whose precision is absent or a nonzero number:
    the shape logging's validation pattern recognises (it knows neither length modifiers nor a bare `.`) -/
def plainKeyed : Item → Prop
  | .field (some _) _ _ p none _ => p = .absent ∨ ∃ n, p = .num n ∧ n ≠ 0
  | _ => False

end ZCV.LogFormatSpec
