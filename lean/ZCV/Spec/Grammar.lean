import ZCV.Base
/-!
The documented line grammar (docs/using-zconfig.rst, property C03), written from the statement:
no regular expression, no slicing.  `classify` takes one physical line.
-/
namespace ZCV.Grammar
open ZCV

/-- a key / type / name character: neither whitespace nor a parenthesis -/
def isWord (c : Char) : Bool := !pySpace c && c != '(' && c != ')'

inductive Shape where
  | skip                                          -- blank line or comment
  | open_ (ty : Str) (nm : Option Str) (empty : Bool)   -- `<type [name]>` / `<type [name]/>`, lower-cased
  | close (ty : Str)                              -- `</type>`: the text between `</` and `>`, right-stripped, lower-cased
  | define (arg : Str) | import_ (arg : Str) | include_ (arg : Str)   -- the three directives, with their argument
  | kv (key val : Str)                            -- key and raw value ("" when absent)
  | bad                                           -- anything else
deriving Repr, DecidableEq

/-- key = maximal leading run of word characters (non-empty); value = the rest after whitespace, if any -/
def keyValue (s : Str) : Option (Str × Option Str) :=
  let key := s.takeWhile isWord
  let rest := (s.dropWhile isWord).dropWhile pySpace
  if key = [] then none else if rest = [] then some (key, none) else some (key, some rest)

/-- `type` or `type name` and nothing else (the text has no trailing whitespace issues: anything left over is an error) -/
def header (s : Str) : Option (Str × Option Str) :=
  let ty := s.takeWhile isWord
  let r := s.dropWhile isWord
  if ty = [] then none
  else if r = [] then some (ty, none)
  else
    let r2 := r.dropWhile pySpace
    if r2.length = r.length then none          -- the type is followed by a parenthesis
    else
      let nm := r2.takeWhile isWord
      if nm = [] then none
      else if r2.dropWhile isWord = [] then some (ty, some nm) else none

def dropLast (s : Str) : Str := s.take (s.length - 1)

/-- classification of one line (surrounding whitespace ignored) -/
def classify (line : Str) : Shape :=
  let l := strip line
  match l with
  | [] => .skip
  | '#' :: _ => .skip
  | '<' :: '/' :: rest =>
    if rest.getLast? ≠ some '>' then .bad
    else .close (lower (rstrip (dropLast rest)))
  | '<' :: rest =>
    if rest.getLast? ≠ some '>' then .bad
    else
      let inner := dropLast rest
      let empty := inner.getLast? = some '/'
      let text := rstrip (if empty then dropLast inner else inner)
      match header text with
      | none => .bad
      | some (ty, nm) => .open_ (lower ty) (nm.map lower) empty
  | '%' :: rest =>
    match keyValue rest with
    | some (name, some arg) =>
      if name = "define".toList then .define arg
      else if name = "import".toList then .import_ arg
      else if name = "include".toList then .include_ arg
      else .bad
    | _ => .bad
  | _ =>
    match keyValue l with
    | some (key, val) => .kv key (val.getD [])
    | none => .bad

end ZCV.Grammar
