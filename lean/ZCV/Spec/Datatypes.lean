import ZCV.Model.Val
import ZCV.Inet
/-!
Documented contracts of the standard datatypes (docs/standard-datatypes.rst and property C09),
written without regular expressions or tables taken from the code.
-/
namespace ZCV.DTSpec
open ZCV

abbrev R := Except ConvErr

def isIdentStart (c : Char) : Bool := isAsciiLetter c || c == '_'
def isIdentChar (c : Char) : Bool := isAsciiLetter c || isAsciiDigit c || c == '_'
/-- a Python identifier as ZConfig means it (ASCII) -/
def isIdent (s : Str) : Bool :=
  match s with
  | c :: t => isIdentStart c && t.all isIdentChar
  | [] => false

def isKeyChar (c : Char) : Bool := isAsciiLetter c || isAsciiDigit c || c == '-' || c == '.' || c == '_'
/-- a letter followed by letters, digits, '-', '.', '_' -/
def isBasicKey (s : Str) : Bool :=
  match s with
  | c :: t => isAsciiLetter c && t.all isKeyChar
  | [] => false

/-- `s.split('.')` -/
def splitDots : Str → List Str
  | [] => [[]]
  | c :: t =>
    if c == '.' then [] :: splitDots t
    else match splitDots t with
      | w :: ws => (c :: w) :: ws
      | [] => [[c]]

/-- one or more identifiers separated by periods -/
def isDottedName (s : Str) : Bool := (splitDots s).all isIdent
/-- a dotted name, possibly prefixed by a period -/
def isDottedSuffix (s : Str) : Bool :=
  isDottedName s || (match s with | '.' :: t => isDottedName t | _ => false)

def basicKey (s : Str) : R Str := if isBasicKey s then .ok (asciiLower s) else .error .valueError
def identifier (s : Str) : R Str := if isIdent s then .ok s else .error .valueError
def dottedName (s : Str) : R Str := if isDottedName s then .ok s else .error .valueError
def dottedSuffix (s : Str) : R Str := if isDottedSuffix s then .ok s else .error .valueError

def boolean (s : Str) : R Bool :=
  let w := lower s
  if w == "on".toList || w == "true".toList || w == "yes".toList then .ok true
  else if w == "false".toList || w == "no".toList || w == "off".toList then .ok false
  else .error .valueError

def integer (s : Str) : R Int := match pyInt s with | some n => .ok n | none => .error .valueError

/-- an integer in 0..65535 -/
def portNumber (s : Str) : R Int :=
  match pyInt s with
  | some n => if 0 ≤ n ∧ n ≤ 65535 then .ok n else .error .valueError
  | none => .error .valueError

/-- an integer times the multiplier of a case-insensitive suffix from `tbl` (all suffixes `w` long), else times 1 -/
def suffixed (tbl : List (String × Int)) (w : Nat) (s : Str) : R Int :=
  let v := lower s
  match tbl.find? (fun p => lastN v w == p.1.toList) with
  | some (_, m) => (integer (dropLastN v w)).map (· * m)
  | none => integer v

def byteSize := suffixed [("kb", 1024), ("mb", 1024 * 1024), ("gb", 1024 * 1024 * 1024)] 2
def timeInterval := suffixed [("s", 1), ("m", 60), ("h", 3600), ("d", 86400)] 1

/-- host/port split with the IPv6 bracket rule; host lower-cased; `dflt` when the host is empty -/
def inetAddress (dflt : Str) (s : Str) : R (Str × Option Int) :=
  let fin (host : Str) (port : Option Int) : R (Str × Option Int) := .ok (if host == [] then dflt else host, port)
  if s.contains ':' then
    let (h, p) := rsplit1 s ':'
    let withPort (host : Str) : R (Str × Option Int) :=
      if p == [] then fin (lower host) none
      else match portNumber p with
        | .ok n => fin (lower host) (some n)
        | .error e => .error e
    if startsWith h ['['] && endsWith h [']'] then withPort ((h.drop 1).take (h.length - 2))   -- [IPv6]:port
    else if h.contains ':' then fin (lower s) none      -- unbracketed IPv6: no port
    else withPort h
  else
    match portNumber s with
    | .ok n => fin [] (some n)                           -- a bare port
    | .error _ => if (splitWS s).length == 1 then fin (lower s) none else .error .valueError

/-- UNIX path when it contains '/', else an inet address; IPv6 when the host contains ':' -/
def socketFamily (dflt : Str) (s : Str) : R (String × Sum Str (Str × Option Int)) :=
  if s.contains '/' then .ok ("AF_UNIX", .inl s)
  else match inetAddress dflt s with
    | .ok a => .ok (if a.1.contains ':' then "AF_INET6" else "AF_INET", .inr a)
    | .error e => .error e

/-- one field of a dotted quad as the documented pattern admits it: `\d | [01]?\d\d | 2[0-4]\d | 25[0-5]` -/
def isOctet (s : Str) : Bool :=
  match s with
  | [a] => pyDigit a
  | [a, b] => pyDigit a && pyDigit b
  | [a, b, c] =>
    ((a == '0' || a == '1') && pyDigit b && pyDigit c) ||
    (a == '2' && inRange '0' '4' b && pyDigit c) ||
    (a == '2' && b == '5' && inRange '0' '5' c)
  | _ => false

def isDottedQuad (s : Str) : Bool :=
  let parts := splitDots s
  parts.length == 4 && parts.all isOctet

def isHostChar (c : Char) : Bool := isAsciiLetter c || isAsciiDigit c || c == '-' || c == '_'
/-- `[A-Za-z_][-A-Za-z0-9_.]*[-A-Za-z0-9_]` -/
def isHostname (s : Str) : Bool :=
  match s with
  | c :: t =>
    (isAsciiLetter c || c == '_') &&
    (match t.getLast? with
     | some l => isHostChar l && (t.take (t.length - 1)).all (fun d => isHostChar d || d == '.')
     | none => false)
  | [] => false

def isV6Char (c : Char) : Bool := isAsciiDigit c || inRange 'a' 'f' c || inRange 'A' 'F' c || c == ':' || c == '.'

/-- exactly dotted-quad IPv4, valid IPv6 addresses and host names; lower-cased -/
def ipaddrOrHostname (s : Str) : R Str :=
  if isDottedQuad s then .ok (lower s)
  else if isHostname s then .ok (lower s)
  else if s.all isV6Char && s.contains ':' && DT.pton6 (lower s) then .ok (lower s)
  else .error .valueError

end ZCV.DTSpec
