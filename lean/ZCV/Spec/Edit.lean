import ZCV.Spec.Conforms
/-!
What C14 says a list of command-line overrides `path/to/key=value` MEANS: an edit of the text (here: of its tree of
key lines and sections), written from the statement of C14 only.  Nothing of `Bag` / `Matcher` is used; the schema
is consulted only to learn the key type of the addressed section (keys are compared after normalisation by the
section's key type), and `OptItem` is the already split specifier (path components, text after `=`).

For every override: follow the path from the top of the text; each component but the last selects the FIRST child
section, in file order, whose name or whose type equals the component after lower-casing; the last component is a
key of the section reached.  In a section addressed by overrides, every key line whose normalised key equals the
normalised key of one of the overrides is dropped, and the override values are supplied instead as new key lines (all
overrides for the same key together, keys in the order of their first mention, values in the order given, the value
text verbatim).  The new lines are put at the end of the section.  An override whose path selects no section, or whose
key the section's key type refuses, makes the edit impossible (`Reject`).
-/
namespace ZCV.Conf
open ZCV ZCV.Cfg

/-- why a list of overrides cannot be applied to a text -/
inductive Reject where
  | emptyPath                   -- an override without any path component (never produced by `addOption`)
  | badKey (k : Str)            -- the key type of the addressed section refuses the override's key
  | unknownSection (c : Str)    -- path component `c` selects no child section
  | unknownType (ty : Str)      -- the addressed section's header names no concrete type (its key type is unknown)
deriving Repr, DecidableEq

/-- the position carried by a line that comes from the command line -/
def cmdPos : Pos := { line := -1, url := some "<command-line option>".toList }

/-- does path component `c` select a section with header `<ty nm>`?  By name or by type, after lower-casing. -/
def selects (c : Str) (ty : Str) (nm : Option Str) : Bool := nm == some (lower c) || ty == lower c

/-- does the (remaining) path of override `o` lead into a section with header `<ty nm>`? -/
def addresses (o : OptItem) (ty : Str) (nm : Option Str) : Bool :=
  match o.path with
  | c :: _ => selects c ty nm
  | [] => false

/-- the override seen from inside the section its first component selected -/
def dropHead (o : OptItem) : OptItem := { o with path := o.path.drop 1 }

/-- one key override of a section: the key as given, the key as the section's key type normalises it, the value -/
structure KeyOv where
  key : Str
  norm : Str
  val : Str
deriving Repr, DecidableEq

/-- the overrides that reached a section, split into those naming a key of this section (path of length 1; the key
    must be acceptable to the section's key type `norm`) and those going further down, both in the order given -/
def splitOvs (norm : Str → Except ConvErr Str) : List OptItem → Except Reject (List KeyOv × List OptItem)
  | [] => .ok ([], [])
  | o :: r =>
    match o.path with
    | [] => .error .emptyPath
    | [k] =>
      match norm k with
      | .error _ => .error (.badKey k)
      | .ok n =>
        match splitOvs norm r with
        | .error e => .error e
        | .ok (ks, ss) => .ok ({ key := k, norm := n, val := o.val } :: ks, ss)
    | _ :: _ :: _ =>
      match splitOvs norm r with
      | .error e => .error e
      | .ok (ks, ss) => .ok (ks, o :: ss)

/-- group by key: keys in the order of their first mention, each with its entries in the order given -/
def collect {α : Type} (l : List (Str × α)) : List (Str × List α) :=
  l.foldl (fun acc kv =>
    if acc.any (·.1 == kv.1) then acc.map (fun p => if p.1 == kv.1 then (p.1, p.2 ++ [kv.2]) else p)
    else acc ++ [(kv.1, [kv.2])]) []

example : collect [("a".toList, 1), ("b".toList, 2), ("a".toList, 3)] = [("a".toList, [1, 3]), ("b".toList, [2])] := by
  decide

/-- the key overrides of a section grouped by normalised key; an entry is (key as given, value) -/
def groupsOf (ks : List KeyOv) : List (Str × List (Str × Str)) := collect (ks.map fun x => (x.norm, (x.key, x.val)))

/-- the lines supplied for the grouped overrides.  `asGiven`: the line carries the key as typed on the command line;
    otherwise it carries the key in the normalised spelling.  (The two load alike whenever normalising a normalised key
    changes nothing, which is the case for the stock key types.) -/
def newLines (asGiven : Bool) (groups : List (Str × List (Str × Str))) : List Item :=
  groups.flatMap fun g => g.2.map fun kv => Item.kv (if asGiven then kv.1 else g.1) kv.2 cmdPos

/-- is the key of this file line one of the overridden keys of its section? (a key the key type refuses is not) -/
def overridden (norm : Str → Except ConvErr Str) (keys : List Str) (k : Str) : Bool :=
  match norm k with
  | .ok n => keys.contains n
  | .error _ => false

/-- a section's edit is complete when no override that went "further down" is left without a section; the supplied
    lines go at the end -/
def closeBody (asGiven : Bool) (groups : List (Str × List (Str × Str))) :
    Except Reject (List Item × List OptItem) → Except Reject (List Item)
  | .error e => .error e
  | .ok (items', []) => .ok (items' ++ newLines asGiven groups)
  | .ok (_, o :: _) => .error (.unknownSection (o.path.headD []))

mutual
/-- edit one item of a section.  `norm` is the section's key type, `keys` its overridden (normalised) keys, `pend` the
    overrides of the section that go further down and have not met their section yet.  Result: what replaces the
    item, and the overrides still pending.  A child section takes every pending override whose first component selects
    it (so each override goes to the FIRST such section in file order) and is edited with them. -/
def editItem (conv : Conv) (s : Schema) (asGiven : Bool) (norm : Str → Except ConvErr Str) (keys : List Str) :
    Item → List OptItem → Except Reject (List Item × List OptItem)
  | .kv k v p, pend => .ok (if overridden norm keys k then [] else [.kv k v p], pend)
  | .sect ty nm sub, pend =>
    if (pend.filter (addresses · ty nm)).isEmpty then .ok ([.sect ty nm sub], pend)
    else
      match s.gettype ty with
      | some (.concrete t) =>
        match splitOvs (conv.key t.keytype) ((pend.filter (addresses · ty nm)).map dropHead) with
        | .error e => .error e
        | .ok (ks, ss) =>
          match closeBody asGiven (groupsOf ks)
              (editItems conv s asGiven (conv.key t.keytype) ((groupsOf ks).map (·.1)) sub ss) with
          | .error e => .error e
          | .ok sub' => .ok ([.sect ty nm sub'], pend.filter (fun o => !addresses o ty nm))
      | _ => .error (.unknownType ty)
def editItems (conv : Conv) (s : Schema) (asGiven : Bool) (norm : Str → Except ConvErr Str) (keys : List Str) :
    List Item → List OptItem → Except Reject (List Item × List OptItem)
  | [], pend => .ok ([], pend)
  | i :: r, pend =>
    match editItem conv s asGiven norm keys i pend with
    | .error e => .error e
    | .ok (is, pend1) =>
      match editItems conv s asGiven norm keys r pend1 with
      | .error e => .error e
      | .ok (rs, pend2) => .ok (is ++ rs, pend2)
end

/-- the edit of the body of a section whose key type is called `kt`, by the overrides `ovs` that reached it -/
def editBody (conv : Conv) (s : Schema) (asGiven : Bool) (kt : Str) (items : List Item) (ovs : List OptItem) :
    Except Reject (List Item) :=
  match splitOvs (conv.key kt) ovs with
  | .error e => .error e
  | .ok (ks, ss) =>
    closeBody asGiven (groupsOf ks) (editItems conv s asGiven (conv.key kt) ((groupsOf ks).map (·.1)) items ss)

/-- **edit**: the text `items` edited by hand as the overrides `ovs` ask; the supplied lines carry the key as typed -/
def edit (conv : Conv) (s : Schema) (items : List Item) (ovs : List OptItem) : Except Reject (List Item) :=
  editBody conv s true s.top.keytype items ovs

/-- the same edit, the supplied lines carrying the key in the spelling the section's key type normalises it to -/
def editNorm (conv : Conv) (s : Schema) (items : List Item) (ovs : List OptItem) : Except Reject (List Item) :=
  editBody conv s false s.top.keytype items ovs

end ZCV.Conf
