import ZCV.Base
/-! C18, the URL algebra as stated: a string is a URL iff a scheme of at least two characters precedes its first colon. -/
namespace ZCV.UrlSpec
open ZCV

def isSchemeChar (c : Char) : Bool := isAsciiLetter c || isAsciiDigit c || c == '-' || c == '+' || c == '.'

/-- `scheme ":"` at the start, scheme = ALPHA *( ALPHA / DIGIT / "+" / "-" / "." ), at least two characters long -/
def isUrl (s : Str) : Bool :=
  match s with
  | c :: t =>
    isAsciiLetter c &&
    (t.dropWhile isSchemeChar).head? == some ':' &&
    (t.takeWhile isSchemeChar).length ≥ 1
  | [] => false

def isPath (s : Str) : Bool := !isUrl s

/-- a `file:` URL is in normal form when it does not start (in any letter case) with `file:/` unless with `file:///` -/
def normalForm (u : Str) : Bool :=
  !(startsWith (lower u) "file:/".toList) || startsWith (lower u) "file:///".toList

end ZCV.UrlSpec
