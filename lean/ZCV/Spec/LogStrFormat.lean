import ZCV.Model.LogStrFormat
import ZCV.Spec.LogFormat
/-!
# C20, `format`-style log formats: the records the property quantifies over, and the readable description of what is accepted

The vocabulary of "a `format`-style format accepted at load time never raises when an ordinary record is formatted":
the kinds of record attributes are those of the classic style (`LogFormatSpec.fieldKinds`), the records are the same
ordinary records (`OrdinaryStr` = `LogFormatSpec.Ordinary` on the record with the `repr` of its floats forgotten), and the
fragment of the format language for which the property is PROVED is `Plain`: no `.attr` / `[index]` suffix on a field
name and no replacement field nested in a format spec.  Outside this fragment the property is FALSE for the real code
(`C20_strformat_index_needed`, `C20_strformat_nested_needed`, `C20_strformat_attr_needed` in `Props/C20.lean`).
-/
namespace ZCV.LogStrFormatSpec
open ZCV ZCV.LogFormatSpec ZCV.LogStrFormat
open ZCV.LogFormat hiding Item parse parseAux runItems evalItem

/-- the weakest requirement on the values under which accepted plain formats are safe: a `str` where logging puts a
    `str`; anything that prints for the object-valued attributes (`args`, `exc_info`, …); level and line numbers in
    `0 ≤ n < 0x110000` (needed for `{lineno:c}`); thread and process ids any int that converts to `float`; time stamps any
    `float` at all (`inf` and `nan` are formatted by every float presentation type) -/
def _root_.ZCV.LogFormatSpec.Kind.admitsStr : Kind → Val → Prop
  | .text, v => ∃ s, v = .str s
  | .object, v => Prints v.toValue
  | .smallInt, v => ∃ n, v = .int n ∧ 0 ≤ n ∧ n < 0x110000
  | .bigInt, v => ∃ n, v = .int n ∧ -floatLimit < n ∧ n < floatLimit
  | .real, v => ∃ k r, v = .float k r

/-- the records a formatter built from `fmt` gets to see: every attribute is there — `asctime` only when the format uses
    the time (`{asctime` occurs in it: `logging.Formatter.format` sets it only then) — with a value its kind admits -/
def RecordForStr (fmt : Str) (r : SDict) : Prop :=
  ∀ k kind, (k, kind) ∈ fieldKinds → (k = "asctime".toList → usesTimeStr fmt = true) → ∃ v, r k = some v ∧ kind.admitsStr v

/-- an ordinary record in the sense of the classic style (`LogFormatSpec.Ordinary`: strings where the logging package
    puts strings, level and line numbers in `0 ≤ n < 0x110000`, thread and process ids in `0 ≤ n < 2^64`, finite time
    stamps, printable objects), whatever the `repr` of its floats -/
def OrdinaryStr (r : SDict) : Prop := Ordinary r.erase

/-- the same, where `asctime` need only be there when `fmt` uses the time -/
def OrdinaryStrFor (fmt : Str) (r : SDict) : Prop :=
  ∀ k kind, (k, kind) ∈ fieldKinds → (k = "asctime".toList → usesTimeStr fmt = true) →
    ∃ v, r k = some v ∧ kind.admits v.toValue

/-- a replacement field whose name is a bare key (no `.attr`, no `[index]`) and whose format spec contains no brace
    (no nested replacement field) -/
def plainItem : Item → Bool
  | .field name _ spec => name.all notDotBracket && spec.all notBrace
  | _ => true

/-- the fragment of the format language for which safety is proved: every field is plain (decidable) -/
def Plain (fmt : Str) : Prop := (parse (effectiveStr fmt)).all plainItem = true

instance (fmt : Str) : Decidable (Plain fmt) := by unfold Plain; infer_instance

/-- the conversions `logging` lets through: none, `!r`, `!s`, `!a` -/
def convOk : Option Char → Bool
  | none => true
  | some c => c == 'r' || c == 's' || c == 'a'

/-- the integer presentation types `b c d o x X n` -/
def isIntType (c : Char) : Bool := c == 'b' || c == 'c' || c == 'd' || c == 'o' || c == 'x' || c == 'X' || c == 'n'

/-- the format spec is one the formatted object takes.  What is formatted is a `str` after a conversion (`!r !s !a`), else
    the attribute itself: a `str` (`str.__format__`: `strFormat`), `None` or another object (`object.__format__`: only the
    empty spec), a level or line number (`int.__format__` as it behaves on every `0 ≤ n < 0x110000`: `intFormat · 0`), a
    thread or process id (`int.__format__` as it behaves on the ints outside that range that convert to `float`, i.e. `c`
    is refused: `intFormat · 0x110000`), a time stamp (`float.__format__`: `floatFormat`).  The empty spec is `str()`. -/
def SpecAllowed (kind : Kind) (conv : Option Char) (spec : Str) : Prop :=
  spec = [] ∨
  (if conv.isSome then strFormat spec = .ok () else
   match kind with
   | .text => strFormat spec = .ok ()
   | .object => False
   | .smallInt => intFormat spec 0 = .ok ()
   | .bigInt => intFormat spec 0x110000 = .ok ()
   | .real => floatFormat spec = .ok ())

/-- a plain item the load-time check accepts: literal text (with `{{` `}}`), or a field `{key!conv:spec}` where `key` is a
    record attribute, the conversion is none or `r s a`, the spec is one the formatted object takes (`SpecAllowed`) and —
    when not empty — one that logging's `fmt_spec` pattern matches -/
def PlainItemAccepted : Item → Prop
  | .lit _ => True
  | .bad => False
  | .field name conv spec =>
    ∃ kind, (name, kind) ∈ fieldKinds ∧ convOk conv = true ∧ SpecAllowed kind conv spec ∧
      (spec = [] ∨ fmtSpecMatch spec = true)

/-- an item of ANY format the load-time check accepts, step by step: logging's `validate` lets it through
    (`itemValid`: `field_spec`, conversion, `fmt_spec`), and on the sample record `get_field` finds an object, the
    conversion works, the format spec expands to a known text and `format()` takes it -/
def ItemAcceptedS : Item → Prop
  | .lit _ => True
  | .bad => False
  | .field name conv spec =>
    itemValid (.field name conv spec) = true ∧
    ∃ v o st t, getField .vformat sampleSDict name = .ok v ∧ convert v conv = .ok o ∧
      evalStr .vformat sampleSDict 2 spec = .ok (some st) ∧ formatObj o st = .ok t

/-- `Kind.admitsStr` as a test -/
def _root_.ZCV.LogFormatSpec.Kind.admitsStrB : Kind → Val → Bool
  | .text, .str _ => true
  | .text, _ => false
  | .object, .int n => decide (n.natAbs < 10 ^ 4300)
  | .object, _ => true
  | .smallInt, .int n => decide (0 ≤ n ∧ n < 0x110000)
  | .smallInt, _ => false
  | .bigInt, .int n => decide (-floatLimit < n ∧ n < floatLimit)
  | .bigInt, _ => false
  | .real, .float _ _ => true
  | .real, _ => false

/-- a record given as a table is one a formatter built from `fmt` gets to see (test) -/
def recordTableFor (fmt : Str) (tbl : List (Str × Val)) : Bool :=
  fieldKinds.all (fun p => (p.1 == "asctime".toList && !usesTimeStr fmt) ||
    match lookupS tbl p.1 with
    | some v => p.2.admitsStrB v
    | none => false)

end ZCV.LogStrFormatSpec
