import ZCV.Spec.Edit
import ZCV.Spec.ConformsImport
/-!
What a list of command-line overrides MEANS for a text that contains `%import` lines (C14 with C12): the edit of
`ZCV/Spec/Edit.lean` applied to the top-level items of the text.

Two points have to be fixed, and both are fixed the way the code behaves:

* **Which schema.**  The edit consults a schema only for the KEY TYPE of a section it descends into.  With `%import` lines the
  schema of the load grows while the text is read; the command line is cooked BEFORE the text is read
  (`ExtendedConfigLoader.cook`: every `OptionBag` keeps the schema object the loader had when the load started), so the
  schema consulted is the INITIAL schema `S`, for every section wherever it stands in the text.  For a top-level key
  override this makes no difference (`%import` never changes the key type of the document).  For a path into a section
  whose type was defined by a component that THIS load imports, `S` does not know the type: the edit is impossible
  (`Reject.unknownType`), and the load is rejected — although the text edited by hand would be accepted
  (`C14_override_into_imported_type_counterexample`, known finding `C14-override-into-imported-type`).
* **Where the supplied lines go.**  Top-level key overrides are supplied at the end of the text, after every `%import`;
  `%import` lines are kept where they are; the overrides of a section go at the end of that section, as before.

Nothing of `Bag` / `Matcher` is used.
-/
namespace ZCV.Conf
open ZCV ZCV.Cfg

/-- edit the top-level items of a text, one after the other: `%import` lines stay; a key line or a section is edited by
    `editItem` against the schema `S` (pending overrides go to the FIRST top-level section they select) -/
def editTops (conv : Conv) (S : Schema) (asGiven : Bool) (norm : Str → Except ConvErr Str) (keys : List Str) :
    List TopItem → List OptItem → Except Reject (List TopItem × List OptItem)
  | [], pend => .ok ([], pend)
  | .imp p :: r, pend =>
    match editTops conv S asGiven norm keys r pend with
    | .error e => .error e
    | .ok (rs, pend1) => .ok (.imp p :: rs, pend1)
  | .item i :: r, pend =>
    match editItem conv S asGiven norm keys i pend with
    | .error e => .error e
    | .ok (is, pend1) =>
      match editTops conv S asGiven norm keys r pend1 with
      | .error e => .error e
      | .ok (rs, pend2) => .ok (is.map .item ++ rs, pend2)

/-- the edit of the document is complete when no override that went below the top level is left without a section; the
    lines supplied for the top-level keys go at the end of the text -/
def closeTops (asGiven : Bool) (groups : List (Str × List (Str × Str))) :
    Except Reject (List TopItem × List OptItem) → Except Reject (List TopItem)
  | .error e => .error e
  | .ok (tops', []) => .ok (tops' ++ (newLines asGiven groups).map .item)
  | .ok (_, o :: _) => .error (.unknownSection (o.path.headD []))

/-- the edit of the top-level items `tops` by the overrides `ovs`, against the schema `S` the load starts with -/
def editBodyI (conv : Conv) (S : Schema) (asGiven : Bool) (tops : List TopItem) (ovs : List OptItem) :
    Except Reject (List TopItem) :=
  match splitOvs (conv.key S.top.keytype) ovs with
  | .error e => .error e
  | .ok (ks, ss) =>
    closeTops asGiven (groupsOf ks)
      (editTops conv S asGiven (conv.key S.top.keytype) ((groupsOf ks).map (·.1)) tops ss)

/-- **editI**: the top-level items of a text with `%import` lines, edited by hand as the overrides ask (supplied lines
    carry the key as typed) -/
def editI (conv : Conv) (S : Schema) (tops : List TopItem) (ovs : List OptItem) : Except Reject (List TopItem) :=
  editBodyI conv S true tops ovs

/-- the same, the supplied lines carrying the key in the spelling the key type normalises it to -/
def editNormI (conv : Conv) (S : Schema) (tops : List TopItem) (ovs : List OptItem) : Except Reject (List TopItem) :=
  editBodyI conv S false tops ovs

end ZCV.Conf
