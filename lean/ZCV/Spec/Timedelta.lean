import ZCV.Spec.Datatypes2
import ZCV.Model.Timedelta
/-!
Documented contract of the `timedelta` datatype (docs/standard-datatypes.rst: "The set of suffixes recognized by
**timedelta** are: `w` (weeks), `d` (days), `h` (hours), `m` (minutes), `s` (seconds).  Values may be floats, for
example: `4w 2.5d 7h 12m 0.001s`"), as a grammar over the whitespace-separated words of the text.

Only the TYPE `DT.TimedeltaVal` (the symbolic keyword arguments handed to `datetime.timedelta`) is taken from the model;
none of its functions is mentioned here.
-/
namespace ZCV.DTSpec
open ZCV

/-- the documented unit letters (lower case only) -/
def tdUnits : List Char := ['w', 'd', 'h', 'm', 's']

/-- a part, analysed: the amount literal and the unit letter; its text is the literal followed by the letter -/
abbrev TdPart := Str × Char
def tdText (p : TdPart) : Str := p.1 ++ [p.2]

/-- a well-formed part: a float literal (what `float(str)` accepts: optional sign, digits of any script with single
    underscores, optional fraction and exponent, or `inf`/`infinity`/`nan` in any case) and a documented unit letter -/
def TdGood (p : TdPart) : Prop := FloatLit p.1 ∧ p.2 ∈ tdUnits

/-- the amount given for unit `u`: the literal of the LAST part carrying that letter (a later part overwrites an
    earlier one with the same unit; amounts are not added up), `none` if there is no such part -/
def tdAmount (u : Char) (parts : List TdPart) : Option Str :=
  (parts.reverse.find? (fun p => p.2 == u)).map (·.1)

def tdValue (parts : List TdPart) : DT.TimedeltaVal :=
  { weeks := tdAmount 'w' parts, days := tdAmount 'd' parts, hours := tdAmount 'h' parts,
    minutes := tdAmount 'm' parts, seconds := tdAmount 's' parts }

/-- **the contract**, as a relation between the text and the outcome (up to the arithmetic of `datetime.timedelta`):
* every word is a well-formed part: the constructor is called with the amounts of `tdValue`;
* otherwise the FIRST ill-formed word decides: if it is not "a float literal followed by one more character" the
  outcome is `ValueError`; if it is a float literal followed by a character that is not a unit letter, `TypeError`. -/
inductive IsTimedelta (s : Str) : R DT.TimedeltaVal → Prop
  | ok (parts : List TdPart) :
      Words s (parts.map tdText) → (∀ p ∈ parts, TdGood p) → IsTimedelta s (.ok (tdValue parts))
  | badAmount (good : List TdPart) (w : Str) (rest : List Str) :
      Words s (good.map tdText ++ w :: rest) → (∀ p ∈ good, TdGood p) →
      (¬ ∃ lit u, w = lit ++ [u] ∧ FloatLit lit) → IsTimedelta s (.error .valueError)
  | badUnit (good : List TdPart) (lit : Str) (u : Char) (rest : List Str) :
      Words s (good.map tdText ++ (lit ++ [u]) :: rest) → (∀ p ∈ good, TdGood p) →
      FloatLit lit → u ∉ tdUnits → IsTimedelta s (.error .typeError)

end ZCV.DTSpec
