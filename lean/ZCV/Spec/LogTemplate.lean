import ZCV.Model.LogTemplate
/-!
# C20, `template` / `safe-template` log formats: the vocabulary of the statements

* `Tokens s ps`: a declarative description of how `string.Template` cuts a format into literal text and placeholders
  (no fuel, no scanning order) — `C20_template_scan_spec` proves that `scan` computes exactly this;
* `TemplateAccepted fmt`: what the load-time check of `style template` lets through, read off the pieces;
* `HasKnown r` / `HasKnownFor fmt r` / `Printable r`: the records the safety statements quantify over.
-/
namespace ZCV.LogTemplateSpec
open ZCV ZCV.LogFormat ZCV.LogTemplate

/-- a `string.Template` identifier: `_` or an ASCII letter, then `_`, ASCII letters and ASCII digits -/
def isIdent : Str → Bool
  | [] => false
  | c :: t => isIdStart c && t.all isIdChar

/-- the text does not go on with an identifier character (so that an identifier before it is maximal) -/
def NoIdCharAhead (rest : Str) : Prop := ∀ c t, rest = c :: t → isIdChar c = false

/-- the text after a `$` starts none of `$`, an identifier, `{identifier}` -/
def NoPlaceholderAhead (rest : Str) : Prop :=
  (∀ c t, rest = c :: t → c ≠ '$' ∧ isIdStart c = false) ∧
  (∀ n t, isIdent n = true → rest ≠ '{' :: (n ++ '}' :: t))

/-- `Tokens s ps`: `ps` is the way `string.Template.pattern` cuts `s` —
    * literal runs are non-empty, contain no `$` and are maximal (they stop at a `$` or at the end);
    * `$$` is an escape;
    * `$identifier` takes the longest identifier;
    * `${identifier}`;
    * any other `$` is an invalid placeholder, and scanning resumes right after it (the `{` of `${9}` is literal text). -/
inductive Tokens : Str → List Piece → Prop
  | nil : Tokens [] []
  | lit (l rest : Str) (ps : List Piece) : l ≠ [] → (∀ c ∈ l, c ≠ '$') → (∀ c t, rest = c :: t → c = '$') →
      Tokens rest ps → Tokens (l ++ rest) (.lit l :: ps)
  | escaped (rest : Str) (ps : List Piece) : Tokens rest ps → Tokens ('$' :: '$' :: rest) (.escaped :: ps)
  | named (n rest : Str) (ps : List Piece) : isIdent n = true → NoIdCharAhead rest →
      Tokens rest ps → Tokens ('$' :: (n ++ rest)) (.named n :: ps)
  | braced (n rest : Str) (ps : List Piece) : isIdent n = true →
      Tokens rest ps → Tokens ('$' :: '{' :: (n ++ '}' :: rest)) (.braced n :: ps)
  | invalid (rest : Str) (ps : List Piece) : NoPlaceholderAhead rest →
      Tokens rest ps → Tokens ('$' :: rest) (.invalid :: ps)

/-- `str(v)` works: `v` is not an `int` of more than 4300 decimal digits (`sys.get_int_max_str_digits()`) -/
def StrOk (v : Value) : Prop := ∀ n, v = .int n → n.natAbs < 10 ^ intMaxStrDigits

/-- what `style template` accepts at load time (arbitrary-fields off), read off the pieces of the format (the empty
    format stands for `${message}`): no invalid `$`, every placeholder names a record attribute, at least one
    placeholder -/
structure TemplateAccepted (fmt : Str) : Prop where
  noInvalid : Piece.invalid ∉ scan (effectiveTemplate fmt)
  known : ∀ n ∈ refs (scan (effectiveTemplate fmt)), n ∈ knownNames
  hasField : refs (scan (effectiveTemplate fmt)) ≠ []

/-- a record that has all the attributes of a `LogRecord` (Python 3.12) plus `asctime` and `message`, each with a
    value whose `str()` works -/
def HasKnown (r : Dict) : Prop := ∀ k ∈ knownNames, ∃ v, r k = some v ∧ StrOk v

/-- the records a formatter built from `fmt` gets to see: `Formatter.format` has set `message`, and `asctime` only
    when the format uses the time (`usesTimeTemplate`) -/
def HasKnownFor (fmt : Str) (r : Dict) : Prop :=
  ∀ k ∈ knownNames, (k = "asctime".toList → usesTimeTemplate fmt = true) → ∃ v, r k = some v ∧ StrOk v

/-- whatever attributes the record has (any set of names), `str()` works on their values -/
def Printable (r : Dict) : Prop := ∀ k v, r k = some v → StrOk v

/-- `StrOk` as a test -/
def strOkB : Value → Bool
  | .int n => decide (n.natAbs < 10 ^ intMaxStrDigits)
  | _ => true

/-- a record given as a table has all the known attributes (test) -/
def hasKnownTable (tbl : List (Str × Value)) : Bool :=
  knownNames.all (fun k => match lookup tbl k with
                           | some v => strOkB v
                           | none => false)

/-- every value of a table can be printed (test) -/
def printableTable (tbl : List (Str × Value)) : Bool := tbl.all (fun p => strOkB p.2)

end ZCV.LogTemplateSpec
