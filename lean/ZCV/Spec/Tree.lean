import ZCV.Spec.Conforms
import ZCV.Model.Parser
/-! Building the `Item` tree of a text with the parser model and a context that only records structure. -/
namespace ZCV.Conf
open ZCV ZCV.Cfg

/-- open sections, innermost first, each with its items so far (most recent first); the last entry is the top level -/
structure TB where
  stack : List (Str × Option Str × List Item)

def tbStart (s : TB) (ty : Str) (nm : Option Str) : M TB := .ok { stack := (ty, nm, []) :: s.stack }
def tbStop (s : TB) (_ : Str) (_ : Option Str) : M TB :=
  match s.stack with
  | (ty, nm, items) :: (pty, pnm, pitems) :: rest => .ok { stack := (pty, pnm, Item.sect ty nm items.reverse :: pitems) :: rest }
  | _ => .error (.internal "IndexError")
def tbValue (s : TB) (k v : Str) (p : Pos) : M TB :=
  match s.stack with
  | (ty, nm, items) :: rest => .ok { stack := (ty, nm, Item.kv k v p :: items) :: rest }
  | [] => .error (.internal "IndexError")
def tbImport (_ : TB) (_ : Str) : M TB := .error (.internal "import-not-in-spec")

def treeCtx : PCtx TB :=
  { start := tbStart, stop := tbStop, value := tbValue, imp := tbImport, canInclude := true, canDefine := true }

/-- the tree of a text, or the parser-level rejection -/
def treeOf (env : Env) (url : Option Str) (lines : List Str) : M (List Item) := do
  let active := match url with | some u => if u == [] then [] else [u] | none => []
  let ps ← parseLines 64 env treeCtx active url lines 0 { ctx := { stack := [([], none, [])] }, stack := [], defs := [] }
  match ps.ctx.stack with
  | [(_, _, items)] => pure items.reverse
  | _ => throw (.internal "IndexError")

end ZCV.Conf
