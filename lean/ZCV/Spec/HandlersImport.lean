import ZCV.Spec.Handlers
import ZCV.Spec.ConformsImport
/-!
The handler list the schema DEFINES for a text with `%import` lines (C16 with C12): the post-order listing of
`ZCV/Spec/Handlers.lean` over the top-level items, every top-level section — with everything nested in it — listed
against the schema in force AT ITS POSITION (as `denoteI` values it), the document's own handler-bearing items completed
at the end against the fully extended schema, the schema-level handler last.

Nothing of `Matcher`/`LS` is used.
-/
namespace ZCV.Conf
open ZCV ZCV.Cfg

/-- the entries of the top-level sections, in file order, each against the schema in force at its position -/
def topHandlers (conv : Conv) (pkgs : Str → Pkg) : Schema → List TopItem → List (Str × Val)
  | _, [] => []
  | s, .item i :: r => handlersOfItem conv s i ++ topHandlers conv pkgs s r
  | s, .imp p :: r =>
    match extend s (pkgs p) with
    | some s' => topHandlers conv pkgs s' r
    | none => []

/-- the document's own handler-bearing items, in schema order, with the values `denoteI` gives those attributes -/
def ownHandlersI (conv : Conv) (s : Schema) (pkgs : Str → Pkg) (tops : List TopItem) : List (Str × Val) :=
  match schemaAt s pkgs tops tops.length with
  | none => []
  | some sF =>
    let kl := keyLines conv s.top (itemsOf tops)
    let subs := subsOf (itemsOf tops) (topVals conv pkgs s tops)
    s.top.children.filterMap fun c =>
      match c.2.handler, childVal conv sF s.top kl subs c with
      | some h, some v => some (h, v)
      | _, _ => none

/-- **docHandlersI**: the whole document — top-level sections in file order (post-order inside each), the document's own
    items, then the schema-level handler (if the schema has one) with the configuration object itself -/
def docHandlersI (conv : Conv) (s : Schema) (pkgs : Str → Pkg) (tops : List TopItem) : List (Str × Val) :=
  topHandlers conv pkgs s tops ++ ownHandlersI conv s pkgs tops ++
    (match s.handler, denoteI conv s pkgs tops with
     | some h, some v => [(h, v)]
     | _, _ => [])

end ZCV.Conf
