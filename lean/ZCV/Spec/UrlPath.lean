import ZCV.Base
/-!
C18, lexical path resolution as stated: a path is its list of segments (the text between slashes); resolving a
reference against a directory walks the segments of both, skipping `.` and empty segments and letting `..` remove the
segment before it — never above the root.
-/
namespace ZCV.UrlPathSpec
open ZCV

/-- the text between slashes (`"/a/b"` ↦ `["", "a", "b"]`, `""` ↦ `[""]`) -/
def segments : Str → List Str
  | [] => [[]]
  | c :: t =>
    if c = '/' then [] :: segments t
    else match segments t with
      | h :: r => (c :: h) :: r
      | [] => [[c]]

/-- segments joined by `/` -/
def unsegments : List Str → Str
  | [] => []
  | [a] => a
  | a :: b :: l => a ++ '/' :: unsegments (b :: l)

/-- a segment that names something: not empty, not `.`, not `..` -/
def isName (s : Str) : Bool := s != [] && s != ['.'] && s != ['.', '.']

/-- one segment applied to the directory stack -/
def step (stack : List Str) (seg : Str) : List Str :=
  if seg = ['.', '.'] then stack.dropLast
  else if seg = ['.'] ∨ seg = [] then stack
  else stack ++ [seg]

/-- the names that remain when `.`, `..` and empty segments are worked off from the root -/
def normalize (segs : List Str) : List Str := segs.foldl step []

/-- resolve the reference segments `ref` lexically against the directory segments `dir` -/
def resolve (dir ref : List Str) : List Str := normalize (dir ++ ref)

/-- the absolute path with the given names -/
def render (names : List Str) : Str := '/' :: unsegments names

/-- a relative reference to a file: it does not start at the root and its last segment is a name -/
def relFileRef (ref : Str) : Prop :=
  ref.head? ≠ some '/' ∧ ∃ l, (segments ref).getLast? = some l ∧ isName l = true

/-- a character that means nothing to the URL machinery when it stands in a path: not `%`, `#`, `?`, tab, CR, LF -/
def neutralChar (c : Char) : Bool := c != '%' && c != '#' && c != '?' && c != '\t' && c != '\r' && c != '\n'

/-- a reference of URL-neutral characters that does not start with a space or control character and has no colon
    before its first slash (so it cannot be taken for `scheme:…`) -/
def urlNeutral (ref : Str) : Prop :=
  (∀ c ∈ ref, neutralChar c = true) ∧ (∀ c, ref.head? = some c → 0x20 < c.toNat) ∧
  (∀ c ∈ ref.takeWhile (· != '/'), c ≠ ':')

/-- an absolute path to a file: it starts at the root, has no empty segment (no `//`) and its last segment is a
    name; `.` and `..` may occur before it -/
def absFilePath (q : Str) : Prop :=
  ∃ mid l, segments q = [] :: (mid ++ [l]) ∧ (∀ m ∈ mid, m ≠ []) ∧ isName l = true

/-- an absolute path to a file in normal form: `/name/…/name` -/
def normalFilePath (q : Str) : Prop :=
  ∃ names, names ≠ [] ∧ segments q = [] :: names ∧ ∀ m ∈ names, isName m = true

/-- does the reference name a file (last segment a name) rather than a directory (`"d/"`, `"."`, `"../.."`)? -/
def namesFile (ref : Str) : Bool :=
  match (segments ref).getLast? with
  | some l => isName l
  | none => false

/-- a directory given by an absolute path (`""` is the root) -/
def absDir (dir : Str) : Prop := dir = [] ∨ dir.head? = some '/'

end ZCV.UrlPathSpec
