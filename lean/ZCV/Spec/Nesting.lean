import ZCV.Spec.Grammar
/-!
The multi-line part of property C03, written from the statement: "a text is accepted only if sections are
properly nested and all closed".  A text is a sequence of classified lines (`Grammar.Shape`); it is well formed
exactly when its non-skipped lines are the pre-order listing (`flatten`) of a forest of `Node`s.
No stack, no machine: the nesting discipline is the shape of the tree.

(The two spellings of a section are two constructors rather than one constructor with a Boolean: `<t n/>` has no
body, so a Boolean flag next to a body would leave meaningless trees and `flatten` would not be injective.)
-/
namespace ZCV.Nesting
open ZCV ZCV.Grammar

/-- one item of a configuration text -/
inductive Node where
  | kv (key val : Str)                                   -- `key value`
  | sect (ty : Str) (nm : Option Str) (body : List Node)  -- `<ty nm>` body `</ty>`
  | esect (ty : Str) (nm : Option Str)                   -- `<ty nm/>`
  | imp (arg : Str)                                      -- `%import arg`
deriving Repr

/-- what a parser context is told, positions aside -/
inductive Ev where
  | start (ty : Str) (nm : Option Str)
  | stop (ty : Str) (nm : Option Str)
  | value (key value : Str)
  | imp (pkg : Str)
deriving Repr, DecidableEq

mutual
/-- the classified lines of one item, in text order; the closer of a section repeats the type of its opener -/
def flattenNode : Node → List Shape
  | .kv k v => [.kv k v]
  | .sect ty nm body => .open_ ty nm false :: (flatten body ++ [.close ty])
  | .esect ty nm => [.open_ ty nm true]
  | .imp a => [.import_ a]
/-- the classified lines of a forest -/
def flatten : List Node → List Shape
  | [] => []
  | n :: t => flattenNode n ++ flatten t
end

mutual
/-- the events of one item: a section is announced, then its body, then its end — with the type and name of the
    opener, and the same for both spellings; the argument of `%import` is delivered without surrounding whitespace -/
def eventsNode : Node → List Ev
  | .kv k v => [.value k v]
  | .sect ty nm body => .start ty nm :: (events body ++ [.stop ty nm])
  | .esect ty nm => [.start ty nm, .stop ty nm]
  | .imp a => [.imp (strip a)]
/-- the events of a forest: pre-order -/
def events : List Node → List Ev
  | [] => []
  | n :: t => eventsNode n ++ events t
end

/-- the lines of a text that are not skipped (blank lines and comments), classified -/
def shapes (lines : List Str) : List Shape := (lines.map classify).filter (· ≠ .skip)

/-- a physical line on which `%define`/`%include` play no part and substitution has nothing to do: it holds no line
    terminator, is neither a `%define` nor an `%include` line, and if it is a key/value or `%import` line its value or
    argument contains no `$` -/
structure Plain (l : Str) : Prop where
  nonl : '\n' ∉ l
  nodef : ∀ a, classify l ≠ .define a
  noinc : ∀ a, classify l ≠ .include_ a
  kvd : ∀ k v, classify l = .kv k v → '$' ∉ v
  impd : ∀ a, classify l = .import_ a → '$' ∉ a

/-- a text is properly nested when its classified lines are the listing of some forest -/
def Nested (s : List Shape) : Prop := ∃ t : List Node, s = flatten t

/-- a beginning of a text is completable when some continuation makes it properly nested -/
def Completable (s : List Shape) : Prop := ∃ (rest : List Shape), Nested (s ++ rest)

end ZCV.Nesting
