import ZCV.Spec.Datatypes
/-! the documented contracts by datatype name, with values in the result vocabulary of the model -/
namespace ZCV.DTSpec
open ZCV

def hostPort (a : Str × Option Int) : Val := .tup [.str a.1, match a.2 with | some p => .int p | none => .none]
def sock (r : R (String × Sum Str (Str × Option Int))) : R Val :=
  r.map fun (f, a) => .tup [.str f.toList, match a with | .inl p => .str p | .inr hp => hostPort hp]

/-- `none` = no written contract in the model for this name -/
def byName (dt : Str) (s : Str) : Option (R Val) :=
  match String.ofList dt with
  | "basic-key" => some ((basicKey s).map .str)
  | "identifier" => some ((identifier s).map .str)
  | "dotted-name" => some ((dottedName s).map .str)
  | "dotted-suffix" => some ((dottedSuffix s).map .str)
  | "boolean" => some ((boolean s).map .bool)
  | "integer" => some ((integer s).map .int)
  | "port-number" => some ((portNumber s).map .int)
  | "byte-size" => some ((byteSize s).map .int)
  | "time-interval" => some ((timeInterval s).map .int)
  | "inet-address" => some ((inetAddress [] s).map hostPort)
  | "inet-binding-address" => some ((inetAddress [] s).map hostPort)
  | "inet-connection-address" => some ((inetAddress "127.0.0.1".toList s).map hostPort)
  | "socket-address" => some (sock (socketFamily [] s))
  | "socket-binding-address" => some (sock (socketFamily [] s))
  | "socket-connection-address" => some (sock (socketFamily "127.0.0.1".toList s))
  | "ipaddr-or-hostname" => some ((ipaddrOrHostname s).map .str)
  | "string" => some (.ok (.str s))
  | "null" => some (.ok (.str s))
  | "string-list" => some (.ok (.list ((splitWS s).map .str)))
  | _ => none

end ZCV.DTSpec
