import ZCV.Spec.Conforms
/-!
The handler list the schema DEFINES for a configuration tree — written from the statement of C16, independently of the
order in which the loader closes sections and appends to its shared list.

A schema item (key, multikey, section, multisection) may carry a `handler` name.  The handler object returned with a
configuration has one entry `(handler name, value)` per handler-bearing schema item INSTANTIATED by the text: one per
handler-bearing child of the type of every section of the text (and of the schema itself), whether or not the text
mentions the item (an absent key contributes its default or `None`).  Order: the entries of the sections nested in a
container come first, nested sections contributing in file order (= the order in which they are closed), each section
contributing recursively in the same manner; then the container's OWN handler-bearing items in schema order; the
schema-level handler, holding the whole configuration, comes last.  The value of an entry is the value the value tree
holds for that attribute of that section: `childVal`, the very function `denote` uses to fill the attribute.

Nothing of `Matcher`/`LS` is used.
-/
namespace ZCV.Conf
open ZCV ZCV.Cfg

/-- the entries a container of concrete type `t` holding `items` contributes for its OWN items: the handler-bearing
    children of `t` in schema order, each with the value `denote` gives that attribute (`childVal`) -/
def ownHandlers (conv : Conv) (s : Schema) (t : SType) (items : List Item) : List (Str × Val) :=
  let kl := keyLines conv t items
  let subs := subsOf items (itemVals conv s items)
  t.children.filterMap fun c =>
    match c.2.handler, childVal conv s t kl subs c with
    | some h, some v => some (h, v)
    | _, _ => none

mutual
/-- the entries of one section item: everything nested in it first, then its own items -/
def handlersOfItem (conv : Conv) (s : Schema) : Item → List (Str × Val)
  | .kv _ _ _ => []
  | .sect ty _ items =>
    match s.gettype ty with
    | some (.concrete t) => handlersOfItems conv s items ++ ownHandlers conv s t items
    | _ => []
/-- the entries of the sections among `items`, in file order -/
def handlersOfItems (conv : Conv) (s : Schema) : List Item → List (Str × Val)
  | [] => []
  | i :: r => handlersOfItem conv s i ++ handlersOfItems conv s r
end

/-- **handlersOf**: the entries of a container of type `τ` holding `items`: post-order — each child section in file
    order (recursively), then the container's own handler-bearing items in schema order -/
def handlersOf (conv : Conv) (s : Schema) (τ : SType) (items : List Item) : List (Str × Val) :=
  handlersOfItems conv s items ++ ownHandlers conv s τ items

/-- the whole document: the entries of the top-level container, then the schema-level handler (if the schema has one)
    with the configuration object itself -/
def docHandlers (conv : Conv) (s : Schema) (items : List Item) : List (Str × Val) :=
  handlersOf conv s s.top items ++
    (match s.handler, denote conv s items with
     | some h, some v => [(h, v)]
     | _, _ => [])

/-! ### the NUMBER of handler-bearing items instantiated (no values involved) -/

/-- handler-bearing children of a type -/
def nOwn (t : SType) : Nat := (t.children.filter fun c => c.2.handler.isSome).length

mutual
def nHandledItem (s : Schema) : Item → Nat
  | .kv _ _ _ => 0
  | .sect ty _ items =>
    match s.gettype ty with
    | some (.concrete t) => nHandledItems s items + nOwn t
    | _ => 0
def nHandledItems (s : Schema) : List Item → Nat
  | [] => 0
  | i :: r => nHandledItem s i + nHandledItems s r
end

/-- handler-bearing schema items instantiated by a document: per section of the text (at every depth) the
    handler-bearing children of its type, plus those of the schema itself, plus one for a schema-level handler -/
def nHandled (s : Schema) (items : List Item) : Nat :=
  nHandledItems s items + nOwn s.top + (if s.handler.isSome then 1 else 0)

end ZCV.Conf
