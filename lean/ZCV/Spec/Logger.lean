import ZCV.Model.Val
/-! C20, the documented decision rules of the logger component. -/
namespace ZCV.LogSpec
open ZCV

/-- the documented level names (README / handlers.xml): case-insensitive -/
def levelNames : List (String × Int) :=
  [("critical", 50), ("fatal", 50), ("error", 40), ("warn", 30), ("warning", 30), ("info", 20), ("blather", 15),
   ("debug", 10), ("trace", 5), ("all", 1), ("notset", 0)]

/-- a documented name, or an integer 0..50; everything else is rejected -/
def loggingLevel (value : Str) : Except ConvErr Int :=
  let s := lower value
  match levelNames.find? (fun p => p.1.toList == s) with
  | some (_, n) => .ok n
  | none =>
    match pyInt s with
    | some v => if 0 ≤ v ∧ v ≤ 50 then .ok v else .error .valueError
    | none => .error .valueError

end ZCV.LogSpec
