import ZCV.Model.Val
/-! C20, the documented decision rules of the logger component. -/
namespace ZCV.LogSpec
open ZCV

/-- the documented level names (README / handlers.xml): case-insensitive -/
def levelNames : List (String × Int) :=
  [("all", 1), ("blather", 15), ("critical", 50), ("debug", 10), ("error", 40), ("fatal", 50), ("info", 20), ("notset", 0),
   ("trace", 5), ("warn", 30), ("warning", 30)]      -- in alphabetical order (as the translator emits the live table)

/-- a documented name, or an integer 0..50; everything else is rejected -/
def loggingLevel (value : Str) : Except ConvErr Int :=
  let s := lower value
  match levelNames.find? (fun p => p.1.toList == s) with
  | some (_, n) => .ok n
  | none =>
    match pyInt s with
    | some v => if 0 ≤ v ∧ v ≤ 50 then .ok v else .error .valueError
    | none => .error .valueError

end ZCV.LogSpec
