import ZCV.Model.Elab
import ZCV.Spec.Datatypes
/-!
C11, "a section type that extends another equals the type with the base's keys and sections written out first": the
written-out form of a schema document, as a transformation of the element tree.

`<sectiontype name=d extends=b ATTRS> CHILDREN </sectiontype>` becomes
`<sectiontype name=d ATTRS-without-extends [keytype=b's] [datatype=b's]> b's key/section elements ++ CHILDREN </sectiontype>`
where `b's` refers to the (already written-out) base type: its `keytype` / `datatype` attributes are inherited unless
the derived type gives its own; its `<key>`, `<multikey>`, `<section>`, `<multisection>` elements are copied in front,
its `<description>` / `<example>` and its `implements` are not.  A type whose `extends` does not name (up to the
normalisation of `basic-key`) an earlier `<sectiontype>` of the same document is left as it is.
-/
namespace ZCV.Elab
open ZCV

/-- the elements of a section type that an extending type inherits -/
def inheritedTags : List Str := ["key".toList, "multikey".toList, "section".toList, "multisection".toList]

def inheritedChildren : List Node → List Node
  | [] => []
  | .elem t a c :: r => if inheritedTags.contains t then .elem t a c :: inheritedChildren r else inheritedChildren r
  | .text _ :: r => inheritedChildren r

/-- what is remembered of an earlier `<sectiontype>`: normalised name, written-out attributes and children -/
abbrev XTable := List (Str × Attrs × List Node)

/-- `keytype` / `datatype` of the base, when the derived type has none of its own -/
def inheritAttr (own base : Attrs) (k : String) : Attrs :=
  match attr own k with
  | some _ => []
  | none => match attr base k with
    | some v => [(k.toList, v)]
    | none => []

/-- the written-out attributes and children of a `<sectiontype>` with attributes `a` and children `c` -/
def expandType (tbl : XTable) (a : Attrs) (c : List Node) : Attrs × List Node :=
  match attr a "extends" with
  | none => (a, c)
  | some b =>
    match DTSpec.basicKey b with
    | .error _ => (a, c)
    | .ok nb =>
      match tbl.find? (·.1 == nb) with
      | none => (a, c)
      | some (_, ba, bc) =>
        (a.filter (fun p => p.1 != "extends".toList) ++ inheritAttr a ba "keytype" ++ inheritAttr a ba "datatype",
         inheritedChildren bc ++ c)

def remember (tbl : XTable) (a : Attrs) (c : List Node) : XTable :=
  match attr a "name" with
  | none => tbl
  | some n =>
    match DTSpec.basicKey n with
    | .error _ => tbl
    | .ok nn => tbl ++ [(nn, a, c)]

/-- the children of `<schema>`, left to right -/
def expandChildren (tbl : XTable) : List Node → List Node
  | [] => []
  | .elem t a c :: r =>
    if t == "sectiontype".toList then
      let ac := expandType tbl a c
      .elem t ac.1 ac.2 :: expandChildren (remember tbl ac.1 ac.2) r
    else .elem t a c :: expandChildren tbl r
  | .text s :: r => .text s :: expandChildren tbl r

/-- the written-out form of a schema document -/
def expandExtends : Node → Node
  | .elem t a c => .elem t a (expandChildren [] c)
  | n => n

end ZCV.Elab
