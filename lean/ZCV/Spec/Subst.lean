import ZCV.Base
/-!
The documented replacement function (docs/using-zconfig.rst, property C04), by
recursion on the text.  No regular expression, no index arithmetic.
-/
namespace ZCV.SubstSpec
open ZCV

inductive Err where
  | syntax (code : Nat)
  | missing (source name : Str)
deriving Repr, DecidableEq

/-- a name is a letter or underscore … -/
def isNameStart (c : Char) : Bool := isAsciiLetter c || c == '_'
/-- … followed by letters, digits and underscores -/
def isNameChar (c : Char) : Bool := isAsciiLetter c || isAsciiDigit c || c == '_'

/-- the maximal name at the head of `s`, and what follows it -/
def nameSplit (s : Str) : Option (Str × Str) :=
  match s with
  | c :: t => if isNameStart c then some (c :: t.takeWhile isNameChar, t.dropWhile isNameChar) else none
  | [] => none

theorem len_dropWhile_le (p : Char → Bool) (l : Str) : (l.dropWhile p).length ≤ l.length := by
  induction l with
  | nil => simp
  | cons a l ih => simp only [List.dropWhile_cons]; split <;> simp <;> omega

theorem nameSplit_len (t name rest : Str) (h : nameSplit t = some (name, rest)) :
    rest.length < t.length := by
  cases t with
  | nil => simp [nameSplit] at h
  | cons c r =>
    simp only [nameSplit] at h
    split at h
    · simp at h; obtain ⟨_, h2⟩ := h; subst h2
      have := len_dropWhile_le isNameChar r
      simp; omega
    · simp at h

/-- `src` is the whole source text (carried by the replacement error) -/
def spec (defs env : Str → Option Str) (src : Str) : Str → Except Err Str
  | [] => .ok []
  | '$' :: t =>
    match t with
    | [] => .error (.syntax 0)                         -- trailing lone '$'
    | '$' :: r => (spec defs env src r).map ('$' :: ·)  -- '$$' → '$'
    | '{' :: r =>
      match _h : nameSplit r with
      | none => .error (.syntax 1)
      | some (name, '}' :: r') =>
        match defs (lower name) with                    -- mapping: lower-cased name
        | none => .error (.missing src name)
        | some v => (spec defs env src r').map (v ++ ·)  -- replacement is not rescanned
      | some (_, _) => .error (.syntax 2)               -- unterminated '${'
    | '(' :: r =>
      match _h : nameSplit r with
      | none => .error (.syntax 3)
      | some (name, ')' :: r') =>
        match env name with                             -- environment: case preserved
        | none => .error (.missing src name)
        | some v => (spec defs env src r').map (v ++ ·)
      | some (_, _) => .error (.syntax 4)
    | c :: r =>
      match _h : nameSplit (c :: r) with
      | none => .error (.syntax 5)                      -- '$' followed by anything else
      | some (name, r') =>
        match defs (lower name) with
        | none => .error (.missing src name)
        | some v => (spec defs env src r').map (v ++ ·)
  | c :: t => (spec defs env src t).map (c :: ·)
termination_by s => s.length
decreasing_by
  all_goals simp_wf
  all_goals first
    | omega
    | (have := nameSplit_len _ _ _ _h; simp at this ⊢; omega)

def substituteSpec (defs env : Str → Option Str) (s : Str) : Except Err Str := spec defs env s s

def isnameSpec (s : Str) : Bool :=
  match s with
  | c :: t => isNameStart c && t.all isNameChar
  | [] => false

end ZCV.SubstSpec
