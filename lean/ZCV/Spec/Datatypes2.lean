import ZCV.Spec.Datatypes
/-!
Documented contracts of the remaining standard datatypes (docs/standard-datatypes.rst, property C09), as grammars:
`integer` (what Python's `int(str)` accepts and the value it gives), `float` (what `float(str)` accepts),
`string-list` (`str.split()`).  Nothing here refers to the functions of the model (`pyInt`, `splitWS`, `floatOk`);
only the character predicates `pySpace` (`str.isspace`), `intSpace` (the white space `int()`/`float()` skip: `isspace` minus the
generated table `Gen.intSpaceExcluded`, U+001C–U+001F on CPython) and `pyDigitVal` (Unicode decimal digit value) are shared.
-/
namespace ZCV.DTSpec
open ZCV

/-! ## integer literals -/

/-- decimal digits of any `Nd` script with single underscores between digits: `body` together with the digit values,
    most significant first.  A body is a digit; or a digit followed by a body; or a digit, `_`, and a body. -/
inductive IntBody : Str → List Nat → Prop
  | one (c : Char) (v : Nat) : pyDigitVal c = some v → IntBody [c] [v]
  | cons (c : Char) (v : Nat) (t : Str) (ds : List Nat) :
      pyDigitVal c = some v → IntBody t ds → IntBody (c :: t) (v :: ds)
  | under (c : Char) (v : Nat) (t : Str) (ds : List Nat) :
      pyDigitVal c = some v → IntBody t ds → IntBody (c :: '_' :: t) (v :: ds)

/-- the number written by the digits `ds` (most significant first) -/
def decimal : List Nat → Nat
  | [] => 0
  | d :: ds => d * 10 ^ ds.length + decimal ds

def AllSpace (g : Str) : Prop := ∀ c ∈ g, pySpace c = true
def NoSpace (w : Str) : Prop := ∀ c ∈ w, pySpace c = false
/-- white space that `int(str)` / `float(str)` skip around a literal: `str.isspace` characters other than the
    generated exclusions (the separator controls U+001C–U+001F are white space for `strip`/`split` and NOT here) -/
def AllIntSpace (g : Str) : Prop := ∀ c ∈ g, intSpace c = true

/-- an optional sign -/
def IsSign (sg : Str) : Prop := sg = [] ∨ sg = ['+'] ∨ sg = ['-']

/-- `s` is an integer literal denoting `n`: optional whitespace (of the kind `int` skips, `AllIntSpace`), optional
    sign, digits with single underscores between digits, optional whitespace -/
def IntLit (s : Str) (n : Int) : Prop :=
  ∃ pre sg body post ds, s = pre ++ sg ++ body ++ post ∧ AllIntSpace pre ∧ AllIntSpace post ∧ IntBody body ds ∧
    (((sg = [] ∨ sg = ['+']) ∧ n = Int.ofNat (decimal ds)) ∨ (sg = ['-'] ∧ n = - Int.ofNat (decimal ds)))

/-- the documented `integer` datatype -/
def IsInteger (s : Str) (r : R Int) : Prop :=
  (∃ n, IntLit s n ∧ r = .ok n) ∨ ((¬ ∃ n, IntLit s n) ∧ r = .error .valueError)

/-! ## float literals (acceptance only) -/

/-- digits with single underscores between digits -/
def Digits (d : Str) : Prop := ∃ ds, IntBody d ds

/-- `digits`, `digits.`, `.digits` or `digits.digits` -/
inductive Mantissa : Str → Prop
  | int (a : Str) : Digits a → Mantissa a
  | intDot (a : Str) : Digits a → Mantissa (a ++ ['.'])
  | dotFrac (b : Str) : Digits b → Mantissa ('.' :: b)
  | intDotFrac (a b : Str) : Digits a → Digits b → Mantissa (a ++ '.' :: b)

/-- nothing, or `e`/`E`, an optional sign and digits -/
inductive Exponent : Str → Prop
  | none : Exponent []
  | exp (e : Char) (sg d : Str) : (e = 'e' ∨ e = 'E') → IsSign sg → Digits d → Exponent (e :: (sg ++ d))

def FloatNum (t : Str) : Prop := ∃ mant ex, t = mant ++ ex ∧ Mantissa mant ∧ Exponent ex

/-- `inf`, `infinity`, `nan` in any (ASCII) letter case -/
def FloatWord (t : Str) : Prop :=
  asciiLower t = "inf".toList ∨ asciiLower t = "infinity".toList ∨ asciiLower t = "nan".toList

/-- what `float(str)` accepts: optional whitespace (`AllIntSpace`: the same set `int` skips), optional sign, a number
    or one of the special words, optional whitespace -/
def FloatLit (s : Str) : Prop :=
  ∃ pre sg t post, s = pre ++ sg ++ t ++ post ∧ AllIntSpace pre ∧ AllIntSpace post ∧ IsSign sg ∧ (FloatWord t ∨ FloatNum t)

/-! ## whitespace-separated words -/

/-- `ws` are the words of `s`: `s` is whitespace, then a non-empty whitespace-free word, then (the end, or whitespace
    and) the remaining words.  Words are therefore the MAXIMAL runs of non-whitespace. -/
inductive Words : Str → List Str → Prop
  | nil (g : Str) : AllSpace g → Words g []
  | word (g w rest : Str) (ws : List Str) :
      AllSpace g → w ≠ [] → NoSpace w → (rest = [] ∨ ∃ c t, rest = c :: t ∧ pySpace c = true) →
      Words rest ws → Words (g ++ w ++ rest) (w :: ws)

end ZCV.DTSpec
