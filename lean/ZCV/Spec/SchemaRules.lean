import ZCV.Model.Elab
import ZCV.Spec.Datatypes
/-!
# The static rules of the schema language, written rule by rule (property C10)

`DocRules env kind root` says that the element tree `root` is a rule-abiding schema document; `DocRulesN env n kind root`
that it is so together with the components it pulls in by `<import package=…>` (looked up in `env.comps`, nested at most
`n` deep; `DocRules` is `n = 0`).  The judgement is written from the statement of property C10 and from the
documentation of the schema language, one named Boolean rule per clause of the statement; no parser state, no stack, no
exception classes.  Two things are needed besides the rules themselves:

* the **signature** a document declares, read off its elements by total functions (`typeNameOf`, `keytypeOf`,
  `keyMember`, `sectMember`, `sectiontypeSig`, `topAfter`): the names of the types declared so far and, for a concrete
  type, its key type and its members (inherited ones first) — because "defined before use", "inherited names included"
  and "defaults re-normalised under a derived key type" speak about what earlier elements declared;
* a walk over the children of a container in document order (`membersOK`, `topItemsOK`) that hands every element the
  signature of what precedes it (and, for `<import>`, the list of the components merged so far: a component is merged
  once).

Restriction: `extends=` on `<schema>` (base schemas) is outside this judgement (`noExtends`; `standalone`: moreover no
`<import>` child, i.e. ONE document).

Proved in `ZCV/Props/C10.lean`: for a tree without `extends` on the document element, the loader model with recursion
bound `fuel` accepts it if and only if `DocRulesN env fuel .schema` holds (`C10_accepted_iff_rules_imports`); for a
standalone tree, if and only if `DocRules env .schema` holds, whatever the bound (`C10_accepted_iff_rules`).

## The rules

From the statement of C10:

1. unique type names, after basic-key normalisation — `typeNameOK` (against all types of the signature so far: those of
   imported components included)
2. per container, unique key names (as normalised by the key type of the container in which they are *declared*) and
   unique attribute names, inherited ones included — `keyFree`, `attrFree` (the walk starts a derived type with the
   members of its base)
3. types defined before use: `type` of `<section>`/`<multisection>` (`typeRefOK`; the type being defined counts as
   defined inside its own body), `extends` (`extendsOK`), `implements` (`implementsOK`)
4. `extends` names a concrete type, `implements` an abstract one — same two rules
5. a wildcard name (`*`, `+`) carries a non-empty `attribute` — `wildHasAttr`; `*` is not a key name — in `keyOK`
6. multisections are named `*` or `+` — in `sectionOK`
7. no default on a required key, neither `default=` nor `<default>` elements — `noDefaultIfRequired`
8. `<default key=…>` exactly for `+` keys — `defaultKeying`; the keys of the defaults of a `+` key are accepted by the
   key type and, for a single-valued key, pairwise distinct after normalisation — `defaultKeysOK`, checked under the
   container's key type and again under the key type of every type derived from it (`inheritedDefaultsOK`)
9. `required` is `yes` or `no` — `requiredOK`
10. element nesting as in `Gen.allowedParents` (`nestingOK`), document element `schema` / `component`, text between
   elements blank (`blank`), only text inside the character-data elements (`isText`)
11. well-formed names: type names, `extends`, `implements`, `handler` are basic-keys (`typeNameOK`, `handlerOK`, …);
   `attribute` is an identifier not starting with `getSection` (`attributeWF`); a name is given and not empty
   (`nameGiven`); a fixed name is accepted by the container's key type (`fixedNameOK`); datatype names are
   resolvable through `env` (`dtAttrOK`, `resolve`)

Further rules the code enforces and the statement does not name ("the static rules" — its list is not exhaustive):

* F1 `prefix` is a dotted name on `<schema>`/`<component>`, a dotted name optionally preceded by `.` on
  `<sectiontype>` — `prefixOK`
* F2 at most one `<description>` and one `<example>` per element — `onceOK`, `descOnce`; `<metadefault>` may be
  repeated; inside a component the loader does not enforce the rule for `<description>` (`strict = false`)
* F3 a fixed name without `attribute` must, after normalisation, be a basic-key that becomes an identifier when `-` is
  replaced by `_` (that is the attribute name it gets) — `fixedNameOK`
* F4 a fixed key name must not be normalised to the empty string — `keyOK`; a fixed section name must not be
  normalised to `*` or `+` — `sectionOK`
* F5 where defaults are written: a single-valued key with a fixed name takes its default from the `default` attribute
  only (`<default>` elements are refused: the key object is already finished); a `<multikey>` from `<default>` elements
  only; a `+` key never from the `default` attribute — `defaultPlacement`, `defaultKeying`
* F6 `<import>`: `package` given and `src` not (import by URL is not modelled), `file` without directory part, no
  empty segment in the package name, nothing but blank text inside; the package exists; a component already merged is
  not read again; otherwise its file exists and the component document obeys the rules where it is merged —
  `importWF`, `importOK`
-/
namespace ZCV.SchemaRules
open ZCV ZCV.Elab

/-! ## what a document declares: the signature -/

/-- a member (key or section slot) of a container, as far as the rules are concerned -/
structure Member where
  /-- the key it is stored under: the normalised name; `none` for a section slot named `*` / `+` -/
  key : Option Str
  /-- the attribute name -/
  attr : Str
  /-- for a key named `+`: is it multi-valued, and the keys of its defaults as written, in document order -/
  plus : Option (Bool × List Str) := none
deriving Repr, DecidableEq

/-- what a type declaration contributes -/
inductive TySig where
  | abstract
  | concrete (keytype : Str) (members : List Member)
deriving Repr

/-- the types declared so far, in document order, by normalised name -/
abbrev Ctx := List (Str × TySig)
def Ctx.names (Γ : Ctx) : List Str := Γ.map (·.1)
def Ctx.lookup (Γ : Ctx) (n : Str) : Option TySig := (Γ.find? (·.1 == n)).map (·.2)

inductive Kind where
  | schema | component
deriving Repr, DecidableEq

/-! ## rule 10: nesting, text -/

/-- blank character data -/
def blank (s : Str) : Bool := (strip s).isEmpty

/-- the element `t` may stand directly below `parent`: the table lists `parent` for `t` -/
def nestingOK (parent t : Str) : Bool := Gen.allowedParents.any fun e => e.1 == t && e.2.contains parent

def isText : Node → Bool
  | .text _ => true
  | .elem _ _ _ => false

/-- a child of an element that only holds character-data elements (`<key>`, `<section>`, `<abstracttype>`, …):
blank text, or a character-data element the table allows there, holding text only -/
def cdataOK (parent : Str) : Node → Bool
  | .text s => blank s
  | .elem t _ c => nestingOK parent t && Gen.cdataTags.contains t && c.all isText

def leafBodyOK (parent : Str) (c : List Node) : Bool := c.all (cdataOK parent)

def countTag (tag : Str) (c : List Node) : Nat :=
  c.countP fun n => match n with | .elem t _ _ => t == tag | .text _ => false

/-- F2: at most one `<description>` (`strict`: in schema documents; the loader does not enforce this in components) -/
def descOnce (strict : Bool) (c : List Node) : Bool := !strict || countTag "description".toList c ≤ 1
/-- F2: at most one `<description>`, at most one `<example>` -/
def onceOK (strict : Bool) (c : List Node) : Bool := descOnce strict c && countTag "example".toList c ≤ 1

/-! ## rules 9, 11: attribute values -/

/-- rule 9 -/
def requiredOK (a : Attrs) : Bool :=
  match attr a "required" with
  | none => true
  | some v => v == "yes".toList || v == "no".toList

def isRequired (a : Attrs) : Bool := attr a "required" == some "yes".toList

/-- rule 11: `handler` is a basic-key -/
def handlerOK (a : Attrs) : Bool :=
  match attr a "handler" with
  | none => true
  | some v => DTSpec.isBasicKey v

/-- rule 11: what the datatype registry resolves a name to: a name with a dot is looked up by the environment, one
without must be a basic-key naming a stock datatype -/
def resolve (env : Env) (name : Str) : Option Str :=
  if name.contains '.' then
    match env.dotted name with
    | .found c => some c
    | _ => none
  else if DTSpec.isBasicKey name && Gen.stockNames.contains (asciiLower name) then some (asciiLower name)
  else none

/-- a class name starting with `.` is relative to the prefix in force -/
def classname (pfx v : Str) : Str := if v.head? == some '.' then pfx ++ v else v

/-- rule 11: a datatype-valued attribute (`datatype`, `keytype`, `valuetype`), when present, is resolvable -/
def dtAttrOK (env : Env) (pfx : Str) (a : Attrs) (k : String) : Bool :=
  match attr a k with
  | some v => (resolve env (classname pfx v)).isSome
  | none => true

/-- the key type of a container: its `keytype` attribute, else its base's key type, else `basic-key` -/
def keytypeOf (env : Env) (pfx : Str) (a : Attrs) (base : Option Str) : Str :=
  match attr a "keytype" with
  | some v => (resolve env (classname pfx v)).getD []
  | none => base.getD "basic-key".toList

/-- F1.  `outer = none`: the document element -/
def prefixOK (outer : Option Str) (a : Attrs) : Bool :=
  match attr a "prefix" with
  | some (c :: cs) => if outer.isNone then DTSpec.isDottedName (c :: cs) else DTSpec.isDottedSuffix (c :: cs)
  | _ => true

/-- the prefix in force inside the element -/
def prefixOf (outer : Option Str) (a : Attrs) : Str :=
  match attr a "prefix" with
  | some (c :: cs) => if c == '.' then outer.getD [] ++ (c :: cs) else c :: cs
  | _ => outer.getD []

/-! ## rules 5, 11: names of keys and sections -/

/-- the name as written (`dflt`: sections are named `*` when nothing is said) -/
def nameOf (a : Attrs) (dflt : Option Str) : Str :=
  match attr a "name" with
  | some v => v
  | none => dflt.getD []

def isWild (n : Str) : Bool := Gen.anyNames.contains n

/-- the name as stored: a wildcard as written, a fixed name as normalised by the container's key type -/
def storedName (env : Env) (kt n : Str) : Option Str :=
  if isWild n then some n
  else match env.conv.key kt n with
    | .ok r => some r
    | .error _ => none

def givenAttr (a : Attrs) : Option Str :=
  match attr a "attribute" with
  | some (c :: cs) => some (c :: cs)
  | _ => none

/-- the attribute name a fixed name gets when none is given -/
def derivedAttr (nm : Str) : Str := (asciiLower nm).map fun ch => if ch == '-' then '_' else ch

def attrOf (a : Attrs) (nm : Str) : Str := (givenAttr a).getD (derivedAttr nm)

/-- rule 11: a name is given and not empty -/
def nameGiven (a : Attrs) (dflt : Option Str) : Bool := !(nameOf a dflt).isEmpty

/-- rule 11: `attribute`, when given, is an identifier that does not start with the reserved prefix -/
def attributeWF (a : Attrs) : Bool :=
  match givenAttr a with
  | some x => DTSpec.isIdent x && !startsWith x Gen.reservedAttrPrefix
  | none => true

/-- rule 5: wildcard names carry a non-empty attribute -/
def wildHasAttr (a : Attrs) (n : Str) : Bool := !isWild n || (givenAttr a).isSome

/-- rule 11 / F3: a fixed name is accepted by the key type of its container; without `attribute` its normalised form
must yield an attribute name -/
def fixedNameOK (env : Env) (kt : Str) (a : Attrs) (n : Str) : Bool :=
  isWild n ||
    match storedName env kt n with
    | none => false
    | some nm => (givenAttr a).isSome || (DTSpec.isBasicKey nm && DTSpec.isIdent (derivedAttr nm))

/-! ## rule 2: uniqueness per container -/

/-- the (non-empty) key is not yet the key of a member -/
def keyFree (ms : List Member) (key : Option Str) : Bool := !(truthyKey key && ms.any fun m => m.key == key)
/-- the attribute name is not yet the attribute name of a member -/
def attrFree (ms : List Member) (x : Str) : Bool := !(ms.any fun m => m.attr == x)

/-! ## rules 7, 8: defaults -/

/-- the attributes of the `<default>` children -/
def defaultElems (c : List Node) : List Attrs :=
  c.filterMap fun n => match n with
    | .elem t a _ => if t == "default".toList then some a else none
    | .text _ => none

def defaultKeys (c : List Node) : List (Option Str) := (defaultElems c).map fun a => attr a "key"

/-- the keys of the defaults, as written -/
def plusKeys (c : List Node) : List Str := (defaultKeys c).filterMap id

/-- rule 7 -/
def noDefaultIfRequired (a : Attrs) (c : List Node) : Bool :=
  !isRequired a || ((attr a "default").isNone && (defaultElems c).isEmpty)

/-- rule 8 (and F5 for `+`): defaults are keyed exactly when the key is named `+` -/
def defaultKeying (nm : Str) (a : Attrs) (c : List Node) : Bool :=
  if nm == ['+'] then (attr a "default").isNone && (defaultKeys c).all Option.isSome
  else (defaultKeys c).all Option.isNone

/-- F5 -/
def defaultPlacement (multi : Bool) (nm : Str) (a : Attrs) (c : List Node) : Bool :=
  if multi then (attr a "default").isNone else (nm == ['+'] || (defaultElems c).isEmpty)

def normKey (env : Env) (kt k : Str) : Option Str :=
  match env.conv.key kt k with
  | .ok r => some r
  | .error _ => none

/-- rule 8: under the key type `kt`, every default key of a `+` key is accepted and — single-valued key — no two
normalise to the same key -/
def defaultKeysOK (env : Env) (kt : Str) (multi : Bool) (keys : List Str) : Bool :=
  keys.all (fun k => (normKey env kt k).isSome) && (multi || decide ((keys.map (normKey env kt)).Nodup))

/-- …for every `+` key among the members (the inherited ones, under the derived type's key type) -/
def inheritedDefaultsOK (env : Env) (kt : Str) (ms : List Member) : Bool :=
  ms.all fun m => match m.plus with
    | some (multi, keys) => defaultKeysOK env kt multi keys
    | none => true

/-! ## `<key>`, `<multikey>` -/

/-- the member a `<key>` / `<multikey>` element declares, in a container with key type `kt` -/
def keyMember (env : Env) (kt : Str) (multi : Bool) (a : Attrs) (c : List Node) : Member :=
  let nm := (storedName env kt (nameOf a none)).getD []
  { key := some nm, attr := attrOf a nm, plus := if nm == ['+'] then some (multi, plusKeys c) else none }

/-- all rules for a `<key>` (`multi = false`) / `<multikey>` element with attributes `a` and children `c`, in a
container with key type `kt` whose members so far are `ms`; `pfx` is the prefix in force; `strict`: see `descOnce` -/
def keyOK (env : Env) (strict : Bool) (pfx kt : Str) (ms : List Member) (multi : Bool) (a : Attrs) (c : List Node) :
    Bool :=
  let n := nameOf a none
  let nm := (storedName env kt n).getD []
  nameGiven a none && n != ['*'] && attributeWF a && wildHasAttr a n && fixedNameOK env kt a n && !nm.isEmpty
  && dtAttrOK env pfx a "datatype" && handlerOK a && requiredOK a
  && keyFree ms (some nm) && attrFree ms (attrOf a nm)
  && noDefaultIfRequired a c && defaultKeying nm a c && defaultPlacement multi nm a c
  && (nm != ['+'] || defaultKeysOK env kt multi (plusKeys c))
  && leafBodyOK (if multi then "multikey".toList else "key".toList) c && onceOK strict c

/-! ## `<section>`, `<multisection>` -/

/-- rule 3: `type` names a type that is already declared -/
def typeRefOK (names : List Str) (a : Attrs) : Bool :=
  match attr a "type" with
  | some (c :: cs) => names.contains (lower (c :: cs))
  | _ => false

def sectKey (env : Env) (kt : Str) (a : Attrs) : Option Str :=
  let n := nameOf a (some ['*'])
  if isWild n then none else some ((storedName env kt n).getD [])

def sectMember (env : Env) (kt : Str) (a : Attrs) : Member :=
  { key := sectKey env kt a, attr := attrOf a ((storedName env kt (nameOf a (some ['*']))).getD []) }

/-- all rules for a `<section>` (`multi = false`) / `<multisection>` element; `names`: the types declared so far -/
def sectionOK (env : Env) (strict : Bool) (kt : Str) (names : List Str) (ms : List Member) (multi : Bool) (a : Attrs)
    (c : List Node) : Bool :=
  let n := nameOf a (some ['*'])
  let nm := (storedName env kt n).getD []
  typeRefOK names a && handlerOK a && requiredOK a
  && nameGiven a (some ['*']) && attributeWF a && wildHasAttr a n && fixedNameOK env kt a n
  && (if multi then isWild n && Gen.multisectionNames.contains n else (isWild n || !isWild nm))
  && keyFree ms (sectKey env kt a) && attrFree ms (attrOf a nm)
  && leafBodyOK (if multi then "multisection".toList else "section".toList) c && onceOK strict c

/-! ## the body of a container -/

def isKeyTag (t : Str) : Bool := t == "key".toList || t == "multikey".toList
def isSectTag (t : Str) : Bool := t == "section".toList || t == "multisection".toList
def isNoteTag (t : Str) : Bool := t == "description".toList || t == "example".toList

/-- the rules for one element of a container body that is not a type declaration -/
def memberElemOK (env : Env) (strict : Bool) (parent pfx kt : Str) (names : List Str) (ms : List Member) (t : Str)
    (a : Attrs) (c : List Node) : Bool :=
  nestingOK parent t &&
    (if isKeyTag t then keyOK env strict pfx kt ms (t == "multikey".toList) a c
     else if isSectTag t then sectionOK env strict kt names ms (t == "multisection".toList) a c
     else if isNoteTag t then c.all isText
     else false)

/-- the member it declares, if any -/
def memberElemAdds (env : Env) (kt : Str) (t : Str) (a : Attrs) (c : List Node) : List Member :=
  if isKeyTag t then [keyMember env kt (t == "multikey".toList) a c]
  else if isSectTag t then [sectMember env kt a]
  else []

/-- the body of a `<sectiontype>`: every child obeys the rules, given the members declared before it -/
def membersOK (env : Env) (strict : Bool) (parent pfx kt : Str) (names : List Str) :
    List Member → List Node → Bool
  | _, [] => true
  | ms, .text s :: r => blank s && membersOK env strict parent pfx kt names ms r
  | ms, .elem t a c :: r =>
    memberElemOK env strict parent pfx kt names ms t a c &&
      membersOK env strict parent pfx kt names (ms ++ memberElemAdds env kt t a c) r

/-- the members a body declares -/
def membersOf (env : Env) (kt : Str) : List Node → List Member
  | [] => []
  | .text _ :: r => membersOf env kt r
  | .elem t a c :: r => memberElemAdds env kt t a c ++ membersOf env kt r

/-! ## type declarations -/

/-- the name a type is declared under -/
def typeNameOf (a : Attrs) : Str := asciiLower ((attr a "name").getD [])

/-- rules 1, 11: the name is a basic-key and, normalised, not yet declared -/
def typeNameOK (Γ : Ctx) (a : Attrs) : Bool :=
  DTSpec.isBasicKey ((attr a "name").getD []) && !Γ.names.contains (typeNameOf a)

def abstracttypeOK (strict : Bool) (Γ : Ctx) (a : Attrs) (c : List Node) : Bool :=
  typeNameOK Γ a && leafBodyOK "abstracttype".toList c && descOnce strict c

/-- the base of a `<sectiontype extends=…>`: key type and members of the concrete type it names -/
def baseOf (Γ : Ctx) (a : Attrs) : Option (Str × List Member) :=
  match attr a "extends" with
  | some b =>
    match Γ.lookup (asciiLower b) with
    | some (.concrete kt ms) => some (kt, ms)
    | _ => none
  | none => none

/-- rules 3, 4, 11: `extends` is a basic-key naming a concrete type declared earlier -/
def extendsOK (Γ : Ctx) (a : Attrs) : Bool :=
  match attr a "extends" with
  | some b => DTSpec.isBasicKey b && (baseOf Γ a).isSome
  | none => true

/-- rules 3, 4, 11: `implements` is a basic-key naming an abstract type declared earlier -/
def implementsOK (Γ : Ctx) (a : Attrs) : Bool :=
  match attr a "implements" with
  | some i =>
    DTSpec.isBasicKey i &&
      (match Γ.lookup (asciiLower i) with
       | some .abstract => true
       | _ => false)
  | none => true

def inheritedOf (Γ : Ctx) (a : Attrs) : List Member := ((baseOf Γ a).map (·.2)).getD []

def typeKeytype (env : Env) (outer : Str) (Γ : Ctx) (a : Attrs) : Str :=
  keytypeOf env (prefixOf (some outer) a) a ((baseOf Γ a).map (·.1))

/-- what a `<sectiontype>` declares: its key type, and the members of its base followed by its own -/
def sectiontypeSig (env : Env) (outer : Str) (Γ : Ctx) (a : Attrs) (c : List Node) : TySig :=
  .concrete (typeKeytype env outer Γ a) (inheritedOf Γ a ++ membersOf env (typeKeytype env outer Γ a) c)

/-- all rules for a `<sectiontype>` element; `outer`: the prefix in force around it, `Γ`: the types declared before -/
def sectiontypeOK (env : Env) (strict : Bool) (outer : Str) (Γ : Ctx) (a : Attrs) (c : List Node) : Bool :=
  let pfx := prefixOf (some outer) a
  let kt := typeKeytype env outer Γ a
  typeNameOK Γ a && prefixOK (some outer) a && extendsOK Γ a && implementsOK Γ a
  && dtAttrOK env pfx a "keytype" && dtAttrOK env pfx a "valuetype" && dtAttrOK env pfx a "datatype"
  && inheritedDefaultsOK env kt (inheritedOf Γ a)
  && membersOK env strict "sectiontype".toList pfx kt (Γ.names ++ [typeNameOf a]) (inheritedOf Γ a) c
  && onceOK strict c

/-! ## `<import package=…>`: components -/

/-- what is known about the component documents one level of nesting further down (the counterpart, on the side of the
rules, of the loader's `Hooks`): does a component document obey the rules when it is merged into a schema whose
signature is `Γ` and which has merged the components `comps` already — and what are signature and merged components
afterwards -/
structure Below where
  ok : Ctx → List Str → Node → Bool
  after : Ctx → List Str → Node → Ctx × List Str

/-- the package an `<import>` names; a name starting with `.` is relative to the prefix in force -/
def importPkg (pfx : Str) (a : Attrs) : Str := classname pfx (attrStrip a "package")
/-- the file it names, `component.xml` by default -/
def importFileOf (a : Attrs) : Str :=
  if (attrStrip a "file").isEmpty then "component.xml".toList else attrStrip a "file"
/-- the name under which the component is remembered as merged -/
def importSrc (pfx : Str) (a : Attrs) : Str := "package:".toList ++ importPkg pfx a ++ [':'] ++ importFileOf a

/-- the `<import>` element itself: `package` is given and `src` is not (import by URL is not modelled), `file` has no
directory part, no segment of the package name is empty, and the element holds nothing but blank text -/
def importWF (pfx : Str) (a : Attrs) (c : List Node) : Bool :=
  (attrStrip a "src").isEmpty && !(attrStrip a "package").isEmpty && !(attrStrip a "file").contains '/'
  && !(splitOnChar (importPkg pfx a) '.').contains []
  && c.all fun n => match n with
      | .text s => blank s
      | .elem _ _ _ => false

/-- the rules for an `<import>`: the package exists; a component that is merged already is not read again (and need not
even have a file); otherwise its file exists and the component document obeys the rules where it is merged -/
def importOK (env : Env) (below : Below) (pfx : Str) (Γ : Ctx) (comps : List Str) (a : Attrs) (c : List Node) : Bool :=
  importWF pfx a c &&
    match env.comps (importPkg pfx a) (importFileOf a) with
    | .notImportable => false
    | .notPackage => false
    | .noFile => comps.contains (importSrc pfx a)
    | .doc tree => comps.contains (importSrc pfx a) || below.ok Γ (comps ++ [importSrc pfx a]) tree

/-- signature and merged components after an `<import>` -/
def importAfter (env : Env) (below : Below) (pfx : Str) (Γ : Ctx) (comps : List Str) (a : Attrs) : Ctx × List Str :=
  if comps.contains (importSrc pfx a) then (Γ, comps)
  else match env.comps (importPkg pfx a) (importFileOf a) with
    | .doc tree => below.after Γ (comps ++ [importSrc pfx a]) tree
    | _ => (Γ, comps)

/-! ## the body of the document element -/

/-- the children of `<schema>` (`parent = "schema"`) / `<component>`: type declarations and imports extend the signature
`Γ` (and the list `comps` of merged components), the other elements are members of the top-level container (`ms`: its
members so far, `kt`: its key type) -/
def topItemsOK (env : Env) (below : Below) (strict : Bool) (parent pfx kt : Str) :
    Ctx → List Str → List Member → List Node → Bool
  | _, _, _, [] => true
  | Γ, comps, ms, .text s :: r => blank s && topItemsOK env below strict parent pfx kt Γ comps ms r
  | Γ, comps, ms, .elem t a c :: r =>
    if t == "abstracttype".toList then
      nestingOK parent t && abstracttypeOK strict Γ a c &&
        topItemsOK env below strict parent pfx kt (Γ ++ [(typeNameOf a, .abstract)]) comps ms r
    else if t == "sectiontype".toList then
      nestingOK parent t && sectiontypeOK env strict pfx Γ a c &&
        topItemsOK env below strict parent pfx kt (Γ ++ [(typeNameOf a, sectiontypeSig env pfx Γ a c)]) comps ms r
    else if t == "import".toList then
      nestingOK parent t && importOK env below pfx Γ comps a c &&
        topItemsOK env below strict parent pfx kt (importAfter env below pfx Γ comps a).1
          (importAfter env below pfx Γ comps a).2 ms r
    else
      memberElemOK env strict parent pfx kt Γ.names ms t a c &&
        topItemsOK env below strict parent pfx kt Γ comps (ms ++ memberElemAdds env kt t a c) r

/-- signature and merged components after the children of the document element -/
def topAfter (env : Env) (below : Below) (pfx : Str) : Ctx → List Str → List Node → Ctx × List Str
  | Γ, comps, [] => (Γ, comps)
  | Γ, comps, .text _ :: r => topAfter env below pfx Γ comps r
  | Γ, comps, .elem t a c :: r =>
    if t == "abstracttype".toList then topAfter env below pfx (Γ ++ [(typeNameOf a, .abstract)]) comps r
    else if t == "sectiontype".toList then
      topAfter env below pfx (Γ ++ [(typeNameOf a, sectiontypeSig env pfx Γ a c)]) comps r
    else if t == "import".toList then
      topAfter env below pfx (importAfter env below pfx Γ comps a).1 (importAfter env below pfx Γ comps a).2 r
    else topAfter env below pfx Γ comps r

/-- the rules for the attributes and the body of `<schema>` -/
def schemaRootOK (env : Env) (below : Below) (a : Attrs) (c : List Node) : Bool :=
  let pfx := prefixOf none a
  prefixOK none a && handlerOK a
  && dtAttrOK env pfx a "keytype" && dtAttrOK env pfx a "valuetype" && dtAttrOK env pfx a "datatype"
  && topItemsOK env below true "schema".toList pfx (keytypeOf env pfx a none) [] [] [] c && onceOK true c

/-- the rules for a component document that is merged into a schema with signature `Γ` and merged components `comps`.
A component has no top-level container (the table allows no member element below `component`), and inside a component
the loader does not enforce "at most one `<description>`" (`strict = false`).  (A `Node.text` is not a document; the
loader model treats it as an empty one, and so does this judgement — `env.comps` does not yield one for a real file.) -/
def componentOK (env : Env) (below : Below) (Γ : Ctx) (comps : List Str) : Node → Bool
  | .text _ => true
  | .elem t a c =>
    t == Gen.componentTopLevel && prefixOK none a &&
      topItemsOK env below false "component".toList (prefixOf none a) [] Γ comps [] c

def componentAfter (env : Env) (below : Below) (Γ : Ctx) (comps : List Str) : Node → Ctx × List Str
  | .text _ => (Γ, comps)
  | .elem _ a c => topAfter env below (prefixOf none a) Γ comps c

/-- components nested at most `n` deep (`n = 0`: no component can be read) -/
def level (env : Env) : Nat → Below
  | 0 => { ok := fun _ _ _ => false, after := fun Γ comps _ => (Γ, comps) }
  | n + 1 => { ok := componentOK env (level env n), after := componentAfter env (level env n) }

/-- the rule checker, for a document whose imports nest at most `n` deep -/
def docRulesN (env : Env) (n : Nat) : Kind → Node → Bool
  | _, .text _ => false
  | .schema, .elem t a c => t == Gen.schemaTopLevel && schemaRootOK env (level env n) a c
  | .component, .elem t a c => componentOK env (level env n) [] [] (.elem t a c)

/-- **the document, and the components it imports (nested at most `n` deep), obey the static rules of the schema
language**.  `.schema`: the judgement of `C10_rules_accepted_imports` / `C10_accepted_iff_rules_imports`.
`.component`: a component read on its own, from an empty signature (no theorem: components are read through
`<import>`, as part of a schema). -/
def DocRulesN (env : Env) (n : Nat) (kind : Kind) (root : Node) : Prop := docRulesN env n kind root = true

instance (env : Env) (n : Nat) (kind : Kind) (root : Node) : Decidable (DocRulesN env n kind root) :=
  inferInstanceAs (Decidable (_ = true))

/-- the rule checker for ONE document (`n = 0`: it is `false` on a document with an `<import>` that would have to read
a component) -/
def docRules (env : Env) : Kind → Node → Bool := docRulesN env 0

/-- **the document obeys the static rules of the schema language** (one document) -/
def DocRules (env : Env) (kind : Kind) (root : Node) : Prop := docRules env kind root = true

instance (env : Env) (kind : Kind) (root : Node) : Decidable (DocRules env kind root) :=
  inferInstanceAs (Decidable (_ = true))

/-- the tree is a document (an element) without `extends` on the document element -/
def noExtends : Node → Bool
  | .text _ => false
  | .elem _ a _ => (attr a "extends").isNone

/-- the tree is one document that pulls in no other document: an element without `extends` and without an `<import>`
child -/
def standalone : Node → Bool
  | .text _ => false
  | .elem _ a c =>
    (attr a "extends").isNone &&
      c.all fun n => match n with
        | .elem t _ _ => t != "import".toList
        | .text _ => true

end ZCV.SchemaRules
