import ZCV.Spec.Conforms
import ZCV.Model.Parser
import ZCV.Model.TreeLoad
/-!
Conformance of a configuration text that contains `%import` lines (properties C01 / C02 / C12).

`ZCV/Spec/Conforms.lean` says what it means to conform to ONE schema.  A text with `%import` lines is judged against a
schema that GROWS while the text is read: every `%import pkg` at the top level of the text adds the component of
package `pkg` to the schema of the load, and what comes after the line is judged by the extended schema.

* `TopItem` — the top level of a text: key lines and sections (`Item`), and `%import` lines;
* `extend` — what one `%import` does to a schema (written here from `loader.py: importSchemaComponent` /
  `schema.py: start_sectiontype`, independently of the model's `lsImport`; the two are proved equal);
* `schemaAt` — the schema in force after the first `n` top-level items;
* `denoteI` / `conformsI` — the configuration object the (growing) schema defines for the text: every top-level section
  is judged and valued — header, content, nested sections, section datatype — by the schema in force AT ITS POSITION,
  the top-level container is completed at the end, against the fully extended schema;
* `knownAt` — every section header (at any depth) names a type that the schema in force at its top-level position knows;
* `importsOK` — the schema of the load is well-formed (`schemaOK`) at the start and after every `%import` of the text;
  `lowTops` — section headers are spelled in lower case (what the parser delivers);
* `treeOfI` — the `TopItem`s of a text, built by the parser model with a context that only records structure.

Restriction: `%import` lines INSIDE a section (the code allows them) are not represented; `importsAtTop` says that a
text has none.
-/
namespace ZCV.Conf
open ZCV ZCV.Cfg

/-- the top level of a text after the parser: an item of the tree, or `%import pkg` (`pkg` after `$`-substitution) -/
inductive TopItem where
  | item (i : Item)
  | imp (pkg : Str)
deriving Repr, Inhabited

/-! ### what `%import` does to a schema -/

/-- `AbstractType.addsubtype`: the table entry `p` after the type named `ia.1` has declared `implements="ia.2"` -/
def registerOne (ia : Str × Str) (p : Str × TypeEntry) : Str × TypeEntry :=
  match p.2 with
  | .abstract_ n subs => if p.1 == ia.2 && !subs.contains ia.1 then (p.1, .abstract_ n (subs ++ [ia.1])) else p
  | _ => p

/-- the registrations the component asks for on behalf of its type `c` (`impls`: (concrete, abstract) pairs) -/
def register (impls : List (Str × Str)) (c : Str) (s : Schema) : Schema :=
  impls.foldl (fun sc ia => if ia.1 == c then { sc with types := sc.types.map (registerOne ia) } else sc) s

/-- one `<sectiontype>` / `<abstracttype>` of a component: refused if the name is taken, else added and registered -/
def addType (impls : List (Str × Str)) (s : Schema) (te : Str × TypeEntry) : Option Schema :=
  if s.types.any (·.1 == te.1) then none
  else some (register impls te.1 { s with types := s.types ++ [te] })

/-- the types of a component, in document order -/
def addTypes (impls : List (Str × Str)) : Schema → List (Str × TypeEntry) → Option Schema
  | s, [] => some s
  | s, te :: r => (addType impls s te).bind fun s' => addTypes impls s' r

/-- **`%import`** of a package: refused (`none`) unless the package provides a component; a component already among
    the schema's components changes nothing; otherwise its URL is recorded and its types are added -/
def extend (s : Schema) : Pkg → Option Schema
  | .component url types impls =>
    if s.components.contains url then some s
    else addTypes impls { s with components := s.components ++ [url] } types
  | _ => none

/-- the schema after all the `%import`s of `tops`, in order (`none` = one of them is refused) -/
def extendBy (pkgs : Str → Pkg) : Schema → List TopItem → Option Schema
  | s, [] => some s
  | s, .item _ :: r => extendBy pkgs s r
  | s, .imp p :: r => (extend s (pkgs p)).bind fun s' => extendBy pkgs s' r

/-- **the schema in force after the first `n` top-level items** -/
def schemaAt (s : Schema) (pkgs : Str → Pkg) (tops : List TopItem) (n : Nat) : Option Schema :=
  extendBy pkgs s (tops.take n)

/-- the text without its `%import` lines -/
def itemsOf : List TopItem → List Item
  | [] => []
  | .item i :: r => i :: itemsOf r
  | .imp _ :: r => itemsOf r

/-! ### the value a growing schema defines -/

/-- the values of the top-level items (one entry per `Item`, as `itemVals`), each computed with the schema in force
    at its position -/
def topVals (conv : Conv) (pkgs : Str → Pkg) : Schema → List TopItem → List (Option Val)
  | _, [] => []
  | s, .item i :: r => itemVal conv s i :: topVals conv pkgs s r
  | s, .imp p :: r =>
    match extend s (pkgs p) with
    | some s' => topVals conv pkgs s' r
    | none => []

/-- **denote, with imports**: every `%import` succeeds; each top-level section has the value that the schema in force
    at its position defines for it; the top-level container — keys, slots, occurrence rules, the schema's datatype —
    is completed against the fully extended schema -/
def denoteI (conv : Conv) (s : Schema) (pkgs : Str → Pkg) (tops : List TopItem) : Option Val :=
  match schemaAt s pkgs tops tops.length with
  | none => none
  | some sF =>
    match containerVal conv sF s.top none (itemsOf tops) (topVals conv pkgs s tops) with
    | some v => (conv.sect s.top.datatype v).toOption
    | none => none

/-- **Conforms, with imports** -/
def conformsI (conv : Conv) (s : Schema) (pkgs : Str → Pkg) (tops : List TopItem) : Bool :=
  (denoteI conv s pkgs tops).isSome

/-! ### "from the importing line onward" -/

mutual
/-- every section header of the item names a type the schema knows -/
def knownItem (s : Schema) : Item → Bool
  | .kv _ _ _ => true
  | .sect ty _ items => (s.gettype ty).isSome && knownItems s items
def knownItems (s : Schema) : List Item → Bool
  | [] => true
  | i :: r => knownItem s i && knownItems s r
end

/-- every `%import` succeeds and every section header, at any depth, names a type known to the schema in force at the
    position of its top-level item -/
def knownAt (pkgs : Str → Pkg) : Schema → List TopItem → Bool
  | _, [] => true
  | s, .item i :: r => knownItem s i && knownAt pkgs s r
  | s, .imp p :: r =>
    match extend s (pkgs p) with
    | some s' => knownAt pkgs s' r
    | none => false

/-! ### headers as the parser delivers them -/

mutual
/-- every section header of the item spells its type in lower case (the parser lower-cases headers) -/
def lowItem : Item → Bool
  | .kv _ _ _ => true
  | .sect ty _ items => lower ty == ty && lowItems items
def lowItems : List Item → Bool
  | [] => true
  | i :: r => lowItem i && lowItems r
end

def lowTops : List TopItem → Bool
  | [] => true
  | .item i :: r => lowItem i && lowTops r
  | .imp _ :: r => lowTops r

/-! ### well-formedness carried along the imports -/

/-- the schema of the load is well-formed at the start and after every `%import` of the text (components are written
    by the same schema loader as schemas: a component's types refer to types that exist when they are defined) -/
def importsOK (pkgs : Str → Pkg) : Schema → List TopItem → Bool
  | s, [] => schemaOK s
  | s, .item _ :: r => importsOK pkgs s r
  | s, .imp p :: r =>
    schemaOK s &&
    match extend s (pkgs p) with
    | some s' => importsOK pkgs s' r
    | none => true

/-! ### the top-level items of a text -/

/-- state of the structure-recording context: finished top-level items (most recent first), open sections (innermost
    first, each with its items so far, most recent first), and whether an `%import` was met inside a section -/
structure TBI where
  tops : List TopItem
  stack : List (Str × Option Str × List Item)
  nested : Bool

def tbiStart (s : TBI) (ty : Str) (nm : Option Str) : M TBI := .ok { s with stack := (ty, nm, []) :: s.stack }
def tbiStop (s : TBI) (_ : Str) (_ : Option Str) : M TBI :=
  match s.stack with
  | [] => .error (.internal "IndexError")
  | [(ty, nm, items)] => .ok { s with tops := .item (.sect ty nm items.reverse) :: s.tops, stack := [] }
  | (ty, nm, items) :: (pty, pnm, pitems) :: rest =>
    .ok { s with stack := (pty, pnm, Item.sect ty nm items.reverse :: pitems) :: rest }
def tbiValue (s : TBI) (k v : Str) (p : Pos) : M TBI :=
  match s.stack with
  | [] => .ok { s with tops := .item (.kv k v p) :: s.tops }
  | (ty, nm, items) :: rest => .ok { s with stack := (ty, nm, Item.kv k v p :: items) :: rest }
def tbiImport (s : TBI) (pkg : Str) : M TBI :=
  match s.stack with
  | [] => .ok { s with tops := .imp pkg :: s.tops }
  | _ :: _ => .ok { s with nested := true }

def treeCtxI : PCtx TBI :=
  { start := tbiStart, stop := tbiStop, value := tbiValue, imp := tbiImport, canInclude := true, canDefine := true }

/-- the parse of a text with the structure-recording context -/
def parseI (env : Env) (url : Option Str) (lines : List Str) : M (PS TBI) :=
  let active := match url with | some u => if u == [] then [] else [u] | none => []
  parseLines 64 env treeCtxI active url lines 0 { ctx := { tops := [], stack := [], nested := false }, stack := [], defs := [] }

/-- **the top-level items of a text** (lines, `%define`s, `%include`s of any depth), or the parser-level rejection;
    an `%import` met inside a section is NOT recorded (see `importsAtTop`) -/
def treeOfI (env : Env) (url : Option Str) (lines : List Str) : M (List TopItem) :=
  (parseI env url lines).map fun ps => ps.ctx.tops.reverse

/-- no `%import` line is met while a section is open (neither in the text nor in what it includes) -/
def importsAtTop (env : Env) (url : Option Str) (lines : List Str) : Prop :=
  ∀ ps, parseI env url lines = .ok ps → ps.ctx.nested = false

end ZCV.Conf
