import ZCV.SExp
import ZCV.Model.Matcher
/-! Decoding requests / encoding answers for the config model (driver side). -/
namespace ZCV.Codec
open ZCV ZCV.SExp ZCV.Cfg

def optStr : SExp → Option Str
  | .str s => some s
  | _ => none

def getBool : SExp → Bool
  | .atom "t" => true
  | _ => false

def decVI : SExp → Option VI
  | .list [.atom "vi", .str v, l, u] => (getInt? l).map fun ln => { value := v, pos := { line := ln, url := optStr u } }
  | _ => none

def decDefault : SExp → Option Default
  | .atom "none" => some .none
  | .list [.atom "one", v] => (decVI v).map .one
  | .list (.atom "many" :: vs) => (vs.mapM decVI).map .many
  | .list (.atom "keyed" :: kvs) =>
    (kvs.mapM fun (e : SExp) => match e with | .list [.str k, v] => (decVI v).map fun x => (k, x) | _ => none).map .keyed
  | .list (.atom "keyedmany" :: kvs) =>
    (kvs.mapM fun (e : SExp) => match e with | .list [.str k, .list vs] => (vs.mapM decVI).map fun x => (k, x) | _ => none).map .keyedMany
  | _ => none

def decInfo : SExp → Option Info
  | .list [.atom "key", .str name, .str attr, multi, mn, .str dt, d, h] => do
    let mn ← getNat? mn
    let d ← decDefault d
    pure (.key { name := name, attr := attr, multi := getBool multi, minOccurs := mn, dt := dt, dflt := d, handler := optStr h })
  | .list [.atom "sect", .str name, .str attr, multi, mn, .str ty, h] => do
    let mn ← getNat? mn
    pure (.sect { name := name, attr := attr, multi := getBool multi, minOccurs := mn, ty := ty, handler := optStr h })
  | _ => none

def decSType : SExp → Option SType
  | .list [.atom "stype", nm, .str kt, .str dt, .list ch] => do
    let children ← ch.mapM fun
      | .list [k, i] => (decInfo i).map fun x => (optStr k, x)
      | _ => none
    pure { name := optStr nm, keytype := kt, datatype := dt, children := children }
  | _ => none

def decTypeEntry : SExp → Option TypeEntry
  | .list [.atom "concrete", t] => (decSType t).map .concrete
  | .list [.atom "abstract", .str n, .list subs] => (subs.mapM getStr?).map (.abstract_ n)
  | _ => none

def decTypes (xs : List SExp) : Option (List (Str × TypeEntry)) :=
  xs.mapM fun
    | .list [.str n, te] => (decTypeEntry te).map fun x => (n, x)
    | _ => none

def decSchema : SExp → Option Schema
  | .list [.atom "schema", .list types, top, h, .list comps] => do
    let ts ← decTypes types
    let top ← decSType top
    let cs ← comps.mapM getStr?
    pure { types := ts, top := top, handler := optStr h, components := cs }
  | _ => none

def decPkg : SExp → Option Pkg
  | .atom "notimportable" => some .notImportable
  | .atom "notpackage" => some .notPackage
  | .atom "nocomponent" => some .noComponent
  | .atom "illegalname" => some .illegalName
  | .list [.atom "component", .str url, .list types, .list impls] => do
    let ts ← decTypes types
    let is ← impls.mapM fun | .list [.str a, .str b] => some (a, b) | _ => none
    pure (.component url ts is)
  | _ => none

def decPkgs (xs : List SExp) : Option (Str → Pkg) := do
  let tbl ← xs.mapM fun | .list [.str n, p] => (decPkg p).map fun x => (n, x) | _ => none
  pure fun n => match tbl.find? (·.1 == n) with | some p => p.2 | none => .notImportable

def decResources (xs : List SExp) : Option (Str → Option (List Str)) := do
  let tbl ← xs.mapM fun | .list [.str u, .list ls] => (ls.mapM getStr?).map fun x => (u, x) | _ => none
  pure fun u => (tbl.find? (·.1 == u)).map (·.2)

def decResolve (xs : List SExp) : Option (Option Str → Str → Resolved) := do
  let tbl ← xs.mapM fun
    | .list [b, .str a, .list [.atom "url", .str u]] => some (optStr b, a, Resolved.url u)
    | .list [b, .str a, .atom "fragment"] => some (optStr b, a, Resolved.fragment)
    | _ => none
  pure fun b a => match tbl.find? (fun e => e.1 == b && e.2.1 == a) with | some e => e.2.2 | none => .unknown

def decEnv (xs : List SExp) : Str → Option Str := fun k =>
  xs.findSome? fun
    | .list [.str a, .str b] => if a == k then some b else none
    | _ => none

def decOverrides (xs : List SExp) : Option (List Str) := xs.mapM getStr?

partial def encVal : Val → SExp
  | .none => .atom "none"
  | .str s => .list [.atom "s", .str s]
  | .int i => .list [.atom "i", ofInt i]
  | .bool b => .list [.atom "b", ofBool b]
  | .float l => .list [.atom "f", .str l]
  | .list xs => .list (.atom "list" :: xs.map encVal)
  | .map kvs => .list (.atom "map" :: kvs.map fun (k, v) => .list [.str k, encVal v])
  | .tup xs => .list (.atom "tup" :: xs.map encVal)
  | .sect ty nm attrs => .list [.atom "sect", .str ty, ofOpt .str nm, .list (attrs.map fun (k, v) => .list [.str k, encVal v])]
  | .wrap tag v => .list [.atom "wrap", .str tag, encVal v]

def kindName : Kind → String
  | .syntax => "syntax" | .conversion => "conversion" | .replacement => "replacement"
  | .substSyntax => "subst-syntax" | .plain => "plain" | .schema => "schema" | .schemaResource => "schema-resource"

def encFail : Fail → SExp
  | .cfg e => .list [.atom "cfg", .atom (kindName e.kind), ofOpt ofInt e.line, ofOpt .str e.url,
                     .str e.tag.toList, ofOpt .str e.value]
  | .internal x => .list [.atom "internal", .atom x]
  | .dtExc n => .list [.atom "dtexc", .str n]

def encAbstract (s : Schema) : SExp :=
  .list (s.types.filterMap fun (n, te) => match te with
    | .abstract_ _ subs => some (.list [.str n, ofStrs subs])
    | _ => none)

end ZCV.Codec
