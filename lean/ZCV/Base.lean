import ZCV.Gen.Unicode
/-!
Python string primitives, as total functions over `List Char`.
Everything here is *modelled* (mirrored by hand from CPython's documented
behaviour) and validated against the interpreter by the correspondence checks;
the three tables it consults are regenerated from the running interpreter.
-/
namespace ZCV

abbrev Str := List Char

/-- `str.isspace` on one character / `\s` / what `strip` and `split()` remove -/
def pySpace (c : Char) : Bool := Gen.spaceTbl.contains c.toNat

/-- `\d` (Unicode category Nd): ranges are runs of whole decades -/
def pyDigitVal (c : Char) : Option Nat :=
  (Gen.digitRanges.find? (fun r => r.1 ≤ c.toNat && c.toNat ≤ r.2)).map (fun r => (c.toNat - r.1) % 10)
def pyDigit (c : Char) : Bool := (pyDigitVal c).isSome

/-- `lo ≤ c ≤ hi` on code points -/
def inRange (lo hi : Char) (c : Char) : Bool := lo.toNat ≤ c.toNat && c.toNat ≤ hi.toNat
def isAsciiLetter (c : Char) : Bool := inRange 'a' 'z' c || inRange 'A' 'Z' c
def isAsciiDigit (c : Char) : Bool := inRange '0' '9' c

def asciiLowerChar (c : Char) : Char :=
  if 'A' ≤ c ∧ c ≤ 'Z' then Char.ofNat (c.toNat + 32) else c

/-- one-to-one part of `str.lower` outside ASCII, from the generated table
    (entries: first code point, count, step, signed delta) -/
def uniLowerNat (n : Nat) : Nat :=
  match Gen.lowerTbl.find? (fun e => e.1 ≤ n && n < e.1 + e.2.1 * e.2.2.1 && (n - e.1) % e.2.2.1 == 0) with
  | some e => (Int.ofNat n + e.2.2.2).toNat
  | none => n

def lowerChar (c : Char) : Char :=
  if c.toNat < 128 then asciiLowerChar c else Char.ofNat (uniLowerNat c.toNat)

def lower (s : Str) : Str := s.map lowerChar
def asciiLower (s : Str) : Str := s.map asciiLowerChar

/-- the white space `int(str)` and `float(str)` skip around a literal: `str.isspace` MINUS the generated table
    `intSpaceExcluded` (on CPython: U+001C–U+001F — non-ASCII white space is mapped to a blank, ASCII characters are
    left alone and the parsers skip C `isspace` only).  `str.strip`, `str.split()` and `\s` use `pySpace`. -/
def intSpace (c : Char) : Bool := pySpace c && !Gen.intSpaceExcluded.contains c.toNat

def lstrip (s : Str) : Str := s.dropWhile pySpace
def rstrip (s : Str) : Str := (s.reverse.dropWhile pySpace).reverse
def strip (s : Str) : Str := rstrip (lstrip s)

/-- `s.split()` : maximal runs of non-whitespace -/
def splitWSAux : Str → Str → List Str
  | cur, [] => if cur == [] then [] else [cur.reverse]
  | cur, c :: t =>
    if pySpace c then (if cur == [] then splitWSAux [] t else cur.reverse :: splitWSAux [] t)
    else splitWSAux (c :: cur) t
def splitWS (s : Str) : List Str := splitWSAux [] s

/-- `s.split(None, 1)` : first word, and the rest with leading whitespace removed
    (trailing whitespace kept), if any non-space remains -/
def splitWS1 (s : Str) : List Str :=
  let s1 := lstrip s
  if s1 == [] then []
  else
    let w := s1.takeWhile (fun c => !pySpace c)
    let r := lstrip (s1.dropWhile (fun c => !pySpace c))
    if r == [] then [w] else [w, r]

def startsWith (s p : Str) : Bool := s.take p.length == p
def endsWith (s p : Str) : Bool := p.length ≤ s.length && s.drop (s.length - p.length) == p

/-- `s[-k:]` for k > 0 -/
def lastN (s : Str) (k : Nat) : Str := s.drop (s.length - k)
/-- `s[:-k]` for k > 0 -/
def dropLastN (s : Str) (k : Nat) : Str := s.take (s.length - k)

/-- `s.rsplit(c, 1)` when `c ∈ s`: (before last c, after last c) -/
def rsplit1 (s : Str) (c : Char) : Str × Str :=
  let after := (s.reverse.takeWhile (· != c)).reverse
  (s.take (s.length - after.length - 1), after)

/-- what `int(str)` / `float(str)` look at: the text without the surrounding `intSpace` characters
    (NOT `str.strip()`: `'\x1c1'.strip() == '1'` and `int('\x1c1')` is a `ValueError`) -/
def lstripInt (s : Str) : Str := s.dropWhile intSpace
def rstripInt (s : Str) : Str := (s.reverse.dropWhile intSpace).reverse
def stripInt (s : Str) : Str := rstripInt (lstripInt s)

/-- `int(s)` for a `str` argument: skip the surrounding white space (`stripInt`), optional sign, digits of any
    Nd script with single underscores between digits; unbounded result -/
def pyDigits : Str → Option (List Nat)
  | [] => some []
  | c :: t =>
    if c = '_' then
      match t with
      | d :: _ => if pyDigit d then pyDigits t else none
      | [] => none
    else match pyDigitVal c with
      | some v => (pyDigits t).map (v :: ·)
      | none => none

def digitsVal (ds : List Nat) : Nat := ds.foldl (fun a d => a * 10 + d) 0

def pyNat (s : Str) : Option Nat :=
  match s with
  | [] => none
  | c :: _ => if pyDigit c then (pyDigits s).map digitsVal else none

def pyInt (s : Str) : Option Int :=
  match stripInt s with
  | '-' :: t => (pyNat t).map (fun n => - (Int.ofNat n))
  | '+' :: t => (pyNat t).map Int.ofNat
  | t => (pyNat t).map Int.ofNat

end ZCV
