import ZCV.Props.C11
