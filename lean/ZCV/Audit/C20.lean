import ZCV.Props.C20
open ZCV.Props.C20
#print axioms C20_level_spec
#print axioms C20_level_range
#print axioms C20_std_stream_options_refused
#print axioms C20_rotation_requires_old_files
#print axioms C20_closeFiles_closes_all_registered
#print axioms C20_level_table
#print axioms C20_level_case_insensitive
#print axioms C20_level_names_any_case
#print axioms C20_registry_invariant
#print axioms C20_reopen_exactly_live
#print axioms C20_close_exactly_live
#print axioms C20_dropped_never_touched
#print axioms C20_filehandler_decision_table
#print axioms C20_filehandler_decision
#print axioms C20_factory_memo
#print axioms C20_factory_idempotent
#print axioms C20_logger_setup
#print axioms C20_section_setup
#print axioms C20_logger_setup_any
#print axioms C20_configure_loggers
