import ZCV.Props.C20
open ZCV.Props.C20
#print axioms C20_level_spec
#print axioms C20_level_range
#print axioms C20_std_stream_options_refused
#print axioms C20_rotation_requires_old_files
#print axioms C20_closeFiles_closes_all_registered
