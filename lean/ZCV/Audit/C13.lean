import ZCV.Props.C13
open ZCV.Props.C13
#print axioms C13_start_keeps_schema
#print axioms C13_stop_keeps_schema
#print axioms C13_value_keeps_schema
#print axioms C13_parse_without_import_keeps_schema
