import ZCV.Props.C14
open ZCV.Props.C14
#print axioms C14_no_equals_refused
#print axioms C14_empty_component_refused
#print axioms C14_wellformed_accepted
