import ZCV.Props.C14
open ZCV.Props.C14
#print axioms C14_no_equals_refused
#print axioms C14_empty_component_refused
#print axioms C14_wellformed_accepted
#print axioms C14_override_eq_editNorm
#print axioms C14_override_eq_edit
#print axioms C14_override_eq_edit_outcome
#print axioms C14_rejected_iff
#print axioms C14_no_overrides
#print axioms C14_edit_tyCanon
#print axioms C14_override_denote
#print axioms C14_text_override_eq_edit
#print axioms C14_text_eq_tree
#print axioms C14_keyIdem_stock
#print axioms C14_verbatim
#print axioms C14_unknown_section_rejected
#print axioms C14_key_not_allowed_rejected
#print axioms C14_bad_value_is_conversion_error
#print axioms C14_bad_key_is_conversion_error
#print axioms C14_error_eq_edit_error
#print axioms C14_nonident_component_rejected
#print axioms C14_not_ovsOK_rejected
#print axioms C14_key_as_given_needs_idempotence
#print axioms Ex.edit1
