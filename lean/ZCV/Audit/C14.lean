import ZCV.Props.C14
