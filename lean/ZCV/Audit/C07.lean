import ZCV.Props.C07
open ZCV.Props.C07
#print axioms C07_lineShape_no_internal
