import ZCV.Props.C07
open ZCV.Props.C07
#print axioms C07_lineShape_no_internal
#print axioms C07_no_internal
#print axioms C07_no_internal_schemaOK
#print axioms C07_outcomes
#print axioms C07_no_internal_no_resources
#print axioms C07_schemaless_no_internal
#print axioms C07_schemaless_plain_no_internal
#print axioms C07_parser_no_internal
#print axioms ZCV.Props.C07.C07_validator_exit
#print axioms ZCV.Props.C07.C07_validator_status_zero_iff
#print axioms ZCV.Props.C07.C07_validator_escape
#print axioms ZCV.Props.C07.C07_validator_on_loads
