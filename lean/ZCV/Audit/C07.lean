import ZCV.Props.C07
open ZCV.Props.C07
#print axioms C07_lineShape_no_internal
#print axioms C07_no_internal
#print axioms C07_no_internal_schemaOK
#print axioms C07_outcomes
#print axioms C07_no_internal_no_resources
#print axioms C07_schemaless_no_internal
#print axioms C07_schemaless_plain_no_internal
#print axioms C07_parser_no_internal
