import ZCV.Props.C10
