import ZCV.Props.C03
open ZCV.Props.C03
#print axioms C03_keyvalue_rx_spec
#print axioms C03_section_rx_spec
#print axioms C03_classify_eq_spec
#print axioms C03_accept_iff_nested
#print axioms C03_events_preorder
#print axioms C03_tree_unique
#print axioms C03_reject_is_syntax
#print axioms C03_completable_mono
#print axioms C03_first_bad_line_unique
#print axioms C03_item_never_breaks
#print axioms C03_bad_line_breaks
#print axioms C03_closer_ok_iff_innermost
#print axioms C03_unclosed_shape
#print axioms C03_code_handle_key_value_eq
#print axioms C03_code_handle_directive_eq
#print axioms C03_code_keyvalue_spec
#print axioms C03_code_keyvalue_lineShape
#print axioms C03_code_directive_lineShape
#print axioms C03_code_toSpec_forgetTag
#print axioms C03_code_directive_classify
#print axioms C03_code_keyvalue_classify
