import ZCV.Props.C03
open ZCV.Props.C03
#print axioms C03_keyvalue_rx_spec
#print axioms C03_section_rx_spec
#print axioms C03_classify_eq_spec
