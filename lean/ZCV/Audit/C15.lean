import ZCV.Props.C15
