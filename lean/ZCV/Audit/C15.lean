import ZCV.Props.C15
open ZCV.Props.C15
#print axioms C15_strip_invariant
#print axioms C15_strip_invariant_model
#print axioms C15_empty_form_equiv
