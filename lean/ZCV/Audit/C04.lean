import ZCV.Props.C04
open ZCV.Props.C04
#print axioms C04_substitute_eq_spec
#print axioms C04_no_dollar_id
#print axioms C04_isname_spec
#print axioms C04_missing_carries_source
