import ZCV.Props.C04
open ZCV.Props.C04
#print axioms C04_substitute_eq_spec
#print axioms C04_no_dollar_id
#print axioms C04_isname_spec
#print axioms C04_missing_carries_source
#print axioms C04_one_construct
#print axioms C04_fates
#print axioms C04_replaced
#print axioms C04_dollar_dollar
#print axioms C04_case
#print axioms C04_no_rescan
#print axioms C04_no_rescan_braces
#print axioms C04_no_rescan_env
#print axioms C04_maximal_name
#print axioms C04_malformed
#print axioms C04_syntax_error_iff
#print axioms C04_malformed_iff
#print axioms C04_missing_first
#print axioms C04_missing_carries_name
