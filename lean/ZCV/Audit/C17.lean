import ZCV.Props.C17
open ZCV.Props.C17
#print axioms C17_value_roundtrip_spec
#print axioms C17_value_roundtrip
#print axioms C17_define_refused
