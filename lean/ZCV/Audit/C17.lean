import ZCV.Props.C17
open ZCV.Props.C17
#print axioms C17_value_roundtrip_spec
#print axioms C17_value_roundtrip
#print axioms C17_define_refused
#print axioms C17_include_refused
#print axioms C17_roundtrip
#print axioms C17_reload_same
#print axioms C17_roundtrip_sorted
#print axioms C17_print_stable
#print axioms C17_reload_fixed_point
#print axioms C17_loaded_is_wf
#print axioms C17_accepted_text_roundtrip
#print axioms C17_key_order_counterexample
#print axioms C17_env_counterexample
#print axioms C17_env_value_counterexample
