import ZCV.Props.C19
open ZCV.Props.C19
#print axioms C19_all_closed
#print axioms C19_open_close_count
#print axioms C19_no_fault_ok
