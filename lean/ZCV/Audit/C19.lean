import ZCV.Props.C19
open ZCV.Props.C19
#print axioms C19_all_closed
#print axioms C19_open_close_count
#print axioms C19_no_fault_ok
#print axioms C19_all_closed2
#print axioms C19_all_closed2_io
#print axioms C19_stream_closed_before_parse
#print axioms C19_stream_closed_at_once
#print axioms C19_active_restored
#print axioms C19_state_only_grows
#print axioms C19_schema_load_keeps_comps
#print axioms C19_state_restored_partial
#print axioms C19_later_load_unaffected_partial
#print axioms C19_failed_import_restores
#print axioms C19_marks_justified
#print axioms C19_failed_load_restores_partial
#print axioms C19_failed_load_restores_fails_after_successful_import
#print axioms C19_ok_config_load_marks_imports
#print axioms C19_ok_schema_load_cached
#print axioms C19_cache_irrelevant_to_outcome_partial
#print axioms C19_cache_relevant_with_faults
#print axioms C19_cache_relevant_without_faults
#print axioms C19_no_fault_ok2
