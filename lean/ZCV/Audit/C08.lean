import ZCV.Props.C08
open ZCV.Props.C08
#print axioms C08_synErr_position
