import ZCV.Props.C08
open ZCV.Props.C08
#print axioms C08_synErr_position
#print axioms C08_key_line_error_has_line
#print axioms C08_key_line_error_position
#print axioms C08_close_error_has_line
