import ZCV.Props.C01
open ZCV.Props.C01
#print axioms C01_isAllowedName_spec
