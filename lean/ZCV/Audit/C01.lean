import ZCV.Props.C01
open ZCV.Props.C01
#print axioms C01_isAllowedName_spec
#print axioms C01_key_routing
#print axioms C01_unknown_key_rejected
#print axioms C01_accept_iff_conforms
#print axioms C01_nonconforming_rejected
#print axioms C01_text_accept_iff_conforms
#print axioms C01_text_accept_iff_conforms'
#print axioms C01_end_to_end
#print axioms C01_end_to_end_stock
#print axioms ZCV.Elab.elab_types_keys_lower
#print axioms C01_load_accept_iff
#print axioms C01_load_accept_iff_norm
#print axioms C01_load_accept_iff_no_overrides
#print axioms C01_text_accept_iff_conforms_from_general
#print axioms C01_end_to_end_general
