import ZCV.Props.C16
