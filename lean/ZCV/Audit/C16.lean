import ZCV.Props.C16
open ZCV.Props.C16
#print axioms C16_stop_appends_own_entries
