import ZCV.Props.C16
open ZCV.Props.C16
#print axioms C16_stop_appends_own_entries
#print axioms C16_loadTreeH_value
#print axioms C16_handlers_postorder
#print axioms C16_accepted_handlers
#print axioms C16_text_handlers_postorder
#print axioms C16_len
#print axioms C16_text_len
#print axioms C16_values_are_tree_values
#print axioms C16_values_by_attribute
#print axioms C16_top_values
#print axioms C16_none_skipped
#print axioms C16_call_exactly_once
#print axioms C16_error_empty_log
#print axioms C16_all_or_nothing
#print axioms C16_refusals_are_configuration_errors
#print axioms C16_call_ok_iff
#print axioms C16_text_handlers_postorder'
#print axioms C16_text_len'
#print axioms C16_end_to_end
#print axioms C16_handlers_postorder_general
#print axioms C16_handlers_postorder_general_norm
#print axioms C16_text_handlers_postorder_from_general
#print axioms C16_general_call_exactly_once
#print axioms C16_general_all_or_nothing
#print axioms C16_end_to_end_general
