import ZCV.Props.C12
open ZCV.Props.C12
#print axioms C12_abstract_slot_admits_only_implementers
#print axioms C12_abstract_itself_refused
