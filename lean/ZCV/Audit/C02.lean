import ZCV.Props.C02
open ZCV.Props.C02
#print axioms C02_attrs_exact
#print axioms C02_value_eq_denote
#print axioms C02_text_value_eq_denote
#print axioms C02_text_value_eq_denote'
#print axioms C02_end_to_end
#print axioms C02_end_to_end_stock
#print axioms C02_load_value_eq
#print axioms C02_load_value_eq_norm
#print axioms C02_load_value_eq_no_overrides
#print axioms C02_text_value_eq_denote_from_general
#print axioms C02_end_to_end_general
