import ZCV.Props.C02
open ZCV.Props.C02
#print axioms C02_attrs_exact
#print axioms C02_value_eq_denote
#print axioms C02_text_value_eq_denote
#print axioms C02_text_value_eq_denote'
#print axioms C02_end_to_end
#print axioms C02_end_to_end_stock
