import ZCV.Props.C09
open ZCV.Props.C09
#print axioms C09_basicKey_spec
#print axioms C09_identifier_spec
#print axioms C09_dottedName_spec
#print axioms C09_dottedSuffix_spec
#print axioms C09_boolean_spec
#print axioms C09_portNumber_spec
#print axioms C09_byteSize_spec
#print axioms C09_timeInterval_spec
#print axioms C09_inetAddress_spec
#print axioms C09_socketAddress_spec
#print axioms C09_basicKey_idempotent
#print axioms C09_identifier_idempotent
