import ZCV.Props.C18
open ZCV.Props.C18
#print axioms C18_isPath_spec
#print axioms C18_urlnormalize_form
#print axioms C18_urlnormalize_idempotent
#print axioms C18_urlnormalize_fixed
#print axioms C18_unquote_quote
#print axioms C18_quote_roundtrip
#print axioms C18_pathToUrl_injective
#print axioms C18_pathToUrl_normal
#print axioms C18_isPath_of_nocolon
#print axioms C18_quoted_has_no_fragment
#print axioms C18_entry_points_agree
#print axioms C18_join_eq_resolve
#print axioms C18_join_eq_resolve_any
#print axioms C18_join_raw_eq_resolve
#print axioms C18_join_is_pathToUrl
#print axioms C18_zjoin_eq_join
#print axioms C18_join_absolute
#print axioms C18_normal_is_abs
#print axioms C18_join_nested
#print axioms C18_join_nested_url
#print axioms C18_join_nested_raw
#print axioms C18_resolve_compositional
