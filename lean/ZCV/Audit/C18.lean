import ZCV.Props.C18
open ZCV.Props.C18
#print axioms C18_isPath_spec
#print axioms C18_urlnormalize_form
#print axioms C18_urlnormalize_idempotent
#print axioms C18_urlnormalize_fixed
