import ZCV.Props.C06
open ZCV.Props.C06
#print axioms C06_unclosed_fragment_rejected
