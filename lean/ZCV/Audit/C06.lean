import ZCV.Props.C06
open ZCV.Props.C06
#print axioms C06_include_eq_inline
#print axioms C06_unclosed_fragment_rejected
#print axioms C06_stray_close_rejected
