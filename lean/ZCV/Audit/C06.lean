import ZCV.Props.C06
open ZCV.Props.C06
#print axioms C06_include_eq_inline
#print axioms C06_unclosed_fragment_rejected
#print axioms C06_stray_close_rejected
#print axioms C06_include_eq_inline_subst
#print axioms C06_include_eq_inline_nested
#print axioms C06_include_eq_inline_nested_ok
#print axioms C06_fuel_irrelevant
#print axioms C06_relative_to_includer
#print axioms C06_relative_nested
#print axioms C06_relative_nested_missing
#print axioms C06_definitions_flow
#print axioms C06_definitions_flow_text
#print axioms C06_include_eq_inline_nested_rev
