import ZCV.Props.C05
open ZCV.Props.C05
#print axioms C05_define_ok_iff
#print axioms C05_define_effect
#print axioms C05_redefine_keeps_value
#print axioms C05_define_eq_spec
#print axioms C05_legal_invariant
#print axioms C05_defines_fold
#print axioms C05_text_eq_spec
#print axioms C05_run_defs
#print axioms C05_use_sees_only_earlier
#print axioms C05_later_definition_not_seen
#print axioms C05_case_insensitive
#print axioms C05_case_insensitive_spec
#print axioms C05_reference_case_insensitive
#print axioms C05_shared_with_includes
#print axioms C05_include_defs_fold
#print axioms C05_fresh_per_load
#print axioms C05_fresh_per_load_error
