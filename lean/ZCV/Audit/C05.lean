import ZCV.Props.C05
open ZCV.Props.C05
#print axioms C05_define_ok_iff
#print axioms C05_define_effect
#print axioms C05_redefine_keeps_value
