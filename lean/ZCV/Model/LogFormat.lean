import ZCV.Base
/-!
# Classic (`%`) log formats: what `FormatterFactory` accepts at load time and what formatting a record does

Source: `/repo/src/ZConfig/components/logger/formatter.py` (`PercentStyle`, `_log_format_variables`,
`FormatterFactory.__init__` / `__call__`), CPython 3.12 `Objects/unicodeobject.c` (`PyUnicode_Format`,
`unicode_format_arg_parse`, `unicode_format_arg_format`, `formatchar`, `mainformatlong`, `formatfloat`) for
`str % mapping`, and `logging.PercentStyle.validate` (called by `logging.Formatter.__init__`).

The model was written together with a Python mirror and both were compared with the running code (Python 3.12.1):
the mirror on 108 000 random `fmt % dict` evaluations, THIS Lean model (run with `lean --run`) on 20 000 random
`fmt % dict` evaluations (exception CLASS included), on 5 000 formats against the real `FormatterFactory` (class of the
exception included) and on 900 formats through `ZConfig.loadConfigFile` — no difference.  `sampleVars`, `wordRanges` and
`validatorConvs` are copied from the running interpreter and belong in `ZCV/Gen`.

* `parse : Str → List Item` is TOTAL: CPython scans and evaluates one conversion specifier at a time, so a syntax error
  (`incomplete format`, `incomplete format key`, `unsupported format character`) only surfaces when evaluation reaches
  it.  A specifier that runs out of characters is kept as a partial item (`conv = none`, or `badKey`) and raises
  `ValueError` when evaluated — after the key lookup and the `*` arguments of that same specifier, as in CPython.
* `runItems` evaluates the items from left to right against a mapping, with the "next argument" state of
  `unicode_format_getnextarg` in mapping mode: the argument (initially the mapping itself, after `%(key)` the value
  found) can be consumed once.
* resource exhaustion (`MemoryError` for astronomically large widths / precisions) is outside the model.
* the int-to-decimal-string limit of CPython 3.12 (`sys.get_int_max_str_digits()` = 4300, task Y7): `str()`, `repr()`,
  `ascii()` of an `int` and the conversions `%d %i %u` raise `ValueError` as soon as the number has more than 4300
  decimal digits (`|n| ≥ 10^4300`; the sign does not count) — `strCheck`.  `%o %x %X` are not limited, `%c` and
  `%e … %G` fail earlier with `OverflowError`.  The same limit reaches a specifier WITHOUT `(key)` that formats the
  mapping itself (`'%s' % d` prints `repr()` of every value of `d`): `Arg.mapping`, `MappingPrints`.
  Compared with the interpreter (Python 3.12.1, task Y7, `val/validate.py` + `val/Validate.lean` run with
  `lake env lean --run`): two runs, 32 719 and 22 719 (format, record) pairs — the same 10 716 directed pairs (every
  conversion character × ints of 4299, 4300, 4301 and more digits of both signs × seven specifier shapes, keyed, bare,
  and inside an otherwise ordinary record) plus 22 003 resp. 12 003 random ones, 44 722 distinct pairs in all:
  `formatRunTable` against `fmt % dict` (exception CLASS included), `formatSafeTable` against
  `(fmt or '%(message)s') % dict` and against `formatMessage` of the formatter the real `FormatterFactory` returns
  (2 124 + 1 965 pairs with an accepted format), `loadCheck` / `accepts` against the real `FormatterFactory`
  (19 314 + 10 863 formats, class of the exception included) — no difference.  The model before this repair differs
  from the interpreter on 2 116 of the 32 719 pairs of the first run.
-/
namespace ZCV.LogFormat

/-- the exception classes `str % mapping` can raise on the values modelled here -/
inductive PyErr | valueError | typeError | keyError | overflowError
  deriving DecidableEq, Repr, Inhabited

instance : DecidableEq (Except PyErr Unit) := fun a b =>
  match a, b with
  | .ok _, .ok _ => isTrue rfl
  | .error e, .error e' => if h : e = e' then isTrue (by rw [h]) else isFalse (fun he => h (by cases he; rfl))
  | .ok _, .error _ => isFalse (fun he => by cases he)
  | .error _, .ok _ => isFalse (fun he => by cases he)

inductive FloatKind | finite | inf | nan
  deriving DecidableEq, Repr

/-- the values a record attribute can have, as far as `%` formatting can tell them apart:
    `other` = any object that is neither a number nor a `str` and whose `str()`/`repr()` work (tuple, dict, …) -/
inductive Value
  | str (s : Str)
  | int (n : Int)
  | float (k : FloatKind)
  | none
  | other
  deriving DecidableEq, Repr

/-- width / precision of a conversion specifier -/
inductive Spec | absent | num (n : Nat) | star
  deriving DecidableEq, Repr

/-- one piece of a format string.
    `field key flags width prec lenmod conv`: `%` `(key)`? flags* width? (`.` prec?)? [hlL]? conv;
    `conv = none`: the string ended before the conversion character ("incomplete format");
    `badKey s`: `%(` without the matching `)` ("incomplete format key"), `s` = the rest of the string after `%(`;
    necessarily the last item. -/
inductive Item
  | lit (s : Str)
  | percent
  | badKey (s : Str)
  | field (key : Option Str) (flags : Str) (width prec : Spec) (lenmod : Option Char) (conv : Option Char)
  deriving DecidableEq, Repr

/-! ## Parser (`unicode_format_arg_parse`, syntax only) -/

/-- the flag characters `- + space # 0` (also the class `[#0+ -]` of logging's validation pattern) -/
def isFlag (c : Char) : Bool := c == '-' || c == '+' || c == ' ' || c == '#' || c == '0'

/-- the key after `%(`: up to the parenthesis that closes it, nested parentheses are counted;
    `depth` = parentheses opened inside the key and not yet closed.  Result: (key, text after `)`). -/
def scanKey : Nat → Str → Option (Str × Str)
  | _, [] => none
  | depth, c :: t =>
    if c == ')' then
      match depth with
      | 0 => some ([], t)
      | d + 1 => (scanKey d t).map (fun p => (c :: p.1, p.2))
    else if c == '(' then (scanKey (depth + 1) t).map (fun p => (c :: p.1, p.2))
    else (scanKey depth t).map (fun p => (c :: p.1, p.2))

/-- value of a run of ASCII digits -/
def asciiVal (ds : Str) : Nat := ds.foldl (fun a c => a * 10 + (c.toNat - 48)) 0

/-- width: `*`, or a run of ASCII digits (it cannot start with `0`: zeros were taken as flags) -/
def parseWidth (s : Str) : Spec × Str :=
  match s with
  | [] => (.absent, [])
  | c :: t =>
    if c == '*' then (.star, t)
    else if isAsciiDigit c then (.num (asciiVal (s.takeWhile isAsciiDigit)), s.dropWhile isAsciiDigit)
    else (.absent, s)

/-- precision: `.` followed by `*` or by a possibly empty run of ASCII digits (`%.f` is `%.0f`) -/
def parsePrec (s : Str) : Spec × Str :=
  match s with
  | [] => (.absent, [])
  | c :: t =>
    if c == '.' then
      match t with
      | [] => (.num 0, [])
      | c2 :: t2 =>
        if c2 == '*' then (.star, t2)
        else (.num (asciiVal (t.takeWhile isAsciiDigit)), t.dropWhile isAsciiDigit)
    else (.absent, s)

/-- one optional length modifier `h`, `l` or `L` (ignored by the formatting) -/
def parseLen (s : Str) : Option Char × Str :=
  match s with
  | [] => (none, [])
  | c :: t => if c == 'h' || c == 'l' || c == 'L' then (some c, t) else (none, s)

def parseConv (s : Str) : Option Char × Str :=
  match s with
  | [] => (none, [])
  | c :: t => (some c, t)

/-- a conversion specifier; `s` is the text after a `%` that is not followed by another `%` -/
def parseSpec (s : Str) : Item × Str :=
  let keyed : Option (Option Str × Str) :=
    match s with
    | [] => some (none, [])
    | c :: t => if c == '(' then (scanKey 0 t).map (fun p => (some p.1, p.2)) else some (none, s)
  match keyed with
  | none => (.badKey (s.drop 1), [])
  | some (key, s1) =>
    let w := parseWidth (s1.dropWhile isFlag)
    let p := parsePrec w.2
    let l := parseLen p.2
    let c := parseConv l.2
    (.field key (s1.takeWhile isFlag) w.1 p.1 l.1 c.1, c.2)

/-- the main loop of `PyUnicode_Format`; `fuel` bounds the number of items (every item takes a character) -/
def parseAux : Nat → Str → List Item
  | 0, _ => []
  | _, [] => []
  | fuel + 1, c :: t =>
    if c == '%' then
      match t with
      | [] => [.field none [] .absent .absent none none]
      | c2 :: t2 =>
        if c2 == '%' then .percent :: parseAux fuel t2
        else (parseSpec t).1 :: parseAux fuel (parseSpec t).2
    else .lit ((c :: t).takeWhile (· != '%')) :: parseAux fuel ((c :: t).dropWhile (· != '%'))

/-- a classic format string as the list of its literal runs, `%%` and conversion specifiers -/
def parse (s : Str) : List Item := parseAux s.length s

/-! ## Evaluation against a mapping (`unicode_format_arg_format`: which values raise) -/

/-- a mapping from attribute names to values (`record.__dict__`) -/
abbrev Dict := Str → Option Value

def ssizeMax : Nat := 2 ^ 63 - 1
def cIntMax : Nat := 2 ^ 31 - 1
def maxUnicode : Int := 0x10FFFF
/-- `PyLong_AsDouble` overflows from `2^1024 - 2^970` on (round-half-even to `2^1024`) -/
def floatLimit : Int := 2 ^ 1024 - 2 ^ 970

/-- `sys.get_int_max_str_digits()`, Python 3.12 default -/
def intMaxStrDigits : Nat := 4300

/-- `str(v)` (and `repr(v)`, `ascii(v)`): raises `ValueError` for an `int` of more than 4300 decimal digits — the sign
    does not count: `str(10**4300 - 1)` and `str(-(10**4300 - 1))` work, `str(10**4300)` and `str(-10**4300)` raise
    "Exceeds the limit (4300 digits) for integer string conversion" — and works on everything else -/
def strCheck : Value → Except PyErr Unit
  | .int n => if n.natAbs < 10 ^ intMaxStrDigits then .ok () else .error .valueError
  | _ => .ok ()

/-- `repr(d)` of the mapping itself works: it works on every value (the keys are strings).  This is what a specifier
    without `(key)` prints when it comes first (`'%s' % d`). -/
def MappingPrints (d : Dict) : Prop := ∀ k v, d k = some v → strCheck v = .ok ()

/-- the families of conversion characters -/
inductive ConvClass | text | dec | radix | real | char
  deriving DecidableEq, Repr

/-- `s r a` / `d i u` / `o x X` / `e E f F g G` / `c`; anything else is "unsupported format character" -/
def classOf (c : Char) : Option ConvClass :=
  if c == 's' || c == 'r' || c == 'a' then some .text
  else if c == 'd' || c == 'i' || c == 'u' then some .dec
  else if c == 'o' || c == 'x' || c == 'X' then some .radix
  else if c == 'e' || c == 'E' || c == 'f' || c == 'F' || c == 'g' || c == 'G' then some .real
  else if c == 'c' then some .char
  else none

/-- `_PyUnicode_FormatLong`: an explicit precision above `INT_MAX - 3` raises OverflowError -/
def precCheck (prec : Option Nat) : Except PyErr Unit :=
  match prec with
  | some p => if p > cIntMax - 3 then .error .overflowError else .ok ()
  | none => .ok ()

/-- `_PyUnicode_FormatLong` for `d i u`: the precision is checked first ("precision too large", OverflowError), then the
    number is converted to decimal text (`PyNumber_ToBase(val, 10)`), which is subject to the 4300-digit limit -/
def decCheck (prec : Option Nat) (n : Int) : Except PyErr Unit :=
  match precCheck prec with
  | .error e => .error e
  | .ok _ => strCheck (.int n)

/-- formatting value `v` with a conversion of class `k` and precision `prec`: does it raise? -/
def classCheck (k : ConvClass) (prec : Option Nat) (v : Value) : Except PyErr Unit :=
  match k with
  | .text => strCheck v                               -- str(), repr(), ascii()
  | .dec =>                                           -- `PyNumber_Long` unless already an int
    match v with
    | .int n => decCheck prec n
    | .float .finite => precCheck prec                -- `int(x)` of a float has at most 309 digits
    | .float .inf => .error .overflowError
    | .float .nan => .error .valueError
    | _ => .error .typeError
  | .radix =>                                         -- `__index__` required
    match v with
    | .int _ => precCheck prec
    | _ => .error .typeError
  | .real =>                                          -- `PyFloat_AsDouble`
    match v with
    | .int n => if -floatLimit < n ∧ n < floatLimit then .ok () else .error .overflowError
    | .float _ => .ok ()
    | _ => .error .typeError
  | .char =>                                          -- `formatchar`
    match v with
    | .str s => if s.length == 1 then .ok () else .error .typeError
    | .int n => if 0 ≤ n ∧ n ≤ maxUnicode then .ok () else .error .overflowError
    | _ => .error .typeError

def convCheck (c : Char) (prec : Option Nat) (v : Value) : Except PyErr Unit :=
  match classOf c with
  | some k => classCheck k prec v
  | none => .error .valueError

/-- what a conversion specifier formats: the value of a record attribute (`%(key)…`), or — for a specifier without
    `(key)` that comes before every other specifier — the mapping itself; `printable` = `repr()` works on every value
    of the mapping (`MappingPrints`) -/
inductive Arg
  | val (v : Value)
  | mapping (printable : Bool)
  deriving DecidableEq, Repr

/-- the conversion applied to an argument.  The mapping is neither a number nor a `str`, so it behaves as a
    `Value.other` (only `s r a` accept it); `str()` / `repr()` / `ascii()` of the mapping then print every value and
    raise `ValueError` when one of them is an `int` of more than 4300 digits. -/
def argCheck (c : Char) (prec : Option Nat) : Arg → Except PyErr Unit
  | .val v => convCheck c prec v
  | .mapping printable =>
    match convCheck c prec .other with
    | .error e => .error e
    | .ok _ => if printable then .ok () else .error .valueError

/-- `*` as width (`lo = -2^63`, `hi = 2^63-1`) or precision (C `int`): takes the pending argument, which must be an
    `int` in range.  State: the pending argument, if not consumed yet.  Result: the number. -/
def evalStar (st : Option Arg) (lo hi : Int) : Except PyErr Int :=
  match st with
  | none => .error .typeError                          -- "not enough arguments for format string"
  | some (.val (.int n)) => if lo ≤ n ∧ n ≤ hi then .ok n else .error .overflowError
  | some _ => .error .typeError                        -- "* wants int"

def evalWidth (st : Option Arg) : Spec → Except PyErr (Option Arg)
  | .absent => .ok st
  | .num n => if n > ssizeMax then .error .valueError else .ok st          -- "width too big"
  | .star => (evalStar st (-(ssizeMax : Int) - 1) ssizeMax).map (fun _ => none)

def evalPrec (st : Option Arg) : Spec → Except PyErr (Option Arg × Option Nat)
  | .absent => .ok (st, none)
  | .num n => if n > cIntMax then .error .valueError else .ok (st, some n)  -- "precision too big"
  | .star => (evalStar st (-(cIntMax : Int) - 1) cIntMax).map (fun n => (none, some n.toNat))

/-- one item.  State = the argument that the next conversion would format, `none` once it has been consumed
    (`ctx->argidx`): initially the mapping itself, replaced by the value found when the specifier has a `(key)`. -/
def evalItem (d : Dict) (st : Option Arg) : Item → Except PyErr (Option Arg)
  | .lit _ => .ok st
  | .percent => .ok st
  | .badKey _ => .error .valueError
  | .field key _ w p _ conv =>
    match (match key with
           | none => Except.ok st
           | some k => match d k with
                       | none => Except.error PyErr.keyError
                       | some v => Except.ok (some (Arg.val v))) with
    | .error e => .error e
    | .ok st1 =>
      match evalWidth st1 w with
      | .error e => .error e
      | .ok st2 =>
        match evalPrec st2 p with
        | .error e => .error e
        | .ok (st3, pv) =>
          match conv with
          | none => .error .valueError                 -- "incomplete format"
          | some c =>
            match st3 with
            | none => .error .typeError                -- "not enough arguments for format string"
            | some a =>
              match argCheck c pv a with
              | .error e => .error e
              | .ok _ => .ok none

def runItems (d : Dict) : Option Arg → List Item → Except PyErr Unit
  | _, [] => .ok ()
  | st, it :: rest =>
    match evalItem d st it with
    | .error e => .error e
    | .ok st' => runItems d st' rest

/-- `fmt % d` for a mapping `d`, given whether `repr(d)` works (`printable`; it only matters for a specifier without
    `(key)`): `.ok ()` when a string is produced, else the class of the exception.  Executable. -/
def formatRunOn (printable : Bool) (fmt : Str) (d : Dict) : Except PyErr Unit :=
  runItems d (some (.mapping printable)) (parse fmt)

open Classical in
/-- `fmt % d` for a mapping `d`: `.ok ()` when a string is produced, else the class of the exception.
    (`Dict` is a function, so whether every value prints is not computable from it; for a mapping given as a table use
    `formatRunTable`, which is the same thing — `LogFormatLemmas.lf_formatRun_table`.) -/
noncomputable def formatRun (fmt : Str) (d : Dict) : Except PyErr Unit :=
  formatRunOn (decide (MappingPrints d)) fmt d

/-! ## `logging.PercentStyle.validate`

`re.compile(r'%\(\w+\)[#0+ -]*(\*|\d+)?(\.(\*|\d+))?[diouxefgcrsa%]', re.I).search(fmt)` -/

/-- `\w` for `str` patterns (`c.isalnum() or c == '_'`) as inclusive code-point ranges.
    GENERATED from the running interpreter (Python 3.12.1, script in the report); belongs in `ZCV/Gen`. -/
def wordRanges : List (Nat × Nat) := [
  (48, 57), (65, 90), (95, 95), (97, 122), (170, 170), (178, 179), (181, 181), (185, 186), (188, 190), (192, 214),
   (216, 246), (248, 705), (710, 721), (736, 740), (748, 748), (750, 750), (880, 884), (886, 887), (890, 893),
   (895, 895), (902, 902), (904, 906), (908, 908), (910, 929), (931, 1013), (1015, 1153), (1162, 1327), (1329, 1366),
   (1369, 1369), (1376, 1416), (1488, 1514), (1519, 1522), (1568, 1610), (1632, 1641), (1646, 1647), (1649, 1747),
   (1749, 1749), (1765, 1766), (1774, 1788), (1791, 1791), (1808, 1808), (1810, 1839), (1869, 1957), (1969, 1969),
   (1984, 2026), (2036, 2037), (2042, 2042), (2048, 2069), (2074, 2074), (2084, 2084), (2088, 2088), (2112, 2136),
   (2144, 2154), (2160, 2183), (2185, 2190), (2208, 2249), (2308, 2361), (2365, 2365), (2384, 2384), (2392, 2401),
   (2406, 2415), (2417, 2432), (2437, 2444), (2447, 2448), (2451, 2472), (2474, 2480), (2482, 2482), (2486, 2489),
   (2493, 2493), (2510, 2510), (2524, 2525), (2527, 2529), (2534, 2545), (2548, 2553), (2556, 2556), (2565, 2570),
   (2575, 2576), (2579, 2600), (2602, 2608), (2610, 2611), (2613, 2614), (2616, 2617), (2649, 2652), (2654, 2654),
   (2662, 2671), (2674, 2676), (2693, 2701), (2703, 2705), (2707, 2728), (2730, 2736), (2738, 2739), (2741, 2745),
   (2749, 2749), (2768, 2768), (2784, 2785), (2790, 2799), (2809, 2809), (2821, 2828), (2831, 2832), (2835, 2856),
   (2858, 2864), (2866, 2867), (2869, 2873), (2877, 2877), (2908, 2909), (2911, 2913), (2918, 2927), (2929, 2935),
   (2947, 2947), (2949, 2954), (2958, 2960), (2962, 2965), (2969, 2970), (2972, 2972), (2974, 2975), (2979, 2980),
   (2984, 2986), (2990, 3001), (3024, 3024), (3046, 3058), (3077, 3084), (3086, 3088), (3090, 3112), (3114, 3129),
   (3133, 3133), (3160, 3162), (3165, 3165), (3168, 3169), (3174, 3183), (3192, 3198), (3200, 3200), (3205, 3212),
   (3214, 3216), (3218, 3240), (3242, 3251), (3253, 3257), (3261, 3261), (3293, 3294), (3296, 3297), (3302, 3311),
   (3313, 3314), (3332, 3340), (3342, 3344), (3346, 3386), (3389, 3389), (3406, 3406), (3412, 3414), (3416, 3425),
   (3430, 3448), (3450, 3455), (3461, 3478), (3482, 3505), (3507, 3515), (3517, 3517), (3520, 3526), (3558, 3567),
   (3585, 3632), (3634, 3635), (3648, 3654), (3664, 3673), (3713, 3714), (3716, 3716), (3718, 3722), (3724, 3747),
   (3749, 3749), (3751, 3760), (3762, 3763), (3773, 3773), (3776, 3780), (3782, 3782), (3792, 3801), (3804, 3807),
   (3840, 3840), (3872, 3891), (3904, 3911), (3913, 3948), (3976, 3980), (4096, 4138), (4159, 4169), (4176, 4181),
   (4186, 4189), (4193, 4193), (4197, 4198), (4206, 4208), (4213, 4225), (4238, 4238), (4240, 4249), (4256, 4293),
   (4295, 4295), (4301, 4301), (4304, 4346), (4348, 4680), (4682, 4685), (4688, 4694), (4696, 4696), (4698, 4701),
   (4704, 4744), (4746, 4749), (4752, 4784), (4786, 4789), (4792, 4798), (4800, 4800), (4802, 4805), (4808, 4822),
   (4824, 4880), (4882, 4885), (4888, 4954), (4969, 4988), (4992, 5007), (5024, 5109), (5112, 5117), (5121, 5740),
   (5743, 5759), (5761, 5786), (5792, 5866), (5870, 5880), (5888, 5905), (5919, 5937), (5952, 5969), (5984, 5996),
   (5998, 6000), (6016, 6067), (6103, 6103), (6108, 6108), (6112, 6121), (6128, 6137), (6160, 6169), (6176, 6264),
   (6272, 6276), (6279, 6312), (6314, 6314), (6320, 6389), (6400, 6430), (6470, 6509), (6512, 6516), (6528, 6571),
   (6576, 6601), (6608, 6618), (6656, 6678), (6688, 6740), (6784, 6793), (6800, 6809), (6823, 6823), (6917, 6963),
   (6981, 6988), (6992, 7001), (7043, 7072), (7086, 7141), (7168, 7203), (7232, 7241), (7245, 7293), (7296, 7304),
   (7312, 7354), (7357, 7359), (7401, 7404), (7406, 7411), (7413, 7414), (7418, 7418), (7424, 7615), (7680, 7957),
   (7960, 7965), (7968, 8005), (8008, 8013), (8016, 8023), (8025, 8025), (8027, 8027), (8029, 8029), (8031, 8061),
   (8064, 8116), (8118, 8124), (8126, 8126), (8130, 8132), (8134, 8140), (8144, 8147), (8150, 8155), (8160, 8172),
   (8178, 8180), (8182, 8188), (8304, 8305), (8308, 8313), (8319, 8329), (8336, 8348), (8450, 8450), (8455, 8455),
   (8458, 8467), (8469, 8469), (8473, 8477), (8484, 8484), (8486, 8486), (8488, 8488), (8490, 8493), (8495, 8505),
   (8508, 8511), (8517, 8521), (8526, 8526), (8528, 8585), (9312, 9371), (9450, 9471), (10102, 10131),
   (11264, 11492), (11499, 11502), (11506, 11507), (11517, 11517), (11520, 11557), (11559, 11559), (11565, 11565),
   (11568, 11623), (11631, 11631), (11648, 11670), (11680, 11686), (11688, 11694), (11696, 11702), (11704, 11710),
   (11712, 11718), (11720, 11726), (11728, 11734), (11736, 11742), (11823, 11823), (12293, 12295), (12321, 12329),
   (12337, 12341), (12344, 12348), (12353, 12438), (12445, 12447), (12449, 12538), (12540, 12543), (12549, 12591),
   (12593, 12686), (12690, 12693), (12704, 12735), (12784, 12799), (12832, 12841), (12872, 12879), (12881, 12895),
   (12928, 12937), (12977, 12991), (13312, 19903), (19968, 42124), (42192, 42237), (42240, 42508), (42512, 42539),
   (42560, 42606), (42623, 42653), (42656, 42735), (42775, 42783), (42786, 42888), (42891, 42954), (42960, 42961),
   (42963, 42963), (42965, 42969), (42994, 43009), (43011, 43013), (43015, 43018), (43020, 43042), (43056, 43061),
   (43072, 43123), (43138, 43187), (43216, 43225), (43250, 43255), (43259, 43259), (43261, 43262), (43264, 43301),
   (43312, 43334), (43360, 43388), (43396, 43442), (43471, 43481), (43488, 43492), (43494, 43518), (43520, 43560),
   (43584, 43586), (43588, 43595), (43600, 43609), (43616, 43638), (43642, 43642), (43646, 43695), (43697, 43697),
   (43701, 43702), (43705, 43709), (43712, 43712), (43714, 43714), (43739, 43741), (43744, 43754), (43762, 43764),
   (43777, 43782), (43785, 43790), (43793, 43798), (43808, 43814), (43816, 43822), (43824, 43866), (43868, 43881),
   (43888, 44002), (44016, 44025), (44032, 55203), (55216, 55238), (55243, 55291), (63744, 64109), (64112, 64217),
   (64256, 64262), (64275, 64279), (64285, 64285), (64287, 64296), (64298, 64310), (64312, 64316), (64318, 64318),
   (64320, 64321), (64323, 64324), (64326, 64433), (64467, 64829), (64848, 64911), (64914, 64967), (65008, 65019),
   (65136, 65140), (65142, 65276), (65296, 65305), (65313, 65338), (65345, 65370), (65382, 65470), (65474, 65479),
   (65482, 65487), (65490, 65495), (65498, 65500), (65536, 65547), (65549, 65574), (65576, 65594), (65596, 65597),
   (65599, 65613), (65616, 65629), (65664, 65786), (65799, 65843), (65856, 65912), (65930, 65931), (66176, 66204),
   (66208, 66256), (66273, 66299), (66304, 66339), (66349, 66378), (66384, 66421), (66432, 66461), (66464, 66499),
   (66504, 66511), (66513, 66517), (66560, 66717), (66720, 66729), (66736, 66771), (66776, 66811), (66816, 66855),
   (66864, 66915), (66928, 66938), (66940, 66954), (66956, 66962), (66964, 66965), (66967, 66977), (66979, 66993),
   (66995, 67001), (67003, 67004), (67072, 67382), (67392, 67413), (67424, 67431), (67456, 67461), (67463, 67504),
   (67506, 67514), (67584, 67589), (67592, 67592), (67594, 67637), (67639, 67640), (67644, 67644), (67647, 67669),
   (67672, 67702), (67705, 67742), (67751, 67759), (67808, 67826), (67828, 67829), (67835, 67867), (67872, 67897),
   (67968, 68023), (68028, 68047), (68050, 68096), (68112, 68115), (68117, 68119), (68121, 68149), (68160, 68168),
   (68192, 68222), (68224, 68255), (68288, 68295), (68297, 68324), (68331, 68335), (68352, 68405), (68416, 68437),
   (68440, 68466), (68472, 68497), (68521, 68527), (68608, 68680), (68736, 68786), (68800, 68850), (68858, 68899),
   (68912, 68921), (69216, 69246), (69248, 69289), (69296, 69297), (69376, 69415), (69424, 69445), (69457, 69460),
   (69488, 69505), (69552, 69579), (69600, 69622), (69635, 69687), (69714, 69743), (69745, 69746), (69749, 69749),
   (69763, 69807), (69840, 69864), (69872, 69881), (69891, 69926), (69942, 69951), (69956, 69956), (69959, 69959),
   (69968, 70002), (70006, 70006), (70019, 70066), (70081, 70084), (70096, 70106), (70108, 70108), (70113, 70132),
   (70144, 70161), (70163, 70187), (70207, 70208), (70272, 70278), (70280, 70280), (70282, 70285), (70287, 70301),
   (70303, 70312), (70320, 70366), (70384, 70393), (70405, 70412), (70415, 70416), (70419, 70440), (70442, 70448),
   (70450, 70451), (70453, 70457), (70461, 70461), (70480, 70480), (70493, 70497), (70656, 70708), (70727, 70730),
   (70736, 70745), (70751, 70753), (70784, 70831), (70852, 70853), (70855, 70855), (70864, 70873), (71040, 71086),
   (71128, 71131), (71168, 71215), (71236, 71236), (71248, 71257), (71296, 71338), (71352, 71352), (71360, 71369),
   (71424, 71450), (71472, 71483), (71488, 71494), (71680, 71723), (71840, 71922), (71935, 71942), (71945, 71945),
   (71948, 71955), (71957, 71958), (71960, 71983), (71999, 71999), (72001, 72001), (72016, 72025), (72096, 72103),
   (72106, 72144), (72161, 72161), (72163, 72163), (72192, 72192), (72203, 72242), (72250, 72250), (72272, 72272),
   (72284, 72329), (72349, 72349), (72368, 72440), (72704, 72712), (72714, 72750), (72768, 72768), (72784, 72812),
   (72818, 72847), (72960, 72966), (72968, 72969), (72971, 73008), (73030, 73030), (73040, 73049), (73056, 73061),
   (73063, 73064), (73066, 73097), (73112, 73112), (73120, 73129), (73440, 73458), (73474, 73474), (73476, 73488),
   (73490, 73523), (73552, 73561), (73648, 73648), (73664, 73684), (73728, 74649), (74752, 74862), (74880, 75075),
   (77712, 77808), (77824, 78895), (78913, 78918), (82944, 83526), (92160, 92728), (92736, 92766), (92768, 92777),
   (92784, 92862), (92864, 92873), (92880, 92909), (92928, 92975), (92992, 92995), (93008, 93017), (93019, 93025),
   (93027, 93047), (93053, 93071), (93760, 93846), (93952, 94026), (94032, 94032), (94099, 94111), (94176, 94177),
   (94179, 94179), (94208, 100343), (100352, 101589), (101632, 101640), (110576, 110579), (110581, 110587),
   (110589, 110590), (110592, 110882), (110898, 110898), (110928, 110930), (110933, 110933), (110948, 110951),
   (110960, 111355), (113664, 113770), (113776, 113788), (113792, 113800), (113808, 113817), (119488, 119507),
   (119520, 119539), (119648, 119672), (119808, 119892), (119894, 119964), (119966, 119967), (119970, 119970),
   (119973, 119974), (119977, 119980), (119982, 119993), (119995, 119995), (119997, 120003), (120005, 120069),
   (120071, 120074), (120077, 120084), (120086, 120092), (120094, 120121), (120123, 120126), (120128, 120132),
   (120134, 120134), (120138, 120144), (120146, 120485), (120488, 120512), (120514, 120538), (120540, 120570),
   (120572, 120596), (120598, 120628), (120630, 120654), (120656, 120686), (120688, 120712), (120714, 120744),
   (120746, 120770), (120772, 120779), (120782, 120831), (122624, 122654), (122661, 122666), (122928, 122989),
   (123136, 123180), (123191, 123197), (123200, 123209), (123214, 123214), (123536, 123565), (123584, 123627),
   (123632, 123641), (124112, 124139), (124144, 124153), (124896, 124902), (124904, 124907), (124909, 124910),
   (124912, 124926), (124928, 125124), (125127, 125135), (125184, 125251), (125259, 125259), (125264, 125273),
   (126065, 126123), (126125, 126127), (126129, 126132), (126209, 126253), (126255, 126269), (126464, 126467),
   (126469, 126495), (126497, 126498), (126500, 126500), (126503, 126503), (126505, 126514), (126516, 126519),
   (126521, 126521), (126523, 126523), (126530, 126530), (126535, 126535), (126537, 126537), (126539, 126539),
   (126541, 126543), (126545, 126546), (126548, 126548), (126551, 126551), (126553, 126553), (126555, 126555),
   (126557, 126557), (126559, 126559), (126561, 126562), (126564, 126564), (126567, 126570), (126572, 126578),
   (126580, 126583), (126585, 126588), (126590, 126590), (126592, 126601), (126603, 126619), (126625, 126627),
   (126629, 126633), (126635, 126651), (127232, 127244), (130032, 130041), (131072, 173791), (173824, 177977),
   (177984, 178205), (178208, 183969), (183984, 191456), (194560, 195101), (196608, 201546), (201552, 205743)]

def isWord (c : Char) : Bool := wordRanges.any (fun r => r.1 ≤ c.toNat && c.toNat ≤ r.2)

/-- the code points matched by `[diouxefgcrsa%]` under `re.IGNORECASE` (the letters in both cases, `%`, and
    U+0130 `İ`, U+0131 `ı`, U+017F `ſ` by Unicode case folding) — enumerated with the running interpreter -/
def validatorConvs : List Nat :=
  [0x25, 0x41, 0x43, 0x44, 0x45, 0x46, 0x47, 0x49, 0x4f, 0x52, 0x53, 0x55, 0x58, 0x61, 0x63, 0x64, 0x65, 0x66, 0x67,
   0x69, 0x6f, 0x72, 0x73, 0x75, 0x78, 0x130, 0x131, 0x17f]
def isValidatorConv (c : Char) : Bool := validatorConvs.contains c.toNat

/-- after `%(\w+\)[#0+ -]*`: `(\*|\d+)?` -/
def vSkipWidth (s : Str) : Str :=
  match s with
  | [] => []
  | c :: t => if c == '*' then t else s.dropWhile pyDigit

/-- `(\.(\*|\d+))?` -/
def vSkipPrec (s : Str) : Str :=
  match s with
  | [] => []
  | c :: t =>
    if c == '.' then
      match t with
      | [] => s
      | c2 :: t2 => if c2 == '*' then t2 else if pyDigit c2 then t.dropWhile pyDigit else s
    else s

/-- does the validation pattern match at the beginning of `s`?  (greedy scanning is complete here: a shorter run
    of `\w`, flags or digits leaves a character that nothing else in the pattern can match) -/
def validatorAt (s : Str) : Bool :=
  match s with
  | c1 :: c2 :: t =>
    if c1 == '%' && c2 == '(' then
      if (t.takeWhile isWord).isEmpty then false
      else
        match t.dropWhile isWord with
        | c3 :: t3 =>
          if c3 == ')' then
            match vSkipPrec (vSkipWidth (t3.dropWhile isFlag)) with
            | c :: _ => isValidatorConv c
            | [] => false
          else false
        | [] => false
    else false
  | _ => false

/-- `validation_pattern.search(fmt)` succeeds -/
def validatorSearch : Str → Bool
  | [] => false
  | c :: t => validatorAt (c :: t) || validatorSearch t

/-! ## The load-time check of `FormatterFactory` (style `classic`, `arbitrary-fields` off, default formatter) -/

/-- the record `FormatterFactory.__init__` formats: a `LogRecord(__name__, INFO, __file__, 42, 'some message', (), None)`
    created in the main thread, updated with `_log_format_variables` -/
def sampleVars : List (Str × Value) :=
  [("name".toList, .str "ZConfig.components.logger.formatter".toList),
   ("msg".toList, .str "some message".toList),
   ("args".toList, .other),
   ("levelname".toList, .str "DEBUG".toList),
   ("levelno".toList, .int 3),
   ("pathname".toList, .str "apath".toList),
   ("filename".toList, .str "afile".toList),
   ("module".toList, .str "amodule".toList),
   ("exc_info".toList, .none),
   ("exc_text".toList, .none),
   ("stack_info".toList, .none),
   ("lineno".toList, .int 1),
   ("funcName".toList, .str "fname".toList),
   ("created".toList, .float .finite),
   ("msecs".toList, .float .finite),
   ("relativeCreated".toList, .float .finite),
   ("thread".toList, .int 140000000000000),
   ("threadName".toList, .str "MainThread".toList),
   ("processName".toList, .str "MainProcess".toList),
   ("process".toList, .int 4000000),
   ("taskName".toList, .none),
   ("asctime".toList, .str "atime".toList),
   ("message".toList, .str "amessage".toList)]

def lookup (tbl : List (Str × Value)) (k : Str) : Option Value := (tbl.find? (fun p => p.1 == k)).map (·.2)

def sampleDict : Dict := lookup sampleVars

/-- `repr()` of a mapping given as a table works (the first entry of a key is the one that counts) -/
def tablePrints (tbl : List (Str × Value)) : Bool :=
  tbl.all (fun p => match lookup tbl p.1 with
                    | some v => decide (strCheck v = .ok ())
                    | none => true)

/-- `fmt % d` for a mapping given as a table of its items; executable -/
def formatRunTable (fmt : Str) (tbl : List (Str × Value)) : Except PyErr Unit :=
  formatRunOn (tablePrints tbl) fmt (lookup tbl)

/-- `PercentStyle.default_format` -/
def defaultFormat : Str := "%(message)s".toList

/-- `fmt or self.default_format` (ZConfig's `PercentStyle.__init__` and logging's) -/
def effective (fmt : Str) : Str := if fmt.isEmpty then defaultFormat else fmt

/-- `pat in s` -/
def hasInfix (pat : Str) : Str → Bool
  | [] => pat.isEmpty
  | c :: t => startsWith (c :: t) pat || hasInfix pat t

/-- `PercentStyle.usesTime()`: `self._fmt.find('%(asctime)') >= 0`.  `logging.Formatter.format` sets `record.asctime`
    only in this case (`record.message` is always set). -/
def usesTime (fmt : Str) : Bool := hasInfix "%(asctime)".toList (effective fmt)

/-- `FormatterFactory.__call__` with the default formatter class: `logging.Formatter(fmt, datefmt, style='%')`, whose
    `validate()` raises ValueError when the validation pattern is not found in the format -/
def buildFormatter (fmt : Str) : Except PyErr Unit :=
  if validatorSearch (effective fmt) then .ok () else .error .valueError

/-- `FormatterFactory.__init__` for the classic style: the trial formatting `self.stylist.format(record)` of the sample
    record, then `self()` (the formatter is built once).  `.ok ()` = the section is accepted; else the class of the
    exception (ValueError becomes a configuration error, the other classes escape from the loader as they are). -/
def loadCheck (fmt : Str) : Except PyErr Unit :=
  match formatRunTable (effective fmt) sampleVars with
  | .error e => .error e
  | .ok _ => buildFormatter fmt

/-- the format (value of `section.format`, i.e. after the `escaped_string` datatype) is accepted at load time -/
def accepts (fmt : Str) : Bool :=
  match loadCheck fmt with
  | .ok _ => true
  | .error _ => false

/-- formatting a record whose attributes are `record` with the formatter built from `fmt` does not raise
    (`logging.Formatter.formatMessage`: `fmt % record.__dict__`) -/
noncomputable def formatSafe (fmt : Str) (record : Dict) : Bool :=
  match formatRun (effective fmt) record with
  | .ok _ => true
  | .error _ => false

/-- `formatSafe` for a record given as a table of its attributes; executable -/
def formatSafeTable (fmt : Str) (tbl : List (Str × Value)) : Bool :=
  match formatRunTable (effective fmt) tbl with
  | .ok _ => true
  | .error _ => false

/-! ## The `escaped_string` datatype of the `format` key -/

/-- `value.replace(x ++ y, r)` for a two-character pattern -/
def replace2 (x y r : Char) : Str → Str
  | [] => []
  | [a] => [a]
  | a :: b :: t => if a == x && b == y then r :: replace2 x y r t else a :: replace2 x y r (b :: t)

/-- `ctrl_char_insert`: the two-character sequences `\n \t \b \f \r` become the control characters, in this order -/
def ctrlCharInsert (s : Str) : Str :=
  replace2 '\\' 'r' '\r' (replace2 '\\' 'f' (Char.ofNat 12) (replace2 '\\' 'b' (Char.ofNat 8)
    (replace2 '\\' 't' '\t' (replace2 '\\' 'n' '\n' s))))

/-- acceptance of the text written in the configuration file (after the parser's own processing of the value) -/
def acceptsConfigured (raw : Str) : Bool := accepts (ctrlCharInsert raw)

end ZCV.LogFormat
