import ZCV.Lemmas.SlotsLoad
/-!
C13 / C12: load HISTORIES against one schema object, as ZConfig runs them.

`ConfigLoader.importSchemaComponent` replaces, on the first `%import` of a load, the loader's schema by
`info.createDerivedSchema(self.schema)`.  That function builds a NEW `SchemaType` and copies into it
  * `_components`      (`new._components.update(base._components)`)        – a new dict,
  * `_children`        (`new._children[:] = base._children`)               – a new list,
  * `_attrmap/_keymap` (`update`)                                           – new dicts,
  * `_types`           (`new._types.update(base._types)`)                   – a new dict holding THE SAME type objects.
`parseComponent` then works on the new object: `SchemaType.addtype` puts new names into the private `_types` (an
existing name raises), `addComponent` marks the private `_components`, and for `<sectiontype … implements="a">`
`start_sectiontype` calls `self._schema.gettype("a").addsubtype(sectinfo)` – a dict assignment
`_subtypes[name] = type` INSIDE the `AbstractType` object, which the application's schema holds too.  Nothing else of a
type object is written by a load (`SectionType` objects of the application are only read; a component cannot re-open
an existing type, the name clash is raised by `addtype` before anything is touched).

So of everything a load does to its private schema, the application's schema object sees exactly the `addsubtype`
calls on the abstract types IT holds: entry `i` of the application's `_types` is the same object as entry `i` of the
private `_types` (dicts keep insertion order, `update` copies in order, new names go to the end).

A load that FAILS leaves the same thing behind: the calls made before the exception.  That includes the case where the
component itself stops half-way (`type name cannot be redefined` at its k-th type: the implementers of the types before
it are registered already; `importSchemaComponent` restores `self.schema = saved`, a derived copy – which shares the
`AbstractType` objects again, so nothing is undone).

The model's `load` returns the whole private schema as `schemaAfter` and no schema at all for a failed load; this file
adds what is needed to follow the APPLICATION's schema object through a history:

  * `Stop`, `importStop`, `stepStop`/`linesStop`, `loadStop`: where a load stopped (private schema reached, the
    `addsubtype` calls made, the components read completely, the component that broke off);
  * `shareInto` / `appAfter`: the application's schema object after the load;
  * `runHistoryApp`: loads one after the other, each starting from `appAfter` of the previous one;
  * `Schema.withImplementers`: a schema with a list of `addsubtype` calls applied.

Packages are flat in the model (`Pkg.component url types implements`); components that import components are outside
it, as before.  The existing `runHistory` (which feeds the whole private schema into the next load) is kept untouched.
-/
namespace ZCV.Cfg
open ZCV

/-! ### the application's schema object after a load -/

/-- entry `p` of the application's type table when the load's private table holds `q` at the same place: a concrete
    type is the application's own object and is never written; an abstract type is ONE object in both tables, so its
    implementer table is the one the private schema shows -/
def shareEntry (p q : Str × TypeEntry) : Str × TypeEntry :=
  match p.2, q.2 with
  | .abstract_ n _, .abstract_ _ subs => (p.1, .abstract_ n subs)
  | _, _ => p

/-- the application's `_types` against the private `_types` (same objects at the same places; the private table may be
    longer) -/
def shareTables : List (Str × TypeEntry) → List (Str × TypeEntry) → List (Str × TypeEntry)
  | [], _ => []
  | p :: ps, [] => p :: ps
  | p :: ps, q :: qs => shareEntry p q :: shareTables ps qs

/-- the application's schema object `s` once a load that started from it has reached the private schema `reached`:
    children, keys, defaults, datatypes, handler, components and the type table are the application's own; only the
    implementer tables of its abstract types are those of `reached` -/
def shareInto (s reached : Schema) : Schema := { s with types := shareTables s.types reached.types }

/-- **the application's schema object after a successful load** -/
def appAfter (s : Schema) (r : LoadResult) : Schema := shareInto s r.schemaAfter

/-- a schema with `addsubtype` calls applied, in order: `(c, a)` = "register the type named `c` with the abstract type
    stored under `a`" (`regImpl`: a no-op when `a` is not abstract in the schema or lists `c` already) -/
def Schema.withImplementers (s : Schema) (regs : List (Str × Str)) : Schema := regs.foldl regImpl s

/-! ### where a load stops -/

/-- what a load (or a part of one) has done to its schema when it stops – at its end or at the exception -/
structure Stop where
  /-- the load's schema at that moment (the application's own object as long as nothing was imported) -/
  schema : Schema
  /-- the `addsubtype` calls made, in order, as (concrete type name, key of the abstract type) -/
  regs : List (Str × Str)
  /-- the packages whose component was read to its end (first `%import` of it in this load), in order -/
  imports : List Str
  /-- the package whose component broke off at a type name it may not define -/
  broken : Option Str

/-- nothing happened -/
def Stop.here (sc : Schema) : Stop := { schema := sc, regs := [], imports := [], broken := none }

/-- `b` happened after `a` -/
def Stop.andThen (a b : Stop) : Stop :=
  { schema := b.schema, regs := a.regs ++ b.regs, imports := a.imports ++ b.imports, broken := b.broken }

/-- the `addsubtype` calls `start_sectiontype` makes for the type named `n` -/
def typeRegs (impls : List (Str × Str)) (n : Str) : List (Str × Str) := impls.filter (·.1 == n)

/-- all the calls a component makes when it is read to its end -/
def compRegs (types : List (Str × TypeEntry)) (impls : List (Str × Str)) : List (Str × Str) :=
  types.flatMap fun te => typeRegs impls te.1

def pkgRegs : Pkg → List (Str × Str)
  | .component _ types impls => compRegs types impls
  | _ => []

/-- `parseComponent` on the types of a component, one after the other, until one cannot be added:
    (schema reached, calls made, read to the end?) -/
def compStop (impls : List (Str × Str)) : List (Str × TypeEntry) → Schema → Schema × List (Str × Str) × Bool
  | [], sc => (sc, [], true)
  | te :: rest, sc =>
    match addStep impls sc te with
    | .ok sc1 => let r := compStop impls rest sc1; (r.1, typeRegs impls te.1 ++ r.2.1, r.2.2)
    | .error _ => (sc, [], false)

/-- `importSchemaComponent(pkg)`, successful or not -/
def importStop (st : LS) (pkg : Str) : Stop :=
  match st.pkgs pkg with
  | .component url types impls =>
    if st.schema.components.contains url then Stop.here st.schema
    else
      let r := compStop impls types { st.schema with components := st.schema.components ++ [url] }
      if r.2.2 then { schema := r.1, regs := r.2.1, imports := [pkg], broken := none }
      else { schema := r.1, regs := r.2.1, imports := [], broken := some pkg }
  | _ => Stop.here st.schema

mutual
/-- one line, whether `stepLine` succeeds on it or not: what it did to the schema.  Only `%import` writes the schema;
    `%include` is the included resource's lines; every other line (accepted or refused) leaves it alone. -/
def stepStop (fuel : Nat) (env : Env) (active : List Str) (url : Option Str) (line : Nat) (l : Str) (st : PS LS) : Stop :=
  match lineShape l with
  | .import_ arg =>
    match replace env st.defs url line (strip arg) with
    | .ok pkg => importStop st.ctx pkg
    | .error _ => Stop.here st.ctx.schema
  | .include_ arg =>
    match replace env st.defs url line (strip arg) with
    | .error _ => Stop.here st.ctx.schema
    | .ok a =>
      match env.resolve url a with
      | .url u =>
        match env.res u with
        | some lines =>
          if u != [] && active.contains u then Stop.here st.ctx.schema
          else match fuel with
            | 0 => Stop.here st.ctx.schema
            | fuel' + 1 => linesStop fuel' env (u :: active) (some u) lines 0 { ctx := st.ctx, stack := [], defs := st.defs }
        | none => Stop.here st.ctx.schema
      | _ => Stop.here st.ctx.schema
  | _ => Stop.here st.ctx.schema
termination_by (fuel, 0, 0)

/-- the lines of one resource until the first one that fails (or the end) -/
def linesStop (fuel : Nat) (env : Env) (active : List Str) (url : Option Str) (lines : List Str) (lineno : Nat)
    (st : PS LS) : Stop :=
  match lines with
  | [] => Stop.here st.ctx.schema
  | l :: rest =>
    match stepLine fuel env loaderCtx active url (lineno + 1) (strip l) st with
    | .ok st' =>
      (stepStop fuel env active url (lineno + 1) (strip l) st).andThen (linesStop fuel env active url rest (lineno + 1) st')
    | .error _ => stepStop fuel env active url (lineno + 1) (strip l) st
termination_by (fuel, 1, lines.length)
end

/-- the override bag of the top-level matcher (`None` when there are no overrides) -/
def loadBag (conv : Conv) (schema : Schema) (overrides : List OptItem) : M (Option Bag) :=
  if overrides.isEmpty then pure Option.none else (mkBag conv schema.top overrides).map some

/-- the part of `load` before the first line is read: the overrides are split and sorted into the bag of the top-level
    matcher (either may be refused), the loader starts on the application's schema object -/
def loadInit (conv : Conv) (pkgs : Str → Pkg) (schema : Schema) (specs : List Str) : M (PS LS) :=
  specs.mapM addOption >>= fun overrides =>
    loadBag conv schema overrides >>= fun bag =>
      pure { ctx := { schema := schema, privateSchema := false, handlers := [],
                      stack := [newMatcher schema.top Option.none bag], pkgs := pkgs, conv := conv,
                      bagSchema := bag.map fun _ => schema },
             stack := [], defs := [] }

/-- a whole `load`, successful or not: when the overrides are refused nothing has happened; else the lines are read as
    far as they go; whatever `load` does after the last line (finishing the top-level matcher, the schema's datatype)
    reads the schema only -/
def loadStop (conv : Conv) (env : Env) (pkgs : Str → Pkg) (schema : Schema) (url : Option Str)
    (lines : List Str) (specs : List Str) : Stop :=
  match loadInit conv pkgs schema specs with
  | .error _ => Stop.here schema
  | .ok ps0 => linesStop 64 env (activeOf url) url lines 0 ps0

/-- **the application's schema object after a load, successful or not** -/
def appAfterLoad (conv : Conv) (env : Env) (pkgs : Str → Pkg) (s : Schema) (q : LoadReq) : Schema :=
  match load conv env pkgs s q.url q.lines q.specs with
  | .ok r => appAfter s r
  | .error _ => shareInto s (loadStop conv env pkgs s q.url q.lines q.specs).schema

/-! ### histories -/

/-- loads one after the other against ONE schema object, as ZConfig runs them: each load starts from the
    application's schema object as the previous load left it (`appAfterLoad`), not from that load's private schema.
    Returns the outcomes in order and the application's schema object at the end. -/
def runHistoryApp (conv : Conv) (env : Env) (pkgs : Str → Pkg) : Schema → List LoadReq → List (M LoadResult) × Schema
  | s, [] => ([], s)
  | s, q :: rest =>
    let out := runHistoryApp conv env pkgs (appAfterLoad conv env pkgs s q) rest
    (load conv env pkgs s q.url q.lines q.specs :: out.1, out.2)

/-- the application's schema object after each load of the history (one entry per load) -/
def historySchemas (conv : Conv) (env : Env) (pkgs : Str → Pkg) : Schema → List LoadReq → List Schema
  | _, [] => []
  | s, q :: rest => appAfterLoad conv env pkgs s q :: historySchemas conv env pkgs (appAfterLoad conv env pkgs s q) rest

/-- where each load of the history stopped (each load runs against the schema object its predecessors left) -/
def historyStops (conv : Conv) (env : Env) (pkgs : Str → Pkg) : Schema → List LoadReq → List Stop
  | _, [] => []
  | s, q :: rest =>
    loadStop conv env pkgs s q.url q.lines q.specs :: historyStops conv env pkgs (appAfterLoad conv env pkgs s q) rest

/-- every `addsubtype` call of the history, in order -/
def historyRegs (conv : Conv) (env : Env) (pkgs : Str → Pkg) (s : Schema) (hist : List LoadReq) : List (Str × Str) :=
  (historyStops conv env pkgs s hist).flatMap (·.regs)

/-- the packages whose component some load of the history read to its end -/
def historyImports (conv : Conv) (env : Env) (pkgs : Str → Pkg) (s : Schema) (hist : List LoadReq) : List Str :=
  (historyStops conv env pkgs s hist).flatMap (·.imports)

/-- the packages whose component broke off in some load of the history -/
def historyBroken (conv : Conv) (env : Env) (pkgs : Str → Pkg) (s : Schema) (hist : List LoadReq) : List Str :=
  (historyStops conv env pkgs s hist).flatMap (·.broken.toList)

end ZCV.Cfg
