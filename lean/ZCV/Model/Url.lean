import ZCV.Gen.Loader
/-! Model of `BaseLoader.isPath` (loader.py) and `url.urlnormalize` (url.py). -/
namespace ZCV.Url
open ZCV ZCV.Rx

/-- `isPath(s)`: true = treat as a file-system path -/
def isPath (s : Str) : Bool :=
  if s.contains ':' then
    match pyMatch Gen.pathsepRx s with
    | none => true
    | some st => (s.length - st.1.length) == 2      -- `len(m.group(0)) == 2`: a drive letter
  else true

/-- `urlnormalize(url)` -/
def urlnormalize (url : Str) : Str :=
  let lc := lower url
  if startsWith lc "file:/".toList && !startsWith lc "file:///".toList then "file://".toList ++ url.drop 5 else url

end ZCV.Url
