import ZCV.Model.Parser
/-!
Model of `ZConfig/matcher.py`, `SectionType.getsectioninfo` (info.py), the command-line
`OptionBag`/`MatcherMixin` (cmdline.py) and the `ConfigLoader` callbacks (loader.py).
Branch order follows the Python; `# pragma: no cover` branches are kept.
-/
namespace ZCV.Cfg
open ZCV

/-- datatype functions known to the model (stock ones through `ZCV.DT`, plus the harness ones) -/
structure Conv where
  key : Str → Str → Except ConvErr Str          -- key type by name
  val : Str → Str → Except ConvErr Val          -- value datatype by name
  sect : Str → Val → Except ConvErr Val         -- section datatype by name

def plainErr (tag : String) : Fail := .cfg { kind := .plain, tag := tag }

def convFail (e : ConvErr) (value : Option Str) (pos : Pos) (tag : String) : Fail :=
  match e with
  | .valueError => .cfg { kind := .conversion, line := some pos.line, url := pos.url, tag := tag, value := value }
  | .typeError => .dtExc "TypeError".toList
  | .other n => .dtExc n

inductive Slot
  | none
  | one (v : VI)
  | many (vs : List VI)
  | map (m : List (Str × VI))
  | mmap (m : List (Str × List VI))
  | sect (v : Val)
  | sects (vs : List Val)
  | done (v : Val)              -- after `constuct` replaced the raw value
deriving Repr

/-- one command-line item: (path, value, position) -/
structure OptItem where
  path : List Str
  val : Str
deriving Repr, BEq

/-- `OptionBag` -/
structure Bag where
  keypairs : List (Str × List Str)      -- normalised key ↦ values in the order given
  sectitems : List OptItem
deriving Repr

structure Matcher where
  ty : SType
  name : Option Str
  values : List (Str × Slot)      -- `_values`: attribute ↦ slot, in `_children` order
  used : List Str                 -- `_sectionnames`
  bag : Option Bag
deriving Repr

/-- everything a running load owns: the (possibly extended) schema, the shared handler list,
    the matcher stack (innermost first) -/
structure LS where
  schema : Schema
  privateSchema : Bool
  handlers : List (Str × Val)
  stack : List Matcher            -- head = the section lines are currently added to
  pkgs : Str → Pkg
  conv : Conv
  /-- `OptionBag.schema`: the schema object every option bag of this load consults for the type of the section it
      descends into — the loader's schema when the schema matcher was created (`ExtendedConfigLoader.cook`), NOT the
      derived schema a later `%import` replaces it by; `none` = no bag was made (the field is not consulted) -/
  bagSchema : Option Schema := none

def initSlot : Info → Slot
  | .key k => if k.name == ['+'] then (if k.multi then .mmap [] else .map []) else if k.multi then .many [] else .none
  | .sect s => if s.multi then .sects [] else .none

def newMatcher (ty : SType) (name : Option Str) (bag : Option Bag) : Matcher :=
  { ty := ty, name := name, values := ty.children.map (fun c => (c.2.attr, initSlot c.2)), used := [], bag := bag }

def getSlot (m : Matcher) (attr : Str) : Option Slot := (m.values.find? (·.1 == attr)).map (·.2)
def setSlot (m : Matcher) (attr : Str) (s : Slot) : Matcher :=
  { m with values := m.values.map (fun p => if p.1 == attr then (attr, s) else p) }

def isSubtype (s : Schema) (abs ty : Str) : Bool :=
  match s.gettype abs with
  | some (.abstract_ _ subs) => subs.contains ty
  | _ => false

def isAbstract (s : Schema) (ty : Str) : Bool :=
  match s.gettype ty with
  | some (.abstract_ _ _) => true
  | _ => false

def allowUnnamed (si : SectInfo) : Bool := si.name == ['*']

/-- `SectionType.getsectioninfo(type_, name)` -/
def getsectioninfo (s : Schema) (t : SType) (ty : Str) (name : Option Str) : M SectInfo :=
  go t.children
where
  go : List (Option Str × Info) → M SectInfo
  | [] => .error (plainErr "no matching section defined")
  | (key, info) :: rest =>
    match key with
    | some k =>
      if k != [] then
        if some k == name then
          match info with
          | .key _ => .error (plainErr "section name already in use for key")
          | .sect si =>
            if isAbstract s si.ty then
              if isSubtype s si.ty ty then .ok si
              else .error (plainErr "section type not allowed for name")
            else if si.ty != ty then .error (plainErr "name must be used for a different section type")
            else .ok si
        else go rest
      else goUnkeyed info rest
    | none => goUnkeyed info rest
  goUnkeyed (info : Info) (rest : List (Option Str × Info)) : M SectInfo :=
    match info with
    | .key _ => .error (.internal "AttributeError")     -- a key stored without a key: excluded by the schema invariant
    | .sect si =>
      if si.ty == ty then
        if name.isSome || allowUnnamed si then .ok si
        else .error (plainErr "sections must be named")
      else if isAbstract s si.ty then
        if isSubtype s si.ty ty then .ok si else go rest
      else go rest

/-- `SectionInfo.isAllowedName(name)` -/
def isAllowedName (si : SectInfo) (name : Option Str) : Bool :=
  if name == some ['*'] || name == some ['+'] then false
  else if si.name == ['+'] then name.isSome
  else if si.name == ['*'] then true
  else name == some si.name

/-- `OptionBag.__init__` over already split items -/
def mkBag (conv : Conv) (t : SType) (items : List OptItem) : M Bag :=
  items.foldlM (fun (b : Bag) it =>
    match it.path with
    | [] => .error (.internal "IndexError")
    | [k] =>
      match conv.key t.keytype k with
      | .ok name =>
        let kp := if b.keypairs.any (·.1 == name)
          then b.keypairs.map (fun p => if p.1 == name then (p.1, p.2 ++ [it.val]) else p)
          else b.keypairs ++ [(name, [it.val])]
        .ok { b with keypairs := kp }
      | .error e => .error (convFail e (some k) { line := -1, url := some "<command-line option>".toList } "override key")
    | _ => .ok { b with sectitems := b.sectitems ++ [it] }) { keypairs := [], sectitems := [] }

/-- `OptionBag.get_section_info(type_, name)`: (remaining bag, bag for the child if any) -/
def bagSectionInfo (conv : Conv) (s : Schema) (b : Bag) (ty : Str) (name : Option Str) : M (Bag × Option Bag) := do
  let (l, r) ← b.sectitems.foldlM (fun (acc : List OptItem × List OptItem) it =>
    match it.path with
    | [] => .error (.internal "IndexError")
    | p0 :: more =>
      match DT.basicKey p0 with
      | .error _ => .error (.cfg { kind := .syntax, line := some (-1), url := some "<command-line option>".toList, tag := "override basic-key" })
      | .ok bk =>
        if name.isSome && some (lower p0) == name then .ok (acc.1 ++ [{ it with path := more }], acc.2)
        else if bk == ty then .ok (acc.1 ++ [{ it with path := more }], acc.2)
        else .ok (acc.1, acc.2 ++ [it])) ([], [])
  if l.isEmpty then pure (b, none)
  else
    match s.gettype ty with
    | some (.concrete t) =>
      let child ← mkBag conv t l
      pure ({ b with sectitems := r }, some child)
    | Option.none => throw (Fail.cfg { kind := .schema, tag := "unknown type name" })   -- `self.schema.gettype(type_)`
    | _ => throw (Fail.internal "AttributeError")

/-- `BaseMatcher.addValue(key, value, position)` (after the key type has produced `realkey`) -/
def addValueCore (m : Matcher) (key realkey value : Str) (pos : Pos) : M Matcher :=
  -- the `for i in range(len(self.type))` search
  let rec search : List (Option Str × Info) → Option (Option Str × Info) → Option (Option Str × Info)
    | [], arb => arb
    | (k, ci) :: rest, arb =>
      if k == some realkey then some (k, ci)
      else if ci.name == ['+'] && !ci.isSection then search rest (some (k, ci))
      else search rest arb
  match search m.ty.children none with
  | none => .error (plainErr "not a known key name")
  | some (k, ci) =>
    match ci with
    | .sect _ => .error (plainErr "not a valid key name")
    | .key ki =>
      let vi : VI := { value := value, pos := pos }
      let isArb := k == some ['+']
      match getSlot m ki.attr with
      | Option.none => .error (.internal "KeyError")
      | some slot =>
        match slot with
        | .none =>                      -- `v is None`: single fixed key, first value
          if isArb then .ok (setSlot m ki.attr (.map [(realkey, vi)]))
          else if ki.multi then .ok (setSlot m ki.attr (.many [vi]))
          else .ok (setSlot m ki.attr (.one vi))
        | .one _ =>
          if !ki.multi then
            if !isArb then .error (plainErr "does not support multiple values")
            else .error (.internal "TypeError")
          else .error (.internal "TypeError")
        | .many vs => .ok (setSlot m ki.attr (.many (vs ++ [vi])))
        | .map mp =>
          if mp.any (·.1 == realkey) then .error (plainErr "too many values")
          else .ok (setSlot m ki.attr (.map (mp ++ [(realkey, vi)])))
        | .mmap mp =>
          if mp.any (·.1 == realkey) then
            .ok (setSlot m ki.attr (.mmap (mp.map fun p => if p.1 == realkey then (p.1, p.2 ++ [vi]) else p)))
          else .ok (setSlot m ki.attr (.mmap (mp ++ [(realkey, [vi])])))
        | _ => .error (.internal "TypeError")
  -- note: `search` returns the exact match if there is one, else the last wildcard key seen before the end

/-- `addValue` as the parser calls it (with the override bag in front when there is one) -/
def addValue (conv : Conv) (m : Matcher) (key value : Str) (pos : Pos) : M Matcher :=
  match conv.key m.ty.keytype key with
  | .error e => .error (convFail e (some key) pos "key")
  | .ok realkey =>
    match m.bag with
    | some b => if b.keypairs.any (·.1 == realkey) then .ok m else addValueCore m key realkey value pos
    | none => addValueCore m key realkey value pos

/-- `finish_optionbag` -/
def finishBag (conv : Conv) (m : Matcher) : M Matcher :=
  match m.bag with
  | none => .ok m
  | some b => do
    let m' ← b.keypairs.foldlM (fun (m : Matcher) (kv : Str × List Str) =>
      kv.2.foldlM (fun (m : Matcher) v =>
        match conv.key m.ty.keytype kv.1 with
        | .error e => .error (convFail e (some kv.1) { line := -1, url := some "<command-line option>".toList } "key")
        | .ok rk => addValueCore m kv.1 rk v { line := -1, url := some "<command-line option>".toList }) m) m
    if !b.sectitems.isEmpty then throw (plainErr "not all command line options were consumed")
    pure { m' with bag := none }

def convVI (conv : Conv) (dt : Str) (vi : VI) : M Val :=
  match conv.val dt vi.value with
  | .ok v => .ok v
  | .error e => .error (convFail e (some vi.value) vi.pos "value")

/-- the occurrence pass of `BaseMatcher.finish` for one child; returns the slot after defaults -/
def finishChild (ci : Info) (slot : Slot) : M Slot :=
  match ci with
  | .key ki =>
    if ki.name == ['+'] then
      -- wildcard: the "at least minOccurs keys supplied by the user" test comes first
      match slot with
      | .map mp =>
        if ki.minOccurs > mp.length then .error (plainErr "no keys defined for the key/value map")
        else .ok slot
      | .mmap mp =>
        if ki.minOccurs > mp.length then .error (plainErr "no keys defined for the key/value map")
        else
          let mp' := if mp == [] then (match ki.dflt with | .keyedMany d => d | _ => []) else mp
          if mp'.length < ki.minOccurs then .error (plainErr "not enough values") else .ok (.mmap mp')
      | _ => .error (.internal "TypeError")
    else if ki.multi then
      match slot with
      | .many vs =>
        let vs' := if vs == [] then (match ki.dflt with | .many d => d | _ => []) else vs
        if vs'.length < ki.minOccurs then .error (plainErr "not enough values") else .ok (.many vs')
      | _ => .error (.internal "TypeError")
    else
      match slot with
      | .none =>
        if ki.minOccurs > 0 then
          match ki.dflt with
          | .one _ => .error (.internal "TypeError")     -- `default[:]` on a ValueInfo; excluded by the schema rules
          | _ => .error (plainErr "no values; required")
        else
          match ki.dflt with
          | .one d => .ok (.one d)
          | _ => .ok .none
      | s => .ok s
  | .sect si =>
    if si.multi then
      match slot with
      | .sects vs => if vs.length < si.minOccurs then .error (plainErr "not enough values") else .ok slot
      | _ => .error (.internal "TypeError")
    else
      match slot with
      | .none => if si.minOccurs > 0 then .error (plainErr "no values; required") else .ok .none
      | s => .ok s

/-- the conversion pass (`constuct`) for one child -/
def constructChild (conv : Conv) (s : Schema) (ci : Info) (slot : Slot) : M Val :=
  let sectConv (v : Val) : M Val :=
    match v with
    | .sect ty _ _ =>
      match s.gettype ty with
      | some (.concrete t) =>
        match conv.sect t.datatype v with
        | .ok r => .ok r
        | .error e => .error (convFail e none { line := -1, url := none } "section datatype")
      | _ => .error (.internal "AttributeError")
    | other => .ok other
  match ci, slot with
  | .sect _, .sects vs => (vs.mapM sectConv).map Val.list
  | .sect _, .sect v => sectConv v
  | .sect _, .none => .ok .none
  | .key ki, .mmap mp => (mp.mapM fun (kv : Str × List VI) => (kv.2.mapM (convVI conv ki.dt)).map fun r => (kv.1, Val.list r)).map Val.map
  | .key ki, .many vs => (vs.mapM (convVI conv ki.dt)).map Val.list
  | .key ki, .map mp =>
    let src := if mp == [] then (match ki.dflt with | .keyed d => d | _ => []) else mp
    (src.mapM fun (kv : Str × VI) => (convVI conv ki.dt kv.2).map fun r => (kv.1, r)).map Val.map
  | .key ki, .one vi => convVI conv ki.dt vi
  | .key _, .none => .ok .none
  | _, _ => .error (.internal "TypeError")

/-- `BaseMatcher.finish()` + `constuct()` + `createValue()`; returns the section value and the
    handler entries appended, in order -/
def finishMatcher (conv : Conv) (s : Schema) (m0 : Matcher) : M (Val × List (Str × Val)) := do
  let m ← finishBag conv m0
  -- pass 1: occurrence constraints and defaults, children in schema order
  let slots ← m.ty.children.mapM fun (_, ci) =>
    match getSlot m ci.attr with
    | some sl => (finishChild ci sl).map fun r => (ci, r)
    | Option.none => .error (.internal "KeyError")
  -- pass 2: conversions, children in schema order
  let vals ← slots.mapM fun (ci, sl) => (constructChild conv s ci sl).map fun v => (ci, v)
  let attrs := vals.map fun (ci, v) => (ci.attr, v)
  let hs := vals.filterMap fun (ci, v) => ci.handler.map fun h => (h, v)
  pure (.sect (m.ty.name.getD []) m.name attrs, hs)

/-- `ConfigLoader.startSection` + `createChildMatcher` (+ `MatcherMixin.createChildMatcher`) -/
def lsStart (st : LS) (ty : Str) (name : Option Str) : M LS :=
  match st.stack with
  | [] => .error (.internal "IndexError")
  | parent :: below =>
    match st.schema.gettype ty with
    | Option.none => .error (.cfg { kind := .schema, tag := "unknown type name" })
    | some (.abstract_ _ _) => .error (plainErr "concrete sections cannot match abstract section types")
    | some (.concrete t) => do
      let ci ← getsectioninfo st.schema parent.ty (t.name.getD []) name
      if !isAllowedName ci name then throw (plainErr "not an allowed name")
      if !(name.isSome || allowUnnamed ci) then throw (plainErr "sections may not be unnamed")
      match parent.bag with
      | Option.none => pure { st with stack := newMatcher t name Option.none :: parent :: below }
      | some b =>
        -- the bag looks the type up in ITS schema (the one the load started with), not in the extended one
        let (b', cb) ← bagSectionInfo st.conv (st.bagSchema.getD st.schema) b (t.name.getD []) name
        pure { st with stack := newMatcher t name cb :: { parent with bag := some b' } :: below }

/-- `BaseMatcher.addSection(type_, name, sectvalue)` -/
def addSection (s : Schema) (m : Matcher) (ty : Str) (name : Option Str) (v : Val) : M Matcher := do
  let m1 ← match name with
    | some n =>
      if n != [] then
        if m.used.contains n then throw (plainErr "section names must not be re-used")
        else pure { m with used := m.used ++ [n] }
      else pure m
    | Option.none => pure m
  let ci ← getsectioninfo s m1.ty ty name
  match getSlot m1 ci.attr with
  | Option.none => throw (.internal "KeyError")
  | some (.sects vs) => if ci.multi then pure (setSlot m1 ci.attr (.sects (vs ++ [v]))) else throw (.internal "AttributeError")
  | some .none => if ci.multi then throw (.internal "AttributeError") else pure (setSlot m1 ci.attr (.sect v))
  | some _ => if ci.multi then throw (.internal "AttributeError") else throw (plainErr "too many instances of section")

/-- `ConfigLoader.endSection(parent, type_, name, matcher)` -/
def lsStop (st : LS) (ty : Str) (name : Option Str) : M LS :=
  match st.stack with
  | child :: parent :: below => do
    let (v, hs) ← finishMatcher st.conv st.schema child
    let parent' ← addSection st.schema parent ty name v
    pure { st with stack := parent' :: below, handlers := st.handlers ++ hs }
  | _ => .error (.internal "IndexError")

def lsValue (st : LS) (key value : Str) (pos : Pos) : M LS :=
  match st.stack with
  | cur :: below => (addValue st.conv cur key value pos).map fun m => { st with stack := m :: below }
  | [] => .error (.internal "IndexError")

/-- `ConfigLoader.importSchemaComponent(pkgname)` -/
def lsImport (st : LS) (pkg : Str) : M LS :=
  match st.pkgs pkg with
  | .illegalName => .error (.cfg { kind := .schema, tag := "illegal schema component name" })
  | .notImportable => .error (.cfg { kind := .schemaResource, tag := "could not load package" })
  | .notPackage => .error (.cfg { kind := .schemaResource, tag := "import name does not refer to a package" })
  | .noComponent => .error (.cfg { kind := .schemaResource, tag := "schema component not found" })
  | .component url types impls =>
    if st.schema.components.contains url then .ok { st with privateSchema := true }
    else do
      let sch0 := { st.schema with components := st.schema.components ++ [url] }
      -- the component's elements are processed in document order: a type is added, then registered
      let sch ← types.foldlM (fun (sc : Schema) (te : Str × TypeEntry) =>
        if sc.types.any (·.1 == te.1) then .error (.cfg { kind := .schema, tag := "type name cannot be redefined" })
        else
          let sc1 := { sc with types := sc.types ++ [te] }
          let sc2 := impls.foldl (fun (sc : Schema) (ia : Str × Str) =>
            if ia.1 == te.1 then
              { sc with types := sc.types.map fun p =>
                  match p.2 with
                  | .abstract_ n subs => if p.1 == ia.2 && !subs.contains ia.1 then (p.1, .abstract_ n (subs ++ [ia.1])) else p
                  | _ => p }
            else sc) sc1
          .ok sc2) sch0
      pure { st with schema := sch, privateSchema := true }

/-- `ExtendedConfigLoader.addOption(spec)` -/
def addOption (spec : Str) : M OptItem :=
  let bad (tag : String) : Fail := .cfg { kind := .syntax, line := some (-1), url := some "<command-line option>".toList, tag := tag }
  if !spec.contains '=' then .error (bad "invalid configuration specifier")
  else
    let opt := spec.takeWhile (· != '=')
    let val := (spec.dropWhile (· != '=')).drop 1
    let path := splitOn opt '/'
    if path.contains [] then .error (bad "'//' is not allowed in an option path")
    else .ok { path := path, val := val }
where
  /-- `s.split(c)` -/
  splitOn (s : Str) (c : Char) : List Str :=
    match s with
    | [] => [[]]
    | x :: t =>
      if x == c then [] :: splitOn t c
      else match splitOn t c with
        | w :: ws => (x :: w) :: ws
        | [] => [[x]]

def loaderCtx : PCtx LS :=
  { start := lsStart, stop := lsStop, value := lsValue, imp := lsImport, canInclude := true, canDefine := true }

structure LoadResult where
  value : Val
  handlers : List (Str × Val)
  schemaAfter : Schema          -- the application's schema object after the load (abstract tables are shared)

/-- `ConfigLoader.loadResource` / `ExtendedConfigLoader` with `overrides` already split by `addOption` -/
def load (conv : Conv) (env : Env) (pkgs : Str → Pkg) (schema : Schema) (url : Option Str)
    (lines : List Str) (specs : List Str) : M LoadResult := do
  let overrides ← specs.mapM addOption
  let bag ← if overrides.isEmpty then pure Option.none else (mkBag conv schema.top overrides).map some
  let st0 : LS := { schema := schema, privateSchema := false, handlers := [], stack := [newMatcher schema.top Option.none bag],
                    pkgs := pkgs, conv := conv, bagSchema := bag.map fun _ => schema }
  let active := match url with | some u => if u == [] then [] else [u] | none => []
  let ps ← parseLines 64 env loaderCtx active url lines 0 { ctx := st0, stack := [], defs := [] }
  match ps.ctx.stack with
  | [top] =>
    let (v, hs) ← finishMatcher conv ps.ctx.schema top
    let v' ← match conv.sect schema.top.datatype v with
      | .ok r => pure r
      | .error e => throw (convFail e Option.none { line := -1, url := Option.none } "schema datatype")
    let hs' := match schema.handler with | some h => [(h, v')] | Option.none => []
    pure { value := v', handlers := ps.ctx.handlers ++ hs ++ hs', schemaAfter := ps.ctx.schema }
  | _ => throw (.internal "IndexError")

end ZCV.Cfg
