import ZCV.Model.Parser
/-!
Model of `ZConfig/schemaless.py`: the `Context` the parser drives, the `Section` tree, `Section.__str__`,
and two more parser contexts used by the correspondence checks (an event recorder).
-/
namespace ZCV.Cfg
open ZCV

/-- `schemaless.Section` -/
inductive Sec where
  | mk (type : Str) (name : Option Str) (kvs : List (Str × List Str)) (sections : List Sec)
deriving Repr, Inhabited

def Sec.type : Sec → Str | .mk t _ _ _ => t
def Sec.name : Sec → Option Str | .mk _ n _ _ => n
def Sec.kvs : Sec → List (Str × List Str) | .mk _ _ k _ => k
def Sec.sections : Sec → List Sec | .mk _ _ _ s => s

/-- `Section.addValue` -/
def secAddValue (kvs : List (Str × List Str)) (key value : Str) : List (Str × List Str) :=
  if kvs.any (·.1 == key) then kvs.map (fun p => if p.1 == key then (p.1, p.2 ++ [value]) else p)
  else kvs ++ [(key, [value])]

/-- state of `schemaless.Context`: open sections (innermost first; the last one is `top`) and `top.imports` -/
structure SL where
  stack : List Sec
  imports : List Str

def slStart (s : SL) (ty : Str) (nm : Option Str) : M SL :=
  .ok { s with stack := Sec.mk ty nm [] [] :: s.stack }

def slStop (s : SL) (_ty : Str) (_nm : Option Str) : M SL :=
  match s.stack with
  | child :: Sec.mk t n k ss :: rest => .ok { s with stack := Sec.mk t n k (ss ++ [child]) :: rest }
  | _ => .error (.internal "IndexError")

def slValue (s : SL) (key value : Str) (_ : Pos) : M SL :=
  match s.stack with
  | Sec.mk t n k ss :: rest => .ok { s with stack := Sec.mk t n (secAddValue k key value) ss :: rest }
  | [] => .error (.internal "IndexError")

def slImport (s : SL) (pkg : Str) : M SL :=
  .ok (if s.imports.contains pkg then s else { s with imports := s.imports ++ [pkg] })

def schemalessCtx : PCtx SL :=
  { start := slStart, stop := slStop, value := slValue, imp := slImport, canInclude := false, canDefine := false }

def noEnv : Env := { res := fun _ => none, resolve := fun _ _ => .unknown, getenv := fun _ => none }

/-- `schemaless.loadConfigFile(file, url)` over the lines of the file -/
def slLoad (getenv : Str → Option Str) (url : Option Str) (lines : List Str) : M (Sec × List Str) := do
  let ps ← parseLines 8 { noEnv with getenv := getenv } schemalessCtx [] url lines 0
    { ctx := { stack := [Sec.mk [] none [] []], imports := [] }, stack := [], defs := [] }
  match ps.ctx.stack with
  | [top] => pure (top, ps.ctx.imports)
  | _ => throw (.internal "IndexError")

/-- insertion sort on keys by code points (`sorted(self.items())`; keys are unique) -/
def strLt : Str → Str → Bool
  | [], [] => false
  | [], _ :: _ => true
  | _ :: _, [] => false
  | a :: s, b :: t => if a.toNat < b.toNat then true else if b.toNat < a.toNat then false else strLt s t

def insertKey (p : Str × List Str) : List (Str × List Str) → List (Str × List Str)
  | [] => [p]
  | q :: r => if strLt p.1 q.1 then p :: q :: r else q :: insertKey p r

def sortKeys (l : List (Str × List Str)) : List (Str × List Str) := l.foldr insertKey []

def joinLines (ls : List Str) : Str := match ls with
  | [] => []
  | [l] => l
  | l :: r => l ++ '\n' :: joinLines r

/-- `value.replace('$', '$$')` -/
def escDollar (s : Str) : Str := s.flatMap (fun c => if c == '$' then ['$', '$'] else [c])

/-- the header gets a blank before `>` when it ends in `/` -/
def closeHeader (h : Str) : Str := if endsWith h ['/'] then h ++ [' ', '>'] else h ++ ['>']

mutual
/-- the `result` list of `Section.__str__(pre)` followed by `'\n'.join(result).rstrip()` -/
def secStr (imports : List Str) (pre : Str) : Sec → Str
  | .mk ty nm kvs ss =>
    let r0 : List Str := if imports.isEmpty then [] else imports.map (fun p => "%import ".toList ++ escDollar p) ++ [[]]
    let hasType := !ty.isEmpty
    let r1 := if hasType then
        r0 ++ [closeHeader (match nm with
               | some n => if n.isEmpty then pre ++ '<' :: ty else pre ++ '<' :: ty ++ ' ' :: n
               | none => pre ++ '<' :: ty)]
      else r0
    let pre1 := if hasType then pre ++ [' ', ' '] else pre
    let r2 := r1 ++ (sortKeys kvs).flatMap (fun p => p.2.map (fun v => pre1 ++ p.1 ++ ' ' :: escDollar v))
    let r3 := if !ss.isEmpty && !kvs.isEmpty then r2 ++ [[]] else r2
    let r4 := r3 ++ secStrs pre1 ss
    let r5 := if hasType then r4 ++ [pre ++ '<' :: '/' :: ty ++ ['>'], []] else r4
    let pre2 := if hasType then dropLastN pre1 2 else pre1
    let text := rstrip (joinLines r5)
    if pre2.isEmpty then text ++ ['\n'] else text
def secStrs (pre : Str) : List Sec → List Str
  | [] => []
  | s :: r => secStr [] pre s :: secStrs pre r
end

/-- `str(config)` for the top section returned by the loader -/
def slStr (top : Sec) (imports : List Str) : Str := secStr imports [] top

/-- event recorder context (the correspondence check of C03 drives the real parser with the same) -/
inductive Ev
  | start (ty : Str) (nm : Option Str)
  | stop (ty : Str) (nm : Option Str)
  | value (key value : Str) (line : Int)
  | imp (pkg : Str)
deriving Repr

def recCtx : PCtx (List Ev) :=
  { start := fun s t n => .ok (s ++ [.start t n]), stop := fun s t n => .ok (s ++ [.stop t n]),
    value := fun s k v p => .ok (s ++ [.value k v p.line]), imp := fun s p => .ok (s ++ [.imp p]),
    canInclude := false, canDefine := true }

def recParse (getenv : Str → Option Str) (url : Option Str) (lines : List Str) : M (List Ev) :=
  (parseLines 8 { noEnv with getenv := getenv } recCtx [] url lines 0 { ctx := [], stack := [], defs := [] }).map (·.ctx)

end ZCV.Cfg
