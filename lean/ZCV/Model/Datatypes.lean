import ZCV.Gen.Datatypes
import ZCV.Model.Val
import ZCV.Inet
/-!
Model of `ZConfig/datatypes.py`: the stock conversions, mirroring the code, with the
patterns, tables and bounds taken from the generated module.
-/
namespace ZCV.DT
open ZCV ZCV.Rx

abbrev R := Except ConvErr

/-- `RegularExpressionConversion.__call__` -/
def regexConv (r : RE) (v : Str) : R Str :=
  if matchesWhole r v then .ok v else .error .valueError

def basicKey (v : Str) : R Str := (regexConv Gen.basicKeyRx v).map lower
def identifier (v : Str) : R Str := regexConv Gen.identifierRx v
def dottedName (v : Str) : R Str := regexConv Gen.dottedNameRx v
def dottedSuffix (v : Str) : R Str := regexConv Gen.dottedSuffixRx v

def asBoolean (s : Str) : R Bool :=
  let ss := lower s
  if Gen.boolTrue.contains ss then .ok true
  else if Gen.boolFalse.contains ss then .ok false
  else .error .valueError

def integer (v : Str) : R Int :=
  match pyInt v with
  | some n => .ok n
  | none => .error .valueError

/-- `RangeCheckedConversion(integer, min, max)` -/
def rangeChecked (mn mx : Option Int) (v : Str) : R Int := do
  let n ← integer v
  match mn with
  | some lo => if n < lo then throw .valueError
  | none => pure ()
  match mx with
  | some hi => if n > hi then throw .valueError
  | none => pure ()
  pure n

def portNumber (v : Str) : R Int := rangeChecked Gen.portMin Gen.portMax v

/-- `v[-k:]` and `v[:-k]` for a key size `k ≥ 0`: Python's `-0` is `0`, so `k = 0` selects the whole string / nothing -/
def sufN (v : Str) (k : Nat) : Str := if k = 0 then v else lastN v k
def preN (v : Str) (k : Nat) : Str := if k = 0 then [] else dropLastN v k

/-- `SuffixMultiplier.__call__` -/
def suffixLoop (v : Str) (keysz : Nat) : List (Str × Int) → Option (R Int)
  | [] => none
  | (s, m) :: rest =>
    if sufN v keysz == s then some ((integer (preN v keysz)).map (· * m))
    else suffixLoop v keysz rest

def suffixMult (tbl : List (Str × Int)) (keysz : Nat) (dflt : Int) (v0 : Str) : R Int :=
  let v := lower v0
  match suffixLoop v keysz tbl with
  | some r => r
  | none => (integer v).map (· * dflt)

def byteSize := suffixMult Gen.byteSizeTbl Gen.byteSizeKeysz Gen.byteSizeDefault
def timeInterval := suffixMult Gen.timeIntervalTbl Gen.timeIntervalKeysz Gen.timeIntervalDefault

/-- `InetAddress.__call__` : (host, port?) -/
def inetAddress (defaultHost : Str) (s : Str) : R (Str × Option Int) := do
  let (host, port) ←
    if s.contains ':' then
      let (h0, p0) := rsplit1 s ':'
      let (h1, p1) : Str × Option Str :=
        if startsWith h0 ['['] && endsWith h0 [']'] then ((h0.drop 1).take (h0.length - 2), some p0)
        else if h0.contains ':' then (s, none)
        else (h0, some p0)
      let port ← match p1 with
        | some p => if p != [] then (portNumber p).map some else pure none
        | none => pure none
      pure (lower h1, port)
    else
      match portNumber s with
      | .ok p => pure ([], some p)
      | .error .valueError =>
        if (splitWS s).length != 1 then throw .valueError
        else pure (lower s, none)
      | .error e => throw e
  pure (if host == [] then defaultHost else host, port)

inductive Family | unix | inet | inet6 deriving Repr, DecidableEq

def familyStr : Family → Str
  | .unix => "AF_UNIX".toList | .inet => "AF_INET".toList | .inet6 => "AF_INET6".toList

/-- `SocketAddress.__init__` (os.sep = '/') -/
def socketAddress (defaultHost : Str) (s : Str) : R (Family × Sum Str (Str × Option Int)) :=
  if s.contains '/' then .ok (.unix, .inl s)
  else do
    let a ← inetAddress defaultHost s
    pure (if a.1.contains ':' then .inet6 else .inet, .inr a)

def stringList (s : Str) : List Str := splitWS s

end ZCV.DT

namespace ZCV.DT
open ZCV ZCV.Rx

/-- `IpaddrOrHostname.__call__` -/
def ipaddrOrHostname (v : Str) : R Str := do
  let r ← (regexConv Gen.ipaddrRx v).map lower
  if r.contains ':' then (if pton6 r then pure r else throw .valueError) else pure r

/-- acceptance grammar of `float(str)`: returns the text `float` would parse (without the surrounding white space `float` skips, `stripInt`), values stay symbolic -/
def digitPart : Str → Option Str      -- consumes digit (_? digit)*, returns the rest
  | [] => none
  | c :: t => if pyDigit c then some (go t) else none
where go : Str → Str
  | [] => []
  | '_' :: d :: t => if pyDigit d then go t else '_' :: d :: t
  | d :: t => if pyDigit d then go t else d :: t

def floatBody (s : Str) : Bool :=
  let afterExp (r : Str) : Bool :=
    match r with
    | [] => true
    | e :: r1 =>
      if e == 'e' || e == 'E' then
        let r2 := match r1 with | '+' :: x => x | '-' :: x => x | x => x
        match digitPart r2 with | some [] => true | _ => false
      else false
  match digitPart s with
  | some r =>
    match r with
    | '.' :: r1 => (match digitPart r1 with | some r2 => afterExp r2 | none => afterExp r1)
    | _ => afterExp r
  | none =>
    match s with
    | '.' :: r1 => (match digitPart r1 with | some r2 => afterExp r2 | none => false)
    | _ => false

def floatOk (s0 : Str) : Bool :=
  let s := stripInt s0
  let s1 := match s with | '+' :: x => x | '-' :: x => x | x => x
  let l := asciiLower s1
  if l == "inf".toList || l == "infinity".toList || l == "nan".toList then true
  else floatBody s1

def floatConv (s : Str) : R Val := if floatOk s then .ok (.float (stripInt s)) else .error .valueError

end ZCV.DT
