import ZCV.Model.Conv
import ZCV.Gen.Schema
/-!
Model of the schema loader: `ZConfig/schema.py` (`BaseParser`, `SchemaParser`, `ComponentParser`) driving the
constructors and checks of `ZConfig/info.py`, handler by handler, in document order.

The model starts from the XML *element tree* (what expat/SAX delivers: elements with attributes, character data);
XML text → tree is not modelled.  Python objects that are mutated through references (`SchemaType`, `SectionType`,
`AbstractType`, the key object on top of `_stack` that has already been appended to its container) are values here:
types live in the table `ES.types` and are referred to by name; the key being read is kept in its stack frame and
written back into its container when its element ends.  `_keymap` / `_attrmap` are not stored: in `info.py` they are
always the keys / attributes of `_children` (this is validated by the correspondence, not assumed silently: a
disagreement shows up as a different accept/reject outcome).

Outcome classes: `SchemaError` (incl. `UnknownDocumentTypeError`), `SchemaResourceError`, `DataConversionError`
(a keyed default whose key the key type rejects), and `internal` for every other Python exception
(ImportError from the datatype registry, …).  Positions of defaults are not modelled (sentinel line).
-/
namespace ZCV.Elab
open ZCV ZCV.Cfg

inductive Node where
  | elem (tag : Str) (attrs : List (Str × Str)) (children : List Node)
  | text (s : Str)
deriving Repr, Inhabited

inductive EFail where
  | schema (tag : String)
  | schemaResource (tag : String)
  | conversion (tag : String)
  | internal (exc : String)
deriving Repr, DecidableEq

abbrev EM := Except EFail
def serr {α} (tag : String) : EM α := .error (.schema tag)

/-- what `Registry.search` does with a name containing a dot (an import) -/
inductive RegRes where
  | found (canon : Str)
  | valueError
  | raises (exc : String)
deriving Repr

inductive CompRes where
  | notImportable | notPackage | noFile
  | doc (tree : Node)
deriving Repr

structure Env where
  conv : Conv                        -- key-type functions by registry name
  dotted : Str → RegRes              -- datatype names containing '.'
  comps : Str → Str → CompRes        -- package name, file name
  bases : Str → Option Node          -- `extends` of <schema>: by reference as written (URL joining is C18's business)

/-- position given to schema defaults (never compared) -/
def defaultPos : Pos := { line := 1000000007, url := none }

/-- `KeyInfo` / `MultiKeyInfo` object, including what only matters while the schema is read -/
structure EKey where
  name : Str
  attr : Str
  multi : Bool
  minOccurs : Nat
  dt : Str
  handler : Option Str
  dflt : Default                -- `_default` (for name '+' before `computedefault`: keyed by the keys as written)
  raw : Option Default := none  -- `_rawdefaults`
  finished : Bool := false
  hasDesc : Bool := false
  hasEx : Bool := false
deriving Repr

inductive EInfo where
  | key (k : EKey)
  | sect (s : SectInfo)
deriving Repr

def EInfo.attr : EInfo → Str | .key k => k.attr | .sect s => s.attr

structure EType where
  name : Option Str
  keytype : Str
  datatype : Str
  children : List (Option Str × EInfo) := []
  hasDesc : Bool := false
  hasEx : Bool := false
deriving Repr

inductive EEntry where
  | concrete (t : EType)
  | abstract_ (name : Str) (subs : List Str) (hasDesc : Bool)
deriving Repr

structure ES where
  types : List (Str × EEntry)
  top : EType
  handler : Option Str
  components : List Str
deriving Repr

inductive Frame where
  | schema
  | stype (name : Str)
  | atype (name : Str)
  | key (k : EKey)
  | sect (hasDesc hasEx : Bool)
deriving Repr

structure PSt where
  es : ES
  prefixes : List Str := []     -- head = `_prefixes[-1]`
  stack : List Frame := []      -- head = `_stack[-1]`
  baseKts : List Str := []
  baseDts : List Str := []
deriving Repr

abbrev Attrs := List (Str × Str)

def attr (attrs : Attrs) (k : String) : Option Str := (attrs.find? (·.1 == k.toList)).map (·.2)
def hasAttr (attrs : Attrs) (k : String) : Bool := (attr attrs k).isSome
/-- `attrs.get(k, "").strip()` -/
def attrStrip (attrs : Attrs) (k : String) : Str := strip ((attr attrs k).getD [])

def basicKeyE (s : Str) : EM Str :=
  match DT.basicKey s with | .ok r => .ok r | .error _ => serr "value did not match regular expression"
def identifierE (s : Str) : EM Str :=
  match DT.identifier s with | .ok r => .ok r | .error _ => serr "not a valid Python identifier"

def ES.gettype (es : ES) (name : Str) : Option (Str × EEntry) := es.types.find? (·.1 == lower name)

def ES.updType (es : ES) (n : Str) (f : EType → EType) : ES :=
  { es with types := es.types.map fun (k, e) =>
      if k == n then (k, match e with | .concrete t => .concrete (f t) | a => a) else (k, e) }

/-- `Registry.get` -/
def regGet (env : Env) (name : Str) : EM Str :=
  if name.contains '.' then
    match env.dotted name with
    | .found c => .ok c
    | .valueError => serr "datatype (registry ValueError)"
    | .raises e => .error (.internal e)
  else
    match DT.basicKey name with
    | .error _ => serr "value did not match regular expression"
    | .ok n => if Gen.stockNames.contains n then .ok n else serr "unloadable datatype name"

def getHandler (attrs : Attrs) : EM (Option Str) :=
  match attr attrs "handler" with
  | none => .ok none
  | some v => (basicKeyE v).map some

def pushPrefix (st : PSt) (attrs : Attrs) : EM PSt :=
  match attr attrs "prefix" with
  | some (c :: cs) =>
    let name := c :: cs
    let r := if st.prefixes.isEmpty then DT.dottedName name else DT.dottedSuffix name
    match r with
    | .error _ => serr "not a valid prefix"
    | .ok nm =>
      if nm.head? == some '.' then
        match st.prefixes with
        | p :: _ => .ok { st with prefixes := (p ++ nm) :: st.prefixes }
        | [] => .error (.internal "IndexError")
      else .ok { st with prefixes := nm :: st.prefixes }
  | _ =>
    match st.prefixes with
    | p :: _ => .ok { st with prefixes := p :: st.prefixes }
    | [] => .ok { st with prefixes := [[]] }

def popPrefix (st : PSt) : PSt := { st with prefixes := st.prefixes.drop 1 }

def getClassname (st : PSt) (name : Str) : EM Str :=
  if name.head? == some '.' then
    match st.prefixes with
    | p :: _ => .ok (p ++ name)
    | [] => .error (.internal "IndexError")
  else .ok name

/-- `get_datatype(attrs, attrkey, default, base)`; `base` = the base type's value for that attrName -/
def getDatatype (env : Env) (st : PSt) (attrs : Attrs) (key : String) (dflt : String) (base : Option Str) : EM Str :=
  match attr attrs key with
  | some v => do let n ← getClassname st v; regGet env n
  | none =>
    match base with
    | some b => .ok b
    | none => regGet env dflt.toList

def getSectTypeinfo (env : Env) (st : PSt) (attrs : Attrs) (base : Option (Str × Str)) : EM (Str × Str) := do
  let kt ← getDatatype env st attrs "keytype" "basic-key" (base.map (·.1))
  let _vt ← getDatatype env st attrs "valuetype" "string" none
  let dt ← getDatatype env st attrs "datatype" "null" (base.map (·.2))
  pure (kt, dt)

def getRequired (attrs : Attrs) : EM Bool :=
  match attr attrs "required" with
  | none => .ok false
  | some v =>
    if v == "yes".toList then .ok true
    else if v == "no".toList then .ok false
    else serr "value for 'required' must be 'yes' or 'no'"

/-- `self._stack[-1].keytype` -/
def topKeytype (st : PSt) : EM Str :=
  match st.stack with
  | .schema :: _ => .ok st.es.top.keytype
  | .stype n :: _ =>
    match st.es.types.find? (·.1 == n) with
    | some (_, .concrete t) => .ok t.keytype
    | _ => .error (.internal "AttributeError")
  | [] => .error (.internal "IndexError")
  | _ => .error (.internal "AttributeError")

def convKeyName (env : Env) (kt : Str) (name : Str) : EM Str :=
  match env.conv.key kt name with
  | .ok r => .ok r
  | .error .valueError => serr "could not convert key name to keytype"
  | .error .typeError => .error (.internal "TypeError")
  | .error (.other n) => .error (.internal (String.ofList n))

/-- `get_name_info`: (any_name, name, attrName) -/
def getNameInfo (env : Env) (st : PSt) (attrs : Attrs) (dflt : Option Str) : EM (Option Str × Option Str × Option Str) := do
  let name ← match (match attr attrs "name" with | some v => some v | none => dflt) with
    | some (c :: cs) => pure (c :: cs)
    | _ => serr "name must be specified and non-empty"
  let aname ← match attr attrs "attribute" with
    | some (c :: cs) => do
      let a ← identifierE (c :: cs)
      if startsWith a Gen.reservedAttrPrefix then serr "attribute names may not start with 'getSection'"
      pure (some a)
    | _ => pure none
  if Gen.anyNames.contains name then
    match aname with
    | some (c :: cs) => pure (some name, none, some (c :: cs))
    | _ => serr "container attribute must be specified"
  else
    let kt ← topKeytype st
    let nm ← convKeyName env kt name
    match aname with
    | some (c :: cs) => pure (none, some nm, some (c :: cs))
    | _ =>
      let a ← basicKeyE nm
      let a' ← identifierE (a.map fun ch => if ch == '-' then '_' else ch)
      pure (none, some nm, some a')

/-- `get_key_info`: (name, datatype, handler, attrName) -/
def getKeyInfo (env : Env) (st : PSt) (attrs : Attrs) : EM (Str × Str × Option Str × Str) := do
  let (anyName, name, attrName) ← getNameInfo env st attrs none
  if anyName == some ['*'] then serr "may not specify '*' for name"
  let nameTruthy := match name with | some (_ :: _) => true | _ => false
  if !nameTruthy && anyName != some ['+'] then serr "name may not be omitted or empty"
  let dt ← getDatatype env st attrs "datatype" "string" none
  let handler ← getHandler attrs
  let nm := if nameTruthy then name.getD [] else anyName.getD []
  pure (nm, dt, handler, attrName.getD [])

/-- `add_valueinfo` of KeyInfo / MultiKeyInfo -/
def addValueInfo (k : EKey) (vi : VI) (key : Option Str) : EM EKey :=
  if k.multi then
    if k.name == ['+'] then
      match k.dflt with
      | .keyedMany m =>
        let kk := key.getD []
        if m.any (·.1 == kk) then
          .ok { k with dflt := .keyedMany (m.map fun (a, vs) => if a == kk then (a, vs ++ [vi]) else (a, vs)) }
        else .ok { k with dflt := .keyedMany (m ++ [(kk, [vi])]) }
      | _ => .error (.internal "AttributeError")
    else
      match k.dflt with
      | .many l => .ok { k with dflt := .many (l ++ [vi]) }
      | _ => .error (.internal "AttributeError")
  else
    if k.name == ['+'] then
      match k.dflt with
      | .keyed m =>
        let kk := key.getD []
        if m.any (·.1 == kk) then serr "duplicate default value for key"
        else .ok { k with dflt := .keyed (m ++ [(kk, vi)]) }
      | _ => .error (.internal "AttributeError")
    else
      match k.dflt with
      | .none => .ok { k with dflt := .one vi }
      | _ => serr "cannot set more than one default to key with maxOccurs == 1"

/-- `BaseKeyInfo.adddefault` -/
def addDefault (k : EKey) (value : Str) (key : Option Str) : EM EKey :=
  if k.finished then serr "cannot add default values to finished KeyInfo"
  else if k.name == ['+'] && key.isNone then serr "default values must be keyed for name='+'"
  else if k.name != ['+'] && key.isSome then serr "unexpected key for default value"
  else addValueInfo k { value := value, pos := defaultPos } key

def finishKey (k : EKey) : EM EKey :=
  if k.finished then serr "cannot finish KeyInfo more than once" else .ok { k with finished := true }

/-- `ValueInfo(k, pos).convert(keytype)` -/
def convDefaultKey (env : Env) (kt : Str) (rk : Str) : EM Str :=
  match env.conv.key kt rk with
  | .ok r => .ok r
  | .error .valueError => .error (.conversion "default key")
  | .error .typeError => .error (.internal "TypeError")
  | .error (.other n) => .error (.internal (String.ofList n))

/-- `computedefault(keytype)` of KeyInfo / MultiKeyInfo (with `prepare_raw_defaults`) -/
def computeDefault (env : Env) (kt : Str) (k : EKey) : EM EKey :=
  if k.name != ['+'] then .error (.internal "AssertionError")
  else
    let raw := k.raw.getD k.dflt
    match raw with
    | .keyed m =>
      m.foldlM (fun (acc : EKey) (p : Str × VI) => do
        let key ← convDefaultKey env kt p.1
        addValueInfo acc p.2 (some key)) { k with raw := some raw, dflt := .keyed [] }
    | .keyedMany m =>
      m.foldlM (fun (acc : EKey) (p : Str × List VI) => do
        let key ← convDefaultKey env kt p.1
        p.2.foldlM (fun (a : EKey) (vi : VI) => addValueInfo a vi (some key)) acc) { k with raw := some raw, dflt := .keyedMany [] }
    | _ => .error (.internal "AttributeError")

/-- children of the container on top of the stack -/
def topChildren (st : PSt) : EM (List (Option Str × EInfo)) :=
  match st.stack with
  | .schema :: _ => .ok st.es.top.children
  | .stype n :: _ =>
    match st.es.types.find? (·.1 == n) with
    | some (_, .concrete t) => .ok t.children
    | _ => .error (.internal "AttributeError")
  | [] => .error (.internal "IndexError")
  | _ => .error (.internal "AttributeError")

def setTopChildren (st : PSt) (ch : List (Option Str × EInfo)) : PSt :=
  match st.stack with
  | .schema :: _ => { st with es := { st.es with top := { st.es.top with children := ch } } }
  | .stype n :: _ => { st with es := st.es.updType n fun t => { t with children := ch } }
  | _ => st

def truthyKey : Option Str → Bool | some (_ :: _) => true | _ => false

/-- `SectionType._add_child` on the container on top of the stack -/
def addChild (st : PSt) (key : Option Str) (info : EInfo) : EM PSt := do
  let ch ← topChildren st
  if truthyKey key && ch.any (fun c => truthyKey c.1 && c.1 == key) then serr "child name … already used"
  if !info.attr.isEmpty && ch.any (fun c => c.2.attr == info.attr) then serr "child attribute name … already used"
  pure (setTopChildren st (ch ++ [(key, info)]))

/-- write the finished key object back: it is the last child of the container (now on top of the stack) -/
def replaceLastChild (st : PSt) (k : EKey) : EM PSt := do
  let ch ← topChildren st
  match ch.reverse with
  | (key, .key _) :: r => pure (setTopChildren st ((((key, EInfo.key k)) :: r).reverse))
  | _ => .error (.internal "AssertionError")

def startKey (env : Env) (st : PSt) (attrs : Attrs) : EM PSt := do
  let (name, dt, handler, attrName) ← getKeyInfo env st attrs
  let req ← getRequired attrs
  let k0 : EKey := { name := name, attr := attrName, multi := false, minOccurs := if req then 1 else 0, dt := dt,
                     handler := handler, dflt := if name == ['+'] then .keyed [] else .none }
  let k1 ← match attr attrs "default" with
    | some d => if req then serr "required key cannot have a default value" else addDefault k0 (strip d) none
    | none => pure k0
  let k2 ← if name != ['+'] then finishKey k1 else pure k1
  let st' ← addChild st (some name) (.key k2)
  pure { st' with stack := .key k2 :: st'.stack }

def endKey (env : Env) (st : PSt) : EM PSt :=
  match st.stack with
  | .key k :: rest => do
    let st1 := { st with stack := rest }
    let k' ← if k.name == ['+'] then do
        let kt ← topKeytype st1
        let k1 ← computeDefault env kt k
        finishKey k1
      else pure k
    replaceLastChild st1 k'
  | _ => .error (.internal "AttributeError")

def startMultikey (env : Env) (st : PSt) (attrs : Attrs) : EM PSt := do
  if hasAttr attrs "default" then serr "default values for multikey must be given using 'default' elements"
  let (name, dt, handler, attrName) ← getKeyInfo env st attrs
  let req ← getRequired attrs
  let k : EKey := { name := name, attr := attrName, multi := true, minOccurs := if req then 1 else 0, dt := dt,
                    handler := handler, dflt := if name == ['+'] then .keyedMany [] else .many [] }
  let st' ← addChild st (some name) (.key k)
  pure { st' with stack := .key k :: st'.stack }

def endMultikey (env : Env) (st : PSt) : EM PSt :=
  match st.stack with
  | .key k :: rest => do
    let st1 := { st with stack := rest }
    let k1 ← if k.name == ['+'] then do
        let kt ← topKeytype st1
        computeDefault env kt k
      else pure k
    let k2 ← finishKey k1
    replaceLastChild st1 k2
  | _ => .error (.internal "AttributeError")

/-- `get_sectiontype`: the name of the type the `type` attrName refers to -/
def getSectiontype (st : PSt) (attrs : Attrs) : EM Str :=
  match attr attrs "type" with
  | some (c :: cs) =>
    match st.es.gettype (c :: cs) with
    | some (n, _) => .ok n
    | none => serr "unknown type name"
  | _ => serr "section must specify type"

def startSection (env : Env) (st : PSt) (attrs : Attrs) : EM PSt := do
  let ty ← getSectiontype st attrs
  let handler ← getHandler attrs
  let req ← getRequired attrs
  let (anyName, name, attrName) ← getNameInfo env st attrs (some ['*'])
  -- `addsection`: `assert name not in ("*", "+")` (a key type that turns a fixed name into a wildcard name)
  if name == some ['*'] || name == some ['+'] then .error (.internal "AssertionError")
  let si : SectInfo := { name := (match anyName with | some a => a | none => name.getD []), attr := attrName.getD [],
                         multi := false, minOccurs := if req then 1 else 0, ty := ty, handler := handler }
  let st' ← addChild st name (.sect si)
  pure { st' with stack := .sect false false :: st'.stack }

def startMultisection (env : Env) (st : PSt) (attrs : Attrs) : EM PSt := do
  let ty ← getSectiontype st attrs
  let req ← getRequired attrs
  let (anyName, name, attrName) ← getNameInfo env st attrs (some ['*'])
  match anyName with
  | some a =>
    if !Gen.multisectionNames.contains a then serr "multisection must specify '*' or '+' for the name"
    let handler ← getHandler attrs
    let si : SectInfo := { name := a, attr := attrName.getD [], multi := true, minOccurs := if req then 1 else 0,
                           ty := ty, handler := handler }
    let st' ← addChild st name (.sect si)
    pure { st' with stack := .sect false false :: st'.stack }
  | none => serr "multisection must specify '*' or '+' for the name"

def popFrame (st : PSt) : EM PSt :=
  match st.stack with
  | _ :: r => .ok { st with stack := r }
  | [] => .error (.internal "IndexError")

/-- `SchemaType.addtype` -/
def addType (es : ES) (n : Str) (e : EEntry) : EM ES :=
  if es.types.any (·.1 == n) then serr "type name cannot be redefined" else .ok { es with types := es.types ++ [(n, e)] }

def startAbstracttype (st : PSt) (attrs : Attrs) : EM PSt :=
  match attr attrs "name" with
  | some (c :: cs) => do
    let n ← basicKeyE (c :: cs)
    let es ← addType st.es n (.abstract_ n [] false)
    pure { st with es := es, stack := .atype n :: st.stack }
  | _ => serr "abstracttype name must not be omitted or empty"

/-- `deriveSectionType`: the copied children, with the wildcard keys' defaults recomputed under the new key type -/
def deriveChildren (env : Env) (kt : Str) (ch : List (Option Str × EInfo)) : EM (List (Option Str × EInfo)) :=
  ch.mapM fun (key, info) =>
    match info with
    | .key k =>
      if k.name == ['+'] then do
        let k' ← computeDefault env kt k
        pure (key, EInfo.key k')
      else pure (key, info)
    | _ => pure (key, info)

def startSectiontype (env : Env) (st : PSt) (attrs : Attrs) : EM PSt :=
  match attr attrs "name" with
  | some (c :: cs) => do
    let name ← basicKeyE (c :: cs)
    let st1 ← pushPrefix st attrs
    let es2 ← match attr attrs "extends" with
      | some b => do
        let basename ← basicKeyE b
        match st1.es.gettype basename with
        | none => serr "unknown type name"
        | some (_, .abstract_ _ _ _) => serr "sectiontype cannot extend an abstract type"
        | some (_, .concrete base) =>
          let (kt, dt) ← getSectTypeinfo env st1 attrs (some (base.keytype, base.datatype))
          let es' ← addType st1.es name (.concrete { name := some name, keytype := kt, datatype := dt })
          let ch ← deriveChildren env kt base.children
          pure (es'.updType name fun t => { t with children := ch })
      | none => do
        let (kt, dt) ← getSectTypeinfo env st1 attrs none
        addType st1.es name (.concrete { name := some name, keytype := kt, datatype := dt })
    let es3 ← match attr attrs "implements" with
      | some i => do
        let ifname ← basicKeyE i
        match es2.gettype ifname with
        | none => serr "unknown type name"
        | some (_, .concrete _) => serr "type specified by implements is not an abstracttype"
        | some (an, .abstract_ _ _ _) =>
          pure { es2 with types := es2.types.map fun (k, e) =>
                   if k == an then
                     (k, match e with
                         | .abstract_ nm subs d => .abstract_ nm (if subs.contains name then subs else subs ++ [name]) d
                         | o => o)
                   else (k, e) }
      | none => pure es2
    pure { st1 with es := es3, stack := .stype name :: st1.stack }
  | _ => serr "sectiontype name must not be omitted or empty"

def endSectiontype (st : PSt) : EM PSt := popFrame (popPrefix st)

/-- documents a parser can pull in: a component (`<import package=…>`) or a base schema (`<schema extends=…>`) -/
structure Hooks where
  loadComponent : ES → Node → EM ES
  extendSchema : ES → Node → EM ES

def splitOnChar (s : Str) (c : Char) : List Str :=
  s.foldr (fun ch acc => if ch == c then [] :: acc else match acc with | h :: t => (ch :: h) :: t | [] => [[ch]]) [[]]

def startImport (env : Env) (h : Hooks) (st : PSt) (attrs : Attrs) : EM PSt := do
  let src := attrStrip attrs "src"
  let pkg := attrStrip attrs "package"
  let filename := attrStrip attrs "file"
  if src.isEmpty && pkg.isEmpty then serr "import must specify either src or package"
  if !src.isEmpty && !pkg.isEmpty then serr "import may only specify one of src or package"
  if !src.isEmpty then
    if !filename.isEmpty then serr "import may not specify file and src"
    .error (.internal "unmodelled: import src")
  else
    if filename.contains '/' then serr "file may not include a directory part"
    let pkg' ← getClassname st pkg
    if (splitOnChar pkg' '.').contains [] then serr "illegal schema component name"
    let file := if filename.isEmpty then "component.xml".toList else filename
    let res := env.comps pkg' file
    match res with
    | .notImportable => .error (.schemaResource "could not load package")
    | .notPackage => .error (.schemaResource "import name does not refer to a package")
    | _ =>
      let srcU := "package:".toList ++ pkg' ++ [':'] ++ file
      if st.es.components.contains srcU then pure st
      else
        let es1 := { st.es with components := st.es.components ++ [srcU] }
        match res with
        | .doc tree => do
          let es2 ← h.loadComponent es1 tree
          pure { st with es := es2 }
        | _ => .error (.schemaResource "component file not found")

def hasFragment (src : Str) : Bool := !((src.dropWhile (· != '#')).drop 1).isEmpty

def inheritType (bases : List Str) (own : Str) (given : Bool) : EM Str :=
  match bases with
  | [] => .ok own
  | b :: rest =>
    if given then .ok own
    else if rest.all (· == b) then .ok b
    else serr "base schemas have conflicting types"

/-- `start_schema`; `ext` = the schema object of the extending parser, when this document is a base schema -/
def startSchema (env : Env) (h : Hooks) (ext : Option ES) (st : PSt) (attrs : Attrs) : EM PSt := do
  let st1 ← pushPrefix st attrs
  let handler ← getHandler attrs
  let (kt, dt) ← getSectTypeinfo env st1 attrs none
  let es0 : ES := match ext with
    | some es => es
    | none => { types := [], top := { name := none, keytype := kt, datatype := dt }, handler := handler, components := [] }
  let st2 : PSt := { st1 with es := es0, stack := [.schema] }
  let (st3, kt', dt') ← match attr attrs "extends" with
    | some ex => do
      let st' ← (splitWS ex).reverse.foldlM (fun (acc : PSt) (src : Str) => do
        if hasFragment src then serr "schema extends many not include a fragment identifier"
        match env.bases src with
        | none => .error (.schemaResource "base schema not found")
        | some tree =>
          let es' ← h.extendSchema acc.es tree
          pure { acc with es := es', baseKts := acc.baseKts ++ [es'.top.keytype], baseDts := acc.baseDts ++ [es'.top.datatype] }) st2
      let k ← inheritType st'.baseKts kt (hasAttr attrs "keytype")
      let d ← inheritType st'.baseDts dt (hasAttr attrs "datatype")
      pure (st', k, d)
    | none => pure (st2, kt, dt)
  pure { st3 with es := { st3.es with top := { st3.es.top with keytype := kt', datatype := dt' } } }

def endSchema (ext : Bool) (st : PSt) : EM PSt :=
  match st.stack with
  | [_] =>
    match (popPrefix st).prefixes with
    | [] =>
      let st' := { popPrefix st with stack := [] }
      .ok (if ext then { st' with es := { st'.es with top := { st'.es.top with hasDesc := false } } } else st')
    | _ => .error (.internal "AssertionError")
  | _ => .error (.internal "AssertionError")

inductive DocKind where
  | schema (ext : Option ES)
  | component
deriving Repr

def DocKind.topLevel : DocKind → Str
  | .schema _ => Gen.schemaTopLevel
  | .component => Gen.componentTopLevel
def DocKind.handled : DocKind → List Str
  | .schema _ => Gen.schemaHandledTags
  | .component => Gen.componentHandledTags

/-- `characters_description` / `characters_example`: "at most one per element" -/
def markDesc (isComponent : Bool) (st : PSt) : EM PSt :=
  match st.stack with
  | [] => if isComponent then .ok st else .error (.internal "IndexError")
  | f :: rest =>
    let dup : EM PSt := serr "at most one <description> may be used for each element"
    match f with
    | .schema =>
      if st.es.top.hasDesc && !isComponent then dup
      else .ok { st with es := { st.es with top := { st.es.top with hasDesc := true } } }
    | .stype n =>
      match st.es.types.find? (·.1 == n) with
      | some (_, .concrete t) =>
        if t.hasDesc && !isComponent then dup else .ok { st with es := st.es.updType n fun t => { t with hasDesc := true } }
      | _ => .error (.internal "AttributeError")
    | .atype n =>
      match st.es.types.find? (·.1 == n) with
      | some (_, .abstract_ _ _ d) =>
        if d && !isComponent then dup
        else .ok { st with es := { st.es with types := st.es.types.map fun (k, e) =>
                     if k == n then (k, match e with | .abstract_ nm subs _ => .abstract_ nm subs true | o => o) else (k, e) } }
      | _ => .error (.internal "AttributeError")
    | .key k => if k.hasDesc && !isComponent then dup else .ok { st with stack := .key { k with hasDesc := true } :: rest }
    | .sect d e => if d && !isComponent then dup else .ok { st with stack := .sect true e :: rest }

def markExample (st : PSt) : EM PSt :=
  match st.stack with
  | [] => .error (.internal "IndexError")
  | f :: rest =>
    let dup : EM PSt := serr "at most one <example> may be used for each element"
    match f with
    | .schema =>
      if st.es.top.hasEx then dup else .ok { st with es := { st.es with top := { st.es.top with hasEx := true } } }
    | .stype n =>
      match st.es.types.find? (·.1 == n) with
      | some (_, .concrete t) =>
        if t.hasEx then dup else .ok { st with es := st.es.updType n fun t => { t with hasEx := true } }
      | _ => .error (.internal "AttributeError")
    | .atype _ => .error (.internal "AttributeError")
    | .key k => if k.hasEx then dup else .ok { st with stack := .key { k with hasEx := true } :: rest }
    | .sect d e => if e then dup else .ok { st with stack := .sect d true :: rest }

/-- `characters_<tag>(data)` for the character-data elements -/
def charactersTag (isComponent : Bool) (tag : Str) (attrs : Attrs) (data : Str) (st : PSt) : EM PSt :=
  if tag == "default".toList then
    match st.stack with
    | .key k :: rest =>
      if k.minOccurs != 0 then serr "required key cannot have default values"
      else do
        let k' ← addDefault k data (attr attrs "key")
        pure { st with stack := .key k' :: rest }
    | [] => .error (.internal "IndexError")
    | _ => .error (.internal "AttributeError")
  else if tag == "description".toList then markDesc isComponent st
  else if tag == "example".toList then markExample st
  else if tag == "metadefault".toList then .ok st
  else .error (.internal "AttributeError")

/-- the nesting check of `startElement` for an element below `parent` -/
def nestingCheck (parent name : Str) : EM Unit :=
  match Gen.allowedParents.find? (·.1 == name) with
  | none => serr "Unknown tag"
  | some (_, ps) => if ps.contains parent then .ok () else serr "elements may not be nested"

/-- character data of a cdata element; an element inside it fails the nesting check when it starts -/
def collectText (parent : Str) : List Node → EM Str
  | [] => .ok []
  | .text s :: r => (collectText parent r).map (s ++ ·)
  | .elem t _ _ :: _ =>
    match nestingCheck parent t with
    | .error e => .error e
    | .ok _ => .error (.internal "unmodelled: element inside character-data element")

def startHandled (env : Env) (h : Hooks) (name : Str) (attrs : Attrs) (st : PSt) : EM PSt :=
  if name == "import".toList then startImport env h st attrs
  else if name == "abstracttype".toList then startAbstracttype st attrs
  else if name == "sectiontype".toList then startSectiontype env st attrs
  else if name == "key".toList then startKey env st attrs
  else if name == "multikey".toList then startMultikey env st attrs
  else if name == "section".toList then startSection env st attrs
  else if name == "multisection".toList then startMultisection env st attrs
  else .error (.internal "AttributeError")

def endHandled (env : Env) (name : Str) (st : PSt) : EM PSt :=
  if name == "import".toList then .ok st
  else if name == "abstracttype".toList then popFrame st
  else if name == "sectiontype".toList then endSectiontype st
  else if name == "key".toList then endKey env st
  else if name == "multikey".toList then endMultikey env st
  else if name == "section".toList then popFrame st
  else if name == "multisection".toList then popFrame st
  else .error (.internal "AttributeError")

mutual
/-- `startElement` … `endElement` for one element and everything inside it -/
def visitElem (env : Env) (h : Hooks) (d : DocKind) (parent : Option Str) (st : PSt) : Node → EM PSt
  | .text _ => .ok st
  | .elem name attrs children =>
    let chk : EM Unit := match parent with
      | some p => nestingCheck p name
      | none => if name != d.topLevel then .error (.schema "UnknownDocumentTypeError") else .ok ()
    match chk with
    | .error e => .error e
    | .ok _ =>
      if name == d.topLevel then
        let started := match d with
          | .schema ext => startSchema env h ext st attrs
          | .component => pushPrefix { st with stack := [] } attrs
        match started with
        | .error e => .error e
        | .ok st1 =>
          match visitChildren env h d name st1 children with
          | .error e => .error e
          | .ok st2 =>
            match d with
            | .schema ext => endSchema ext.isSome st2
            | .component => .ok (popPrefix st2)
      else if d.handled.contains name then
        match startHandled env h name attrs st with
        | .error e => .error e
        | .ok st1 =>
          match visitChildren env h d name st1 children with
          | .error e => .error e
          | .ok st2 => endHandled env name st2
      else if Gen.cdataTags.contains name then
        match collectText name children with
        | .error e => .error e
        | .ok data =>
          charactersTag (match d with | .component => true | _ => false) name attrs (strip data) st
      else .error (.internal "TypeError")
/-- the children of a non-character-data element, in document order -/
def visitChildren (env : Env) (h : Hooks) (d : DocKind) (parent : Str) (st : PSt) : List Node → EM PSt
  | [] => .ok st
  | .text s :: r =>
    if (strip s).isEmpty then visitChildren env h d parent st r
    else serr "unexpected non-blank character data"
  | .elem t a c :: r =>
    match visitElem env h d (some parent) st (.elem t a c) with
    | .error e => .error e
    | .ok st' => visitChildren env h d parent st' r
end

def emptyES : ES := { types := [], top := { name := none, keytype := [], datatype := [] }, handler := none, components := [] }

/-- nested documents are read with one unit of fuel less; running out is Python's RecursionError -/
def hooks (env : Env) : Nat → Hooks
  | 0 => { loadComponent := fun _ _ => .error (.internal "RecursionError"),
           extendSchema := fun _ _ => .error (.internal "RecursionError") }
  | n + 1 =>
    { loadComponent := fun es tree =>
        (visitElem env (hooks env n) .component none { es := es } tree).map (·.es),
      extendSchema := fun es tree =>
        (visitElem env (hooks env n) (.schema (some es)) none { es := es } tree).map (·.es) }

def EKey.toKeyInfo (k : EKey) : KeyInfo :=
  { name := k.name, attr := k.attr, multi := k.multi, minOccurs := k.minOccurs, dt := k.dt, dflt := k.dflt, handler := k.handler }
def EInfo.toInfo : EInfo → Info
  | .key k => .key k.toKeyInfo
  | .sect s => .sect s
def EType.toSType (t : EType) : SType :=
  { name := t.name, keytype := t.keytype, datatype := t.datatype, children := t.children.map fun (k, i) => (k, i.toInfo) }
def EEntry.toEntry : EEntry → TypeEntry
  | .concrete t => .concrete t.toSType
  | .abstract_ n subs _ => .abstract_ n subs
def ES.toSchema (es : ES) : Schema :=
  { types := es.types.map fun (n, e) => (n, e.toEntry), top := es.top.toSType, handler := es.handler, components := es.components }

/-- `loadSchema` on an element tree -/
def elabES (env : Env) (fuel : Nat) (tree : Node) : EM ES :=
  (visitElem env (hooks env fuel) (.schema none) none { es := emptyES } tree).map (·.es)

def elabSchema (env : Env) (fuel : Nat) (tree : Node) : EM Schema := (elabES env fuel tree).map (·.toSchema)

end ZCV.Elab
