import ZCV.Gen.Substitution
/-!
Model of `ZConfig/substitution.py`: `substitute`, `_split`, `isname`, with the
Python's own index arithmetic (`s.find`, `s[i+1:i+2]`, `s[:i+1]`, `s[i+2:]`,
`m.end()+1`, `s.startswith(close, i-1)`), and `_name_match` through the
*generated* pattern.
-/
namespace ZCV.Subst
open ZCV

inductive Err where
  | syntax (code : Nat)              -- SubstitutionSyntaxError (code = which raise site)
  | missing (source name : Str)      -- SubstitutionReplacementError(source, name)
deriving Repr, DecidableEq

inductive VT | define | env deriving Repr, DecidableEq

/-- `m = _name_match(s, pos)`; returns `(m.group(0), m.end())` -/
def nameMatchAt (s : Str) (pos : Nat) : Option (Str × Nat) :=
  (Rx.pyMatchAt Gen.nameRx s pos).map fun st =>
    let e := s.length - st.1.length        -- m.end()
    ((s.drop pos).take (e - pos), e)

/-- the shared shape of the `${name}` and `$(NAME)` arms of `_split` -/
def braced (s : Str) (i : Nat) (prefix_ : Str) (close : Char) (vt : VT) (e1 e2 : Nat) :
    Except Err (Str × Option (Str × VT) × Str) :=
  match nameMatchAt s (i + 2) with
  | none => .error (.syntax e1)
  | some (name, mend) =>
    let j := mend + 1
    if (s.drop (j - 1)).take 1 == [close] then .ok (prefix_, some (name, vt), s.drop j)
    else .error (.syntax e2)

/-- `_split(s)`: (prefix, (namecase, vtype)?, suffix) -/
def split (s : Str) : Except Err (Str × Option (Str × VT) × Str) :=
  if s.contains '$' then
    let i := s.findIdx (· == '$')
    let c := (s.drop (i + 1)).take 1
    if c == [] then .error (.syntax 0)
    else if c == ['$'] then .ok (s.take (i + 1), none, s.drop (i + 2))
    else
      let prefix_ := s.take i
      if c == ['{'] then braced s i prefix_ '}' .define 1 2
      else if c == ['('] then braced s i prefix_ ')' .env 3 4
      else
        match nameMatchAt s (i + 1) with
        | none => .error (.syntax 5)
        | some (name, mend) => .ok (prefix_, some (name, .define), s.drop mend)
  else .ok (s, none, [])

/-- the `while rest:` loop; `name.lower()` is applied to the mapping lookup only -/
def substLoop (defs env : Str → Option Str) (src : Str) : Nat → Str → Str → Except Err Str
  | 0, _, acc => .ok acc
  | fuel + 1, rest, acc =>
    if rest == [] then .ok acc else
    match split rest with
    | .error e => .error e
    | .ok (p, none, rest') => substLoop defs env src fuel rest' (acc ++ p)
    | .ok (p, some (name, vt), rest') =>
      let v := match vt with | .define => defs (lower name) | .env => env name
      match v with
      | none => .error (.missing src name)
      | some v => substLoop defs env src fuel rest' (acc ++ p ++ v)

def substitute (defs env : Str → Option Str) (s : Str) : Except Err Str :=
  if s.contains '$' then substLoop defs env s (s.length + 1) s [] else .ok s

/-- `isname(s)` -/
def isname (s : Str) : Bool :=
  match nameMatchAt s 0 with
  | some (g, _) => g == s
  | none => false

end ZCV.Subst
