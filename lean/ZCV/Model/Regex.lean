import ZCV.Base
/-!
Backtracking semantics for the subset of Python `re` that ZConfig's live
patterns use.  `m` returns *every* way the pattern can match a prefix of the
input, as (remaining suffix, captures), in CPython's priority order (ordered
alternation, greedy repetition).  `re.match` is the head of that list.
-/
namespace ZCV.Rx

inductive Item where
  | range (lo hi : Nat)
  | space | digit
deriving Repr, DecidableEq

structure Cls where
  neg : Bool
  items : List Item
deriving Repr, DecidableEq

def Item.test (c : Char) : Item → Bool
  | .range lo hi => lo ≤ c.toNat && c.toNat ≤ hi
  | .space => pySpace c
  | .digit => pyDigit c

def Cls.test (k : Cls) (c : Char) : Bool := (k.items.any (Item.test c)) != k.neg

inductive RE where
  | eps
  | cls (k : Cls)
  | any
  | seq (a b : RE)
  | alt (a b : RE)
  | star (a : RE)
  | opt (a : RE)
  | bol | eol
  | cap (i : Nat) (a : RE)
deriving Repr

abbrev Caps := List (Nat × Str)
abbrev St := Str × Caps

/-- `whole` = length of the whole subject (for `^`); the `Nat` argument is fuel for `star` -/
def m (whole : Nat) : RE → Nat → St → List St
  | .eps, _, s => [s]
  | .cls k, _, (s, cs) => match s with | c :: t => if k.test c then [(t, cs)] else [] | [] => []
  | .any, _, (s, cs) => match s with | c :: t => if c != '\n' then [(t, cs)] else [] | [] => []
  | .seq a b, f, s => (m whole a f s).flatMap (m whole b f)
  | .alt a b, f, s => m whole a f s ++ m whole b f s
  | .opt a, f, s => m whole a f s ++ [s]
  | .star _, 0, s => [s]
  | .star a, f+1, s => ((m whole a (f+1) s).filter (fun s' => s'.1.length < s.1.length)).flatMap (m whole (.star a) f) ++ [s]
  | .bol, _, s => if s.1.length == whole then [s] else []
  | .eol, _, s => if s.1 == [] || s.1 == ['\n'] then [s] else []
  | .cap i a, f, s => (m whole a f s).map (fun s' => (s'.1, (i, s.1.take (s.1.length - s'.1.length)) :: s'.2))
termination_by r f _ => (f, sizeOf r)

/-- `rx.match(s)` : first match in priority order -/
def pyMatch (r : RE) (s : Str) : Option St := (m s.length r s.length (s, [])).head?

/-- `rx.match(s, pos)`: `^` still means the real start of `s` -/
def pyMatchAt (r : RE) (s : Str) (pos : Nat) : Option St :=
  (m s.length r s.length (s.drop pos, [])).head?

/-- `m.group(i)` (`none` = group did not participate) -/
def group (cs : Caps) (i : Nat) : Option Str := (cs.find? (·.1 == i)).map (·.2)

/-- the text consumed by the match (`m.group()`), given the subject -/
def matched (s : Str) (st : St) : Str := s.take (s.length - st.1.length)

/-- `m = rx.match(v); m and m.group() == v` -/
def matchesWhole (r : RE) (s : Str) : Bool :=
  match pyMatch r s with
  | some st => st.1 == []
  | none => false

/-- `rx.fullmatch(v)` succeeds -/
def fullMatch (r : RE) (s : Str) : Bool := (m s.length r s.length (s, [])).any (fun st => st.1 == [])

end ZCV.Rx
