import ZCV.Base
/-!
# The validator command (`ZConfig/validator.py: main`), after argument parsing and the schema load

```python
    errors = False
    for f in options.file:
        try:
            ZConfig.loadConfigFile(schema, f)
        except ZConfig.ConfigurationError as e:
            print(str(e), file=sys.stderr)
            errors = True
    return int(errors)
```

What one `loadConfigFile` call does is the subject of the loader model; here its outcome is a parameter (`Outcome`), so that the
statement "status 0 (all files valid) or 1 with one message per invalid file" can be derived from "a load either returns or raises a
configuration error" (C07_no_internal).  An exception that is NOT a configuration error is not caught by the loop: it ends the
command at that file (`.escaped`), the files after it are never looked at.
-/
namespace ZCV.Validator
open ZCV

/-- how one `ZConfig.loadConfigFile(schema, f)` call ends -/
inductive Outcome
  | valid                      -- returned a configuration
  | cfgError (msg : Str)       -- raised an exception of the ConfigurationError family; `msg = str(e)`
  | internal (exc : Str)       -- raised anything else (class name)
deriving Repr, DecidableEq

/-- the end of the command: the status returned with the messages printed to stderr, in order; or the exception that escaped
    (with what had been printed before) -/
inductive Result
  | exit (status : Nat) (messages : List Str)
  | escaped (exc : Str) (messages : List Str)
deriving Repr, DecidableEq

/-- the `for` loop: `errors` and the messages printed so far are the loop state -/
def loop : List Outcome → Bool → List Str → Result
  | [], errors, printed => .exit (if errors then 1 else 0) printed
  | .valid :: rest, errors, printed => loop rest errors printed
  | .cfgError msg :: rest, _, printed => loop rest true (printed ++ [msg])
  | .internal exc :: _, _, printed => .escaped exc printed

/-- `main` from `errors = False` on -/
def run (files : List Outcome) : Result := loop files false []

end ZCV.Validator
