import ZCV.Base
/-!
Model of the standard-library URL functions ZConfig relies on for `file:` URLs (CPython 3.12, POSIX):

* `urllib.parse.quote` (safe = "/") = `urllib.request.pathname2url`, `urllib.parse.unquote` = `url2pathname`
* `urllib.parse.urlsplit` / `urlparse` / `urlunsplit` / `urlunparse` / `urljoin` / `urldefrag`
* what `loader.normalizeURL` builds from an absolute path (`"file://" + pathname2url(p)`) and what
  `_raise_open_error` / `urlopen` undo (`url2pathname(url[7:])`)
* the `ZConfig.url` wrappers `urljoin` / `urldefrag`.

A Python `str` is a `Str` of Unicode scalar values (lone surrogates cannot be represented: `quote` raises on them).
Bytes are natural numbers `< 256`.  The functions are total; where the Python raises `ValueError`
(`urlsplit`: unbalanced `[`/`]` in the network location, invalid bracketed host, a non-ASCII network location that
NFKC-normalises to something with `/?#@:`) the model carries on as if the check passed: `plainNetloc` says when none of
these checks can fire.

Entry points:
  `quote unquote pathToUrl urlToPath defragUrl defragFrag znormalize zdefragUrl : Str → Str`,
  `join zjoin : Str → Str → Str` (base first), `defrag : Str → Str × Str`,
  `joinInDomain : Str → Str → Bool`, `defragInDomain : Str → Bool` (the Python does not raise).

`#eval`-checked examples (each agrees with CPython 3.12):
```
#eval String.ofList (quote "/a b/#x%?;[é".toList)          -- "/a%20b/%23x%25%3F%3B%5B%C3%A9"
#eval String.ofList (unquote "/a%20b/%23x%25%3f%zz%4".toList)   -- "/a b/#x%?%zz%4"
#eval String.ofList (unquote "%C3%A9%E2%82%AC%F0%9F%98%80%C3(%E2%82".toList)   -- "é€😀�(�"
#eval String.ofList (pathToUrl "/tmp/my dir/a#b.conf".toList)   -- "file:///tmp/my%20dir/a%23b.conf"
#eval String.ofList (urlToPath "file:///tmp/my%20dir/a%23b.conf".toList)  -- "/tmp/my dir/a#b.conf"
#eval String.ofList (join "file:///a/b/c.conf".toList "../d/./e f.conf".toList)  -- "file:///a/d/e f.conf"
#eval String.ofList (join "file:///a/b/c.conf".toList "../../../x".toList)  -- "file:///x"
#eval String.ofList (join "file:///a/b/c.conf".toList "/x/../y".toList)     -- "file:///y"
#eval String.ofList (join "file:///a/b/c.conf".toList "file:///q/r".toList) -- "file:///q/r"
#eval String.ofList (join "file:///a/b/c.conf".toList "http://h/p".toList)  -- "http://h/p"
#eval String.ofList (join "file:///a/b/c.conf".toList "d/..".toList)        -- "file:///a/b/"
#eval String.ofList (join "file:///a/b/c.conf".toList "/.//x".toList)       -- "file://x"   (sic)
#eval String.ofList (join "file:///a/b/c.conf".toList "#frag".toList)       -- "file:///a/b/c.conf#frag"
#eval String.ofList (defragUrl "file:///a/b#c#d".toList)   -- "file:///a/b"
#eval String.ofList (defragFrag "file:///a/b#c#d".toList)  -- "c#d"
#eval String.ofList (defragUrl "a;#c".toList)              -- "a"
```
-/
namespace ZCV.UrlPath
open ZCV

/-! ## UTF-8 (`str.encode('utf-8')`, `bytes.decode('utf-8', 'replace')`) -/

/-- the UTF-8 bytes of one scalar value -/
def utf8Char (c : Char) : List Nat :=
  let n := c.toNat
  if n < 0x80 then [n]
  else if n < 0x800 then [0xC0 + n / 64, 0x80 + n % 64]
  else if n < 0x10000 then [0xE0 + n / 4096, 0x80 + n / 64 % 64, 0x80 + n % 64]
  else [0xF0 + n / 262144, 0x80 + n / 4096 % 64, 0x80 + n / 64 % 64, 0x80 + n % 64]

def utf8 (s : Str) : List Nat := s.flatMap utf8Char

/-- `IS_CONTINUATION_BYTE` -/
def isCont (b : Nat) : Bool := 0x80 ≤ b && b < 0xC0

/-- U+FFFD, what `errors='replace'` inserts -/
def replChar : Char := Char.ofNat 0xFFFD

/-- `bytes.decode('utf-8', 'replace')` (Objects/stringlib/codecs.h `utf8_decode` + the error handler): every
    maximal ill-formed prefix of a sequence becomes one U+FFFD -/
def utf8Decode : List Nat → Str
  | [] => []
  | b0 :: t =>
    if b0 < 0x80 then Char.ofNat b0 :: utf8Decode t
    else if b0 < 0xC2 then replChar :: utf8Decode t                 -- invalid start byte
    else if b0 < 0xE0 then
      match t with
      | [] => [replChar]                                              -- unexpected end of data
      | b1 :: t1 =>
        if isCont b1 then Char.ofNat ((b0 - 0xC0) * 64 + (b1 - 0x80)) :: utf8Decode t1
        else replChar :: utf8Decode (b1 :: t1)                        -- invalid continuation byte (1)
    else if b0 < 0xF0 then
      match t with
      | [] => [replChar]
      | b1 :: t1 =>
        if !isCont b1 || (if b1 < 0xA0 then b0 == 0xE0 else b0 == 0xED) then replChar :: utf8Decode (b1 :: t1)
        else match t1 with
          | [] => [replChar]
          | b2 :: t2 =>
            if isCont b2 then
              Char.ofNat ((b0 - 0xE0) * 4096 + (b1 - 0x80) * 64 + (b2 - 0x80)) :: utf8Decode t2
            else replChar :: utf8Decode (b2 :: t2)                    -- invalid continuation byte (2)
    else if b0 < 0xF5 then
      match t with
      | [] => [replChar]
      | b1 :: t1 =>
        if !isCont b1 || (if b1 < 0x90 then b0 == 0xF0 else b0 == 0xF4) then replChar :: utf8Decode (b1 :: t1)
        else match t1 with
          | [] => [replChar]
          | b2 :: t2 =>
            if !isCont b2 then replChar :: utf8Decode (b2 :: t2)
            else match t2 with
              | [] => [replChar]
              | b3 :: t3 =>
                if isCont b3 then
                  Char.ofNat ((b0 - 0xF0) * 262144 + (b1 - 0x80) * 4096 + (b2 - 0x80) * 64 + (b3 - 0x80))
                    :: utf8Decode t3
                else replChar :: utf8Decode (b3 :: t3)                -- invalid continuation byte (3)
    else replChar :: utf8Decode t                                     -- invalid start byte

/-! ## `quote` / `unquote` -/

/-- `_ALWAYS_SAFE` plus the default `safe='/'` : `A-Za-z0-9_.-~/` -/
def safeByte (b : Nat) : Bool :=
  (0x41 ≤ b && b ≤ 0x5A) || (0x61 ≤ b && b ≤ 0x7A) || (0x30 ≤ b && b ≤ 0x39) ||
  b == 0x5F || b == 0x2E || b == 0x2D || b == 0x7E || b == 0x2F

/-- one upper-case hexadecimal digit (`'%{:02X}'`) -/
def hexDigit (n : Nat) : Char := if n < 10 then Char.ofNat (0x30 + n) else Char.ofNat (0x37 + n)

/-- value of a character of `_hexdig = '0123456789ABCDEFabcdef'` -/
def hexVal (c : Char) : Option Nat :=
  let n := c.toNat
  if 0x30 ≤ n ∧ n ≤ 0x39 then some (n - 0x30)
  else if 0x41 ≤ n ∧ n ≤ 0x46 then some (n - 0x37)
  else if 0x61 ≤ n ∧ n ≤ 0x66 then some (n - 0x57)
  else none

/-- `_Quoter.__missing__` -/
def quoteByte (b : Nat) : Str :=
  if safeByte b then [Char.ofNat b] else ['%', hexDigit (b / 16), hexDigit (b % 16)]

/-- `quote_from_bytes(bs, '/')` -/
def quoteBytes (bs : List Nat) : Str := bs.flatMap quoteByte

/-- `urllib.parse.quote(s)` = `urllib.request.pathname2url(s)` on POSIX -/
def quote (s : Str) : Str := quoteBytes (utf8 s)

/-- the byte an item of `s.split('%')` starts with, if its first two characters are in `_hexdig` -/
def escByte : Str → Option Nat
  | a :: b :: _ =>
    match hexVal a, hexVal b with
    | some x, some y => some (16 * x + y)
    | _, _ => none
  | _ => none

/-- `_unquote_impl(s)`: the string is UTF-8 encoded, split at `%`; an item starting with two hex digits contributes
    that byte, any other `%` stays -/
def unquoteBytes : Str → List Nat
  | [] => []
  | c :: t =>
    if c = '%' then
      match escByte t with
      | some v => v :: unquoteBytes (t.drop 2)
      | none => 0x25 :: unquoteBytes t
    else utf8Char c ++ unquoteBytes t
termination_by s => s.length
decreasing_by all_goals (simp only [List.length_cons, List.length_drop]; omega)

/-- `urllib.parse.unquote(s)` = `urllib.request.url2pathname(s)` on POSIX (decoding the ASCII runs one by one, as the
    Python does, gives the same string as decoding everything at once: a non-ASCII character starts with a lead byte) -/
def unquote (s : Str) : Str :=
  if s.contains '%' then utf8Decode (unquoteBytes s) else s

/-- `"file://"` -/
def fileSlashes : Str := ['f', 'i', 'l', 'e', ':', '/', '/']

/-- `"file://" + pathname2url(p)` (loader.py `normalizeURL`, for `p = os.path.abspath(...)`) -/
def pathToUrl (p : Str) : Str := fileSlashes ++ quote p

/-- `url2pathname(url[7:])` (loader.py `_raise_open_error`; `urllib.request.FileHandler` does the same) -/
def urlToPath (u : Str) : Str := unquote (u.drop 7)

/-! ## `urlsplit` / `urlparse` / `urlunparse` -/

def lit (x : String) : Str := x.toList

def usesRelative : List Str :=
  [[], lit "ftp", lit "http", lit "gopher", lit "nntp", lit "imap", lit "wais", lit "file", lit "https", lit "shttp", lit "mms",
   lit "prospero", lit "rtsp", lit "rtsps", lit "rtspu", lit "sftp", lit "svn", lit "svn+ssh", lit "ws", lit "wss"]

def usesNetloc : List Str :=
  [[], lit "ftp", lit "http", lit "gopher", lit "nntp", lit "telnet", lit "imap", lit "wais", lit "file", lit "mms", lit "https",
   lit "shttp", lit "snews", lit "prospero", lit "rtsp", lit "rtsps", lit "rtspu", lit "rsync", lit "svn", lit "svn+ssh",
   lit "sftp", lit "nfs", lit "git", lit "git+ssh", lit "ws", lit "wss", lit "itms-services"]

def usesParams : List Str :=
  [[], lit "ftp", lit "hdl", lit "prospero", lit "http", lit "imap", lit "https", lit "shttp", lit "rtsp", lit "rtsps",
   lit "rtspu", lit "sip", lit "sips", lit "mms", lit "sftp", lit "tel"]

/-- `_WHATWG_C0_CONTROL_OR_SPACE` -/
def c0OrSpace (c : Char) : Bool := c.toNat ≤ 0x20
/-- tab, CR, LF: the characters `urlsplit` removes wherever they stand -/
def tabCrLf (c : Char) : Bool := c == '\t' || c == '\r' || c == '\n'
/-- `scheme_chars` -/
def schemeChar (c : Char) : Bool := isAsciiLetter c || isAsciiDigit c || c == '+' || c == '-' || c == '.'

/-- `s.split(c)` -/
def splitOn (c : Char) : Str → List Str
  | [] => [[]]
  | x :: t =>
    if x = c then [] :: splitOn c t
    else match splitOn c t with
      | h :: r => (x :: h) :: r
      | [] => [[x]]

/-- `c.join(l)` -/
def joinWith (c : Char) : List Str → Str
  | [] => []
  | [a] => a
  | a :: b :: l => a ++ c :: joinWith c (b :: l)

/-- `s.split(c, 1)` when `c in s`, else `(s, "")` : before / after the first `c` -/
def cut (c : Char) (s : Str) : Str × Str :=
  (s.takeWhile (· != c), (s.dropWhile (· != c)).drop 1)

structure Parts where
  scheme : Str
  netloc : Str
  path : Str
  params : Str
  query : Str
  fragment : Str
deriving Repr, DecidableEq

/-- `url.lstrip(_WHATWG_C0_CONTROL_OR_SPACE)` with tab, CR, LF removed everywhere -/
def cleanUrl (url : Str) : Str := (url.dropWhile c0OrSpace).filter (fun c => !tabCrLf c)

/-- `scheme.strip(_WHATWG_C0_CONTROL_OR_SPACE)` with tab, CR, LF removed -/
def cleanScheme (scheme : Str) : Str :=
  (((scheme.dropWhile c0OrSpace).reverse.dropWhile c0OrSpace).reverse).filter (fun c => !tabCrLf c)

/-- `i = url.find(':')`; if `i > 0`, `url[0]` is an ASCII letter and `url[:i]` are all scheme characters:
    `(url[:i].lower(), url[i+1:])`, else `(scheme, url)` -/
def splitScheme (url scheme : Str) : Str × Str :=
  let pre := url.takeWhile (· != ':')
  if url.contains ':' && pre.head?.any isAsciiLetter && pre.all schemeChar
  then (lower pre, url.drop (pre.length + 1)) else (scheme, url)

def isDelim (c : Char) : Bool := c == '/' || c == '?' || c == '#'

/-- `if url[:2] == '//': netloc, url = _splitnetloc(url, 2)` -/
def splitNetloc (url : Str) : Str × Str :=
  if url.take 2 == ['/', '/'] then
    ((url.drop 2).takeWhile (fun c => !isDelim c), (url.drop 2).dropWhile (fun c => !isDelim c))
  else ([], url)

/-- `if c in url: url, x = url.split(c, 1)` -/
def splitAt1 (c : Char) (url : Str) : Str × Str := if url.contains c then cut c url else (url, [])

/-- `urlsplit(url, scheme)` (params left empty) -/
def urlsplit (url0 scheme0 : Str) : Parts :=
  let ss := splitScheme (cleanUrl url0) (cleanScheme scheme0)
  let nl := splitNetloc ss.2
  let fr := splitAt1 '#' nl.2
  let qu := splitAt1 '?' fr.1
  ⟨ss.1, nl.1, qu.1, [], qu.2, fr.2⟩

/-- `_splitparams(url)` when `';' in url` -/
def splitparams (url : Str) : Str × Str :=
  if url.contains '/' then
    -- i = url.find(';', url.rfind('/'))
    let tail := (url.reverse.takeWhile (· != '/')).reverse          -- after the last '/'
    let head := url.take (url.length - tail.length)                -- up to and including the last '/'
    if tail.contains ';' then (head ++ tail.takeWhile (· != ';'), (tail.dropWhile (· != ';')).drop 1)
    else (url, [])
  else cut ';' url

/-- `urlparse(url, scheme)` -/
def urlparse (url scheme : Str) : Parts :=
  let p := urlsplit url scheme
  if usesParams.contains p.scheme && p.path.contains ';' then
    let sp := splitparams p.path
    { p with path := sp.1, params := sp.2 }
  else p

/-- `urlunsplit((scheme, netloc, url, query, fragment))` -/
def urlunsplit (scheme netloc url query fragment : Str) : Str :=
  let url :=
    if netloc != [] || (scheme != [] && usesNetloc.contains scheme && url.take 2 != ['/', '/']) then
      let url := if url != [] && url.take 1 != ['/'] then '/' :: url else url
      '/' :: '/' :: (netloc ++ url)
    else url
  let url := if scheme != [] then scheme ++ ':' :: url else url
  let url := if query != [] then url ++ '?' :: query else url
  if fragment != [] then url ++ '#' :: fragment else url

/-- `urlunparse(parts)` -/
def urlunparse (p : Parts) : Str :=
  let url := if p.params != [] then p.path ++ ';' :: p.params else p.path
  urlunsplit p.scheme p.netloc url p.query p.fragment

/-- netlocs on which none of `urlsplit`'s `ValueError` checks can fire -/
def plainNetloc (url scheme : Str) : Bool :=
  let n := (urlsplit url scheme).netloc
  !n.contains '[' && !n.contains ']' && n.all (fun c => c.toNat < 128)

/-! ## `urljoin` -/

def dot : Str := ['.']
def dotdot : Str := ['.', '.']

/-- one turn of the loop over `segments` -/
def dotStep (resolved : List Str) (seg : Str) : List Str :=
  if seg = dotdot then resolved.dropLast          -- `pop()`, `IndexError` ignored
  else if seg = dot then resolved
  else resolved ++ [seg]

/-- `segments[1:-1] = filter(None, segments[1:-1])` -/
def filterMiddle : List Str → List Str
  | [] => []
  | [a] => [a]
  | a :: b :: l => a :: ((b :: l).dropLast.filter (· != [])) ++ [(b :: l).getLast (by simp)]

/-- `base_parts = bpath.split('/')`, without the last item unless it is empty (a directory) -/
def baseParts (bpath : Str) : List Str :=
  let bp := splitOn '/' bpath
  if bp.getLast? != some [] then bp.dropLast else bp

/-- `segments`: the reference's own when it starts at the root, else the base directory's followed by the
    reference's, empty items removed except at both ends -/
def mergeSegments (bpath path : Str) : List Str :=
  if path.take 1 == ['/'] then splitOn '/' path
  else filterMiddle (baseParts bpath ++ splitOn '/' path)

/-- the loop over `segments` and the trailing `''` after a final `.` / `..` -/
def removeDots (segments : List Str) : List Str :=
  let resolved := segments.foldl dotStep []
  if segments.getLast? == some dot || segments.getLast? == some dotdot then resolved ++ [[]] else resolved

/-- the path part of `urljoin` (from `base_parts = bpath.split('/')` to `'/'.join(resolved_path) or '/'`) -/
def mergePath (bpath path : Str) : Str :=
  let r := joinWith '/' (removeDots (mergeSegments bpath path))
  if r == [] then ['/'] else r

/-- `urllib.parse.urljoin(base, url)` -/
def join (base url : Str) : Str :=
  if base == [] then url
  else if url == [] then base
  else
    let b := urlparse base []
    let u := urlparse url b.scheme
    if u.scheme != b.scheme || !usesRelative.contains u.scheme then url
    else if usesNetloc.contains u.scheme && u.netloc != [] then urlunparse u
    else
      let netloc := if usesNetloc.contains u.scheme then b.netloc else u.netloc
      if u.path == [] && u.params == [] then
        urlunparse { u with netloc := netloc, path := b.path, params := b.params,
                            query := if u.query == [] then b.query else u.query }
      else
        urlunparse { u with netloc := netloc, path := mergePath b.path u.path }

/-- `urljoin(base, url)` does not raise (sufficient condition) -/
def joinInDomain (base url : Str) : Bool :=
  base == [] || url == [] || (plainNetloc base [] && plainNetloc url (urlparse base []).scheme)

/-! ## `urldefrag` -/

/-- `urllib.parse.urldefrag(url)` -/
def defrag (url : Str) : Str × Str :=
  if url.contains '#' then
    let p := urlparse url []
    (urlunparse { p with fragment := [] }, p.fragment)
  else (url, [])

/-- `urldefrag(url)` does not raise (sufficient condition) -/
def defragInDomain (url : Str) : Bool := !url.contains '#' || plainNetloc url []

def defragUrl (url : Str) : Str := (defrag url).1
def defragFrag (url : Str) : Str := (defrag url).2

/-! ## the `ZConfig.url` wrappers -/

def fileSlash1 : Str := ['f', 'i', 'l', 'e', ':', '/']
def fileSlash3 : Str := ['f', 'i', 'l', 'e', ':', '/', '/', '/']

/-- `ZConfig.url.urljoin` -/
def zjoin (base rel : Str) : Str :=
  let url := join base rel
  if startsWith url fileSlash1 && !startsWith url fileSlash3 then fileSlashes ++ url.drop 5 else url

/-- `ZConfig.url.urlnormalize` (same function as `ZCV.Url.urlnormalize`; repeated here so that this file only depends
    on `ZCV.Base`) -/
def znormalize (url : Str) : Str :=
  let lc := lower url
  if startsWith lc fileSlash1 && !startsWith lc fileSlash3 then fileSlashes ++ url.drop 5 else url

/-- `ZConfig.url.urldefrag(url)[0]` -/
def zdefragUrl (url : Str) : Str := znormalize (defragUrl url)

end ZCV.UrlPath
