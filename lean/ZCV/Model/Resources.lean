import ZCV.Base
/-!
Model of how ZConfig opens and closes resources (loader.py `loadURL` / `openResource` / `includeConfiguration` /
`importSchemaComponent`; schema.py `extendSchema` / `loadComponent` / `start_import`):

    url = normalizeURL(url)
    with self.openResource(url) as r:       # urlopen; try: data = file.read() finally: file.close(); decode; Resource(StringIO)
        … parse r, which may open further resources the same way …

Every `with` is an explicit "close however the body ends"; a fault oracle may make any operation fail.
-/
namespace ZCV.Res

/-- what reading a resource makes the loader do, in order -/
inductive Step where
  | work                      -- a line / an element handled locally (may fail: syntax, conversion, datatype)
  | sub (r : Nat) (steps : List Step)    -- another resource opened from here (%include, %import, extends, <import>)
deriving Repr

inductive Pt where            -- points at which the fault oracle is consulted
  | urlopen (r : Nat) | read (r : Nat) | decode (r : Nat) | step (r : Nat) (k : Nat)
deriving Repr, DecidableEq

inductive Ev where
  | sopen (r : Nat) | sclose (r : Nat)     -- the underlying URL stream
  | ropen (r : Nat) | rclose (r : Nat)     -- the Resource object handed to the parser
deriving Repr, DecidableEq

mutual
/-- `with openResource(url) as r: parse(r)` — returns the events and whether it completed -/
def runRes (f : Pt → Bool) (r : Nat) (steps : List Step) : List Ev × Bool :=
  if f (.urlopen r) then ([], false)
  else if f (.read r) then ([.sopen r, .sclose r], false)        -- try/finally around read()
  else if f (.decode r) then ([.sopen r, .sclose r], false)      -- the stream is already closed
  else
    let (evs, ok) := runSteps f r 0 steps
    ([.sopen r, .sclose r, .ropen r] ++ evs ++ [.rclose r], ok)  -- __exit__ closes on success and on failure
def runSteps (f : Pt → Bool) (r : Nat) (k : Nat) : List Step → List Ev × Bool
  | [] => ([], true)
  | .work :: rest =>
    if f (.step r k) then ([], false)
    else runSteps f r (k + 1) rest
  | .sub c csteps :: rest =>
    let (e1, ok1) := runRes f c csteps
    if !ok1 then (e1, false)
    else
      let (e2, ok2) := runSteps f r (k + 1) rest
      (e1 ++ e2, ok2)
end

/-- well-bracketed: resources are closed in reverse order of opening and none stays open; a stream is closed before
    anything else is opened -/
def wb : List Ev → List Nat → Bool
  | [], st => st.isEmpty
  | .ropen r :: t, st => wb t (r :: st)
  | .rclose r :: t, st => (match st with | x :: st' => x == r && wb t st' | [] => false)
  | .sopen r :: .sclose r' :: t, st => r == r' && wb t st
  | .sopen _ :: _, _ => false
  | .sclose _ :: _, _ => false

end ZCV.Res
