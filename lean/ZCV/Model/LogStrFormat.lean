import ZCV.Model.LogFormat
/-!
# `format` log formats (`str.format` fields): what `FormatterFactory` accepts at load time and what formatting does

Source: `/repo/src/ZConfig/components/logger/formatter.py`

```python
class StrFormatStyle(PercentStyle):
    logging_style = '{'
    default_format = '{message}'
    asctime_format = '{asctime}'
    asctime_search = '{asctime'
    __formatter = string.Formatter()
    def format(self, record):
        return self.__formatter.vformat(self._fmt, (), record.__dict__)
```

`FormatterFactory.__init__` (arbitrary-fields off, default formatter class `logging.Formatter`):

```python
        self.stylist = _log_format_styles[self.style](self.format)          # self._fmt = fmt or '{message}'
        record = logging.LogRecord(__name__, logging.INFO, __file__, 42, 'some message', (), None)
        record.__dict__.update(_log_format_variables)
        try:
            self.stylist.format(record)                                    # string.Formatter().vformat(fmt, (), dict)
        except IndexError:
            raise ValueError('%s formats cannot use positional placeholders')
        self()                                                             # FormatterFactory.__call__
```

`FormatterFactory.__call__`: `logging.Formatter(self.format, self.dateformat, style='{')`, whose `__init__` builds
`logging.StrFormatStyle(fmt)` (`self._fmt = fmt or '{message}'`) and calls its `validate()`.  AT RUN TIME it is this
`logging.StrFormatStyle` that formats the record — `self._fmt.format(**record.__dict__)`, the C implementation of
`str.format`, with `KeyError` turned into `ValueError` by `logging.PercentStyle.format` — NOT ZConfig's stylist
(`string.Formatter().vformat`), which is only used for the load-time trial.  The two agree except where noted below
(`Mode`), and both are modelled.

CPython 3.12 `logging.StrFormatStyle`:

```python
    fmt_spec = re.compile(r'^(.?[<>=^])?[+ -]?#?0?(\d+|{\w+})?[,_]?(\.(\d+|{\w+}))?[bcdefgnosx%]?$', re.I)
    field_spec = re.compile(r'^(\d+|\w+)(\.\w+|\[[^]]+\])*$')
    def validate(self):
        fields = set()
        try:
            for _, fieldname, spec, conversion in _str_formatter.parse(self._fmt):
                if fieldname:
                    if not self.field_spec.match(fieldname):
                        raise ValueError('invalid field name/expression: %r' % fieldname)
                    fields.add(fieldname)
                if conversion and conversion not in 'rsa':
                    raise ValueError('invalid conversion: %r' % conversion)
                if spec and not self.fmt_spec.match(spec):
                    raise ValueError('bad specifier: %r' % spec)
        except ValueError as e:
            raise ValueError('invalid format: %s' % e)
        if not fields:
            raise ValueError('invalid format: no fields')
```

CPython 3.12 `string.Formatter` (`Lib/string.py`):

```python
    def vformat(self, format_string, args, kwargs):
        used_args = set()
        result, _ = self._vformat(format_string, args, kwargs, used_args, 2)
        ...
    def _vformat(self, format_string, args, kwargs, used_args, recursion_depth, auto_arg_index=0):
        if recursion_depth < 0:
            raise ValueError('Max string recursion exceeded')
        result = []
        for literal_text, field_name, format_spec, conversion in self.parse(format_string):   # LAZY: _string.formatter_parser
            if literal_text:
                result.append(literal_text)
            if field_name is not None:
                if field_name == '':
                    if auto_arg_index is False: raise ValueError(...)
                    field_name = str(auto_arg_index); auto_arg_index += 1
                elif field_name.isdigit():
                    if auto_arg_index: raise ValueError(...)
                    auto_arg_index = False
                obj, arg_used = self.get_field(field_name, args, kwargs)
                used_args.add(arg_used)
                obj = self.convert_field(obj, conversion)                    # None / 's' str / 'r' repr / 'a' ascii / else ValueError
                format_spec, auto_arg_index = self._vformat(format_spec, args, kwargs, used_args, recursion_depth-1, ...)
                result.append(self.format_field(obj, format_spec))           # format(obj, format_spec)
        return ''.join(result), auto_arg_index
    def get_value(self, key, args, kwargs):
        if isinstance(key, int): return args[key]                           # args = (): IndexError
        else: return kwargs[key]                                            # KeyError
    def get_field(self, field_name, args, kwargs):
        first, rest = _string.formatter_field_name_split(field_name)
        obj = self.get_value(first, args, kwargs)
        for is_attr, i in rest:                                              # LAZY
            if is_attr: obj = getattr(obj, i)
            else: obj = obj[i]
        return obj, first
```

The C parts (`Objects/stringlib/unicode_format.h`: `MarkupIterator_next`, `parse_field`, `field_name_split`,
`FieldNameIterator_next`, `get_integer`, `get_field_object`, `build_string`, `output_markup`; `Python/formatter_unicode.c`:
`parse_internal_render_format_spec`, `format_string_internal`, `format_long_internal`, `format_float_internal`) are
mirrored branch by branch below; every message quoted in a comment was produced on the running interpreter
(Python 3.12.1).  Only WHETHER a call raises and WHICH class matters, never the text produced — except that the text of a
replacement field nested in a format spec (`{message:{lineno}}`) becomes (part of) the spec: the model knows that text
for `str`, `int`, `float` (the `repr` is carried in the value) and `None` values formatted with an empty spec; where it
does not know it (or does not know an object: attributes of a `Val.other`, `__doc__` …) it ABSTAINS with
`SErr.unmodelled`.  Resource exhaustion (`MemoryError` for astronomically large widths) is outside the model.

Compared with the running code (Python 3.12.1, task Y8, `val/validate.py` + `val/Validate.lean` run with
`lake env lean --run`): 116 728 distinct formats — 43 000 random ones in five runs (concatenations of pieces such as
`{message}`, `{levelno:>5d}`, `{name!r:^10}`, `{message:{lineno}}`, `{}`, `{0}`, `{{`, `}`, `{message.upper}`,
`{message[0]}`, `{asctime!z}`, `{message:s:}`, random fields over all the known names with random `.attr` / `[index]`
suffixes, conversions and specs drawn from the mini-language grammar, character-level mutations, Unicode digits, `ſ`,
newlines) and 73 728 directed ones (every combination of 4 alignments × 3 signs × `z` × `#` × `0` × width × 3 groupings ×
precision × 16 presentation types on `message`, `levelno`, `thread`, `created`) — for each one `parse` against
`_string.formatter_parser`, `loadCheckStrFormat` / `acceptsStrFormat` (exception CLASS included) against the real
`FormatterFactory` built on a stub section, `validateStr` against `logging.StrFormatStyle(fmt).validate()`, `usesTimeStr`
against the formatter's `usesTime()`, and on seven records (complete; without `asctime`; line number `0x110000` and a
negative level; thread / process ids of 4301 digits; `inf` / `nan` / negative time stamps; empty message, `exc_info` a
tuple, `exc_text` a `str`, line 0; the sample record) `formatStrStylist` against `string.Formatter().vformat`,
`cformatRun` against `str.format(**record)` and, for the accepted formats, `formatStr` against `formatMessage` of the
formatter the factory returns: 115 543 load-time verdicts, 807 388 `vformat` and as many `str.format` evaluations, 141 145
`formatMessage` evaluations compared, no difference (the model abstains on 1 144 formats at load time and on about 1 % of
the evaluations; the interpreter ends in `MemoryError` on 41 formats at load time, on all of which the model abstains);
9 595 of the formats through `ZConfig.loadConfigFile` of the logger component, and the driver op `logsfmt` on 41 815 of
them — no difference.
-/
namespace ZCV.LogStrFormat
open ZCV ZCV.LogFormat

/-- the exception classes the load-time check and formatting can raise; `unmodelled` is not a Python exception: the
    model abstains (the outcome depends on something it does not represent) -/
inductive SErr | valueError | typeError | keyError | indexError | attributeError | overflowError | unmodelled
  deriving DecidableEq, Repr, Inhabited

instance {α : Type} [DecidableEq α] : DecidableEq (Except SErr α) := fun a b =>
  match a, b with
  | .ok x, .ok y => if h : x = y then isTrue (by rw [h]) else isFalse (fun he => h (by cases he; rfl))
  | .error e, .error e' => if h : e = e' then isTrue (by rw [h]) else isFalse (fun he => h (by cases he; rfl))
  | .ok _, .error _ => isFalse (fun he => by cases he)
  | .error _, .ok _ => isFalse (fun he => by cases he)

/-- the classes shared with the classic style -/
def ofPyErr : PyErr → SErr
  | .valueError => .valueError
  | .typeError => .typeError
  | .keyError => .keyError
  | .overflowError => .overflowError

/-- the values of record attributes as far as `str.format` can tell them apart: `LogFormat.Value`, where a `float` also
    carries its `repr()` (the text a nested `{created}` contributes to a format spec);
    `other` = an object that is neither a number nor a `str`, whose `str()` / `repr()` work and whose `__format__` is
    `object.__format__` (tuple, dict, …) -/
inductive Val
  | str (s : Str)
  | int (n : Int)
  | float (k : FloatKind) (repr : Str)
  | none
  | other
  deriving DecidableEq, Repr

/-- forget the `repr` of floats -/
def Val.toValue : Val → Value
  | .str s => .str s
  | .int n => .int n
  | .float k _ => .float k
  | .none => .none
  | .other => .other

/-- `record.__dict__` -/
abbrev SDict := Str → Option Val

/-- the record as the classic style sees it -/
def SDict.erase (d : SDict) : Dict := fun k => (d k).map Val.toValue

/-! ## The parser: `_string.formatter_parser` (`MarkupIterator_next`, `parse_field`) -/

/-- one piece of a format string.
    `field name conv spec`: `{` name (`!` conv)? (`:` spec)? `}`; the spec is kept as text (it is parsed again when the
    field is evaluated); `bad`: a syntax error (always `ValueError`), raised when the iteration reaches it — necessarily
    the last item -/
inductive Item
  | lit (s : Str)
  | field (name : Str) (conv : Option Char) (spec : Str)
  | bad
  deriving DecidableEq, Repr

/-- the field name: up to the first `}`, `:` or `!` outside brackets; `[` skips to the next `]`; a `{` is
    "unexpected '{' in field name", the end of the string "expected '}' before end of string".
    `inBracket` = a `[` has been seen and its `]` not yet.  Result: name, terminator, text after the terminator. -/
def scanName : Bool → Str → Option (Str × Char × Str)
  | _, [] => none
  | true, c :: t =>
    if c == ']' then (scanName false t).map (fun r => (c :: r.1, r.2))
    else (scanName true t).map (fun r => (c :: r.1, r.2))
  | false, c :: t =>
    if c == '{' then none
    else if c == '}' || c == ':' || c == '!' then some ([], c, t)
    else if c == '[' then (scanName true t).map (fun r => (c :: r.1, r.2))
    else (scanName false t).map (fun r => (c :: r.1, r.2))

/-- the format spec: up to the `}` that closes the field, nested braces are counted (`depth` = braces opened inside
    the spec and not yet closed); the end of the string is "unmatched '{' in format spec" -/
def scanSpec : Nat → Str → Option (Str × Str)
  | _, [] => none
  | depth, c :: t =>
    if c == '}' then
      match depth with
      | 0 => some ([], t)
      | d + 1 => (scanSpec d t).map (fun p => (c :: p.1, p.2))
    else if c == '{' then (scanSpec (depth + 1) t).map (fun p => (c :: p.1, p.2))
    else (scanSpec depth t).map (fun p => (c :: p.1, p.2))

/-- the conversion character as `formatter_parser` reports it: NUL means "no conversion" -/
def convOf (c : Char) : Option Char := if c.toNat == 0 then none else some c

/-- `parse_field`; `s` is the text after a `{` that opens a field.  Result: the field and the text after its `}`;
    `none` = one of the syntax errors (all `ValueError`). -/
def parseField (s : Str) : Option (Item × Str) :=
  match scanName false s with
  | none => none
  | some (name, term, rest) =>
    if term == '}' then some (.field name none [], rest)
    else if term == ':' then (scanSpec 0 rest).map (fun p => (.field name none p.1, p.2))
    else -- `!`
      match rest with
      | [] => none                                   -- "end of string while looking for conversion specifier"
      | cv :: r1 =>
        match r1 with
        | [] => none                                 -- "unmatched '{' in format spec"
        | c2 :: r2 =>
          if c2 == '}' then some (.field name (convOf cv) [], r2)
          else if c2 == ':' then (scanSpec 0 r2).map (fun p => (.field name (convOf cv) p.1, p.2))
          else none                                  -- "expected ':' after conversion specifier"

def notBrace (c : Char) : Bool := c != '{' && c != '}'

/-- a literal run, dropped when empty -/
def litCons (l : Str) (rest : List Item) : List Item := if l.isEmpty then rest else .lit l :: rest

/-- `MarkupIterator_next`, iterated; `fuel` bounds the number of rounds (every round takes a character) -/
def parseAux : Nat → Str → List Item
  | 0, _ => []
  | _, [] => []
  | fuel + 1, c :: t =>
    let l := (c :: t).takeWhile notBrace
    match (c :: t).dropWhile notBrace with
    | [] => [.lit l]
    | _ :: [] => [.bad]                  -- "Single '}' encountered in format string" / "Single '{' …"
    | b :: b2 :: t2 =>
      if b2 == b then .lit (l ++ [b]) :: parseAux fuel t2          -- `{{` / `}}`
      else if b == '}' then [.bad]                                  -- "Single '}' encountered in format string"
      else
        match parseField (b2 :: t2) with
        | none => [.bad]
        | some (f, rest) => litCons l (f :: parseAux fuel rest)

/-- a format string as the list of its literal runs (escaped braces included) and replacement fields, ended by `bad`
    at the first syntax error -/
def parse (s : Str) : List Item := parseAux s.length s

/-! ## Field names: `field_name_split`, `FieldNameIterator_next`, `get_integer` -/

/-- `PY_SSIZE_T_MAX` -/
def ssizeMaxS : Nat := 2 ^ 63 - 1
/-- `INT_MAX` -/
def intMaxS : Nat := 2 ^ 31 - 1

/-- value of a run of Unicode decimal digits (`Py_UNICODE_TODECIMAL`) -/
def decVal (ds : Str) : Nat := ds.foldl (fun a c => a * 10 + (pyDigitVal c).getD 0) 0

/-- `get_integer` of `unicode_format.h`: the digits are accumulated from the left, "Too many decimal digits in format
    string" (ValueError) as soon as the value exceeds `PY_SSIZE_T_MAX` — before a later non-digit is looked at;
    a non-digit or the empty string: "not an integer" -/
inductive IntRes | overflow | idx (n : Nat) | notInt
  deriving DecidableEq, Repr

def getInteger (s : Str) : IntRes :=
  if decVal (s.takeWhile pyDigit) > ssizeMaxS then .overflow
  else if s.isEmpty || !(s.dropWhile pyDigit).isEmpty then .notInt
  else .idx (decVal s)

/-- one step of the path after the first name: `.attr`, `[digits]`, `[other key]`; `bad` = a syntax error of the path
    ("Empty attribute in format string", "Missing ']' in format string", "Only '.' or '[' may follow ']' in format field
    specifier", "Too many decimal digits in format string" — all ValueError), raised when the walk reaches it -/
inductive Acc
  | attr (n : Str)
  | idx (i : Nat)
  | key (k : Str)
  | bad
  deriving DecidableEq, Repr

def notDotBracket (c : Char) : Bool := c != '.' && c != '['

/-- `FieldNameIterator_next`, iterated; `fuel` bounds the number of steps -/
def pathAux : Nat → Str → List Acc
  | 0, _ => []
  | _, [] => []
  | fuel + 1, c :: t =>
    if c == '.' then
      if (t.takeWhile notDotBracket).isEmpty then [.bad]
      else .attr (t.takeWhile notDotBracket) :: pathAux fuel (t.dropWhile notDotBracket)
    else if c == '[' then
      match t.dropWhile (· != ']') with
      | [] => [.bad]                                            -- "Missing ']' in format string"
      | _ :: rest =>
        match getInteger (t.takeWhile (· != ']')) with
        | .overflow => [.bad]
        | .idx i => .idx i :: pathAux fuel rest
        | .notInt =>
          if (t.takeWhile (· != ']')).isEmpty then [.bad]
          else .key (t.takeWhile (· != ']')) :: pathAux fuel rest
    else [.bad]

/-- the first name of a field (`field_name_split`: up to the first `.` or `[`) -/
def firstOf (name : Str) : Str := name.takeWhile notDotBracket
/-- the path after it -/
def pathOf (name : Str) : List Acc := pathAux name.length (name.dropWhile notDotBracket)

/-! ## Attribute and item access on the values of a record -/

/-- `dir('')`, `dir(0)`, `dir(0.0)`, `dir(None)` of the running interpreter (Python 3.12.1); belongs in `ZCV/Gen` -/
def strAttrs : List Str :=
  ["__add__", "__class__", "__contains__", "__delattr__", "__dir__", "__doc__", "__eq__", "__format__", "__ge__",
   "__getattribute__", "__getitem__", "__getnewargs__", "__getstate__", "__gt__", "__hash__", "__init__",
   "__init_subclass__", "__iter__", "__le__", "__len__", "__lt__", "__mod__", "__mul__", "__ne__", "__new__",
   "__reduce__", "__reduce_ex__", "__repr__", "__rmod__", "__rmul__", "__setattr__", "__sizeof__", "__str__",
   "__subclasshook__", "capitalize", "casefold", "center", "count", "encode", "endswith", "expandtabs", "find",
   "format", "format_map", "index", "isalnum", "isalpha", "isascii", "isdecimal", "isdigit", "isidentifier",
   "islower", "isnumeric", "isprintable", "isspace", "istitle", "isupper", "join", "ljust", "lower", "lstrip",
   "maketrans", "partition", "removeprefix", "removesuffix", "replace", "rfind", "rindex", "rjust", "rpartition",
   "rsplit", "rstrip", "split", "splitlines", "startswith", "strip", "swapcase", "title", "translate", "upper",
   "zfill"].map String.toList

def intAttrs : List Str :=
  ["__abs__", "__add__", "__and__", "__bool__", "__ceil__", "__class__", "__delattr__", "__dir__", "__divmod__",
   "__doc__", "__eq__", "__float__", "__floor__", "__floordiv__", "__format__", "__ge__", "__getattribute__",
   "__getnewargs__", "__getstate__", "__gt__", "__hash__", "__index__", "__init__", "__init_subclass__", "__int__",
   "__invert__", "__le__", "__lshift__", "__lt__", "__mod__", "__mul__", "__ne__", "__neg__", "__new__", "__or__",
   "__pos__", "__pow__", "__radd__", "__rand__", "__rdivmod__", "__reduce__", "__reduce_ex__", "__repr__",
   "__rfloordiv__", "__rlshift__", "__rmod__", "__rmul__", "__ror__", "__round__", "__rpow__", "__rrshift__",
   "__rshift__", "__rsub__", "__rtruediv__", "__rxor__", "__setattr__", "__sizeof__", "__str__", "__sub__",
   "__subclasshook__", "__truediv__", "__trunc__", "__xor__", "as_integer_ratio", "bit_count", "bit_length",
   "conjugate", "denominator", "from_bytes", "imag", "is_integer", "numerator", "real", "to_bytes"].map String.toList

def floatAttrs : List Str :=
  ["__abs__", "__add__", "__bool__", "__ceil__", "__class__", "__delattr__", "__dir__", "__divmod__", "__doc__",
   "__eq__", "__float__", "__floor__", "__floordiv__", "__format__", "__ge__", "__getattribute__", "__getformat__",
   "__getnewargs__", "__getstate__", "__gt__", "__hash__", "__init__", "__init_subclass__", "__int__", "__le__",
   "__lt__", "__mod__", "__mul__", "__ne__", "__neg__", "__new__", "__pos__", "__pow__", "__radd__", "__rdivmod__",
   "__reduce__", "__reduce_ex__", "__repr__", "__rfloordiv__", "__rmod__", "__rmul__", "__round__", "__rpow__",
   "__rsub__", "__rtruediv__", "__setattr__", "__sizeof__", "__str__", "__sub__", "__subclasshook__",
   "__truediv__", "__trunc__", "as_integer_ratio", "conjugate", "fromhex", "hex", "imag", "is_integer", "real"].map
    String.toList

def noneAttrs : List Str :=
  ["__bool__", "__class__", "__delattr__", "__dir__", "__doc__", "__eq__", "__format__", "__ge__",
   "__getattribute__", "__getstate__", "__gt__", "__hash__", "__init__", "__init_subclass__", "__le__", "__lt__",
   "__ne__", "__new__", "__reduce__", "__reduce_ex__", "__repr__", "__setattr__", "__sizeof__", "__str__",
   "__subclasshook__"].map String.toList

/-- `getattr(v, n)`.  A name that `dir(v)` does not list: AttributeError.  The data attributes: `real`, `numerator`
    (the number itself), `imag` (`0` / `0.0`), `denominator` (`1`), `None.__doc__` (`None`); `__doc__` of a `str`, `int`
    or `float` is a long `str` the model does not carry (abstain); every other attribute is a bound method, a
    method-wrapper or the type: an object with `object.__format__` (`Val.other`).  The attributes of a `Val.other` are
    not known (abstain). -/
def attrOf (v : Val) (n : Str) : Except SErr Val :=
  match v with
  | .str _ =>
    if strAttrs.contains n then (if n == "__doc__".toList then .error .unmodelled else .ok .other)
    else .error .attributeError
  | .int k =>
    if intAttrs.contains n then
      if n == "real".toList || n == "numerator".toList then .ok (.int k)
      else if n == "imag".toList then .ok (.int 0)
      else if n == "denominator".toList then .ok (.int 1)
      else if n == "__doc__".toList then .error .unmodelled
      else .ok .other
    else .error .attributeError
  | .float k r =>
    if floatAttrs.contains n then
      if n == "real".toList then .ok (.float k r)
      else if n == "imag".toList then .ok (.float .finite "0.0".toList)
      else if n == "__doc__".toList then .error .unmodelled
      else .ok .other
    else .error .attributeError
  | .none =>
    if noneAttrs.contains n then (if n == "__doc__".toList then .ok .none else .ok .other)
    else .error .attributeError
  | .other => .error .unmodelled

/-- one step of `get_field`: `getattr(obj, name)` / `obj[index]` / `obj['key']`.
    `str[i]`: IndexError "string index out of range" unless `i < len`; `str['k']`: TypeError "string indices must be
    integers"; an `int`, `float` or `None` is not subscriptable (TypeError); items of a `Val.other` are not known. -/
def access (v : Val) : Acc → Except SErr Val
  | .bad => .error .valueError
  | .attr n => attrOf v n
  | .idx i =>
    match v with
    | .str s => match s[i]? with
      | some c => .ok (.str [c])
      | none => .error .indexError
    | .other => .error .unmodelled
    | _ => .error .typeError
  | .key _ =>
    match v with
    | .other => .error .unmodelled
    | _ => .error .typeError

def walk : Val → List Acc → Except SErr Val
  | v, [] => .ok v
  | v, a :: rest =>
    match access v a with
    | .error e => .error e
    | .ok v' => walk v' rest

/-- the two implementations of the `str.format` mini-language:
    `vformat` = `string.Formatter().vformat(fmt, (), d)` (Python code, used by ZConfig's load-time trial);
    `cformat` = `fmt.format(**d)` (C code, used by `logging.StrFormatStyle` at run time).  They differ in
    * a field whose first name is empty but which has a path (`{.real}`, `{[0]}`): `vformat` looks up the key `''`
      (KeyError), `str.format` auto-numbers it (IndexError);
    * the depth of nesting: `vformat` parses a spec nested three deep and fails ("Max string recursion exceeded") only
      when it meets a field there, after looking the field up; `str.format` refuses to expand a spec two deep. -/
inductive Mode | vformat | cformat
  deriving DecidableEq, Repr

/-- `get_value` on the first name with `args = ()`: a number is an index into the empty tuple (IndexError), too many
    digits are a ValueError, an empty name is auto-numbered (`{}` is `{0}`: IndexError), anything else is a key of the
    mapping (KeyError when absent) -/
def lookupFirst (m : Mode) (d : SDict) (name : Str) : Except SErr Val :=
  match getInteger (firstOf name) with
  | .overflow => .error .valueError
  | .idx _ => .error .indexError
  | .notInt =>
    if (firstOf name).isEmpty && (name.isEmpty || m == .cformat) then .error .indexError
    else match d (firstOf name) with
      | none => .error .keyError
      | some v => .ok v

/-- `get_field` -/
def getField (m : Mode) (d : SDict) (name : Str) : Except SErr Val :=
  match lookupFirst m d name with
  | .error e => .error e
  | .ok v => walk v (pathOf name)

/-! ## Conversion and the text of a value -/

/-- decimal text of an `int` -/
def intText (n : Int) : Str :=
  if n < 0 then '-' :: Nat.toDigits 10 n.natAbs else Nat.toDigits 10 n.natAbs

/-- `str(v)`, when the model knows it (`str()` of a `Val.other` is some text it does not know) -/
def strText : Val → Option Str
  | .str s => some s
  | .int n => some (intText n)
  | .float _ r => some r
  | .none => some "None".toList
  | .other => none

/-- what is formatted: a value of the record (or reached from one), or the `str` produced by a conversion, whose text
    may be unknown -/
inductive Obj
  | val (v : Val)
  | text (t : Option Str)
  deriving DecidableEq, Repr

/-- `convert_field`: `None` / `!s` `str()` / `!r` `repr()` / `!a` `ascii()` / anything else "Unknown conversion
    specifier" (ValueError).  `str()`, `repr()`, `ascii()` raise ValueError on an `int` of more than 4300 digits
    (`LogFormat.strCheck`).  `repr()` of a `str` adds quotes and escapes: text not modelled. -/
def convert (v : Val) : Option Char → Except SErr Obj
  | none => .ok (.val v)
  | some c =>
    if c == 's' then
      match strCheck v.toValue with
      | .error e => .error (ofPyErr e)
      | .ok _ => .ok (.text (strText v))
    else if c == 'r' || c == 'a' then
      match strCheck v.toValue with
      | .error e => .error (ofPyErr e)
      | .ok _ => .ok (.text (match v with | .str _ => none | _ => strText v))
    else .error .valueError

/-! ## The format-spec mini-language: `parse_internal_render_format_spec`

`[[fill]align][sign][z][#][0][width][grouping][.precision][type]` -/

inductive Sep | none | comma | underscore
  deriving DecidableEq, Repr

structure FSpec where
  /-- an explicit alignment `< > = ^` -/
  align : Option Char := none
  sign : Option Char := none
  z : Bool := false
  alt : Bool := false
  width : Option Nat := none
  prec : Option Nat := none
  type : Option Char := none
  deriving DecidableEq, Repr

def isAlign (c : Char) : Bool := c == '<' || c == '>' || c == '=' || c == '^'
def isSign (c : Char) : Bool := c == '+' || c == '-' || c == ' '

/-- `[[fill]align]`: "If the second char is an alignment token, then parse the fill char" -/
def takeAlign (s : Str) : Option Char × Bool × Str :=
  match s with
  | c1 :: c2 :: t => if isAlign c2 then (some c2, true, t) else if isAlign c1 then (some c1, false, c2 :: t) else (none, false, s)
  | [c1] => if isAlign c1 then (some c1, false, []) else (none, false, s)
  | [] => (none, false, s)

def takeIf (p : Char → Bool) (s : Str) : Option Char × Str :=
  match s with
  | c :: t => if p c then (some c, t) else (none, s)
  | [] => (none, s)

/-- the thousands separator is only allowed with these presentation types (`'\0'` = none given and no default);
    `_` also with `b o x X` -/
def sepAllows (sep : Sep) (type : Option Char) : Bool :=
  match sep with
  | .none => true
  | _ =>
    match type with
    | none => true
    | some c =>
      c == 'd' || c == 'e' || c == 'f' || c == 'g' || c == 'E' || c == 'G' || c == '%' || c == 'F' ||
      (sep == .underscore && (c == 'b' || c == 'o' || c == 'x' || c == 'X'))

/-- `parse_internal_render_format_spec(spec, default_type)`; `none` = ValueError ("Invalid format specifier", "Too many
    decimal digits in format string", "Format specifier missing precision", "Cannot specify both ',' and '_'.",
    "Cannot specify ',' with 'x'." …).  Fill character and zero padding never matter for raising, so they are not
    kept. -/
def parseFSpec (defaultType : Option Char) (s : Str) : Option FSpec :=
  let a := takeAlign s
  let sg := takeIf isSign a.2.2
  let z := takeIf (· == 'z') sg.2
  let h := takeIf (· == '#') z.2
  -- "The special case for 0-padding": only when no fill character was given
  let s0 := if a.2.1 then h.2 else (takeIf (· == '0') h.2).2
  if decVal (s0.takeWhile pyDigit) > ssizeMaxS then none else
  let s1 := s0.dropWhile pyDigit
  let cm := takeIf (· == ',') s1
  let us := takeIf (· == '_') cm.2
  if cm.1.isSome && us.1.isSome then none else
  if us.1.isSome && (takeIf (· == ',') us.2).1.isSome then none else
  let sep : Sep := if cm.1.isSome then .comma else if us.1.isSome then .underscore else .none
  let dot := takeIf (· == '.') us.2
  let pd := dot.2.takeWhile pyDigit
  if dot.1.isSome && pd.isEmpty then none else
  if dot.1.isSome && decVal pd > ssizeMaxS then none else
  let s2 := if dot.1.isSome then dot.2.dropWhile pyDigit else us.2
  match s2 with
  | _ :: _ :: _ => none
  | rest =>
    let ty := rest.head?
    if sepAllows sep (match ty with | some c => some c | none => defaultType) then
      some { align := a.1, sign := sg.1, z := z.1.isSome, alt := h.1.isSome,
             width := if (s0.takeWhile pyDigit).isEmpty then none else some (decVal (s0.takeWhile pyDigit)),
             prec := if dot.1.isSome then some (decVal pd) else none, type := ty }
    else none

/-- the largest width and `float` precision for which the model says that formatting works; above it the model abstains:
    a field padded to an astronomic width, or a float printed with an astronomic precision, ends in `MemoryError`
    (or not) depending on the machine -/
def sizeLimit : Nat := 2 ^ 24

/-- the padding to `width` (and, for floats, the digits of `prec`) fit in memory, as far as the model can tell -/
def sizeCheck (width prec : Option Nat) : Except SErr Unit :=
  if width.getD 0 > sizeLimit || prec.getD 0 > sizeLimit then .error .unmodelled else .ok ()

/-- `str.__format__` with a non-empty spec (`format_string_internal`): only the type `s`; "Sign not allowed in string
    format specifier", "Negative zero coercion (z) not allowed …", "Alternate form (#) not allowed …",
    "'=' alignment not allowed in string format specifier" — all ValueError; a leading `0` is allowed (Python ≥ 3.10) -/
def strFormat (spec : Str) : Except SErr Unit :=
  match parseFSpec (some 's') spec with
  | none => .error .valueError
  | some f =>
    if (f.type.getD 's') != 's' then .error .valueError
    else if f.sign.isSome || f.z || f.alt || f.align == some '=' then .error .valueError
    else sizeCheck f.width none

def isFloatType (c : Char) : Bool :=
  c == 'e' || c == 'E' || c == 'f' || c == 'F' || c == 'g' || c == 'G' || c == '%'

/-- `int.__format__` with a non-empty spec.  Types `b c d o x X n` (`format_long_internal`): a precision, `z`, and for `c`
    a sign or `#`, are ValueError; then `c` needs `0 ≤ n < 0x110000` (OverflowError "%c arg not in range(0x110000)" or
    "Python int too large to convert to C long"), `d` and `n` produce decimal text (ValueError above 4300 digits),
    `b o x X` always work.  Types `e E f F g G %`: the number is converted to `float` first (OverflowError "int too large
    to convert to float"), then a precision above `INT_MAX` is "precision too big" (ValueError).  Any other type:
    "Unknown format code" (ValueError). -/
def intFormat (spec : Str) (n : Int) : Except SErr Unit :=
  match parseFSpec (some 'd') spec with
  | none => .error .valueError
  | some f =>
    let ty := f.type.getD 'd'
    if ty == 'b' || ty == 'c' || ty == 'd' || ty == 'o' || ty == 'x' || ty == 'X' || ty == 'n' then
      if f.prec.isSome || f.z then .error .valueError
      else if ty == 'c' then
        if f.sign.isSome || f.alt then .error .valueError
        else if 0 ≤ n ∧ n ≤ maxUnicode then sizeCheck f.width none else .error .overflowError
      else if ty == 'd' || ty == 'n' then
        match strCheck (.int n) with
        | .error e => .error (ofPyErr e)
        | .ok _ => sizeCheck f.width none
      else sizeCheck f.width none
    else if isFloatType ty then
      if -floatLimit < n ∧ n < floatLimit then
        (if (f.prec.getD 0) > intMaxS then .error .valueError else sizeCheck f.width f.prec)
      else .error .overflowError
    else .error .valueError

/-- `float.__format__` with a non-empty spec (`format_float_internal`): no type or `e E f F g G n %`, else "Unknown format
    code"; a precision above `INT_MAX` is "precision too big"; `inf` and `nan` are formatted like any other float -/
def floatFormat (spec : Str) : Except SErr Unit :=
  match parseFSpec none spec with
  | none => .error .valueError
  | some f =>
    match f.type with
    | none => if (f.prec.getD 0) > intMaxS then .error .valueError else sizeCheck f.width f.prec
    | some ty =>
      if isFloatType ty || ty == 'n' then
        (if (f.prec.getD 0) > intMaxS then .error .valueError else sizeCheck f.width f.prec)
      else .error .valueError

/-- `format(obj, spec)` (`format_field`): does it raise, and — where the model knows it — the text produced.
    An empty spec is `str(obj)`.  `None` and `Val.other` have `object.__format__`: a non-empty spec is TypeError
    "unsupported format string passed to NoneType.__format__".  The text of a field formatted with a non-empty spec
    (padding, digits …) is not modelled. -/
def formatObj (o : Obj) (spec : Str) : Except SErr (Option Str) :=
  match o with
  | .text t =>
    if spec.isEmpty then .ok t
    else match strFormat spec with
      | .error e => .error e
      | .ok _ => .ok none
  | .val v =>
    if spec.isEmpty then
      match strCheck v.toValue with
      | .error e => .error (ofPyErr e)
      | .ok _ => .ok (strText v)
    else
      match v with
      | .str _ => (strFormat spec).map (fun _ => none)
      | .int n => (intFormat spec n).map (fun _ => none)
      | .float _ _ => (floatFormat spec).map (fun _ => none)
      | .none => .error .typeError
      | .other => .error .typeError

/-! ## Evaluation: `_vformat` / `build_string` -/

/-- concatenation of texts that may be unknown -/
def catText : Option Str → Option Str → Option Str
  | some a, some b => some (a ++ b)
  | _, _ => none

/-- the loop over the items; `ev` evaluates one replacement field to its text -/
def runItems (ev : Str → Option Char → Str → Except SErr (Option Str)) : List Item → Except SErr (Option Str)
  | [] => .ok (some [])
  | .lit s :: rest =>
    match runItems ev rest with
    | .error e => .error e
    | .ok t => .ok (catText (some s) t)
  | .bad :: _ => .error .valueError
  | .field name conv spec :: rest =>
    match ev name conv spec with
    | .error e => .error e
    | .ok t =>
      match runItems ev rest with
      | .error e => .error e
      | .ok t' => .ok (catText t t')

/-- one replacement field: `get_field`, `convert_field`, expansion of the spec (`expand`), `format_field`.
    `str.format` expands the spec only if it contains a `{`; `vformat` always calls `_vformat` on it.  When the text of
    the expanded spec is not known the model abstains. -/
def evalField (m : Mode) (d : SDict) (expand : Str → Except SErr (Option Str)) (name : Str) (conv : Option Char)
    (spec : Str) : Except SErr (Option Str) :=
  match getField m d name with
  | .error e => .error e
  | .ok v =>
    match convert v conv with
    | .error e => .error e
    | .ok o =>
      match (if m == .cformat && !spec.contains '{' then .ok (some spec) else expand spec) with
      | .error e => .error e
      | .ok none => .error .unmodelled
      | .ok (some st) => formatObj o st

/-- `_vformat(s, (), d, used, level - 1)` / `build_string(s, (), d, level)`: level 0 is "Max string recursion exceeded"
    (ValueError) -/
def evalStr (m : Mode) (d : SDict) : Nat → Str → Except SErr (Option Str)
  | 0, _ => .error .valueError
  | level + 1, s => runItems (evalField m d (fun spec => evalStr m d level spec)) (parse s)

def toUnit {α : Type} : Except SErr α → Except SErr Unit
  | .ok _ => .ok ()
  | .error e => .error e

/-- `string.Formatter().vformat(fmt, (), d)` (recursion depth 2: three levels are entered) -/
def vformatRun (fmt : Str) (d : SDict) : Except SErr Unit := toUnit (evalStr .vformat d 3 fmt)

/-- `fmt.format(**d)` (recursion depth 2: two levels) -/
def cformatRun (fmt : Str) (d : SDict) : Except SErr Unit := toUnit (evalStr .cformat d 2 fmt)

/-! ## `logging.StrFormatStyle.validate` -/

/-- `$` of `re`: at the end of the string or just before a final newline -/
def atDollar (s : Str) : Bool := s.isEmpty || s == ['\n']

/-- `(\.\w+|\[[^]]+\])*$` — greedy scanning is complete: a shorter run of `\w` leaves a word character, which matches
    neither `.`, `[` nor `$` -/
def fieldSuffixes : Nat → Str → Bool
  | 0, s => atDollar s
  | fuel + 1, s =>
    atDollar s ||
    match s with
    | [] => false
    | c :: t =>
      if c == '.' then !(t.takeWhile isWord).isEmpty && fieldSuffixes fuel (t.dropWhile isWord)
      else if c == '[' then
        !(t.takeWhile (· != ']')).isEmpty &&
        match t.dropWhile (· != ']') with
        | [] => false
        | _ :: rest => fieldSuffixes fuel rest
      else false

/-- `field_spec = re.compile(r'^(\d+|\w+)(\.\w+|\[[^]]+\])*$')`, `.match(fieldname)` (`\d+` is a special case of `\w+`) -/
def fieldSpecMatch (name : Str) : Bool :=
  !(name.takeWhile isWord).isEmpty && fieldSuffixes name.length (name.dropWhile isWord)

/-- the code points matched by `[bcdefgnosx%]` under `re.IGNORECASE`: the letters in both cases, `%`, and U+017F `ſ`
    (enumerated with the running interpreter) -/
def fmtSpecTypes : List Nat :=
  [0x25, 0x42, 0x43, 0x44, 0x45, 0x46, 0x47, 0x4e, 0x4f, 0x53, 0x58, 0x62, 0x63, 0x64, 0x65, 0x66, 0x67, 0x6e, 0x6f,
   0x73, 0x78, 0x17f]
def isFmtSpecType (c : Char) : Bool := fmtSpecTypes.contains c.toNat

/-- `(\d+|{\w+})?`: skip a run of digits, or `{word}` -/
def skipNumOrField (s : Str) : Str :=
  match s with
  | [] => []
  | c :: t =>
    if pyDigit c then s.dropWhile pyDigit
    else if c == '{' then
      if (t.takeWhile isWord).isEmpty then s
      else match t.dropWhile isWord with
        | c2 :: t2 => if c2 == '}' then t2 else s
        | [] => s
    else s

/-- `(.?[<>=^])?` — `.` does not match a newline.  First-match scanning is complete: the alignment characters occur
    nowhere else in the pattern. -/
def skipAlign (s : Str) : Str :=
  match s with
  | c1 :: c2 :: t => if c1 != '\n' && isAlign c2 then t else if isAlign c1 then c2 :: t else s
  | [c1] => if isAlign c1 then [] else s
  | [] => s

/-- `(\.(\d+|{\w+}))?` -/
def skipPrecision (s : Str) : Str :=
  match s with
  | c :: t =>
    if c == '.' then
      match t with
      | c2 :: _ => if pyDigit c2 || (c2 == '{' && skipNumOrField t != t) then skipNumOrField t else s
      | [] => s
    else s
  | [] => s

/-- `fmt_spec = re.compile(r'^(.?[<>=^])?[+ -]?#?0?(\d+|{\w+})?[,_]?(\.(\d+|{\w+}))?[bcdefgnosx%]?$', re.I)`,
    `.match(spec)` -/
def fmtSpecMatch (spec : Str) : Bool :=
  let s1 := skipAlign spec
  let s2 := (takeIf isSign s1).2
  let s3 := (takeIf (· == '#') s2).2
  let s4 := (takeIf (· == '0') s3).2
  let s5 := skipNumOrField s4
  let s6 := (takeIf (fun c => c == ',' || c == '_') s5).2
  let s7 := skipPrecision s6
  let s8 := (takeIf isFmtSpecType s7).2
  atDollar s8

/-- what `validate` checks on one item -/
def itemValid : Item → Bool
  | .lit _ => true
  | .bad => false
  | .field name conv spec =>
    (name.isEmpty || fieldSpecMatch name) &&
    (match conv with
     | none => true
     | some c => c == 'r' || c == 's' || c == 'a') &&
    (spec.isEmpty || fmtSpecMatch spec)

def isNamedField : Item → Bool
  | .field name _ _ => !name.isEmpty
  | _ => false

/-- `StrFormatStyle.default_format` (ZConfig's and logging's) -/
def defaultStrFormat : Str := "{message}".toList

/-- `fmt or self.default_format` -/
def effectiveStr (fmt : Str) : Str := if fmt.isEmpty then defaultStrFormat else fmt

/-- `logging.StrFormatStyle(fmt).validate()`: every failure is a ValueError -/
def validateStr (fmt : Str) : Except SErr Unit :=
  if (parse (effectiveStr fmt)).all itemValid && (parse (effectiveStr fmt)).any isNamedField then .ok ()
  else .error .valueError

/-- `StrFormatStyle.usesTime()` (the same in ZConfig and in logging): `self._fmt.find('{asctime') >= 0` -/
def usesTimeStr (fmt : Str) : Bool := hasInfix "{asctime".toList (effectiveStr fmt)

/-! ## The load-time check of `FormatterFactory` and the formatter it builds -/

/-- the sample record of `FormatterFactory.__init__` (`LogFormat.sampleVars`), the floats with their `repr` -/
def sampleVals : List (Str × Val) :=
  [("name".toList, .str "ZConfig.components.logger.formatter".toList),
   ("msg".toList, .str "some message".toList),
   ("args".toList, .other),
   ("levelname".toList, .str "DEBUG".toList),
   ("levelno".toList, .int 3),
   ("pathname".toList, .str "apath".toList),
   ("filename".toList, .str "afile".toList),
   ("module".toList, .str "amodule".toList),
   ("exc_info".toList, .none),
   ("exc_text".toList, .none),
   ("stack_info".toList, .none),
   ("lineno".toList, .int 1),
   ("funcName".toList, .str "fname".toList),
   ("created".toList, .float .finite "1.1".toList),
   ("msecs".toList, .float .finite "1.1".toList),
   ("relativeCreated".toList, .float .finite "1.1".toList),
   ("thread".toList, .int 140000000000000),
   ("threadName".toList, .str "MainThread".toList),
   ("processName".toList, .str "MainProcess".toList),
   ("process".toList, .int 4000000),
   ("taskName".toList, .none),
   ("asctime".toList, .str "atime".toList),
   ("message".toList, .str "amessage".toList)]

/-- a record given as a table of its attributes -/
def lookupS (tbl : List (Str × Val)) (k : Str) : Option Val := (tbl.find? (fun p => p.1 == k)).map (·.2)

def sampleSDict : SDict := lookupS sampleVals

/-- `FormatterFactory.__call__` for `style format`: `logging.Formatter(fmt, datefmt, style='{')` -/
def buildStrFormatter (fmt : Str) : Except SErr Unit := validateStr fmt

/-- `FormatterFactory.__init__` for `style format`: the trial `vformat` of the sample record — an `IndexError` is turned
    into `ValueError` —, then the formatter is built once.  `.ok ()` = accepted; else the class of the exception
    (ValueError becomes a configuration error, the other classes escape from the loader as they are);
    `.error .unmodelled` = the model abstains. -/
def loadCheckStrFormat (fmt : Str) : Except SErr Unit :=
  match vformatRun (effectiveStr fmt) sampleSDict with
  | .error .indexError => .error .valueError
  | .error e => .error e
  | .ok _ => buildStrFormatter fmt

/-- the format (value of `section.format`, after the `escaped_string` datatype) is accepted with `style format` -/
def acceptsStrFormat (fmt : Str) : Bool :=
  match loadCheckStrFormat fmt with
  | .ok _ => true
  | .error _ => false

/-- run time: `logging.Formatter.formatMessage(record)` = `logging.StrFormatStyle.format`:
    `fmt.format(**record.__dict__)` with `KeyError` turned into `ValueError` -/
def formatStr (fmt : Str) (r : SDict) : Except SErr Unit :=
  match cformatRun (effectiveStr fmt) r with
  | .error .keyError => .error .valueError
  | .error e => .error e
  | .ok _ => .ok ()

/-- ZConfig's own `StrFormatStyle.format(record)` (used at run time only with a formatter class that has no `style`
    parameter): `string.Formatter().vformat(fmt, (), record.__dict__)` -/
def formatStrStylist (fmt : Str) (r : SDict) : Except SErr Unit := vformatRun (effectiveStr fmt) r

/-- the verdict on the text written in the configuration file (`escaped_string` = `ctrl_char_insert` first) -/
def acceptsStrFormatConfigured (raw : Str) : Bool := acceptsStrFormat (ctrlCharInsert raw)

end ZCV.LogStrFormat
