import ZCV.Model.Logger
/-!
Model of the *set-up* half of the logger component, hand-written from the Python source
(`components/logger/factory.py`, `logger.py`, `handlers.py: HandlerFactory.create`, and the three stdlib methods they call:
`logging.getLogger`, `Logger.setLevel`, `Logger.addHandler`).

Tie to the code: the driver op `logsetup` runs `callAll` on factory descriptions, and `harness/zcv/props/c20.py` compares the resulting
world (level, propagate, handler identities/configurations per logger) with what the real factories did to the `logging` module, on
every run.  Every definition quotes the statement(s) it mirrors.

The logging world is tiny: a finite map from logger names to `(level, propagate, handlers)` plus an allocation
counter that gives every handler object created by a handler factory its identity (Python object identity is what
`Logger.addHandler` uses for its `hdlr in self.handlers` test).  Rendering, streams, files, locks, the logger hierarchy
and `manager._clear_cache()` are outside the model.
-/
namespace ZCV.LogSetup
open ZCV

/-- what a configured handler section determines of the handler object built from it (`HandlerFactory.create`):
    the class picked by `create_loghandler`, `section.level`, and the formatter settings read by `FormatterFactory` -/
structure HandlerCfg where
  cls : Str                  -- name of the handler class, e.g. "FileHandler", "StreamHandler", "SysLogHandler"
  level : Int                -- `section.level`, passed to `handler.setLevel`
  format : Str               -- `section.format`
  style : Str                -- `section.style`
  dateformat : Option Str    -- `section.dateformat`
deriving Repr, DecidableEq

/-- a handler object: identity + what it was configured from; `cfg = none` is `loghandler.NullHandler()` -/
structure Handler where
  id : Nat
  cfg : Option HandlerCfg
deriving Repr, DecidableEq

structure LoggerState where
  level : Int
  propagate : Bool
  handlers : List Handler
deriving Repr, DecidableEq

/-- `loggers`: the loggers that exist (`Logger.manager.loggerDict` plus the root logger, keyed by `logger.name`);
    `nextId`: identity of the next handler object to be created -/
structure World where
  loggers : List (Str × LoggerState)
  nextId : Nat
deriving Repr, DecidableEq

/-- `logging.root.name` -/
def rootName : Str := "root".toList

/-- `logging.getLogger(name)`: `if not name or isinstance(name, str) and name == root.name: return root`;
    the result is the `.name` of the logger returned (which identifies it) -/
def loggerKey (name : Option Str) : Str :=
  match name with
  | none => rootName
  | some n => if n.isEmpty || n == rootName then rootName else n

/-- a logger that `getLogger` has to create: `Logger(name)` has level NOTSET, propagate True, no handlers;
    the root logger always exists and is `RootLogger(WARNING)` -/
def freshLogger (key : Str) : LoggerState :=
  { level := if key == rootName then 30 else 0, propagate := true, handlers := [] }

/-- the state of the logger called `key` (as `getLogger` would return it) -/
def World.get (w : World) (key : Str) : LoggerState :=
  match w.loggers.lookup key with
  | some st => st
  | none => freshLogger key

def setAssoc (key : Str) (st : LoggerState) : List (Str × LoggerState) → List (Str × LoggerState)
  | [] => [(key, st)]
  | (k, s) :: rest => if k == key then (key, st) :: rest else (k, s) :: setAssoc key st rest

/-- overwrite the state of the logger called `key` (created at the end of the table when new) -/
def World.set (w : World) (key : Str) (st : LoggerState) : World :=
  { w with loggers := setAssoc key st w.loggers }

/-- `logger.setLevel(level)` for an `int` level -/
def setLevel (w : World) (key : Str) (level : Int) : World :=
  w.set key { w.get key with level := level }

/-- `logger.propagate = flag` -/
def setPropagate (w : World) (key : Str) (flag : Bool) : World :=
  w.set key { w.get key with propagate := flag }

/-- `logger.addHandler(hdlr)`: `if not (hdlr in self.handlers): self.handlers.append(hdlr)` (identity test) -/
def addHandler (w : World) (key : Str) (h : Handler) : World :=
  let st := w.get key
  if st.handlers.any (·.id == h.id) then w
  else w.set key { st with handlers := st.handlers ++ [h] }

/-! ### `factory.Factory` -/

/-- `Factory.__call__`, generically: `F` is the factory object (whose `instance` attribute is read by `getInst` and
    written by `setInst`; `none` is `_marker`), `σ` the rest of the world, `create` the subclass's `create()`
    (which may update both).
    ```
    if self.instance is _marker:
        self.instance = self.create()
    return self.instance
    ``` -/
def factoryCall {F α σ : Type} (getInst : F → Option α) (setInst : F → α → F) (create : F → σ → α × F × σ)
    (f : F) (w : σ) : α × F × σ :=
  match getInst f with
  | some a => (a, f, w)
  | none =>
    match create f w with
    | (a, f', w') => (a, setInst f' a, w')

/-! ### `handlers.HandlerFactory` -/

/-- a handler factory as built from its section by `HandlerFactory.__init__` (then `inst = none`), with its memo -/
structure HandlerFactory where
  cfg : HandlerCfg
  inst : Option Handler
deriving Repr, DecidableEq

/-- `HandlerFactory.create`: `create_loghandler()`, `setFormatter(self.create_formatter())`, `setLevel(self.section.level)`:
    a new handler object carrying the section's settings -/
def HandlerFactory.create (hf : HandlerFactory) (w : World) : Handler × HandlerFactory × World :=
  ({ id := w.nextId, cfg := some hf.cfg }, hf, { w with nextId := w.nextId + 1 })

/-- `handler_factory()` -/
def HandlerFactory.call (hf : HandlerFactory) (w : World) : Handler × HandlerFactory × World :=
  factoryCall (·.inst) (fun hf h => { hf with inst := some h }) HandlerFactory.create hf w

/-! ### `logger.LoggerFactoryBase`, `EventLogFactory`, `LoggerFactory` -/

/-- a logger factory as built from its section.
    * `EventLogFactory`: `name = none` (class attribute `name = None`), `propagate = none` (never assigned);
    * `LoggerFactory`: `name = section.name` (the key is optional, so it may be `None`), `propagate = some section.propagate`.
    `inst` is the memoised logger, identified by its name. -/
structure LoggerFactory where
  name : Option Str
  level : Int
  propagate : Option Bool
  handlerFactories : List HandlerFactory
  inst : Option Str
deriving Repr, DecidableEq

/-- `HandlerFactory.__init__(section)`: `Factory.__init__` sets `self.instance = _marker` -/
def handlerFactoryOf (cfg : HandlerCfg) : HandlerFactory := { cfg := cfg, inst := none }

/-- `EventLogFactory(section)`: `level = section.level`, `handler_factories = section.handlers` (the handler factories the
    loader has just built from the handler sections), class attribute `name = None`, no `propagate` -/
def eventLogFactoryOf (level : Int) (handlers : List HandlerCfg) : LoggerFactory :=
  { name := none, level := level, propagate := none, handlerFactories := handlers.map handlerFactoryOf, inst := none }

/-- `LoggerFactory(section)`: additionally `name = section.name` (`None` when the key is absent) and
    `propagate = section.propagate` -/
def loggerFactoryOf (name : Option Str) (level : Int) (propagate : Bool) (handlers : List HandlerCfg) : LoggerFactory :=
  { name := name, level := level, propagate := some propagate, handlerFactories := handlers.map handlerFactoryOf, inst := none }

/-- ```
    for handler_factory in self.handler_factories:
        handler = handler_factory()
        logger.addHandler(handler)
    ```
    returns the handler factories with their memos filled in -/
def addConfiguredHandlers (key : Str) : List HandlerFactory → World → List HandlerFactory × World
  | [], w => ([], w)
  | hf :: rest, w =>
    match hf.call w with
    | (h, hf', w1) =>
      match addConfiguredHandlers key rest (addHandler w1 key h) with
      | (rest', w2) => (hf' :: rest', w2)

/-- `logger.addHandler(loghandler.NullHandler())`: a new handler object that was configured from nothing -/
def addNullHandler (w : World) (key : Str) : World :=
  addHandler { loggers := w.loggers, nextId := w.nextId + 1 } key { id := w.nextId, cfg := none }

/-- `LoggerFactoryBase.create`:
    ```
    logger = logging.getLogger(self.name)
    logger.setLevel(self.level)
    if self.handler_factories: <loop above>
    else: logger.addHandler(loghandler.NullHandler())
    return logger
    ``` -/
def LoggerFactory.baseCreate (f : LoggerFactory) (w : World) : Str × LoggerFactory × World :=
  let key := loggerKey f.name
  let w1 := setLevel w key f.level
  if f.handlerFactories.isEmpty then (key, f, addNullHandler w1 key)
  else
    match addConfiguredHandlers key f.handlerFactories w1 with
    | (hfs, w2) => (key, { f with handlerFactories := hfs }, w2)

/-- `create` as the factory class defines it: `EventLogFactory` inherits `LoggerFactoryBase.create`; `LoggerFactory.create` is
    ```
    logger = LoggerFactoryBase.create(self)
    logger.propagate = self.propagate
    return logger
    ``` -/
def LoggerFactory.create (f : LoggerFactory) (w : World) : Str × LoggerFactory × World :=
  match f.propagate with
  | none => f.baseCreate w
  | some p =>
    match f.baseCreate w with
    | (key, f', w') => (key, f', setPropagate w' key p)

/-- `logger_factory()`: the name of the logger returned, the factory and the world afterwards -/
def LoggerFactory.call (f : LoggerFactory) (w : World) : Str × LoggerFactory × World :=
  factoryCall (·.inst) (fun f n => { f with inst := some n }) LoggerFactory.create f w

/-- `LoggerFactoryBase.startup`: `self()` -/
def LoggerFactory.startup (f : LoggerFactory) (w : World) : LoggerFactory × World :=
  match f.call w with
  | (_, f', w') => (f', w')

/-- `ZConfig.configureLoggers`, after loading: `for factory in config.loggers: factory()` -/
def callAll : List LoggerFactory → World → List LoggerFactory × World
  | [], w => ([], w)
  | f :: rest, w =>
    match f.call w with
    | (_, f', w1) =>
      match callAll rest w1 with
      | (rest', w2) => (f' :: rest', w2)

end ZCV.LogSetup
