import ZCV.Gen.Logger
import ZCV.Model.Val
/-!
Model of the decision logic of the logger component: `datatypes.logging_level`, `FileHandlerFactory.__init__`
(handlers.py), the `Factory` memoisation (factory.py) and the registry of re-openable handlers (loghandler.py).
Rendering by `logging`, streams, files and weak-reference timing are outside the model.
-/
namespace ZCV.Log
open ZCV

/-- `logging_level(value)` -/
def loggingLevel (value : Str) : Except ConvErr Int :=
  let s := lower value
  match Gen.loggingLevels.find? (·.1 == s) with
  | some (_, n) => .ok n
  | none =>
    match pyInt s with
    | none => .error .valueError
    | some v => if v < Gen.levelLo || v > Gen.levelHi then .error .valueError else .ok v

/-- the options of a `<logfile>` section as `FileHandlerFactory.__init__` reads them (Python truthiness made explicit) -/
structure FileOpts where
  path : Str
  maxBytes : Nat          -- 0 = not given
  oldFiles : Nat          -- 0 = not given
  when : Option Str       -- none or "" = not given
  interval : Nat          -- 0 = not given
  encoding : Option Str
  delay : Bool
deriving Repr

inductive HandlerKind
  | stderr | stdout
  | timedRotating (interval : Nat)
  | rotating
  | plainFile
deriving Repr, DecidableEq

def truthy (o : Option Str) : Bool := match o with | some s => !s.isEmpty | none => false

def fileHandlerKind (o : FileOpts) : Except ConvErr HandlerKind :=
  let checkStd : Except ConvErr Unit :=
    if o.maxBytes != 0 || o.oldFiles != 0 || truthy o.when then .error .valueError
    else if o.delay then .error .valueError
    else if truthy o.encoding then .error .valueError
    else .ok ()
  if o.path == "STDERR".toList then checkStd.map fun _ => .stderr
  else if o.path == "STDOUT".toList then checkStd.map fun _ => .stdout
  else if truthy o.when || o.maxBytes != 0 || o.oldFiles != 0 || o.interval != 0 then
    if o.oldFiles == 0 then .error .valueError
    else if truthy o.when then
      if o.maxBytes != 0 then .error .valueError
      else .ok (.timedRotating (if o.interval == 0 then 1 else o.interval))
    else if o.maxBytes != 0 then .ok .rotating
    else .error .valueError
  else .ok .plainFile

/-! ### the registry of re-openable handlers -/

/-- a handler that supports reopen (file, rotating, timed-rotating) -/
structure H where
  id : Nat
  alive : Bool      -- still referenced by the application / a logger
  closed : Bool
  reopened : Nat    -- how often it has been reopened
deriving Repr, DecidableEq

structure Reg where
  handlers : List H         -- every handler ever created, by id
  registry : List Nat       -- `_reopenable_handlers`: ids (weak references), in registration order
deriving Repr

inductive Op | create | drop (id : Nat) | close (id : Nat) | reopenFiles | closeFiles
deriving Repr

def updH (hs : List H) (id : Nat) (f : H → H) : List H := hs.map fun h => if h.id == id then f h else h
def getH (hs : List H) (id : Nat) : Option H := hs.find? (·.id == id)

def stepReg (r : Reg) : Op → Reg
  | .create =>
    let id := r.handlers.length
    { handlers := r.handlers ++ [{ id := id, alive := true, closed := false, reopened := 0 }], registry := r.registry ++ [id] }
  | .drop id =>        -- the last reference goes away: the weakref callback removes the entry
    { handlers := updH r.handlers id (fun h => { h with alive := false }), registry := r.registry.filter (· != id) }
  | .close id =>       -- handler.close(): closes and unregisters
    match getH r.handlers id with
    | some h => if h.alive then { handlers := updH r.handlers id (fun h => { h with closed := true }), registry := r.registry.filter (· != id) } else r
    | none => r
  | .reopenFiles =>    -- every registered live handler is reopened; dead entries are pruned
    { handlers := r.handlers.map (fun h => if r.registry.contains h.id && h.alive then { h with reopened := h.reopened + 1 } else h),
      registry := r.registry.filter (fun id => match getH r.handlers id with | some h => h.alive | none => false) }
  | .closeFiles =>     -- every registered live handler is closed; the registry ends empty
    { handlers := r.handlers.map (fun h => if r.registry.contains h.id && h.alive then { h with closed := true } else h),
      registry := [] }

def runReg (ops : List Op) : Reg := ops.foldl stepReg { handlers := [], registry := [] }

end ZCV.Log
