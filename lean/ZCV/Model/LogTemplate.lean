import ZCV.Model.LogFormat
/-!
# `template` and `safe-template` log formats (`string.Template`): what `FormatterFactory` accepts and what formatting does

Source: `/repo/src/ZConfig/components/logger/formatter.py`

```python
class StringTemplateStyle(PercentStyle):
    logging_style = '$'
    default_format = '${message}'
    def __init__(self, fmt):
        self._fmt = fmt or self.default_format
        self._tpl = string.Template(self._fmt)
    def usesTime(self):
        fmt = self._fmt
        return fmt.find('$asctime') >= 0 or fmt.find(self.asctime_format) >= 0      # asctime_format = '${asctime}'
    def format(self, record):
        return self._tpl.substitute(record.__dict__)

class SafeStringTemplateStyle(StringTemplateStyle):
    logging_style = None
    def format(self, record):
        return self._tpl.safe_substitute(record.__dict__)
```

`FormatterFactory.__init__` (arbitrary-fields off, default formatter class `logging.Formatter`):

```python
        self.stylist = _log_format_styles[self.style](self.format)
        ...
        record = logging.LogRecord(__name__, logging.INFO, __file__, 42, 'some message', (), None)
        record.__dict__.update(_log_format_variables)
        ...
        self.stylist.format(record)          # only IndexError is caught
        self()                               # FormatterFactory.__call__
```

`FormatterFactory.__call__`: for `template` (`stylist.logging_style == '$'`)
`self.factory(self.format, self.dateformat, style='$')`, i.e. `logging.Formatter.__init__`, which builds logging's own
`StringTemplateStyle(fmt)` and calls its `validate()`; for `safe-template` (`logging_style is None`)
`self.factory(self.format, self.dateformat, style='$', validate=False)`, `assert formatter._style._fmt == stylist._fmt`,
`formatter._style = stylist`.

CPython 3.12 `string.Template`: the pattern (flags `IGNORECASE | VERBOSE`)

```
\$(?:(?P<escaped>\$)|(?P<named>(?a:[_a-z][_a-z0-9]*))|{(?P<braced>(?a:[_a-z][_a-z0-9]*))}|(?P<invalid>))
```

(the classes are ASCII-only because of `(?a:…)`: checked on all code points of the running interpreter — exactly
`_`, `A`–`Z`, `a`–`z`, and the digits `0`–`9` after the first character; `ſ` U+017F, `K` U+212A, `ı` U+0131 do NOT match);

```python
    def substitute(self, mapping=_sentinel_dict, /, **kws):
        def convert(mo):
            named = mo.group('named') or mo.group('braced')
            if named is not None:
                return str(mapping[named])              # KeyError when absent
            if mo.group('escaped') is not None:
                return self.delimiter
            if mo.group('invalid') is not None:
                self._invalid(mo)                       # ValueError
        return self.pattern.sub(convert, self.template)
    def safe_substitute(self, mapping=_sentinel_dict, /, **kws):
        def convert(mo):
            named = mo.group('named') or mo.group('braced')
            if named is not None:
                try:
                    return str(mapping[named])
                except KeyError:
                    return mo.group()
            if mo.group('escaped') is not None:
                return self.delimiter
            if mo.group('invalid') is not None:
                return mo.group()
        return self.pattern.sub(convert, self.template)
```

`logging.StringTemplateStyle` (Python 3.12):

```python
    def validate(self):
        pattern = Template.pattern
        fields = set()
        for m in pattern.finditer(self._fmt):
            d = m.groupdict()
            if d['named']:
                fields.add(d['named'])
            elif d['braced']:
                fields.add(d['braced'])
            elif m.group(0) == '$':
                raise ValueError('invalid format: bare \'$\' not allowed')
        if not fields:
            raise ValueError('invalid format: no fields')
    def _format(self, record):
        ...
        return self._tpl.substitute(**values)           # values = record.__dict__
    def format(self, record):                           # inherited from logging.PercentStyle
        try:
            return self._format(record)
        except KeyError as e:
            raise ValueError('Formatting field not found in record: %s' % e)
```

`str(v)` of a record attribute: works for `str`, `float`, `None` and every `Value.other` (by definition of `other`);
for an `int` it raises `ValueError` when the number has more than `sys.get_int_max_str_digits()` = 4300 decimal digits
(the default limit of Python 3.12; `str(10**4300-1)` works, `str(10**4300)` raises, checked on the interpreter).
Note that `safe_substitute` catches `KeyError` only, so this `ValueError` escapes from it too.

Compared with the running code (Python 3.12.1, task Y6, script `val/validate.py` + `val/Validate.lean` run with
`lake env lean --run`): 54 000 random formats in two runs (22 032 + 27 646 distinct; over the alphabet `$ { } _ a Z K 9 ſ U+212A é space message
asctime levelno nope`, and placeholder-shaped formats over all the known names) — for each one the pieces of `scan`
against `Template.pattern.finditer`, `loadCheckTemplate` / `loadCheckSafeTemplate` (exception CLASS included) against the
real `FormatterFactory` built on a stub section, `usesTimeTemplate` against the formatter's `usesTime()`,
`formatTemplate` / `formatSafeTemplate` against `formatMessage` of the formatter the factory returns on five records
(complete, without `asctime`, with a 4301-digit level number, without `message` and `levelno`, nearly empty), and
`substitute` / `safeSubstitute` against `string.Template` directly; the driver op `logtpl` on the same 54 000 texts; 9 000
of the formats through `ZConfig.loadConfigFile` of the logger component, both styles — no difference.
-/
namespace ZCV.LogTemplate
open ZCV ZCV.LogFormat

/-! ## The scanner: `Template.pattern.finditer` -/

/-- `(?a:[_a-z])` under `re.IGNORECASE`: `_`, `a`–`z`, `A`–`Z` and nothing else -/
def isIdStart (c : Char) : Bool := c == '_' || isAsciiLetter c

/-- `(?a:[_a-z0-9])` under `re.IGNORECASE`: `_`, ASCII letters, ASCII digits -/
def isIdChar (c : Char) : Bool := isIdStart c || isAsciiDigit c

/-- one piece of a template: the text between two matches of the pattern, or one match, by the group that matched -/
inductive Piece
  | lit (s : Str)        -- a maximal run of characters other than `$`
  | escaped              -- `$$`
  | named (n : Str)      -- `$identifier`
  | braced (n : Str)     -- `${identifier}`
  | invalid              -- a `$` that starts none of the above (the `invalid` group matches the empty string after it)
  deriving DecidableEq, Repr

/-- what the pattern matches at a `$`; `t` is the text after that `$`.  Result: the piece and the text after the match.
    The alternatives are tried in the order of the pattern — `escaped`, `named`, `braced`, `invalid`; the identifier
    classes are greedy (maximal munch), and for `braced` backtracking to a shorter identifier cannot help: the character
    after a shorter identifier is an identifier character, not `}`. -/
def scanDollar (t : Str) : Piece × Str :=
  match t with
  | [] => (.invalid, [])
  | c :: t' =>
    if c == '$' then (.escaped, t')
    else if isIdStart c then (.named (c :: t'.takeWhile isIdChar), t'.dropWhile isIdChar)
    else if c == '{' then
      match t' with
      | [] => (.invalid, t)
      | c2 :: t2 =>
        if isIdStart c2 then
          match t2.dropWhile isIdChar with
          | c3 :: t3 => if c3 == '}' then (.braced (c2 :: t2.takeWhile isIdChar), t3) else (.invalid, t)
          | [] => (.invalid, t)
        else (.invalid, t)
    else (.invalid, t)

/-- the successive matches, left to right, with the text between them; `fuel` bounds the number of pieces
    (every piece takes at least one character) -/
def scanAux : Nat → Str → List Piece
  | 0, _ => []
  | _, [] => []
  | fuel + 1, c :: t =>
    if c == '$' then (scanDollar t).1 :: scanAux fuel (scanDollar t).2
    else .lit ((c :: t).takeWhile (· != '$')) :: scanAux fuel ((c :: t).dropWhile (· != '$'))

/-- a template as the list of its literal runs and placeholders (`pattern.finditer` / `pattern.sub`) -/
def scan (s : Str) : List Piece := scanAux s.length s

/-- the source text of a piece (`mo.group()`) -/
def Piece.text : Piece → Str
  | .lit s => s
  | .escaped => ['$', '$']
  | .named n => '$' :: n
  | .braced n => '$' :: '{' :: (n ++ ['}'])
  | .invalid => ['$']

/-- the identifier a placeholder refers to (`mo.group('named') or mo.group('braced')`) -/
def Piece.ref : Piece → Option Str
  | .named n => some n
  | .braced n => some n
  | _ => none

def Piece.isInvalid : Piece → Bool
  | .invalid => true
  | _ => false

/-- the identifiers referenced by a template, in order, with repetitions -/
def refs (ps : List Piece) : List Str := ps.filterMap Piece.ref

/-! ## `substitute` / `safe_substitute` against a mapping: which calls raise -/

/-! `str(v)` is `LogFormat.strCheck` (with `LogFormat.intMaxStrDigits`): shared with the classic style. -/

/-- `convert(mo)` of `Template.substitute` -/
def substPiece (d : Dict) : Piece → Except PyErr Unit
  | .lit _ => .ok ()
  | .escaped => .ok ()
  | .named n => match d n with
    | none => .error .keyError
    | some v => strCheck v
  | .braced n => match d n with
    | none => .error .keyError
    | some v => strCheck v
  | .invalid => .error .valueError

/-- `convert(mo)` of `Template.safe_substitute`: `KeyError` is caught (the placeholder is left as it is), an invalid `$`
    is left as it is; an exception of `str()` still escapes -/
def safePiece (d : Dict) : Piece → Except PyErr Unit
  | .named n => match d n with
    | none => .ok ()
    | some v => strCheck v
  | .braced n => match d n with
    | none => .ok ()
    | some v => strCheck v
  | _ => .ok ()

/-- `pattern.sub(convert, template)`: the matches are converted from left to right, the first exception escapes -/
def runPieces (f : Piece → Except PyErr Unit) : List Piece → Except PyErr Unit
  | [] => .ok ()
  | p :: rest =>
    match f p with
    | .error e => .error e
    | .ok _ => runPieces f rest

/-- `string.Template(fmt).substitute(d)`: `.ok ()` when a string is produced, else the class of the exception -/
def substitute (fmt : Str) (d : Dict) : Except PyErr Unit := runPieces (substPiece d) (scan fmt)

/-- `string.Template(fmt).safe_substitute(d)` -/
def safeSubstitute (fmt : Str) (d : Dict) : Except PyErr Unit := runPieces (safePiece d) (scan fmt)

/-! ## The load-time check of `FormatterFactory` and the formatter it builds -/

/-- the keys of the record `FormatterFactory.__init__` formats.  Obtained from the running interpreter (Python 3.12.1):
    `r = logging.LogRecord(__name__, logging.INFO, __file__, 42, 'some message', (), None);
     r.__dict__.update(ZConfig.components.logger.formatter._log_format_variables); list(r.__dict__)`
    — the `LogRecord` attributes of Python 3.12 in creation order, then `asctime` and `message` from the table.
    These are exactly the keys of `LogFormat.sampleVars` (`LogTemplateLemmas.knownNames_eq`).  Belongs in `ZCV/Gen`. -/
def knownNames : List Str :=
  ["name".toList, "msg".toList, "args".toList, "levelname".toList, "levelno".toList, "pathname".toList,
   "filename".toList, "module".toList, "exc_info".toList, "exc_text".toList, "stack_info".toList, "lineno".toList,
   "funcName".toList, "created".toList, "msecs".toList, "relativeCreated".toList, "thread".toList,
   "threadName".toList, "processName".toList, "process".toList, "taskName".toList, "asctime".toList,
   "message".toList]

/-- `StringTemplateStyle.default_format` (ZConfig's and logging's) -/
def defaultTemplate : Str := "${message}".toList

/-- `fmt or self.default_format` -/
def effectiveTemplate (fmt : Str) : Str := if fmt.isEmpty then defaultTemplate else fmt

/-- `StringTemplateStyle.usesTime()` (the same text in ZConfig and in logging):
    `fmt.find('$asctime') >= 0 or fmt.find('${asctime}') >= 0`; `logging.Formatter.format` sets `record.asctime` only
    in this case -/
def usesTimeTemplate (fmt : Str) : Bool :=
  hasInfix "$asctime".toList (effectiveTemplate fmt) || hasInfix "${asctime}".toList (effectiveTemplate fmt)

/-- `logging.StringTemplateStyle(fmt).validate()`: a bare `$` raises ValueError, and so does a format without any
    field -/
def validate (fmt : Str) : Except PyErr Unit :=
  if (scan (effectiveTemplate fmt)).any Piece.isInvalid then .error .valueError
  else if (refs (scan (effectiveTemplate fmt))).isEmpty then .error .valueError
  else .ok ()

/-- `FormatterFactory.__call__` for `style template`: `logging.Formatter(fmt, datefmt, style='$')` -/
def buildTemplateFormatter (fmt : Str) : Except PyErr Unit := validate fmt

/-- `FormatterFactory.__call__` for `style safe-template`: `logging.Formatter(fmt, datefmt, style='$', validate=False)`,
    then the stylist is swapped in (the assertion compares `fmt or '${message}'` with itself) — nothing can raise -/
def buildSafeTemplateFormatter (_fmt : Str) : Except PyErr Unit := .ok ()

/-- `FormatterFactory.__init__` for `style template`: the trial `Template.substitute` on the sample record, then the
    formatter is built once.  `.ok ()` = accepted; else the class of the exception (ValueError becomes a configuration
    error, KeyError escapes from the loader as it is). -/
def loadCheckTemplate (fmt : Str) : Except PyErr Unit :=
  match substitute (effectiveTemplate fmt) sampleDict with
  | .error e => .error e
  | .ok _ => buildTemplateFormatter fmt

/-- `FormatterFactory.__init__` for `style safe-template` -/
def loadCheckSafeTemplate (fmt : Str) : Except PyErr Unit :=
  match safeSubstitute (effectiveTemplate fmt) sampleDict with
  | .error e => .error e
  | .ok _ => buildSafeTemplateFormatter fmt

/-- the format (value of `section.format`, after the `escaped_string` datatype) is accepted with `style template` -/
def acceptsTemplate (fmt : Str) : Bool :=
  match loadCheckTemplate fmt with
  | .ok _ => true
  | .error _ => false

/-- the format is accepted with `style safe-template` -/
def acceptsSafeTemplate (fmt : Str) : Bool :=
  match loadCheckSafeTemplate fmt with
  | .ok _ => true
  | .error _ => false

/-- run time, `style template`: `logging.Formatter.formatMessage(record)` = `logging.StringTemplateStyle.format`:
    `Template.substitute(**record.__dict__)` with `KeyError` turned into `ValueError` -/
def formatTemplate (fmt : Str) (r : Dict) : Except PyErr Unit :=
  match substitute (effectiveTemplate fmt) r with
  | .error .keyError => .error .valueError
  | .error e => .error e
  | .ok _ => .ok ()

/-- run time, `style safe-template`: `formatMessage` calls ZConfig's `SafeStringTemplateStyle.format`, which is
    `Template.safe_substitute(record.__dict__)` directly -/
def formatSafeTemplate (fmt : Str) (r : Dict) : Except PyErr Unit := safeSubstitute (effectiveTemplate fmt) r

/-- the verdicts on the text written in the configuration file (`escaped_string` = `ctrl_char_insert` first) -/
def acceptsTemplateConfigured (raw : Str) : Bool := acceptsTemplate (ctrlCharInsert raw)
def acceptsSafeTemplateConfigured (raw : Str) : Bool := acceptsSafeTemplate (ctrlCharInsert raw)

end ZCV.LogTemplate
