import ZCV.Base
/-! Values produced by datatype conversions and by a load. -/
namespace ZCV

inductive ConvErr where
  | valueError            -- the datatype rejected with ValueError
  | typeError             -- timedelta's unknown unit letter
  | other (name : Str)    -- any other exception a datatype function raises (passes through unchanged)
deriving Repr, DecidableEq

inductive Val where
  | none
  | str (s : Str)
  | int (i : Int)
  | bool (b : Bool)
  | float (lit : Str)                       -- symbolic: `float(lit)`
  | list (xs : List Val)
  | map (kvs : List (Str × Val))            -- insertion order kept; printed sorted
  | tup (xs : List Val)
  | sect (ty : Str) (name : Option Str) (attrs : List (Str × Val))
  | wrap (tag : Str) (v : Val)              -- result of a harness section datatype
deriving Repr, Inhabited

end ZCV
