import ZCV.Gen.Cfgparser
import ZCV.Model.Subst
import ZCV.Model.Schema
/-!
Model of `ZConfig/cfgparser.py` (`ZConfigParser`), generic in the context it drives.
One `stepLine` per physical line, mirroring `parse`, `start_section`, `end_section`,
`handle_key_value`, `handle_directive`, `handle_define/import/include`, `replace`, `error`.
-/
namespace ZCV.Cfg
open ZCV ZCV.Rx

/-- `_keyvalue_rx.match(s)` → (key, value?) through the generated pattern -/
def kvMatch (s : Str) : Option (Str × Option Str) :=
  (pyMatch Gen.keyvalueRx s).map fun st =>
    ((group st.2 Gen.keyvalueRx_key).getD [], group st.2 Gen.keyvalueRx_value)

/-- `_section_start_rx.match(text)` → (type, name?) -/
def hdrMatch (s : Str) : Option (Str × Option Str) :=
  (pyMatch Gen.sectionStartRx s).map fun st =>
    ((group st.2 Gen.sectionStartRx_type).getD [], group st.2 Gen.sectionStartRx_name)

/-- the operations a parser context offers (`startSection`, `endSection`, `addValue` on the current
    section, `importSchemaComponent`); σ holds the context's own section stack -/
structure PCtx (σ : Type) where
  start : σ → Str → Option Str → M σ
  stop : σ → Str → Option Str → M σ
  value : σ → Str → Str → Pos → M σ
  imp : σ → Str → M σ
  canInclude : Bool     -- schemaless.Context raises NotImplementedError
  canDefine : Bool      -- schemaless.Parser raises NotImplementedError

inductive Resolved
  | url (u : Str)
  | fragment            -- normalizeURL: "fragment identifiers are not supported"
  | unknown             -- outside the table the harness computed (never compared)

/-- everything outside the parser that a load consults -/
structure Env where
  res : Str → Option (List Str)               -- URL ↦ lines, or cannot be opened
  resolve : Option Str → Str → Resolved       -- (url of includer, argument) ↦ normalised URL
  getenv : Str → Option Str

structure PS (σ : Type) where
  ctx : σ
  stack : List (Str × Option Str)
  defs : List (Str × Str)

def lookupDef (defs : List (Str × Str)) (k : Str) : Option Str := (defs.find? (·.1 == k)).map (·.2)
/-- `defines[k] = v` -/
def setDef : List (Str × Str) → Str → Str → List (Str × Str)
  | [], k, v => [(k, v)]
  | p :: t, k, v => if p.1 == k then (k, v) :: t else p :: setDef t k v

def synErr (url : Option Str) (line : Nat) (tag : String) : Fail :=
  .cfg { kind := .syntax, line := some line, url := url, tag := tag }

/-- `self.replace(text)` -/
def replace (env : Env) (defs : List (Str × Str)) (url : Option Str) (line : Nat) (text : Str) : M Str :=
  match Subst.substitute (lookupDef defs) env.getenv text with
  | .ok v => .ok v
  | .error (.missing _ _) => .error (.cfg { kind := .replacement, line := some line, url := url, tag := "replacement" })
  | .error (.syntax _) => .error (.cfg { kind := .substSyntax, line := some line, url := url, tag := "subst-syntax" })

/-- the error handling shared by `end_section` and the `<type/>` form -/
def closeFixup {σ} (url : Option Str) (line : Nat) (r : M σ) : M σ :=
  match r with
  | .ok s => .ok s
  | .error (.cfg e) =>
    if e.kind == .conversion then
      .error (.cfg { e with line := (match e.line with | some l => if l < 0 then some (line : Int) else some l | none => some (line : Int)),
                            url := (match e.url with | some u => if u == [] then url else some u | none => url) })
    else .error (synErr url line ("close:" ++ e.tag))
  | .error f => .error f

/-- `start_section` after the header has been parsed -/
def openSection {σ} (c : PCtx σ) (url : Option Str) (line : Nat) (ty : Str) (nm : Option Str) (isempty : Bool)
    (st : PS σ) : M (PS σ) :=
  match c.start st.ctx ty nm with
  | .error (.cfg e) => .error (synErr url line ("start:" ++ e.tag))
  | .error f => .error f
  | .ok ctx1 =>
    if isempty then
      (closeFixup url line (c.stop ctx1 ty nm)).map fun ctx2 => { st with ctx := ctx2 }
    else .ok { st with ctx := ctx1, stack := (ty, nm) :: st.stack }

/-- `end_section` after the type text has been normalised -/
def closeSection {σ} (c : PCtx σ) (url : Option Str) (line : Nat) (ty : Str) (st : PS σ) : M (PS σ) :=
  match st.stack with
  | [] => .error (synErr url line "unexpected section end")
  | (opentype, name) :: stack' =>
    if ty != opentype then .error (synErr url line "unbalanced section end")
    else (closeFixup url line (c.stop st.ctx ty name)).map fun ctx2 => { st with ctx := ctx2, stack := stack' }

/-- `handle_key_value` after the line has been split -/
def keyValue {σ} (env : Env) (c : PCtx σ) (url : Option Str) (line : Nat) (key raw : Str) (st : PS σ) : M (PS σ) := do
  let value ← if raw == [] then pure [] else replace env st.defs url line raw
  match c.value st.ctx key value { line := line, url := url } with
  | .ok ctx1 => .ok { st with ctx := ctx1 }
  | .error (.cfg e) =>
    .error (.cfg { e with line := (match e.line with | some l => if l < 0 then some (line : Int) else some l | none => some (line : Int)),
                          url := (match e.url with | some u => if u == [] then url else some u | none => url) })
  | .error f => .error f

/-- `parts[1]` if `len(parts) == 2` else `''` -/
def defValue (more : List Str) : Str := match more with | v :: _ => v | [] => []

/-- `handle_define(section, rest)` -/
def define (env : Env) (url : Option Str) (line : Nat) (rest : Str) (defs : List (Str × Str)) :
    M (List (Str × Str)) :=
  match splitWS1 rest with
  | [] => .error (.internal "IndexError")            -- unreachable: the argument is non-empty
  | p0 :: more => do
    let defname := lower p0
    let defvalue := defValue more
    match lookupDef defs defname with
    | some cur =>
      let nv ← replace env defs url line defvalue
      if cur != nv then throw (synErr url line "cannot redefine")
    | none => pure ()
    if !Subst.isname defname then throw (synErr url line "not a substitution legal name")
    let nv ← replace env defs url line defvalue
    pure (setDef defs defname nv)

/-- what `parse` makes of one stripped line before it touches the context: mirrors the `if/elif` chain of
    `parse`, the header parsing of `start_section`, `end_section`'s `rstrip().lower()`, and the two uses of
    `_keyvalue_rx` -/
inductive LineShape where
  | skip
  | open_ (ty : Str) (nm : Option Str) (empty : Bool)
  | close (ty : Str)
  | define (arg : Str) | import_ (arg : Str) | include_ (arg : Str)
  | kv (key val : Str)
  | bad (tag : String)
  | internal (exc : String)
deriving Repr, DecidableEq

def lineShape (l : Str) : LineShape :=
  if l.take 1 == [] || l.take 1 == ['#'] then .skip
  else if l.take 2 == ['<', '/'] then
    if lastN l 1 != ['>'] then .bad "malformed section end"
    else .close (lower (rstrip (dropLastN (l.drop 2) 1)))
  else if l.take 1 == ['<'] then
    if lastN l 1 != ['>'] then .bad "malformed section start"
    else
      let rest := dropLastN (l.drop 1) 1
      let isempty := lastN rest 1 == ['/']
      let rest1 := if isempty then dropLastN rest 1 else rest
      match hdrMatch (rstrip rest1) with
      | none => .bad "malformed section header"
      | some (ty0, nm0) =>
        .open_ (lower ty0) (match nm0 with | some n => if n == [] then none else some (lower n) | none => none) isempty
  else if l.take 1 == ['%'] then
    match kvMatch (l.drop 1) with
    | none => .bad "missing or unrecognized directive"
    | some (name, arg?) =>
      if !Gen.directives.contains name then .bad "unknown directive"
      else
        let arg := arg?.getD []
        if arg == [] then .bad "missing argument"
        else if name == "define".toList then .define arg
        else if name == "import".toList then .import_ arg
        else if name == "include".toList then .include_ arg
        else .internal "AttributeError"
  else
    match kvMatch l with
    | none => .bad "malformed configuration data"
    | some (key, value?) => .kv key (match value? with | none => [] | some v => v)

mutual
/-- one iteration of the `while not done` loop on an already stripped line -/
def stepLine {σ} (fuel : Nat) (env : Env) (c : PCtx σ) (active : List Str) (url : Option Str) (line : Nat) (l : Str) (st : PS σ) : M (PS σ) :=
  match lineShape l with
  | .skip => .ok st
  | .bad tag => .error (synErr url line tag)
  | .internal e => .error (.internal e)
  | .close ty => closeSection c url line ty st
  | .open_ ty nm isempty => openSection c url line ty nm isempty st
  | .kv key raw => keyValue env c url line key raw st
  | .define arg => do
    if !c.canDefine then throw (.internal "NotImplementedError")
    let defs' ← define env url line arg st.defs
    pure { st with defs := defs' }
  | .import_ arg => do
    let pkg ← replace env st.defs url line (strip arg)
    let ctx' ← c.imp st.ctx pkg
    pure { st with ctx := ctx' }
  | .include_ arg => do
    let a ← replace env st.defs url line (strip arg)
    if !c.canInclude then throw (.internal "NotImplementedError")
    match env.resolve url a with
    | .fragment => throw (.cfg { kind := .plain, url := none, tag := "fragment" })
    | .unknown => throw (.internal "unresolved-by-harness")
    | .url u =>
      match env.res u with
      | none => throw (.cfg { kind := .plain, url := some u, tag := "error opening" })
      | some lines =>
        -- `_parse_resource`: a resource already being read is refused
        if u != [] && active.contains u then throw (.cfg { kind := .plain, url := some u, tag := "resource includes itself" })
        match fuel with
        | 0 => throw (.internal "RecursionError")
        | fuel' + 1 =>
          let sub ← parseLines fuel' env c (u :: active) (some u) lines 0 { ctx := st.ctx, stack := [], defs := st.defs }
          pure { st with ctx := sub.ctx, defs := sub.defs }
termination_by (fuel, 0, 0)

/-- the whole `parse` loop over the lines of one resource (each is stripped first) -/
def parseLines {σ} (fuel : Nat) (env : Env) (c : PCtx σ) (active : List Str) (url : Option Str) (lines : List Str) (lineno : Nat) (st : PS σ) : M (PS σ) :=
  match lines with
  | [] => if st.stack != [] then .error (synErr url lineno "unclosed sections") else .ok st
  | l :: rest => do
    let st' ← stepLine fuel env c active url (lineno + 1) (strip l) st
    parseLines fuel env c active url rest (lineno + 1) st'
termination_by (fuel, 1, lines.length)
end

end ZCV.Cfg
