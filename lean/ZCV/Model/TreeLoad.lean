import ZCV.Model.Conv
import ZCV.Spec.Conforms
/-!
The loader (model: `lsStart` / `lsValue` / `lsStop` / `finishMatcher`) driven by a configuration TREE — the sequence of
calls the parser makes for a well-nested text — and the structural well-formedness of schemas that the schema
loader guarantees (`schemaOK`, checked on every generated schema by the harness).
-/
namespace ZCV.Conf
open ZCV ZCV.Cfg

mutual
def runItem (st : LS) : Item → M LS
  | .kv k v p => lsValue st k v p
  | .sect ty nm items =>
    match lsStart st ty nm with
    | .error e => .error e
    | .ok st1 =>
      match runItems st1 items with
      | .error e => .error e
      | .ok st2 => lsStop st2 ty nm
def runItems (st : LS) : List Item → M LS
  | [] => .ok st
  | i :: r =>
    match runItem st i with
    | .error e => .error e
    | .ok st' => runItems st' r
end

/-- `ConfigLoader.loadResource` on a tree (no overrides, no `%import`) -/
def loadTree (conv : Conv) (schema : Schema) (items : List Item) : M Val :=
  let st0 : LS := { schema := schema, privateSchema := false, handlers := [], stack := [newMatcher schema.top none none],
                    pkgs := fun _ => .notImportable, conv := conv }
  match runItems st0 items with
  | .error e => .error e
  | .ok st =>
    match st.stack with
    | [top] =>
      match finishMatcher conv st.schema top with
      | .error e => .error e
      | .ok (v, _) =>
        match conv.sect schema.top.datatype v with
        | .ok r => .ok r
        | .error e => .error (convFail e none { line := -1, url := none } "schema datatype")
    | _ => .error (.internal "IndexError")

def distinctB (l : List Str) : Bool := nodupB l

/-- structural facts about one concrete type that the schema loader establishes -/
def stypeOK (s : Schema) (t : SType) : Bool :=
  distinctB (t.children.map (·.2.attr)) &&
  distinctB (t.children.filterMap (·.1)) &&
  (t.children.filter isWildKey).length ≤ 1 &&
  t.children.all fun c =>
    match c.2 with
    | .key ki =>
      c.1 == some ki.name && !ki.name.isEmpty &&
      (if ki.name == ['+'] then
         (match ki.dflt with | .keyed _ => !ki.multi | .keyedMany _ => ki.multi | _ => false)
       else if ki.multi then (match ki.dflt with | .many _ => true | _ => false)
       else (match ki.dflt with | .none => true | .one _ => ki.minOccurs == 0 | _ => false))
    | .sect si =>
      (if si.name == ['*'] || si.name == ['+'] then c.1 == none else c.1 == some si.name && !si.name.isEmpty) &&
      (!si.multi || si.name == ['*'] || si.name == ['+']) &&
      (s.gettype si.ty).isSome

def schemaOK (s : Schema) : Bool :=
  stypeOK s s.top && s.top.name == none &&
  s.types.all fun (n, te) =>
    match te with
    | .concrete t => t.name == some n && stypeOK s t
    | .abstract_ n' _ => n' == n

/-- every section header in the tree spells its type the way the schema stores it (the parser lower-cases headers) -/
def tyCanon (s : Schema) : List Item → Bool
  | [] => true
  | .kv _ _ _ :: r => tyCanon s r
  | .sect ty _ items :: r =>
    (match s.gettype ty with
     | some (.concrete t) => t.name == some ty
     | some (.abstract_ n _) => n == ty
     | none => true) && tyCanon s items && tyCanon s r

end ZCV.Conf
