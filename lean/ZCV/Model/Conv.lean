import ZCV.Model.Matcher
/-!
The datatype registry as the model sees it: stock datatypes by name (`ZCV.DT`) plus the three
helper datatypes of the harness package `zcvdt` (wrap / marker-rejecting / marker-raising).
-/
namespace ZCV.Cfg
open ZCV

def familyName (f : DT.Family) : Str := DT.familyStr f

def hostPort (a : Str × Option Int) : Val :=
  .tup [.str a.1, match a.2 with | some p => .int p | none => .none]

def isInfix (needle hay : Str) : Bool :=
  (List.range (hay.length + 1)).any fun i => startsWith (hay.drop i) needle

/-- `zcvdt.marker`: a value datatype that rejects with ValueError on "!bad" and raises KeyError on "!exc" -/
def markerConv (s : Str) : Except ConvErr Val :=
  if isInfix "!exc".toList s then .error (.other "KeyError".toList)
  else if isInfix "!bad".toList s then .error .valueError
  else .ok (.str s)

def stockVal (dt : Str) (s : Str) : Except ConvErr Val :=
  match String.ofList dt with
  | "string" => .ok (.str s)
  | "null" => .ok (.str s)
  | "integer" => (DT.integer s).map .int
  | "boolean" => (DT.asBoolean s).map .bool
  | "float" => DT.floatConv s
  | "port-number" => (DT.portNumber s).map .int
  | "byte-size" => (DT.byteSize s).map .int
  | "time-interval" => (DT.timeInterval s).map .int
  | "identifier" => (DT.identifier s).map .str
  | "basic-key" => (DT.basicKey s).map .str
  | "dotted-name" => (DT.dottedName s).map .str
  | "dotted-suffix" => (DT.dottedSuffix s).map .str
  | "ipaddr-or-hostname" => (DT.ipaddrOrHostname s).map .str
  | "string-list" => .ok (.list ((DT.stringList s).map .str))
  | "inet-address" => (DT.inetAddress Gen.inetHost s).map hostPort
  | "inet-binding-address" => (DT.inetAddress Gen.inetBindingHost s).map hostPort
  | "inet-connection-address" => (DT.inetAddress Gen.inetConnectionHost s).map hostPort
  | "socket-address" => (DT.socketAddress Gen.inetHost s).map fun (f, a) =>
      .tup [.str (familyName f), match a with | .inl p => .str p | .inr hp => hostPort hp]
  | "socket-binding-address" => (DT.socketAddress Gen.inetBindingHost s).map fun (f, a) =>
      .tup [.str (familyName f), match a with | .inl p => .str p | .inr hp => hostPort hp]
  | "socket-connection-address" => (DT.socketAddress Gen.inetConnectionHost s).map fun (f, a) =>
      .tup [.str (familyName f), match a with | .inl p => .str p | .inr hp => hostPort hp]
  | "zcvdt.marker" => markerConv s
  | _ => .error (.other "unknown-datatype".toList)

def stockKey (kt : Str) (s : Str) : Except ConvErr Str :=
  match String.ofList kt with
  | "basic-key" => DT.basicKey s
  | "identifier" => DT.identifier s
  | "ipaddr-or-hostname" => DT.ipaddrOrHostname s
  | "string" => .ok s
  | _ => .error (.other "unknown-keytype".toList)

/-- does the section value hold, in one of its own attributes, the text "!sbad" / "!sexc"? -/
def sectMarker (m : Str) : Val → Bool
  | .sect _ _ attrs => attrs.any fun (_, v) => match v with | .str s => isInfix m s | _ => false
  | _ => false

def stockSect (dt : Str) (v : Val) : Except ConvErr Val :=
  match String.ofList dt with
  | "null" => .ok v
  | "zcvdt.wrap" => .ok (.wrap "wrap".toList v)
  | "zcvdt.sectmarker" =>
    if sectMarker "!sexc".toList v then .error (.other "KeyError".toList)
    else if sectMarker "!sbad".toList v then .error .valueError
    else .ok (.wrap "checked".toList v)
  | _ => .error (.other "unknown-section-datatype".toList)

def stockConv : Conv := { key := stockKey, val := stockVal, sect := stockSect }

end ZCV.Cfg
