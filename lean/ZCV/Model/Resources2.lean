import ZCV.Model.Resources
/-!
# Resources, second model: resource GRAPHS (configuration includes, `%import`, schema `extends` / `<import>`), the loaders' state

`ZCV/Model/Resources.lean` covers include TREES of configuration resources.  This file models, statement by statement,

* loader.py  `BaseLoader.loadURL`, `loadFile`, `openResource`, `ConfigLoader.loadResource`, `includeConfiguration`,
  `_parse_resource` (with `_active_urls` and its `try/finally`), `importSchemaComponent`, `SchemaLoader.loadResource` (`_cache`);
* schema.py  `start_import` (`src` → `loadURL`, `package` → `hasComponent/addComponent/loadComponent`), `loadComponent`,
  `start_schema` (the `extends` list, REVERSED, each base through `extendSchema`), `extendSchema`

over a TABLE of documents that refer to each other by resource number (= URL), so include cycles, schema cycles, diamonds and
repeated imports are all expressible.  A fault oracle `f : Pt → Bool` (the `Pt` of the first model) may fail any `urlopen`,
`read`, `decode` and any parse step `k` of any resource.  Python's recursion limit is the `limit` of the scenario: a schema that
extends / imports itself is not detected by ZConfig and ends in `RecursionError`, which here is "out of fuel" — one more way to
fail, through the same `with` / `finally` blocks.

The trace has, besides the four open / close events of the first model, an event `parse r k` for "the parser of resource `r`
starts its step `k`" (a line of a configuration resource; the `extends` bases and then the elements of a schema document); the
driver compares `ioTrace` (parse events removed) with the events recorded on the real objects.
-/
namespace ZCV.Res2
open ZCV.Res (Pt)

/-- one logical line of a configuration resource -/
inductive CStep where
  | work                 -- key, section start / end, `%define` … : handled locally, may fail (syntax, conversion, datatype)
  | incl (r : Nat)       -- `%include r`
  | imp (c : Nat)        -- `%import pkg`, where `c` is the resource `package:pkg:component.xml`
deriving Repr, DecidableEq

/-- one step of a schema / component parser -/
inductive SStep where
  | work                 -- any element handled locally (`<key>`, `<sectiontype>` …), may fail
  | ext (b : Nat)        -- one base of `<schema extends="…">`; produced from the `extends` list by `schemaSteps` (reversed)
  | importSrc (s : Nat)  -- `<import src="s"/>`
  | importPkg (c : Nat)  -- `<import package="pkg"/>`, where `c` is the resource `package:pkg:component.xml`
deriving Repr, DecidableEq

/-- what a resource contains -/
inductive Doc where
  | cfg (lines : List CStep)
  | schema (bases : List Nat) (body : List SStep)     -- `<schema extends="b1 b2 …"> body </schema>`
  | comp (body : List SStep)                            -- `<component> body </component>`
deriving Repr, DecidableEq

/-- the public call that starts the load -/
inductive Entry where
  | cfgURL (r : Nat)      -- `ConfigLoader.loadURL(r)`   (`ZConfig.loadConfig`)
  | cfgFile (r : Nat)     -- `ConfigLoader.loadFile(file, r)`   (`ZConfig.loadConfigFile`): the caller's open file, no `urlopen`
  | schemaURL (r : Nat)   -- `SchemaLoader.loadURL(r)`   (`ZConfig.loadSchema`)
  | schemaFile (r : Nat)  -- `SchemaLoader.loadFile(file, r)`   (`ZConfig.loadSchemaFile`)
deriving Repr, DecidableEq

structure Scenario where
  docs : List (Nat × Doc)     -- the resources that exist (first entry for a number wins); any other number cannot be opened
  entry : Entry
  limit : Nat := 64           -- nesting depth at which Python gives up with `RecursionError`
deriving Repr

/-- what persists in the loader object between calls -/
structure LState where
  active : List Nat := []     -- `ConfigLoader._active_urls`
  comps : List Nat := []      -- `ConfigLoader.schema._components` (the application schema's, copied by `createDerivedSchema` at the first `%import`)
  cache : List Nat := []      -- keys of `SchemaLoader._cache` (for a `ConfigLoader`: of its private `_loader`)
deriving Repr, DecidableEq

inductive Ev where
  | sopen (r : Nat) | sclose (r : Nat)     -- the underlying URL stream (`urllib.request.urlopen`, `file.close()`)
  | ropen (r : Nat) | rclose (r : Nat)     -- the `Resource` object (`createResource`, `Resource.close` through `__exit__`)
  | parse (r : Nat) (k : Nat)              -- the parser reading resource `r` starts its step `k`
deriving Repr, DecidableEq

/-- events, `True` = returned / `False` = raised, the loader's state afterwards -/
structure Out where
  evs : List Ev
  ok : Bool
  st : LState
deriving Repr, DecidableEq

/-- how a resource gets opened -/
inductive Opener where
  | url      -- `openResource(url)`, ordinary URL: `urlopen`, `read`, `close`, `decode`, `StringIO`, `createResource`
  | pkg      -- `openResource("package:…")`: `openPackageResource` (no stream of ours), `createResource`
  | file     -- `loadFile`: `createResource(file, url)` around the caller's file
deriving Repr, DecidableEq

/-- which `with … as r:` block is being executed -/
inductive Mode where
  | top (file : Bool)     -- `ConfigLoader.loadURL` / `loadFile` → `loadResource`
  | incl                  -- `ConfigLoader.includeConfiguration`
  | load (file : Bool)    -- `SchemaLoader.loadURL` / `loadFile` → `loadResource` (entry point and `<import src>`)
  | extend                -- `SchemaParser.extendSchema`
  | comp                  -- `BaseParser.loadComponent` / `ConfigLoader.importSchemaComponent`
deriving Repr, DecidableEq

/-- the recursive call: run that `with` block on that resource from that state -/
abbrev Rec := Mode → Nat → LState → Out

/--
`with <open r> as r: body` :

    try: file = urllib.request.urlopen(url)          -- Pt.urlopen r   (also: the resource does not exist)
    except …: self._raise_open_error(url, …)
    try: data = file.read()                          -- Pt.read r
    finally: file.close()
    if isinstance(data, bytes): data = data.decode('utf-8')      -- Pt.decode r
    file = StringIO(data)
    return self.createResource(file, url)
  … body …
  Resource.__exit__ → self.close()                   -- on return and on exception

For a `package:` URL `openPackageResource(package, filename)` either raises (`Pt.urlopen r`) or returns a `StringIO`.
For `loadFile` the file is the caller's: `with self.createResource(file, url) as r:`. -/
def withResource (f : Pt → Bool) (o : Opener) (r : Nat) (exist : Bool) (body : LState → Out) (st : LState) : Out :=
  match o with
  | .url =>
    if !exist || f (.urlopen r) then ⟨[], false, st⟩
    else if f (.read r) then ⟨[.sopen r, .sclose r], false, st⟩
    else if f (.decode r) then ⟨[.sopen r, .sclose r], false, st⟩
    else
      let b := body st
      ⟨[.sopen r, .sclose r, .ropen r] ++ b.evs ++ [.rclose r], b.ok, b.st⟩
  | .pkg =>
    if !exist || f (.urlopen r) then ⟨[], false, st⟩
    else
      let b := body st
      ⟨[.ropen r] ++ b.evs ++ [.rclose r], b.ok, b.st⟩
  | .file =>
    let b := body st
    ⟨[.ropen r] ++ b.evs ++ [.rclose r], b.ok, b.st⟩

/-- the parser's main loop over the steps of resource `r`, numbered from `k`; step `k` first announces itself
    (`parse r k`), may fail by the oracle (`Pt.step r k`), else does `act`; after the last step one more point: the end of the
    document (cfgparser `if self.stack: self.error("unclosed sections not allowed")`; expat's end-of-input errors) -/
def stepLoop {α : Type} (f : Pt → Bool) (r : Nat) (act : α → LState → Out) : Nat → List α → LState → Out
  | k, [], st => ⟨[.parse r k], !f (.step r k), st⟩
  | k, s :: rest, st =>
    if f (.step r k) then ⟨[.parse r k], false, st⟩
    else
      let a := act s st
      if a.ok then
        let b := stepLoop f r act (k + 1) rest a.st
        ⟨.parse r k :: a.evs ++ b.evs, b.ok, b.st⟩
      else ⟨.parse r k :: a.evs, false, a.st⟩

/-- `self._components[name] = name` / `self._cache[url] = schema` : a dict keeps one entry per key -/
def dictSet (l : List Nat) (x : Nat) : List Nat := if l.contains x then l else l ++ [x]

/-- one line of a configuration resource.

    handle_include:  newurl = urljoin(self.url, rest); self.context.includeConfiguration(section, newurl, self.defines)
    handle_import → ConfigLoader.importSchemaComponent(pkgname)   (as repaired by commit 7f61532):
        url = self._loader.schemaComponentSource(pkgname, '')        -- failure = the step's own fault point
        if schema.hasComponent(url):
            return
        # a component that fails to load must leave nothing behind in a
        # loader that is used again
        saved = ZConfig.info.createDerivedSchema(schema)              -- copy taken BEFORE the mark
        schema.addComponent(url)
        try:
            with self.openResource(url) as resource:
                ZConfig.schema.parseComponent(resource, self._loader, schema)
        except BaseException:
            self.schema = saved                                       -- `_components` (also the marks of nested <import package>) as before
            raise                                                     -- `self._loader._cache` is NOT restored

    (`saved` undoes this `%import` only: components imported by earlier lines of the same load stay.) -/
def cfgLine (rec : Rec) : CStep → LState → Out
  | .work, st => ⟨[], true, st⟩
  | .incl c, st => rec .incl c st
  | .imp c, st =>
    if st.comps.contains c then ⟨[], true, st⟩
    else
      let saved := st.comps
      let o := rec .comp c { st with comps := dictSet st.comps c }
      if o.ok then o else ⟨o.evs, false, { o.st with comps := saved }⟩

/-- one step of a schema / component parser.

    start_schema:   for src in sources (reversed): … self.extendSchema(src)
    start_import, src:      schema = self._loader.loadURL(src); for n in schema.gettypenames(): self._schema.addtype(…)
    start_import, package:  src = self._loader.schemaComponentSource(pkg, filename)
                            if not self._schema.hasComponent(src):
                                self._schema.addComponent(src)
                                self.loadComponent(src) -/
def schLine (rec : Rec) : SStep → LState → Out
  | .work, st => ⟨[], true, st⟩
  | .ext b, st => rec .extend b st
  | .importSrc s, st => rec (.load false) s st
  | .importPkg c, st =>
    if st.comps.contains c then ⟨[], true, st⟩
    else rec .comp c { st with comps := dictSet st.comps c }

/-- `ConfigLoader._parse_resource(matcher, resource, defines)`:

    url = resource.url
    if url and url in self._active_urls:
        raise ZConfig.ConfigurationError("resource includes itself: " + url, url)       -- nothing pushed yet
    self._active_urls.append(url)
    try:
        parser = ZConfig.cfgparser.ZConfigParser(resource, self, defines)
        parser.parse(matcher)
    finally:
        self._active_urls.pop()

    A resource that is not a configuration document fails at its first line. -/
def parseCfg (f : Pt → Bool) (rec : Rec) (r : Nat) (doc : Option Doc) (st : LState) : Out :=
  if st.active.contains r then ⟨[], false, st⟩
  else
    let st1 := { st with active := st.active ++ [r] }
    let b := match doc with
      | some (.cfg lines) => stepLoop f r (cfgLine rec) 0 lines st1
      | _ => ⟨[.parse r 0], false, st1⟩
    ⟨b.evs, b.ok, { b.st with active := b.st.active.dropLast }⟩

/-- number of the fault point of `sm.finish()` in the top resource: one past the end-of-document point -/
def finishPt (doc : Option Doc) : Nat :=
  match doc with
  | some (.cfg lines) => lines.length + 1
  | _ => 1

/-- `ConfigLoader.loadResource(resource)` (inside the `with` of `loadURL` / `loadFile`):

    sm = self.createSchemaMatcher()
    self._parse_resource(sm, resource)
    result = sm.finish(), CompositeHandler(sm.handlers, self.schema)        -- conversions / section datatypes may raise
    return result -/
def loadCfg (f : Pt → Bool) (rec : Rec) (r : Nat) (doc : Option Doc) (st : LState) : Out :=
  let p := parseCfg f rec r doc st
  if p.ok then ⟨p.evs ++ [.parse r (finishPt doc)], !f (.step r (finishPt doc)), p.st⟩
  else p

/-- the steps of a schema document: `sources = attrs["extends"].split(); sources.reverse(); for src in sources: …`, then the body -/
def schemaSteps (bases : List Nat) (body : List SStep) : List SStep := bases.reverse.map .ext ++ body

/-- `xml.sax.parse(r.file, SchemaParser(…))`; a resource that is not a schema document fails at its first element -/
def schemaBody (f : Pt → Bool) (rec : Rec) (r : Nat) (doc : Option Doc) (st : LState) : Out :=
  match doc with
  | some (.schema exts body) => stepLoop f r (schLine rec) 0 (schemaSteps exts body) st
  | _ => ⟨[.parse r 0], false, st⟩

/-- `xml.sax.parse(r.file, ComponentParser(…))`; a resource that is not a component fails at its first element -/
def compBody (f : Pt → Bool) (rec : Rec) (r : Nat) (doc : Option Doc) (st : LState) : Out :=
  match doc with
  | some (.comp body) => stepLoop f r (schLine rec) 0 body st
  | _ => ⟨[.parse r 0], false, st⟩

/-- `SchemaLoader.loadResource(resource)` (inside the `with` of `loadURL` / `loadFile`):

    if resource.url and resource.url in self._cache:
        schema = self._cache[resource.url]
    else:
        schema = ZConfig.schema.parseResource(resource, self)       -- a NEW SchemaType: its `_components` start empty
        self._cache[resource.url] = schema                          -- only when parsing returned
    return schema

    The caller's schema object (and its `_components`) is untouched by what the nested parser adds to the new one. -/
def loadSchemaRes (f : Pt → Bool) (rec : Rec) (r : Nat) (doc : Option Doc) (st : LState) : Out :=
  if st.cache.contains r then ⟨[], true, st⟩
  else
    let b := schemaBody f rec r doc { st with comps := [] }
    if b.ok then ⟨b.evs, true, { b.st with comps := st.comps, cache := dictSet b.st.cache r }⟩
    else ⟨b.evs, false, { b.st with comps := st.comps }⟩

def lookup (docs : List (Nat × Doc)) (r : Nat) : Option Doc := (docs.find? (fun p => p.1 == r)).map (·.2)

/-- one `with … as r:` block of kind `m` on resource `r`, with `fuel` levels of nesting left.

    top:     loadURL:  url = self.normalizeURL(url);  with self.openResource(url) as r: return self.loadResource(r)
             loadFile: with self.createResource(file, url) as r: return self.loadResource(r)
    incl:    includeConfiguration:  url = self.normalizeURL(url);  with self.openResource(url) as r: self._parse_resource(section, r, defines)
    load:    as top, on a SchemaLoader
    extend:  extendSchema:  parser = SchemaParser(self._loader, src, self);  with self._loader.openResource(src) as r: xml.sax.parse(r.file, parser)
    comp:    loadComponent: parser = ComponentParser(self._loader, src, self._schema);  with self._loader.openResource(src) as r: xml.sax.parse(r.file, parser)
             importSchemaComponent:  with self.openResource(url) as resource: ZConfig.schema.parseComponent(resource, self._loader, schema) -/
def runRes (f : Pt → Bool) (docs : List (Nat × Doc)) : Nat → Rec
  | 0 => fun _ _ st => ⟨[], false, st⟩                                  -- RecursionError
  | fuel + 1 => fun m r st =>
    let rec' : Rec := runRes f docs fuel
    let doc := lookup docs r
    match m with
    | .top file => withResource f (if file then .file else .url) r doc.isSome (loadCfg f rec' r doc) st
    | .incl => withResource f .url r doc.isSome (parseCfg f rec' r doc) st
    | .load file => withResource f (if file then .file else .url) r doc.isSome (loadSchemaRes f rec' r doc) st
    | .extend => withResource f .url r doc.isSome (schemaBody f rec' r doc) st
    | .comp => withResource f .pkg r doc.isSome (compBody f rec' r doc) st

def Entry.mode : Entry → Mode
  | .cfgURL _ => .top false | .cfgFile _ => .top true | .schemaURL _ => .load false | .schemaFile _ => .load true
def Entry.res : Entry → Nat
  | .cfgURL r => r | .cfgFile r => r | .schemaURL r => r | .schemaFile r => r

/-- the whole call: which operations fail, what exists and which call is made, the loader's state before -/
def run (faults : List Pt) (sc : Scenario) (st : LState) : Out :=
  runRes (fun p => faults.contains p) sc.docs sc.limit sc.entry.mode sc.entry.res st

/-! ## scenarios in which nothing can go wrong (hypotheses of the fault-free theorem) -/

/-- the block a configuration line opens -/
def cref : CStep → Option (Mode × Nat)
  | .work => none | .incl c => some (.incl, c) | .imp c => some (.comp, c)
/-- the block a schema step opens -/
def sref : SStep → Option (Mode × Nat)
  | .work => none | .ext b => some (.extend, b) | .importSrc s => some (.load false, s) | .importPkg c => some (.comp, c)
/-- every resource a document refers to, with the kind of block that reads it -/
def Doc.refs : Doc → List (Mode × Nat)
  | .cfg lines => lines.filterMap cref
  | .schema bases body => (schemaSteps bases body).filterMap sref
  | .comp body => body.filterMap sref
/-- the document is of the kind the block's parser expects -/
def kindOK : Mode → Doc → Bool
  | .top _, .cfg _ => true | .incl, .cfg _ => true
  | .load _, .schema _ _ => true | .extend, .schema _ _ => true
  | .comp, .comp _ => true
  | _, _ => false
/-- nothing can go wrong: the entry exists and is of the right kind; every reference goes to an existing document of the right
    kind and of smaller `rank` (so there are no cycles), and the nesting stays below the recursion limit -/
structure Sound (sc : Scenario) (rank : Nat → Nat) : Prop where
  entry : ∃ d, lookup sc.docs sc.entry.res = some d ∧ kindOK sc.entry.mode d = true ∧ rank sc.entry.res < sc.limit
  refs : ∀ r d, lookup sc.docs r = some d → ∀ m c, (m, c) ∈ d.refs →
    rank c < rank r ∧ ∃ d', lookup sc.docs c = some d' ∧ kindOK m d' = true

/-- a check that implies `Sound` (`sound_of_soundB`): it looks at the documents of the table only -/
def soundB (sc : Scenario) (rank : Nat → Nat) : Bool :=
  (match lookup sc.docs sc.entry.res with
   | some d => kindOK sc.entry.mode d && decide (rank sc.entry.res < sc.limit)
   | none => false) &&
  sc.docs.all fun (r, d) => d.refs.all fun (m, c) =>
    decide (rank c < rank r) && (match lookup sc.docs c with | some d' => kindOK m d' | none => false)

/-- every `%import` line of every configuration document names a component the loader's schema already has -/
def ImportsKnown (docs : List (Nat × Doc)) (comps : List Nat) : Prop :=
  ∀ r lines c, lookup docs r = some (.cfg lines) → CStep.imp c ∈ lines → c ∈ comps

/-- the events the harness records on the real objects (no parse steps), as events of the first model -/
def ioTrace : List Ev → List Res.Ev
  | [] => []
  | .sopen r :: t => .sopen r :: ioTrace t
  | .sclose r :: t => .sclose r :: ioTrace t
  | .ropen r :: t => .ropen r :: ioTrace t
  | .rclose r :: t => .rclose r :: ioTrace t
  | .parse _ _ :: t => ioTrace t

/-- well-bracketed: resources are closed in reverse order of opening and none stays open; a URL stream is closed by the very
    next event; a parse step of `r` happens only while `r` is the innermost open resource -/
def wb : List Ev → List Nat → Bool
  | [], st => st.isEmpty
  | .ropen r :: t, st => wb t (r :: st)
  | .rclose r :: t, st => (match st with | x :: st' => x == r && wb t st' | [] => false)
  | .sopen r :: .sclose r' :: t, st => r == r' && wb t st
  | .sopen _ :: _, _ => false
  | .sclose _ :: _, _ => false
  | .parse r _ :: t, st => (match st with | x :: _ => x == r && wb t st | [] => false)

end ZCV.Res2
