import ZCV.Model.Conv
import ZCV.Model.Timedelta
/-!
The six stock datatypes that consult the HOST — the file system (`existing-directory`, `existing-path`,
`existing-file`, `existing-dirpath`), the C library's locale database (`locale`, wrapped in `MemoizedConversion`) and
the arithmetic of the `datetime.timedelta` constructor (`timedelta`) — modelled branch by branch with every external
call turned into a field of the parameter `Host`.  Nothing is assumed about a `Host` here; a theorem that needs a fact
about the host (`isdir p → exists p`, "expanduser leaves a text without a leading `~` alone", "the current locale can
be set again") states it as a hypothesis (`ZCV/Lemmas/DatatypesHost.lean`).

```python
def existing_directory(v):                       def existing_dirpath(v):
    nv = os.path.expanduser(v)                       nv = os.path.expanduser(v)
    if os.path.isdir(nv):                            dirname = os.path.dirname(nv)
        return nv                                    if not dirname:
    raise ValueError(...)                                # relative pathname with no directory component
                                                         return nv
def existing_path(v):                                if os.path.isdir(dirname):
    nv = os.path.expanduser(v)                           return nv
    if os.path.exists(nv):                           raise ValueError(...)
        return nv
    raise ValueError(...)                        def check_locale(value):
                                                     import locale
def existing_file(v):                                prev = locale.setlocale(locale.LC_ALL)
    nv = os.path.expanduser(v)                       try:
    if os.path.exists(nv):        # sic: exists          try:
        return nv                                            locale.setlocale(locale.LC_ALL, value)
    raise ValueError(...)                                finally:
                                                             locale.setlocale(locale.LC_ALL, prev)
class MemoizedConversion:                            except locale.Error:
    def __init__(self, conversion):                      raise ValueError(...)
        self._memo = {}                              else:
        self._conversion = conversion                    return value
    def __call__(self, value):
        try:
            return self._memo[value]
        except KeyError:
            v = self._conversion(value)
            self._memo[value] = v
            return v
```
-/
namespace ZCV

/-- the host as the six datatypes see it.
* `isdir`, `isfile`, `exists_`: `os.path.isdir / isfile / exists` (they follow symbolic links and answer `False`
  instead of raising, also for a text with an embedded NUL);
* `expanduser`: `os.path.expanduser`; `none` stands for the one way it raises on a `str`: `ValueError` ("embedded null
  byte") out of `pwd.getpwnam` for `~name…` with a NUL inside `name` — the exception leaves the datatype unchanged;
* `localeOk v`: `locale.setlocale(LC_ALL, v)` succeeds (otherwise it raises `locale.Error`, or `ValueError` for an
  embedded NUL — both end as `ValueError`);
* `tdFits`: the numeric verdict of the `datetime.timedelta` constructor on the symbolic amounts (no NaN, no infinity,
  at most 999999999 days) — floats are not computed in Lean (`ZCV/Model/Timedelta.lean`). -/
structure Host where
  isdir : Str → Bool
  isfile : Str → Bool
  exists_ : Str → Bool
  expanduser : Str → Option Str
  localeOk : Str → Bool
  tdFits : DT.TimedeltaVal → Bool

namespace DT

/-! ### `posixpath.dirname` (pure, modelled exactly)

```python
def dirname(p):
    sep = '/'
    i = p.rfind(sep) + 1
    head = p[:i]
    if head and head != sep*len(head):
        head = head.rstrip(sep)
    return head
```
-/

/-- `p[:p.rfind('/') + 1]`: the text up to and including its last slash; empty when there is none -/
def uptoLastSlash (p : Str) : Str := (p.reverse.dropWhile (· != '/')).reverse

/-- `head.rstrip('/')` -/
def rstripSlash (s : Str) : Str := (s.reverse.dropWhile (· == '/')).reverse

def dirname (p : Str) : Str :=
  let head := uptoLastSlash p
  if !head.isEmpty && head != List.replicate head.length '/' then rstripSlash head else head

/-! ### the four `existing-*` functions -/

def existingDirectory (h : Host) (v : Str) : R Str :=
  match h.expanduser v with
  | none => .error .valueError                        -- ValueError out of expanduser passes through
  | some nv => if h.isdir nv then .ok nv else .error .valueError

def existingPath (h : Host) (v : Str) : R Str :=
  match h.expanduser v with
  | none => .error .valueError
  | some nv => if h.exists_ nv then .ok nv else .error .valueError

/-- as the code has it: `os.path.exists`, the same test as `existing_path` (not `isfile`) -/
def existingFile (h : Host) (v : Str) : R Str :=
  match h.expanduser v with
  | none => .error .valueError
  | some nv => if h.exists_ nv then .ok nv else .error .valueError

def existingDirpath (h : Host) (v : Str) : R Str :=
  match h.expanduser v with
  | none => .error .valueError
  | some nv =>
    let dir := dirname nv
    if dir.isEmpty then .ok nv                          -- `if not dirname: return nv`
    else if h.isdir dir then .ok nv
    else .error .valueError

/-! ### `check_locale` -/

/-- the verdict of `check_locale`: the value itself, or `ValueError` -/
def checkLocale (h : Host) (v : Str) : R Str :=
  if h.localeOk v then .ok v else .error .valueError

/-- `locale.setlocale(LC_ALL, v)` on the process locale `cur` (kept as the text that was set): the new state, or
    `locale.Error` with the state unchanged -/
def setlocale (h : Host) (_cur v : Str) : Except Unit Str :=
  if h.localeOk v then .ok v else .error ()

/-- `check_locale` with the process locale made explicit: `prev = setlocale(LC_ALL)`; try the value; `finally` set
    `prev` again (a failure there is a `locale.Error` too and ends in the same `except` clause).  Returns the process
    locale afterwards and the outcome. -/
def checkLocaleSt (h : Host) (cur v : Str) : Str × R Str :=
  let prev := cur
  match setlocale h cur v with
  | .ok cur1 =>
    match setlocale h cur1 prev with                    -- finally
    | .ok cur2 => (cur2, .ok v)                          -- else: return value
    | .error _ => (cur1, .error .valueError)
  | .error _ =>
    match setlocale h cur prev with                     -- finally
    | .ok cur2 => (cur2, .error .valueError)
    | .error _ => (cur, .error .valueError)

/-! ### `MemoizedConversion` -/

/-- `self._memo`: the successful conversions so far (newest first; a key occurs at most once) -/
abbrev Memo (α : Type) := List (Str × α)

/-- `MemoizedConversion.__call__`: the new `_memo` and the outcome -/
def memoized {α : Type} (conv : Str → R α) (memo : Memo α) (value : Str) : Memo α × R α :=
  match memo.lookup value with
  | some v => (memo, .ok v)                              -- return self._memo[value]
  | none =>                                              -- except KeyError:
    match conv value with
    | .ok v => ((value, v) :: memo, .ok v)               --   self._memo[value] = v; return v
    | .error e => (memo, .error e)                       --   the exception leaves before the assignment

/-- a sequence of calls on one `MemoizedConversion` object: the final `_memo` and the outcomes in order -/
def memoRun {α : Type} (conv : Str → R α) : Memo α → List Str → Memo α × List (R α)
  | memo, [] => (memo, [])
  | memo, s :: rest =>
    let r := memoized conv memo s
    let rs := memoRun conv r.1 rest
    (rs.1, r.2 :: rs.2)

end DT

namespace Cfg

/-- the value-conversion table of the stock registry, ALL 26 names: `stockVal` extended by the six host-dependent
    entries (`locale` as the conversion the memo wraps; the registry's one memo object is `stockValHS`) -/
def stockValH (h : Host) (dt : Str) (s : Str) : Except ConvErr Val :=
  match String.ofList dt with
  | "locale" => (DT.checkLocale h s).map .str
  | "existing-directory" => (DT.existingDirectory h s).map .str
  | "existing-path" => (DT.existingPath h s).map .str
  | "existing-file" => (DT.existingFile h s).map .str
  | "existing-dirpath" => (DT.existingDirpath h s).map .str
  | "timedelta" => (DT.timedeltaChecked h.tdFits s).map DT.timedeltaToVal
  | _ => stockVal dt s

/-- the same with the state of the registry's `MemoizedConversion(check_locale)` object threaded through -/
def stockValHS (h : Host) (memo : DT.Memo Val) (dt : Str) (s : Str) : DT.Memo Val × Except ConvErr Val :=
  match String.ofList dt with
  | "locale" => DT.memoized (fun v => (DT.checkLocale h v).map .str) memo s
  | _ => (memo, stockValH h dt s)

end Cfg
end ZCV
