import ZCV.Model.Datatypes
/-!
Schema objects as `info.py` holds them, and the result/err vocabulary of a load.
-/
namespace ZCV.Cfg
open ZCV

/-- which exception class of the ZConfig family -/
inductive Kind
  | syntax          -- ConfigurationSyntaxError
  | conversion      -- DataConversionError
  | replacement     -- SubstitutionReplacementError
  | substSyntax     -- SubstitutionSyntaxError
  | plain           -- ConfigurationError itself
  | schema          -- SchemaError
  | schemaResource  -- SchemaResourceError
deriving Repr, DecidableEq

structure Err where
  kind : Kind
  line : Option Int := none     -- `lineno` attribute (none = absent or None)
  url : Option Str := none
  tag : String := ""            -- raise site (model-internal; compared only between model and spec)
  value : Option Str := none    -- DataConversionError.value when it is text
deriving Repr

inductive Fail
  | cfg (e : Err)               -- an exception of the configuration-error family
  | internal (exc : String)     -- a Python exception that is *not* (TypeError, KeyError, RecursionError …)
  | dtExc (name : Str)          -- raised by a datatype function itself; passes through unchanged
deriving Repr

abbrev M := Except Fail

structure Pos where
  line : Int
  url : Option Str
deriving Repr, DecidableEq

/-- `ValueInfo` -/
structure VI where
  value : Str
  pos : Pos
deriving Repr, DecidableEq

inductive Default
  | none
  | one (v : VI)
  | many (vs : List VI)
  | keyed (m : List (Str × VI))            -- `<key name='+'>` defaults, already normalised
  | keyedMany (m : List (Str × List VI))   -- `<multikey name='+'>`
deriving Repr

structure KeyInfo where
  name : Str            -- normalised fixed key, or "+"
  attr : Str
  multi : Bool
  minOccurs : Nat
  dt : Str              -- datatype name
  dflt : Default
  handler : Option Str
deriving Repr

structure SectInfo where
  name : Str            -- "*", "+", or a fixed (normalised) name
  attr : Str
  multi : Bool
  minOccurs : Nat
  ty : Str              -- name of a concrete or abstract type
  handler : Option Str
deriving Repr

inductive Info
  | key (k : KeyInfo)
  | sect (s : SectInfo)
deriving Repr

def Info.attr : Info → Str | .key k => k.attr | .sect s => s.attr
def Info.name : Info → Str | .key k => k.name | .sect s => s.name
def Info.multi : Info → Bool | .key k => k.multi | .sect s => s.multi
def Info.minOccurs : Info → Nat | .key k => k.minOccurs | .sect s => s.minOccurs
def Info.handler : Info → Option Str | .key k => k.handler | .sect s => s.handler
def Info.isSection : Info → Bool | .key _ => false | .sect _ => true

/-- a concrete section type (or the schema itself: `name = none`) -/
structure SType where
  name : Option Str
  keytype : Str
  datatype : Str
  children : List (Option Str × Info)     -- `_children`: (key, info)
deriving Repr

inductive TypeEntry
  | concrete (t : SType)
  | abstract_ (name : Str) (subs : List Str)   -- `AbstractType._subtypes` keys, insertion order
deriving Repr

/-- what a component package contributes when imported -/
inductive Pkg
  | component (url : Str) (types : List (Str × TypeEntry)) (implements : List (Str × Str))
      -- implements: (concrete type name, abstract type name) pairs in document order
  | notImportable | notPackage | noComponent | illegalName
deriving Repr

structure Schema where
  types : List (Str × TypeEntry)
  top : SType
  handler : Option Str
  components : List Str
deriving Repr

def Schema.gettype (s : Schema) (name : Str) : Option TypeEntry :=
  (s.types.find? (·.1 == lower name)).map (·.2)

end ZCV.Cfg
