import ZCV.Model.Datatypes
/-!
Model of `ZConfig.datatypes.timedelta`, branch by branch:

```python
def timedelta(s):
    weeks = days = hours = minutes = seconds = 0
    for part in s.split():
        val = float(part[:-1])
        suffix = part[-1]
        if suffix == 'w':   weeks = val
        elif suffix == 'd': days = val
        elif suffix == 'h': hours = val
        elif suffix == 'm': minutes = val
        elif suffix == 's': seconds = val
        else: raise TypeError(f'bad part {part} in {s}')
    try:
        return datetime.timedelta(weeks=weeks, days=days, hours=hours, minutes=minutes, seconds=seconds)
    except OverflowError as e:
        raise ValueError(str(e))
```

Floats are not computed in Lean.  The value is therefore kept SYMBOLIC: `TimedeltaVal` records, for each of the five
keyword arguments of `datetime.timedelta`, either `none` (the initial integer `0`) or `some lit` (the float `float(lit)`,
`lit = part[:-1]` of the LAST part carrying that unit letter — assignments overwrite, amounts are not added).
`DT.timedelta s = .ok v` thus means: *the loop over the parts completed and `datetime.timedelta` is called with the
arguments `v`*.  That constructor either returns, or raises `OverflowError` (an infinite amount, or more than 999999999
days in total — turned into `ValueError` by the `except` clause, commit 9c549d6) or `ValueError` (a NaN amount); this last,
numeric step is represented by the parameter `fits` of `DT.timedeltaChecked`.
-/
namespace ZCV.DT
open ZCV

/-- the keyword arguments handed to `datetime.timedelta`: `none` = the initial `0`, `some lit` = `float(lit)` -/
structure TimedeltaVal where
  weeks : Option Str := none
  days : Option Str := none
  hours : Option Str := none
  minutes : Option Str := none
  seconds : Option Str := none
deriving Repr, DecidableEq, Inhabited

/-- the `if suffix == … elif … else: raise TypeError` chain -/
def tdAssign (acc : TimedeltaVal) (suffix : Char) (val : Str) : R TimedeltaVal :=
  if suffix == 'w' then .ok { acc with weeks := some val }
  else if suffix == 'd' then .ok { acc with days := some val }
  else if suffix == 'h' then .ok { acc with hours := some val }
  else if suffix == 'm' then .ok { acc with minutes := some val }
  else if suffix == 's' then .ok { acc with seconds := some val }
  else .error .typeError

/-- the `for part in s.split():` loop -/
def timedeltaLoop : List Str → TimedeltaVal → R TimedeltaVal
  | [], acc => .ok acc
  | part :: rest, acc =>
    let lit := part.dropLast                                  -- part[:-1]
    if !floatOk lit then .error .valueError                   -- val = float(part[:-1])
    else match part.getLast? with                             -- suffix = part[-1]
      | none => .error (.other "IndexError".toList)           -- (unreachable: float('') has already failed)
      | some suffix =>
        match tdAssign acc suffix lit with
        | .ok acc' => timedeltaLoop rest acc'
        | .error e => .error e

/-- `ZConfig.datatypes.timedelta` up to (not including) the arithmetic of the `datetime.timedelta` constructor -/
def timedelta (s : Str) : R TimedeltaVal := timedeltaLoop (splitWS s) {}

/-- the whole function, the numeric verdict of the constructor ("no NaN, no infinity, at most 999999999 days") being
    the parameter `fits`: a failure of the constructor surfaces as `ValueError` (directly for NaN, through the
    `except OverflowError` clause otherwise) -/
def timedeltaChecked (fits : TimedeltaVal → Bool) (s : Str) : R TimedeltaVal :=
  match timedelta s with
  | .ok v => if fits v then .ok v else .error .valueError
  | .error e => .error e

/-- suggested encoding as a `Val`: the 5-tuple (weeks, days, hours, minutes, seconds), each component the integer `0`
    or a symbolic float -/
def timedeltaToVal (v : TimedeltaVal) : Val :=
  let f : Option Str → Val := fun o => match o with | none => .int 0 | some lit => .float lit
  .tup [f v.weeks, f v.days, f v.hours, f v.minutes, f v.seconds]

end ZCV.DT
