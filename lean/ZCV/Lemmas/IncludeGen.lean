import ZCV.Lemmas.Position
/-!
C06 generalised: `$` references in the argument of `%include`, nested `%include`s in the fragment, resolution against
the includer's URL, flow of definitions.

* `incgenTarget` / `incgenEnter`, `incgen_incStep_eq` — an `%include` line = find the resource (expand the argument,
  resolve it against the URL of the resource that contains the line, open it), then read it;
* `incgenLimit`, `incgenNoLimit` — the two refusals that depend on how a resource is reached (recursion budget, cycle check);
* `incgen_mono` — more fuel / fewer active resources do not change a parse that did not hit one of these two;
* `incgen_step_frame`, `incgen_run_frame` — the frame lemmas of `Include.lean` with `%include` lines allowed;
* `incgen_inline_subst`, `incgen_inline_nested` — textual inclusion (side condition on the text with the `%include` line);
* `incgen_run_mono`, `incgen_step_frame_rev`, `incgen_run_frame_rev`, `incgen_inline_nested_rev` — the converse (side condition
  on the inlined text);
* `incgen_include_found`, `incgen_parse_at_include(_missing)`, `incgen_flow_step`, `incgen_flow` — which URL is opened, and
  where the definitions go.
-/
namespace ZCV.Cfg
open ZCV

/-! ### an `%include` line in two stages -/

/-- first stage: expand the argument with the definitions in force, resolve it against `url` — the URL of the resource that
    CONTAINS the line —, open the resource.  No fuel, no list of active resources. -/
def incgenTarget {σ} (env : Env) (c : PCtx σ) (url : Option Str) (line : Nat) (arg : Str) (defs : List (Str × Str)) :
    M (Str × List Str) :=
  replace env defs url line (strip arg) >>= fun a =>
    if !c.canInclude then .error (.internal "NotImplementedError") else
    match env.resolve url a with
    | .fragment => .error (.cfg { kind := .plain, url := none, tag := "fragment" })
    | .unknown => .error (.internal "unresolved-by-harness")
    | .url u =>
      match env.res u with
      | none => .error (.cfg { kind := .plain, url := some u, tag := "error opening" })
      | some lines => .ok (u, lines)

/-- second stage: the cycle check, the recursion budget, then the resource `p.1` (lines `p.2`) is read by a parser of its
    own — URL `some p.1`, line 0, no open section, the includer's context and definitions — and what comes back is the
    context and the definitions -/
def incgenEnter {σ} (fuel : Nat) (env : Env) (c : PCtx σ) (active : List Str) (p : Str × List Str) (st : PS σ) : M (PS σ) :=
  if p.1 != [] && active.contains p.1 then
    .error (.cfg { kind := .plain, url := some p.1, tag := "resource includes itself" })
  else match fuel with
    | 0 => .error (.internal "RecursionError")
    | fuel' + 1 =>
      parseLines fuel' env c (p.1 :: active) (some p.1) p.2 0 (subState st) >>= fun sub =>
        .ok { st with ctx := sub.ctx, defs := sub.defs }

theorem incgen_incStep_eq {σ} (fuel : Nat) (env : Env) (c : PCtx σ) (active : List Str) (url : Option Str) (line : Nat)
    (arg : Str) (st : PS σ) :
    incStep fuel env c active url line arg st =
      incgenTarget env c url line arg st.defs >>= fun p => incgenEnter fuel env c active p st := by
  unfold incStep incgenTarget
  cases replace env st.defs url line (strip arg) with
  | error e => rfl
  | ok a =>
    simp only [ok_bind]
    generalize c.canInclude = ci
    cases ci
    · rfl
    · simp only [Bool.not_true, Bool.false_eq_true, ↓reduceIte]
      cases env.resolve url a with
      | fragment => rfl
      | unknown => rfl
      | url u =>
        simp only
        cases env.res u with
        | none => rfl
        | some lines => rfl

theorem incgen_stepLine_include {σ} (fuel : Nat) (env : Env) (c : PCtx σ) (active : List Str) (url : Option Str) (line : Nat)
    (l arg : Str) (st : PS σ) (h : lineShape l = .include_ arg) :
    stepLine fuel env c active url line l st =
      incgenTarget env c url line arg st.defs >>= fun p => incgenEnter fuel env c active p st := by
  rw [stepLine_include _ _ _ _ _ _ _ _ _ h, incgen_incStep_eq]

/-- the first stage, when everything goes well -/
theorem incgen_target_ok {σ} (env : Env) (c : PCtx σ) (url : Option Str) (line : Nat) (arg a u : Str) (F : List Str)
    (defs : List (Str × Str)) (hci : c.canInclude = true)
    (hrep : replace env defs url line (strip arg) = .ok a)
    (hres : env.resolve url a = .url u) (hfile : env.res u = some F) :
    incgenTarget env c url line arg defs = .ok (u, F) := by
  unfold incgenTarget
  rw [hrep, ok_bind]
  simp only [hci, Bool.not_true, Bool.false_eq_true, ↓reduceIte, hres, hfile]

/-- the first stage succeeds only like that -/
theorem incgen_target_ok_inv {σ} (env : Env) (c : PCtx σ) (url : Option Str) (line : Nat) (arg : Str)
    (defs : List (Str × Str)) (p : Str × List Str) (h : incgenTarget env c url line arg defs = .ok p) :
    ∃ a, replace env defs url line (strip arg) = .ok a ∧ c.canInclude = true ∧ env.resolve url a = .url p.1 ∧
      env.res p.1 = some p.2 := by
  unfold incgenTarget at h
  obtain ⟨a, ha, h⟩ := bind_ok_inv h
  refine ⟨a, ha, ?_⟩
  split at h
  · cases h
  · rename_i hci
    split at h
    · cases h
    · cases h
    · rename_i u hres
      split at h
      · cases h
      · rename_i lines hl
        cases h
        exact ⟨by simpa using hci, hres, hl⟩

theorem incgen_replace_ok_indep (env : Env) (defs) (url url' : Option Str) (line line' : Nat) (t a : Str)
    (h : replace env defs url line t = .ok a) : replace env defs url' line' t = .ok a := by
  have := replace_indep env defs url url' line line' t
  rw [h] at this
  exact (toOption_eq_some.1 this.symm)

/-- the first stage does not depend on the line number, and on the URL only through `resolve` (successes compared) -/
theorem incgen_target_indep {σ} (env : Env) (c : PCtx σ) (url url' : Option Str) (line line' : Nat) (arg : Str)
    (defs : List (Str × Str)) (hrel : ∀ a, env.resolve url a = env.resolve url' a) :
    (incgenTarget env c url line arg defs).toOption = (incgenTarget env c url' line' arg defs).toOption := by
  unfold incgenTarget
  rw [toOption_bind, toOption_bind, replace_indep env defs url url' line line']
  apply option_bind_congr
  intro a _
  rw [hrel a]

/-! ### the refusals that depend on how a resource is reached -/

/-- the recursion budget is exhausted (`RecursionError`), or the resource is already being read ("resource includes itself") -/
def incgenLimit : Fail → Prop
  | .internal exc => exc = "RecursionError"
  | .cfg e => e.tag = "resource includes itself"
  | .dtExc _ => False

/-- the result is not one of these two refusals -/
def incgenNoLimit {α} (r : M α) : Prop := ∀ f, r = .error f → ¬ incgenLimit f

theorem incgenNoLimit_ok {α} (a : α) : incgenNoLimit (.ok a : M α) := by
  intro f h; cases h

theorem incgenNoLimit_bind_left {α β} {x : M α} {g : α → M β} (h : incgenNoLimit (x >>= g)) : incgenNoLimit x := by
  intro f hf
  subst hf
  exact h f rfl

theorem incgenNoLimit_bind_right {α β} {x : M α} {g : α → M β} {a : α} (hx : x = .ok a) (h : incgenNoLimit (x >>= g)) :
    incgenNoLimit (g a) := by
  subst hx
  exact h

theorem incgen_mem_cons_of_subset {active active' : List Str} (hsub : ∀ w, w ∈ active' → w ∈ active) (u : Str) :
    ∀ w, w ∈ u :: active' → w ∈ u :: active := by
  intro w hw
  rcases List.mem_cons.1 hw with h | h
  · exact List.mem_cons.2 (.inl h)
  · exact List.mem_cons.2 (.inr (hsub w h))

/-- second stage: more fuel, fewer active resources — same result, unless the constrained side hit a limit -/
theorem incgen_enter_mono {σ} (env : Env) (c : PCtx σ) (f f' : Nat) (active active' : List Str)
    (hle : f ≤ f') (hsub : ∀ w, w ∈ active' → w ∈ active)
    (ih : ∀ g g', f = g + 1 → f' = g' + 1 → ∀ (u : Str) (lines : List Str) (st : PS σ),
      incgenNoLimit (parseLines g env c (u :: active) (some u) lines 0 st) →
      parseLines g' env c (u :: active') (some u) lines 0 st = parseLines g env c (u :: active) (some u) lines 0 st)
    (p : Str × List Str) (st : PS σ) (hnl : incgenNoLimit (incgenEnter f env c active p st)) :
    incgenEnter f' env c active' p st = incgenEnter f env c active p st := by
  unfold incgenEnter at hnl ⊢
  by_cases hact : (p.1 != [] && active.contains p.1) = true
  · rw [if_pos hact] at hnl
    exact absurd rfl (hnl _ rfl)
  · have hact' : ¬ (p.1 != [] && active'.contains p.1) = true := by
      intro h
      apply hact
      simp only [Bool.and_eq_true, bne_iff_ne, ne_eq, List.contains_iff_mem] at h ⊢
      exact ⟨h.1, hsub _ h.2⟩
    rw [if_neg hact] at hnl
    rw [if_neg hact, if_neg hact']
    cases f with
    | zero => exact absurd rfl (hnl _ rfl)
    | succ g =>
      cases f' with
      | zero => omega
      | succ g' =>
        dsimp only at hnl ⊢
        rw [ih g g' rfl rfl p.1 p.2 (subState st) (incgenNoLimit_bind_left hnl)]

/-- one line: more fuel, fewer active resources — same result (errors included), unless the constrained side hit a limit -/
theorem incgen_step_mono {σ} (env : Env) (c : PCtx σ) (f f' : Nat) (active active' : List Str)
    (hle : f ≤ f') (hsub : ∀ w, w ∈ active' → w ∈ active)
    (ih : ∀ g g', f = g + 1 → f' = g' + 1 → ∀ (u : Str) (lines : List Str) (st : PS σ),
      incgenNoLimit (parseLines g env c (u :: active) (some u) lines 0 st) →
      parseLines g' env c (u :: active') (some u) lines 0 st = parseLines g env c (u :: active) (some u) lines 0 st)
    (url : Option Str) (line : Nat) (l : Str) (st : PS σ)
    (hnl : incgenNoLimit (stepLine f env c active url line l st)) :
    stepLine f' env c active' url line l st = stepLine f env c active url line l st := by
  cases hs : lineShape l with
  | include_ arg =>
    rw [incgen_stepLine_include _ _ _ _ _ _ _ _ _ hs] at hnl ⊢
    rw [incgen_stepLine_include _ _ _ _ _ _ _ _ _ hs]
    cases ht : incgenTarget env c url line arg st.defs with
    | error e => rfl
    | ok p =>
      rw [ok_bind, ok_bind]
      exact incgen_enter_mono env c f f' active active' hle hsub ih p st
        (incgenNoLimit_bind_right (g := fun p => incgenEnter f env c active p st) ht hnl)
  | skip => rw [stepLine, stepLine]; simp only [hs]
  | bad t => rw [stepLine, stepLine]; simp only [hs]
  | internal t => rw [stepLine, stepLine]; simp only [hs]
  | close ty => rw [stepLine, stepLine]; simp only [hs]
  | open_ ty nm e => rw [stepLine, stepLine]; simp only [hs]
  | kv k raw => rw [stepLine, stepLine]; simp only [hs]
  | define a => rw [stepLine_define _ _ _ _ _ _ _ _ _ hs, stepLine_define _ _ _ _ _ _ _ _ _ hs]
  | import_ a => rw [stepLine_import _ _ _ _ _ _ _ _ _ hs, stepLine_import _ _ _ _ _ _ _ _ _ hs]

/-- **fuel and the active list are irrelevant once sufficient.**  If a parse with fuel `f` and active resources `active`
    ends — successfully or not — without exhausting the recursion budget and without meeting a resource that is already
    being read, then the parse with any larger fuel and any smaller set of active resources ends in exactly the same way
    (same state, or same error). -/
theorem incgen_mono {σ} (env : Env) (c : PCtx σ) :
    ∀ (f f' : Nat) (active active' : List Str) (url : Option Str) (lines : List Str) (n : Nat) (st : PS σ),
      f ≤ f' → (∀ w, w ∈ active' → w ∈ active) →
      incgenNoLimit (parseLines f env c active url lines n st) →
      parseLines f' env c active' url lines n st = parseLines f env c active url lines n st := by
  intro f
  induction f using Nat.strongRecOn with
  | _ f ihf =>
    intro f' active active' url lines
    induction lines with
    | nil =>
      intro n st _ _ _
      rw [parseLines, parseLines]
    | cons l rest ihl =>
      intro n st hle hsub hnl
      rw [parseLines] at hnl ⊢
      rw [parseLines]
      have hstep := incgen_step_mono env c f f' active active' hle hsub
        (fun g g' hg hg' u lines st h =>
          ihf g (by omega) g' (u :: active) (u :: active') (some u) lines 0 st (by omega)
            (incgen_mem_cons_of_subset hsub u) h)
        url (n + 1) (strip l) st (incgenNoLimit_bind_left hnl)
      rw [hstep]
      cases hs : stepLine f env c active url (n + 1) (strip l) st with
      | error e => rfl
      | ok s =>
        rw [ok_bind, ok_bind]
        exact ihl (n + 1) s hle hsub (incgenNoLimit_bind_right hs hnl)

/-! ### frame lemmas with `%include` lines allowed (recording context) -/

/-- an `%include` line leaves the open sections as they are, like every line that is neither an opening nor a closing one -/
theorem incgen_step_len (fuel : Nat) (env : Env) (active : List Str) (url : Option Str) (line : Nat)
    (l : Str) (st st' : PS (List Ev0))
    (h : stepLine fuel env rec0 active url line (strip l) st = .ok st') :
    (st'.stack.length : Int) = st.stack.length + lineDelta l := by
  by_cases hi : ∃ a, lineShape (strip l) = .include_ a
  · obtain ⟨a, hs⟩ := hi
    obtain ⟨_, _, _, r, _, _, rfl⟩ := stepLine_include_ok _ _ _ _ _ _ _ _ _ _ hs h
    unfold lineDelta
    rw [hs]
    simp
  · exact step_len fuel env active url line l st st' (fun a ha => hi ⟨a, ha⟩) h

/-- frame lemma for one line, `%include` lines allowed.  The constrained side (`f`, `active`, `url`) is assumed not to hit the
    recursion budget or the cycle check; the other side has at least as much fuel, at most the same active resources, any
    line number, any extra open sections `S` underneath, and a URL against which `%include` arguments resolve alike. -/
theorem incgen_step_frame (env : Env) (f f' : Nat) (active active' : List Str)
    (hle : f ≤ f') (hsub : ∀ w, w ∈ active' → w ∈ active) (url url' : Option Str) (line line' : Nat)
    (l : Str) (S : List (Str × Option Str)) (st : PS (List Ev0))
    (hrel : ∀ arg, lineShape l = .include_ arg → ∀ a, env.resolve url a = env.resolve url' a)
    (hcl : ∀ ty, lineShape l = .close ty → st.stack ≠ [])
    (hnl : incgenNoLimit (stepLine f env rec0 active url line l st)) :
    (stepLine f' env rec0 active' url' line' l (addStack S st)).toOption =
      (stepLine f env rec0 active url line l st).toOption.map (addStack S) := by
  by_cases hi : ∃ a, lineShape l = .include_ a
  · obtain ⟨arg, hs⟩ := hi
    rw [incgen_stepLine_include _ _ _ _ _ _ _ _ _ hs] at hnl ⊢
    rw [incgen_stepLine_include _ _ _ _ _ _ _ _ _ hs, toOption_bind, toOption_bind]
    have ht := incgen_target_indep env rec0 url url' line line' arg st.defs (hrel arg hs)
    rw [show (addStack S st).defs = st.defs from rfl, ← ht]
    cases hp : incgenTarget env rec0 url line arg st.defs with
    | error e => rfl
    | ok p =>
      have hnl' : incgenNoLimit (incgenEnter f env rec0 active p st) :=
        incgenNoLimit_bind_right (g := fun p => incgenEnter f env rec0 active p st) hp hnl
      simp only [toOption_ok, Option.bind_some]
      -- the other side with the same URL/line data does exactly the same …
      have hm := incgen_enter_mono env rec0 f f' active active' hle hsub
        (fun g g' _ _ u lines s h => incgen_mono env rec0 g g' (u :: active) (u :: active') (some u) lines 0 s (by omega)
          (incgen_mem_cons_of_subset hsub u) h) p st hnl'
      -- … and the extra open sections are carried along
      have hadd : incgenEnter f' env rec0 active' p (addStack S st) =
          (incgenEnter f' env rec0 active' p st).map (addStack S) := by
        unfold incgenEnter
        split
        · rfl
        · cases f' with
          | zero => rfl
          | succ g' =>
            dsimp only
            rw [show subState (addStack S st) = subState st from rfl]
            cases parseLines g' env rec0 (p.1 :: active') (some p.1) p.2 0 (subState st) <;> rfl
      rw [hadd, hm, toOption_map]
  · exact step_frame f' f env active' active url' url line' line l S st (fun a ha => hi ⟨a, ha⟩) hcl

/-- frame lemma for a run of lines that never closes more than it opened, `%include` lines allowed -/
theorem incgen_run_frame (env : Env) (f f' : Nat) (active active' : List Str)
    (hle : f ≤ f') (hsub : ∀ w, w ∈ active' → w ∈ active) (url url' : Option Str)
    (S : List (Str × Option Str)) :
    ∀ (F : List Str) (n n' : Nat) (st : PS (List Ev0)) (d : Int),
      (∀ l ∈ F, ∀ arg, lineShape (strip l) = .include_ arg → ∀ a, env.resolve url a = env.resolve url' a) →
      neverBelow F d = true → (st.stack.length : Int) = d →
      incgenNoLimit (runLines f env rec0 active url F n st) →
      (runLines f' env rec0 active' url' F n' (addStack S st)).toOption =
        (runLines f env rec0 active url F n st).toOption.map (addStack S) ∧
      ∀ st', runLines f env rec0 active url F n st = .ok st' →
        (st'.stack.length : Int) = d + (F.map lineDelta).sum := by
  intro F
  induction F with
  | nil =>
    intro n n' st d _ _ hd _
    refine ⟨rfl, ?_⟩
    intro st' h
    cases h
    simp [hd]
  | cons l rest ih =>
    intro n n' st d hrel hnb hd hnl
    have hrel_l := hrel l (by simp)
    have hrel_r : ∀ x ∈ rest, ∀ arg, lineShape (strip x) = .include_ arg → ∀ a, env.resolve url a = env.resolve url' a :=
      fun x hx => hrel x (by simp [hx])
    simp only [neverBelow, Bool.and_eq_true, decide_eq_true_eq] at hnb
    obtain ⟨hd0, hnb'⟩ := hnb
    have hcl : ∀ ty, lineShape (strip l) = .close ty → st.stack ≠ [] := by
      intro ty hty hnil
      have : lineDelta l = -1 := by unfold lineDelta; rw [hty]
      rw [this] at hd0
      rw [hnil] at hd
      simp at hd
      omega
    simp only [runLines] at hnl
    have hstep := incgen_step_frame env f f' active active' hle hsub url url' (n + 1) (n' + 1) (strip l) S st hrel_l hcl
      (incgenNoLimit_bind_left hnl)
    have hlen : ∀ s, stepLine f env rec0 active url (n + 1) (strip l) st = .ok s →
        (s.stack.length : Int) = d + lineDelta l := by
      intro s hs
      rw [incgen_step_len _ _ _ _ _ _ _ _ hs, hd]
    constructor
    · simp only [runLines]
      rw [toOption_bind, toOption_bind, hstep, Option.map_bind, Option.bind_map]
      apply option_bind_congr
      intro s hs
      rw [toOption_eq_some] at hs
      exact (ih (n + 1) (n' + 1) s _ hrel_r hnb' (hlen s hs)
        (incgenNoLimit_bind_right (g := fun s => runLines f env rec0 active url rest (n + 1) s) hs hnl)).1
    · intro st' h
      simp only [runLines] at h
      obtain ⟨s, hs, h⟩ := bind_ok_inv h
      have := (ih (n + 1) (n' + 1) s _ hrel_r hnb' (hlen s hs)
        (incgenNoLimit_bind_right (g := fun s => runLines f env rec0 active url rest (n + 1) s) hs hnl)).2 st' h
      rw [this]
      simp only [List.map_cons, List.sum_cons]
      omega

/-! ### textual inclusion -/

theorem incgen_enter_ok {σ} (fuel : Nat) (env : Env) (c : PCtx σ) (active : List Str) (u : Str) (F : List Str) (st : PS σ)
    (hact : u = [] ∨ u ∉ active) :
    incgenEnter (fuel + 1) env c active (u, F) st =
      parseLines fuel env c (u :: active) (some u) F 0 (subState st) >>= fun sub =>
        .ok { st with ctx := sub.ctx, defs := sub.defs } := by
  unfold incgenEnter
  have hg : ((u, F).1 != [] && active.contains (u, F).1) = false := by
    rcases hact with h | h
    · simp [h]
    · simp [h]
  rw [if_neg (by rw [hg]; simp)]

/-- an `%include` line whose argument expands to `a`, which resolves (against the URL of the resource containing the line)
    to `u`, which can be opened and is not being read: the line does what a parser of its own does on the lines of `u` -/
theorem incgen_include_found {σ} (fuel : Nat) (env : Env) (c : PCtx σ) (active : List Str) (url : Option Str) (line : Nat)
    (l arg a u : Str) (F : List Str) (st : PS σ)
    (hshape : lineShape l = .include_ arg) (hci : c.canInclude = true)
    (hrep : replace env st.defs url line (strip arg) = .ok a)
    (hres : env.resolve url a = .url u) (hfile : env.res u = some F) (hact : u = [] ∨ u ∉ active) :
    stepLine (fuel + 1) env c active url line l st =
      parseLines fuel env c (u :: active) (some u) F 0 (subState st) >>= fun sub =>
        .ok { st with ctx := sub.ctx, defs := sub.defs } := by
  rw [incgen_stepLine_include _ _ _ _ _ _ _ _ _ hshape, incgen_target_ok env c url line arg a u F st.defs hci hrep hres hfile,
    ok_bind, incgen_enter_ok _ _ _ _ _ _ _ hact]

/-- the `%include` line does what the lines of the (balanced) resource do in its place, given the frame facts for them -/
theorem incgen_include_step_of_frame (fuel : Nat) (env : Env) (active : List Str) (url : Option Str)
    (F : List Str) (inc arg a u : Str) (m k : Nat) (st : PS (List Ev0))
    (hshape : lineShape (strip inc) = .include_ arg)
    (hrep : replace env st.defs url k (strip arg) = .ok a)
    (hres : env.resolve url a = .url u)
    (hfile : env.res u = some F)
    (hact : u ∉ active)
    (hb2 : (F.map lineDelta).sum = 0)
    (hf : (runLines (fuel + 1) env rec0 active url F m (addStack st.stack (subState st))).toOption =
        (runLines fuel env rec0 (u :: active) (some u) F 0 (subState st)).toOption.map (addStack st.stack) ∧
      ∀ st', runLines fuel env rec0 (u :: active) (some u) F 0 (subState st) = .ok st' →
        (st'.stack.length : Int) = 0 + (F.map lineDelta).sum) :
    (stepLine (fuel + 1) env rec0 active url k (strip inc) st).toOption =
      (runLines (fuel + 1) env rec0 active url F m st).toOption := by
  rw [incgen_include_found fuel env rec0 active url k (strip inc) arg a u F st hshape rfl hrep hres hfile (.inr hact)]
  rw [parseLines_eq_run, bind_assoc, toOption_bind]
  have hst : st = addStack st.stack (subState st) := by cases st; simp [addStack, subState]
  conv => rhs; rw [hst]
  rw [hf.1]
  show Option.bind (runLines fuel env rec0 (u :: active) (some u) F 0 (subState st)).toOption _ = _
  apply option_bind_eq_map
  intro s hs
  rw [toOption_eq_some] at hs
  have hl := hf.2 s hs
  rw [hb2] at hl
  have hnil : s.stack = [] := by
    cases hss : s.stack with
    | nil => rfl
    | cons a b => rw [hss] at hl; simp at hl; omega
  have hfin : finish (some u) (0 + F.length) s = .ok s := by simp [finish, hnil]
  rw [hfin, ok_bind]
  simp [addStack, hnil]

/-- from the `%include` line to the whole text: lines before (`A`) and after (`B`) are read alike on both sides -/
theorem incgen_inline_of_step (fuel : Nat) (env : Env) (active : List Str) (url : Option Str)
    (A F B : List Str) (inc : Str) (n : Nat) (st : PS (List Ev0))
    (hstep : ∀ sA, runLines (fuel + 1) env rec0 active url A n st = .ok sA →
      (stepLine (fuel + 1) env rec0 active url (n + A.length + 1) (strip inc) sA).toOption =
        (runLines (fuel + 1) env rec0 active url F (n + A.length) sA).toOption) :
    outcome (parseLines (fuel + 1) env rec0 active url (A ++ [inc] ++ B) n st) =
    outcome (parseLines (fuel + 1) env rec0 active url (A ++ F ++ B) n st) := by
  rw [outcome_eq, outcome_eq]
  congr 1
  rw [List.append_assoc, List.append_assoc, parseLines_append, parseLines_append, toOption_bind, toOption_bind]
  apply option_bind_congr
  intro sA hsA
  rw [toOption_eq_some] at hsA
  rw [List.singleton_append, parseLines, parseLines_append _ _ _ _ _ F B, toOption_bind, toOption_bind, hstep sA hsA]
  apply option_bind_congr
  intro s _
  exact parse_line_indep _ _ _ _ _ _ _ _

/-- **C06 with references in the argument** (the fragment itself contains no further `%include`).  `hprep`: with the
    definitions in force when the `%include` line is reached, the argument expands to something that resolves to `u`. -/
theorem incgen_inline_subst (fuel : Nat) (env : Env) (active : List Str) (url : Option Str)
    (A F B : List Str) (inc arg u : Str) (n : Nat) (st : PS (List Ev0))
    (hshape : lineShape (strip inc) = .include_ arg)
    (hprep : ∀ sA, runLines (fuel + 1) env rec0 active url A n st = .ok sA →
      ∃ a, replace env sA.defs url (n + A.length + 1) (strip arg) = .ok a ∧ env.resolve url a = .url u)
    (hfile : env.res u = some F)
    (hact : u ∉ active)
    (hbal : Balanced F) (hni : NoInclude F) :
    outcome (parseLines (fuel + 1) env rec0 active url (A ++ [inc] ++ B) n st) =
    outcome (parseLines (fuel + 1) env rec0 active url (A ++ F ++ B) n st) := by
  apply incgen_inline_of_step
  intro sA hsA
  obtain ⟨a, hrep, hres⟩ := hprep sA hsA
  obtain ⟨hb1, hb2⟩ := hbal
  exact incgen_include_step_of_frame fuel env active url F inc arg a u _ _ sA hshape hrep hres hfile hact hb2
    (run_frame (fuel + 1) fuel env active (u :: active) url (some u) sA.stack F _ 0 (subState sA) 0 hni hb1
      (by simp [subState]))

/-- **C06 with nested `%include`s.**  The fragment may contain `%include` lines, to any depth.  `hrel`: if it does, their
    arguments resolve against the fragment's URL as they do against the includer's (the inlined copy is read under the
    includer's URL).  `hnl`: the text with the `%include` line is not refused for want of fuel or for an include cycle. -/
theorem incgen_inline_nested (fuel : Nat) (env : Env) (active : List Str) (url : Option Str)
    (A F B : List Str) (inc arg u : Str) (n : Nat) (st : PS (List Ev0))
    (hshape : lineShape (strip inc) = .include_ arg)
    (hprep : ∀ sA, runLines (fuel + 1) env rec0 active url A n st = .ok sA →
      ∃ a, replace env sA.defs url (n + A.length + 1) (strip arg) = .ok a ∧ env.resolve url a = .url u)
    (hfile : env.res u = some F)
    (hact : u ∉ active)
    (hbal : Balanced F)
    (hrel : ∀ l ∈ F, ∀ arg', lineShape (strip l) = .include_ arg' → ∀ a, env.resolve (some u) a = env.resolve url a)
    (hnl : incgenNoLimit (parseLines (fuel + 1) env rec0 active url (A ++ [inc] ++ B) n st)) :
    outcome (parseLines (fuel + 1) env rec0 active url (A ++ [inc] ++ B) n st) =
    outcome (parseLines (fuel + 1) env rec0 active url (A ++ F ++ B) n st) := by
  apply incgen_inline_of_step
  intro sA hsA
  obtain ⟨a, hrep, hres⟩ := hprep sA hsA
  obtain ⟨hb1, hb2⟩ := hbal
  -- the sub-parse of the fragment does not hit a limit
  have hnl1 : incgenNoLimit (runLines fuel env rec0 (u :: active) (some u) F 0 (subState sA)) := by
    rw [List.append_assoc, parseLines_append] at hnl
    have h1 := incgenNoLimit_bind_right
      (g := parseLines (fuel + 1) env rec0 active url ([inc] ++ B) (n + A.length)) hsA hnl
    rw [List.singleton_append, parseLines] at h1
    have h2 := incgenNoLimit_bind_left h1
    rw [incgen_include_found fuel env rec0 active url _ (strip inc) arg a u F sA hshape rfl hrep hres hfile (.inr hact)] at h2
    have h3 := incgenNoLimit_bind_left h2
    rw [parseLines_eq_run] at h3
    exact incgenNoLimit_bind_left h3
  exact incgen_include_step_of_frame fuel env active url F inc arg a u _ _ sA hshape hrep hres hfile hact hb2
    (incgen_run_frame env fuel (fuel + 1) (u :: active) active (by omega) (fun w hw => List.mem_cons.2 (.inr hw))
      (some u) url sA.stack F 0 _ (subState sA) 0 hrel hb1 (by simp [subState]) hnl1)

/-! ### the converse direction: from the inlined text to the text with the `%include` line -/

theorem incgenNoLimit_map {α β} {x : M α} {g : α → β} (h : incgenNoLimit (x.map g)) : incgenNoLimit x := by
  intro f hf
  subst hf
  exact h f rfl

theorem incgen_enter_addStack (fuel : Nat) (env : Env) (active : List Str) (p : Str × List Str)
    (S : List (Str × Option Str)) (st : PS (List Ev0)) :
    incgenEnter fuel env rec0 active p (addStack S st) = (incgenEnter fuel env rec0 active p st).map (addStack S) := by
  unfold incgenEnter
  split
  · rfl
  · cases fuel with
    | zero => rfl
    | succ g =>
      dsimp only
      rw [show subState (addStack S st) = subState st from rfl]
      cases parseLines g env rec0 (p.1 :: active) (some p.1) p.2 0 (subState st) <;> rfl

/-- a run of lines: more fuel, fewer active resources — same result, unless the constrained side hit a limit -/
theorem incgen_run_mono {σ} (env : Env) (c : PCtx σ) (f f' : Nat) (active active' : List Str) (url : Option Str)
    (hle : f ≤ f') (hsub : ∀ w, w ∈ active' → w ∈ active) :
    ∀ (lines : List Str) (n : Nat) (st : PS σ),
      incgenNoLimit (runLines f env c active url lines n st) →
      runLines f' env c active' url lines n st = runLines f env c active url lines n st := by
  intro lines
  induction lines with
  | nil => intro n st _; rfl
  | cons l rest ih =>
    intro n st hnl
    simp only [runLines] at hnl ⊢
    have hstep := incgen_step_mono env c f f' active active' hle hsub
      (fun g g' _ _ u lines s h => incgen_mono env c g g' (u :: active) (u :: active') (some u) lines 0 s (by omega)
        (incgen_mem_cons_of_subset hsub u) h)
      url (n + 1) (strip l) st (incgenNoLimit_bind_left hnl)
    rw [hstep]
    cases hs : stepLine f env c active url (n + 1) (strip l) st with
    | error e => rfl
    | ok s =>
      rw [ok_bind, ok_bind]
      exact ih (n + 1) s (incgenNoLimit_bind_right (g := fun s => runLines f env c active url rest (n + 1) s) hs hnl)

/-- frame lemma for one line, the no-limit hypothesis being on the side that carries the extra open sections -/
theorem incgen_step_frame_rev (env : Env) (f f' : Nat) (active active' : List Str)
    (hle : f ≤ f') (hsub : ∀ w, w ∈ active' → w ∈ active) (url url' : Option Str) (line line' : Nat)
    (l : Str) (S : List (Str × Option Str)) (st : PS (List Ev0))
    (hrel : ∀ arg, lineShape l = .include_ arg → ∀ a, env.resolve url a = env.resolve url' a)
    (hcl : ∀ ty, lineShape l = .close ty → st.stack ≠ [])
    (hnl : incgenNoLimit (stepLine f env rec0 active url line l (addStack S st))) :
    (stepLine f env rec0 active url line l (addStack S st)).toOption =
      (stepLine f' env rec0 active' url' line' l st).toOption.map (addStack S) := by
  by_cases hi : ∃ a, lineShape l = .include_ a
  · obtain ⟨arg, hs⟩ := hi
    rw [incgen_stepLine_include _ _ _ _ _ _ _ _ _ hs] at hnl ⊢
    rw [incgen_stepLine_include _ _ _ _ _ _ _ _ _ hs, toOption_bind, toOption_bind]
    have ht := incgen_target_indep env rec0 url url' line line' arg st.defs (hrel arg hs)
    rw [show (addStack S st).defs = st.defs from rfl] at hnl ⊢
    rw [← ht]
    cases hp : incgenTarget env rec0 url line arg st.defs with
    | error e => rfl
    | ok p =>
      have hnl1 : incgenNoLimit (incgenEnter f env rec0 active p (addStack S st)) :=
        incgenNoLimit_bind_right (g := fun p => incgenEnter f env rec0 active p (addStack S st)) hp hnl
      rw [incgen_enter_addStack] at hnl1
      have hnl' := incgenNoLimit_map hnl1
      simp only [toOption_ok, Option.bind_some]
      have hm := incgen_enter_mono env rec0 f f' active active' hle hsub
        (fun g g' _ _ u lines s h => incgen_mono env rec0 g g' (u :: active) (u :: active') (some u) lines 0 s (by omega)
          (incgen_mem_cons_of_subset hsub u) h) p st hnl'
      rw [incgen_enter_addStack, hm, toOption_map]
  · exact step_frame f f' env active active' url url' line line' l S st (fun a ha => hi ⟨a, ha⟩) hcl

theorem incgen_option_map_eq_some {α β} {x : Option α} {g : α → β} {b : β} (h : x.map g = some b) :
    ∃ a, x = some a ∧ g a = b := by
  cases x with
  | none => cases h
  | some a => exact ⟨a, rfl, by simpa using h⟩

/-- frame lemma for a run of lines, the no-limit hypothesis being on the side that carries the extra open sections -/
theorem incgen_run_frame_rev (env : Env) (f f' : Nat) (active active' : List Str)
    (hle : f ≤ f') (hsub : ∀ w, w ∈ active' → w ∈ active) (url url' : Option Str)
    (S : List (Str × Option Str)) :
    ∀ (F : List Str) (n n' : Nat) (st : PS (List Ev0)) (d : Int),
      (∀ l ∈ F, ∀ arg, lineShape (strip l) = .include_ arg → ∀ a, env.resolve url a = env.resolve url' a) →
      neverBelow F d = true → (st.stack.length : Int) = d →
      incgenNoLimit (runLines f env rec0 active url F n (addStack S st)) →
      (runLines f env rec0 active url F n (addStack S st)).toOption =
        (runLines f' env rec0 active' url' F n' st).toOption.map (addStack S) ∧
      ∀ st', runLines f' env rec0 active' url' F n' st = .ok st' →
        (st'.stack.length : Int) = d + (F.map lineDelta).sum := by
  intro F
  induction F with
  | nil =>
    intro n n' st d _ _ hd _
    refine ⟨rfl, ?_⟩
    intro st' h
    cases h
    simp [hd]
  | cons l rest ih =>
    intro n n' st d hrel hnb hd hnl
    have hrel_l := hrel l (by simp)
    have hrel_r : ∀ x ∈ rest, ∀ arg, lineShape (strip x) = .include_ arg → ∀ a, env.resolve url a = env.resolve url' a :=
      fun x hx => hrel x (by simp [hx])
    simp only [neverBelow, Bool.and_eq_true, decide_eq_true_eq] at hnb
    obtain ⟨hd0, hnb'⟩ := hnb
    have hcl : ∀ ty, lineShape (strip l) = .close ty → st.stack ≠ [] := by
      intro ty hty hnil
      have : lineDelta l = -1 := by unfold lineDelta; rw [hty]
      rw [this] at hd0
      rw [hnil] at hd
      simp at hd
      omega
    simp only [runLines] at hnl
    have hstep := incgen_step_frame_rev env f f' active active' hle hsub url url' (n + 1) (n' + 1) (strip l) S st hrel_l hcl
      (incgenNoLimit_bind_left hnl)
    have hlen : ∀ s, stepLine f' env rec0 active' url' (n' + 1) (strip l) st = .ok s →
        (s.stack.length : Int) = d + lineDelta l := by
      intro s hs
      rw [incgen_step_len _ _ _ _ _ _ _ _ hs, hd]
    constructor
    · simp only [runLines]
      rw [toOption_bind, toOption_bind, hstep, Option.map_bind, Option.bind_map]
      apply option_bind_congr
      intro s hs
      rw [toOption_eq_some] at hs
      have hs' : stepLine f env rec0 active url (n + 1) (strip l) (addStack S st) = .ok (addStack S s) := by
        rw [← toOption_eq_some, hstep, toOption_eq_some.2 hs]
        rfl
      exact (ih (n + 1) (n' + 1) s _ hrel_r hnb' (hlen s hs)
        (incgenNoLimit_bind_right (g := fun s => runLines f env rec0 active url rest (n + 1) s) hs' hnl)).1
    · intro st' h
      simp only [runLines] at h
      obtain ⟨s, hs, h⟩ := bind_ok_inv h
      have hs' : stepLine f env rec0 active url (n + 1) (strip l) (addStack S st) = .ok (addStack S s) := by
        rw [← toOption_eq_some, hstep, toOption_eq_some.2 hs]
        rfl
      have := (ih (n + 1) (n' + 1) s _ hrel_r hnb' (hlen s hs)
        (incgenNoLimit_bind_right (g := fun s => runLines f env rec0 active url rest (n + 1) s) hs' hnl)).2 st' h
      rw [this]
      simp only [List.map_cons, List.sum_cons]
      omega

/-- **C06 with nested `%include`s, from the inlined text.**  `hnl`: the INLINED text, read as if `u` were already being read
    (so that it may not include `u`), is not refused for want of fuel or for an include cycle.  Then the text with the
    `%include` line, read with one more unit of fuel, has the same outcome as the inlined text. -/
theorem incgen_inline_nested_rev (fuel : Nat) (env : Env) (active : List Str) (url : Option Str)
    (A F B : List Str) (inc arg u : Str) (n : Nat) (st : PS (List Ev0))
    (hshape : lineShape (strip inc) = .include_ arg)
    (hprep : ∀ sA, runLines (fuel + 1) env rec0 (u :: active) url A n st = .ok sA →
      ∃ a, replace env sA.defs url (n + A.length + 1) (strip arg) = .ok a ∧ env.resolve url a = .url u)
    (hfile : env.res u = some F)
    (hact : u ∉ active)
    (hbal : Balanced F)
    (hrel : ∀ l ∈ F, ∀ arg', lineShape (strip l) = .include_ arg' → ∀ a, env.resolve (some u) a = env.resolve url a)
    (hnl : incgenNoLimit (parseLines (fuel + 1) env rec0 (u :: active) url (A ++ F ++ B) n st)) :
    outcome (parseLines (fuel + 2) env rec0 active url (A ++ [inc] ++ B) n st) =
    outcome (parseLines (fuel + 1) env rec0 active url (A ++ F ++ B) n st) := by
  have hsub : ∀ w, w ∈ active → w ∈ u :: active := fun w hw => List.mem_cons.2 (.inr hw)
  -- the inlined text does not care whether `u` is considered active
  rw [incgen_mono env rec0 (fuel + 1) (fuel + 1) (u :: active) active url (A ++ F ++ B) n st (Nat.le_refl _) hsub hnl]
  rw [outcome_eq, outcome_eq]
  congr 1
  rw [List.append_assoc, parseLines_append] at hnl
  rw [List.append_assoc, List.append_assoc, parseLines_append, parseLines_append]
  -- the lines before
  rw [incgen_run_mono env rec0 (fuel + 1) (fuel + 2) (u :: active) active url (by omega) hsub A n st
    (incgenNoLimit_bind_left hnl), toOption_bind, toOption_bind]
  apply option_bind_congr
  intro sA hsA
  rw [toOption_eq_some] at hsA
  have hnlA := incgenNoLimit_bind_right
    (g := parseLines (fuel + 1) env rec0 (u :: active) url (F ++ B) (n + A.length)) hsA hnl
  obtain ⟨a, hrep, hres⟩ := hprep sA hsA
  obtain ⟨hb1, hb2⟩ := hbal
  rw [parseLines_append] at hnlA
  have hnlF := incgenNoLimit_bind_left hnlA
  -- the `%include` line against the lines of the fragment
  have hfr := incgen_run_frame_rev env (fuel + 1) (fuel + 1) (u :: active) (u :: active) (Nat.le_refl _) (fun _ h => h)
    url (some u) sA.stack F (n + A.length) 0 (subState sA) 0
    (fun l hl arg' h' a => (hrel l hl arg' h' a).symm) hb1 (by simp [subState])
    (by rw [show addStack sA.stack (subState sA) = sA from by cases sA; simp [addStack, subState]]; exact hnlF)
  rw [show addStack sA.stack (subState sA) = sA from by cases sA; simp [addStack, subState]] at hfr
  have hstep : (stepLine (fuel + 2) env rec0 active url (n + A.length + 1) (strip inc) sA).toOption =
      (runLines (fuel + 1) env rec0 (u :: active) url F (n + A.length) sA).toOption := by
    rw [incgen_include_found (fuel + 1) env rec0 active url _ (strip inc) arg a u F sA hshape rfl hrep hres hfile (.inr hact),
      parseLines_eq_run, bind_assoc, toOption_bind, hfr.1]
    refine (option_bind_eq_map (g := addStack sA.stack) ?_)
    intro s hs
    rw [toOption_eq_some] at hs
    have hl := hfr.2 s hs
    rw [hb2] at hl
    have hnil : s.stack = [] := by
      cases hss : s.stack with
      | nil => rfl
      | cons a b => rw [hss] at hl; simp at hl; omega
    have hfin : finish (some u) (0 + F.length) s = .ok s := by simp [finish, hnil]
    rw [hfin, ok_bind]
    simp [addStack, hnil]
  rw [List.singleton_append, parseLines, parseLines_append _ _ _ _ _ F B, toOption_bind, toOption_bind, hstep]
  apply option_bind_congr
  intro s hs
  rw [toOption_eq_some] at hs
  -- the lines after
  have hnlB := incgenNoLimit_bind_right
    (g := parseLines (fuel + 1) env rec0 (u :: active) url B (n + A.length + F.length)) hs hnlA
  rw [parse_line_indep (fuel + 2) env active url B (n + A.length + 1) (n + A.length + F.length) s,
    incgen_mono env rec0 (fuel + 1) (fuel + 2) (u :: active) active url B _ s (by omega) hsub hnlB]

/-! ### which URL is opened; where the definitions go -/

/-- a resource read up to an `%include` line that finds its target: what is opened is `resolve` of THIS resource's URL and
    the expanded argument; the target is read under its own URL with the definitions of that moment, and the rest of this
    resource goes on with the context and the definitions the target leaves behind -/
theorem incgen_parse_at_include {σ} (fuel : Nat) (env : Env) (c : PCtx σ) (active : List Str) (url : Option Str)
    (P Q : List Str) (inc arg a u : Str) (F : List Str) (n : Nat) (st sP : PS σ)
    (hP : runLines (fuel + 1) env c active url P n st = .ok sP)
    (hshape : lineShape (strip inc) = .include_ arg) (hci : c.canInclude = true)
    (hrep : replace env sP.defs url (n + P.length + 1) (strip arg) = .ok a)
    (hres : env.resolve url a = .url u) (hfile : env.res u = some F) (hact : u = [] ∨ u ∉ active) :
    parseLines (fuel + 1) env c active url (P ++ inc :: Q) n st =
      parseLines fuel env c (u :: active) (some u) F 0 (subState sP) >>= fun sub =>
        parseLines (fuel + 1) env c active url Q (n + P.length + 1) { sP with ctx := sub.ctx, defs := sub.defs } := by
  rw [parseLines_append, hP, ok_bind, parseLines,
    incgen_include_found fuel env c active url _ (strip inc) arg a u F sP hshape hci hrep hres hfile hact, bind_assoc]
  rfl

/-- the same, when the target cannot be opened: the error names the URL that was computed -/
theorem incgen_parse_at_include_missing {σ} (fuel : Nat) (env : Env) (c : PCtx σ) (active : List Str) (url : Option Str)
    (P Q : List Str) (inc arg a u : Str) (n : Nat) (st sP : PS σ)
    (hP : runLines fuel env c active url P n st = .ok sP)
    (hshape : lineShape (strip inc) = .include_ arg) (hci : c.canInclude = true)
    (hrep : replace env sP.defs url (n + P.length + 1) (strip arg) = .ok a)
    (hres : env.resolve url a = .url u) (hfile : env.res u = none) :
    parseLines fuel env c active url (P ++ inc :: Q) n st =
      .error (.cfg { kind := .plain, url := some u, tag := "error opening" }) := by
  rw [parseLines_append, hP, ok_bind, parseLines, incgen_stepLine_include _ _ _ _ _ _ _ _ _ hshape]
  unfold incgenTarget
  rw [hrep, ok_bind]
  simp only [hci, Bool.not_true, Bool.false_eq_true, ↓reduceIte, hres, hfile]
  rfl

/-- definitions (and events) flow through an `%include` line: in with `defs := st.defs`, out with `defs := sub.defs`; the open
    sections of the includer are untouched -/
theorem incgen_flow_step (fuel : Nat) (env : Env) (active : List Str) (url : Option Str) (line : Nat)
    (l arg a u : Str) (F : List Str) (st : PS (List Ev0))
    (hshape : lineShape l = .include_ arg)
    (hrep : replace env st.defs url line (strip arg) = .ok a)
    (hres : env.resolve url a = .url u) (hfile : env.res u = some F) (hact : u = [] ∨ u ∉ active) :
    outcome (stepLine (fuel + 1) env rec0 active url line l st) =
      (outcome (parseLines fuel env rec0 (u :: active) (some u) F 0 { ctx := st.ctx, stack := [], defs := st.defs })).map
        (fun r => (r.1, r.2.1, st.stack)) := by
  rw [incgen_include_found fuel env rec0 active url line l arg a u F st hshape rfl hrep hres hfile hact]
  show outcome (parseLines fuel env rec0 (u :: active) (some u) F 0 (subState st) >>= _) =
    (outcome (parseLines fuel env rec0 (u :: active) (some u) F 0 (subState st))).map _
  cases parseLines fuel env rec0 (u :: active) (some u) F 0 (subState st) <;> rfl

/-- the same for a whole text `A ++ [inc] ++ B` -/
theorem incgen_flow (fuel : Nat) (env : Env) (active : List Str) (url : Option Str)
    (A F B : List Str) (inc arg u : Str) (n : Nat) (st : PS (List Ev0))
    (hshape : lineShape (strip inc) = .include_ arg)
    (hprep : ∀ sA, runLines (fuel + 1) env rec0 active url A n st = .ok sA →
      ∃ a, replace env sA.defs url (n + A.length + 1) (strip arg) = .ok a ∧ env.resolve url a = .url u)
    (hfile : env.res u = some F) (hact : u = [] ∨ u ∉ active) :
    outcome (parseLines (fuel + 1) env rec0 active url (A ++ [inc] ++ B) n st) =
      (runLines (fuel + 1) env rec0 active url A n st).toOption.bind fun sA =>
        (outcome (parseLines fuel env rec0 (u :: active) (some u) F 0
            { ctx := sA.ctx, stack := [], defs := sA.defs })).bind fun r =>
          outcome (parseLines (fuel + 1) env rec0 active url B (n + A.length + 1)
            { ctx := r.1, stack := sA.stack, defs := r.2.1 }) := by
  rw [List.append_assoc, List.singleton_append]
  cases hA : runLines (fuel + 1) env rec0 active url A n st with
  | error e =>
    rw [parseLines_append, hA]
    rfl
  | ok sA =>
    obtain ⟨a, hrep, hres⟩ := hprep sA hA
    rw [incgen_parse_at_include fuel env rec0 active url A B inc arg a u F n st sA hA hshape rfl hrep hres hfile hact]
    simp only [toOption_ok, Option.bind_some]
    show outcome (parseLines fuel env rec0 (u :: active) (some u) F 0 (subState sA) >>= _) =
      (outcome (parseLines fuel env rec0 (u :: active) (some u) F 0 (subState sA))).bind _
    cases parseLines fuel env rec0 (u :: active) (some u) F 0 (subState sA) <;> rfl

end ZCV.Cfg
