import ZCV.Lemmas.RoundtripRun
/-!
`canon` (keys in `sorted()` order) against the other notions of C17: it is the same configuration to Python,
it prints the same text, it is well-formed when the tree is, and it changes nothing once keys are sorted.
-/
namespace ZCV.Roundtrip
open ZCV ZCV.Cfg

mutual
/-- sorting the keys does not change the configuration as Python compares its parts -/
theorem same_canon : ∀ (s : Sec), Same s (canon s)
  | .mk ty nm kvs ss => by
    rw [canon, Same]
    exact ⟨rfl, rfl, (sortKeys_perm kvs).symm, sameL_canon ss⟩
theorem sameL_canon : ∀ (l : List Sec), SameL l (canonL l)
  | [] => by rw [canonL, SameL]; trivial
  | s :: r => by
    rw [canonL, SameL]
    exact ⟨same_canon s, sameL_canon r⟩
end

mutual
theorem canon_of_sorted : ∀ (s : Sec), sortedSec s → canon s = s
  | .mk ty nm kvs ss, h => by
    rw [sortedSec] at h
    rw [canon, h.1, canonL_of_sorted ss h.2]
theorem canonL_of_sorted : ∀ (l : List Sec), sortedSecs l → canonL l = l
  | [], _ => by rw [canonL]
  | s :: r, h => by
    rw [sortedSecs] at h
    rw [canonL, canon_of_sorted s h.1, canonL_of_sorted r h.2]
end

mutual
theorem sorted_canon : ∀ (s : Sec), wfSub s = true → sortedSec (canon s)
  | .mk ty nm kvs ss, h => by
    obtain ⟨_, _, hkv, hss⟩ := wfSub_parts h
    rw [canon, sortedSec]
    exact ⟨sortKeys_idem kvs (kvsOK_nodup hkv), sortedL_canon ss hss⟩
theorem sortedL_canon : ∀ (l : List Sec), wfSubs l = true → sortedSecs (canonL l)
  | [], _ => by rw [canonL, sortedSecs]; trivial
  | s :: r, h => by
    obtain ⟨h1, h2⟩ := wfSubs_cons h
    rw [canonL, sortedSecs]
    exact ⟨sorted_canon s h1, sortedL_canon r h2⟩
end

mutual
theorem wfSub_canon : ∀ (s : Sec), wfSub s = true → wfSub (canon s) = true
  | .mk ty nm kvs ss, h => by
    obtain ⟨hty, hnm, hkv, hss⟩ := wfSub_parts h
    rw [canon, wfSub, hty, hnm, kvsOK_sort hkv, wfSubs_canon ss hss]
    rfl
theorem wfSubs_canon : ∀ (l : List Sec), wfSubs l = true → wfSubs (canonL l) = true
  | [], _ => by rw [canonL, wfSubs]
  | s :: r, h => by
    obtain ⟨h1, h2⟩ := wfSubs_cons h
    rw [canonL, wfSubs, wfSub_canon s h1, wfSubs_canon r h2]
    rfl
end

theorem WF_canon (t : Sec) (imps : List Str) (h : WF t imps) : WF (canon t) imps := by
  obtain ⟨ty, nm, kvs, ss⟩ := t
  obtain ⟨hty, hnm, hkv, hss, himp⟩ := h
  simp only [Sec.type, Sec.name, Sec.kvs, Sec.sections] at hty hnm hkv hss
  rw [canon]
  exact ⟨hty, hnm, kvsOK_sort hkv, wfSubs_canon ss hss, himp⟩

theorem sorted_canon_top (t : Sec) (imps : List Str) (h : WF t imps) : sortedSec (canon t) := by
  obtain ⟨ty, nm, kvs, ss⟩ := t
  obtain ⟨_, _, hkv, hss, _⟩ := h
  simp only [Sec.kvs, Sec.sections] at hkv hss
  rw [canon, sortedSec]
  exact ⟨sortKeys_idem kvs (kvsOK_nodup hkv), sortedL_canon ss hss⟩

theorem canonL_isEmpty (l : List Sec) : (canonL l).isEmpty = l.isEmpty := by
  cases l <;> simp [canonL]

/-- what `Section.__str__` looks at: the sorted keys, whether there are keys, the printed sub-sections -/
theorem secStr_congr (pre ty : Str) (nm : Option Str) (kvs kvs' : List (Str × List Str)) (ss ss' : List Sec)
    (h1 : sortKeys kvs' = sortKeys kvs) (h2 : kvs'.isEmpty = kvs.isEmpty) (h3 : ss'.isEmpty = ss.isEmpty)
    (h4 : ∀ p, secStrs p ss' = secStrs p ss) (imports : List Str) :
    secStr imports pre (.mk ty nm kvs' ss') = secStr imports pre (.mk ty nm kvs ss) := by
  unfold secStr
  simp only [h1, h2, h3, h4]

mutual
theorem secStr_canon : ∀ (s : Sec) (imports : List Str) (pre : Str), wfSub s = true →
    secStr imports pre (canon s) = secStr imports pre s
  | .mk ty nm kvs ss, imports, pre, h => by
    obtain ⟨_, _, hkv, hss⟩ := wfSub_parts h
    rw [canon]
    exact secStr_congr pre ty nm kvs (sortKeys kvs) ss (canonL ss) (sortKeys_idem kvs (kvsOK_nodup hkv))
      (sortKeys_isEmpty kvs) (canonL_isEmpty ss) (fun p => secStrs_canon ss p hss) imports
theorem secStrs_canon : ∀ (l : List Sec) (pre : Str), wfSubs l = true → secStrs pre (canonL l) = secStrs pre l
  | [], _, _ => by rw [canonL]
  | s :: r, pre, h => by
    obtain ⟨h1, h2⟩ := wfSubs_cons h
    rw [canonL, secStrs, secStrs, secStr_canon s [] pre h1, secStrs_canon r pre h2]
end

/-- the sorted tree prints the same text -/
theorem slStr_canon (t : Sec) (imps : List Str) (h : WF t imps) : slStr (canon t) imps = slStr t imps := by
  obtain ⟨ty, nm, kvs, ss⟩ := t
  obtain ⟨_, _, hkv, hss, _⟩ := h
  simp only [Sec.kvs, Sec.sections] at hkv hss
  unfold slStr
  rw [canon]
  exact secStr_congr [] ty nm kvs (sortKeys kvs) ss (canonL ss) (sortKeys_idem kvs (kvsOK_nodup hkv))
    (sortKeys_isEmpty kvs) (canonL_isEmpty ss) (fun p => secStrs_canon ss p hss) imps

end ZCV.Roundtrip
