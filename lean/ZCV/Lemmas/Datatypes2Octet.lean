import ZCV.Lemmas.Datatypes2Int
/-! The fields of a dotted quad denote numbers 0..255 (and, over ASCII digits, every such number of 1..3 digits
    is admitted). -/
namespace ZCV.DT
open ZCV ZCV.DTSpec

theorem dt2_digitRanges_head : ∃ rest, Gen.digitRanges = (48, 57) :: rest := ⟨_, rfl⟩

theorem dt2_pyDigitVal_ascii (c : Char) (h : isAsciiDigit c = true) : pyDigitVal c = some (c.toNat - 48) := by
  obtain ⟨rest, hr⟩ := dt2_digitRanges_head
  simp only [isAsciiDigit, inRange, Char.reduceToNat, Bool.and_eq_true, decide_eq_true_eq] at h
  unfold pyDigitVal
  rw [hr, List.find?_cons]
  have : (decide (48 ≤ c.toNat) && decide (c.toNat ≤ 57)) = true := by simp [h.1, h.2]
  simp only [this, Option.map_some, Option.some.injEq]
  omega

theorem dt2_pyDigitVal_lt (c : Char) (v : Nat) (h : pyDigitVal c = some v) : v < 10 := by
  unfold pyDigitVal at h
  cases hf : Gen.digitRanges.find? (fun r => decide (r.1 ≤ c.toNat) && decide (c.toNat ≤ r.2)) with
  | none => rw [hf] at h; cases h
  | some r =>
    rw [hf] at h
    simp only [Option.map_some, Option.some.injEq] at h
    omega

theorem dt2_pyNat1 (a : Char) (x : Nat) (ha : pyDigitVal a = some x) : pyNat [a] = some x :=
  (dt2_pyNat_iff _ _).mpr ⟨[x], IntBody.one a x ha, by simp [decimal]⟩

theorem dt2_pyNat2 (a b : Char) (x y : Nat) (ha : pyDigitVal a = some x) (hb : pyDigitVal b = some y) :
    pyNat [a, b] = some (x * 10 + y) :=
  (dt2_pyNat_iff _ _).mpr ⟨[x, y], IntBody.cons a x _ _ ha (IntBody.one b y hb), by simp [decimal]⟩

theorem dt2_pyNat3 (a b c : Char) (x y z : Nat) (ha : pyDigitVal a = some x) (hb : pyDigitVal b = some y)
    (hc : pyDigitVal c = some z) : pyNat [a, b, c] = some (x * 100 + y * 10 + z) :=
  (dt2_pyNat_iff _ _).mpr ⟨[x, y, z], IntBody.cons a x _ _ ha (IntBody.cons b y _ _ hb (IntBody.one c z hc)),
    by simp [decimal]; omega⟩

theorem dt2_eq_char (a d : Char) (h : (a == d) = true) : a = d := by simpa using h

/-- **a field of a dotted quad is a number 0..255** written with one to three digits -/
theorem dt2_octet_range (o : Str) (h : isOctet o = true) :
    1 ≤ o.length ∧ o.length ≤ 3 ∧ ∃ n, pyNat o = some n ∧ n ≤ 255 := by
  match o, h with
  | [a], h =>
    simp only [isOctet] at h
    obtain ⟨x, hx⟩ := (dt2_pyDigit_val a).mp h
    have := dt2_pyDigitVal_lt a x hx
    exact ⟨by simp, by simp, x, dt2_pyNat1 a x hx, by omega⟩
  | [a, b], h =>
    simp only [isOctet, Bool.and_eq_true] at h
    obtain ⟨x, hx⟩ := (dt2_pyDigit_val a).mp h.1
    obtain ⟨y, hy⟩ := (dt2_pyDigit_val b).mp h.2
    have := dt2_pyDigitVal_lt a x hx
    have := dt2_pyDigitVal_lt b y hy
    exact ⟨by simp, by simp, _, dt2_pyNat2 a b x y hx hy, by omega⟩
  | [a, b, c], h =>
    simp only [isOctet, Bool.or_eq_true, Bool.and_eq_true] at h
    refine ⟨by simp, by simp, ?_⟩
    rcases h with (⟨⟨h1, h2⟩, h3⟩ | ⟨⟨h1, h2⟩, h3⟩) | ⟨⟨h1, h2⟩, h3⟩
    · obtain ⟨y, hy⟩ := (dt2_pyDigit_val b).mp h2
      obtain ⟨z, hz⟩ := (dt2_pyDigit_val c).mp h3
      have := dt2_pyDigitVal_lt b y hy
      have := dt2_pyDigitVal_lt c z hz
      rcases h1 with h1 | h1
      · have := dt2_eq_char _ _ h1; subst this
        exact ⟨_, dt2_pyNat3 '0' b c 0 y z (by decide) hy hz, by omega⟩
      · have := dt2_eq_char _ _ h1; subst this
        exact ⟨_, dt2_pyNat3 '1' b c 1 y z (by decide) hy hz, by omega⟩
    · have := dt2_eq_char _ _ h1; subst this
      obtain ⟨z, hz⟩ := (dt2_pyDigit_val c).mp h3
      have := dt2_pyDigitVal_lt c z hz
      have hb : isAsciiDigit b = true := by
        simp only [isAsciiDigit, inRange, Char.reduceToNat, Bool.and_eq_true, decide_eq_true_eq] at h2 ⊢; omega
      have hy := dt2_pyDigitVal_ascii b hb
      simp only [inRange, Char.reduceToNat, Bool.and_eq_true, decide_eq_true_eq] at h2
      exact ⟨_, dt2_pyNat3 '2' b c 2 _ z (by decide) hy hz, by omega⟩
    · have := dt2_eq_char _ _ h1; subst this
      have := dt2_eq_char _ _ h2; subst this
      have hc : isAsciiDigit c = true := by
        simp only [isAsciiDigit, inRange, Char.reduceToNat, Bool.and_eq_true, decide_eq_true_eq] at h3 ⊢; omega
      have hz := dt2_pyDigitVal_ascii c hc
      simp only [inRange, Char.reduceToNat, Bool.and_eq_true, decide_eq_true_eq] at h3
      exact ⟨_, dt2_pyNat3 '2' '5' c 2 5 _ (by decide) (by decide) hz, by omega⟩
  | [], h => simp [isOctet] at h
  | _ :: _ :: _ :: _ :: _, h => simp [isOctet] at h

/-- over ASCII digits the converse holds: every number 0..255 written with one to three digits is a field -/
theorem dt2_octet_ascii (o : Str) (ha : o.all isAsciiDigit = true)
    (h : 1 ≤ o.length ∧ o.length ≤ 3 ∧ ∃ n, pyNat o = some n ∧ n ≤ 255) : isOctet o = true := by
  obtain ⟨h1, h2, n, hn, hle⟩ := h
  match o, ha, h1, h2, hn with
  | [a], ha, _, _, _ =>
    simp only [List.all_cons, List.all_nil, Bool.and_true] at ha
    simp [isOctet, dt2_asciiDigit_pyDigit a ha]
  | [a, b], ha, _, _, _ =>
    simp only [List.all_cons, List.all_nil, Bool.and_true, Bool.and_eq_true] at ha
    simp [isOctet, dt2_asciiDigit_pyDigit a ha.1, dt2_asciiDigit_pyDigit b ha.2]
  | [a, b, c], ha, _, _, hn =>
    simp only [List.all_cons, List.all_nil, Bool.and_true, Bool.and_eq_true] at ha
    obtain ⟨ha1, ha2, ha3⟩ := ha
    rw [dt2_pyNat3 a b c _ _ _ (dt2_pyDigitVal_ascii a ha1) (dt2_pyDigitVal_ascii b ha2)
      (dt2_pyDigitVal_ascii c ha3)] at hn
    injection hn with hn
    simp only [isOctet, dt2_asciiDigit_pyDigit b ha2, dt2_asciiDigit_pyDigit c ha3, inRange, ceq, Char.reduceToNat,
      Bool.and_true, Bool.or_eq_true, Bool.and_eq_true, beq_iff_eq, decide_eq_true_eq]
    simp only [isAsciiDigit, inRange, Char.reduceToNat, Bool.and_eq_true, decide_eq_true_eq] at ha1 ha2 ha3
    omega
  | [], _, h1, _, _ => simp at h1
  | _ :: _ :: _ :: _ :: _, _, _, h2, _ => simp at h2

end ZCV.DT
