import ZCV.Lemmas.PositionLoader
import ZCV.Lemmas.PositionEx
/-!
A concrete instance for the loader part of C08 (non-vacuity): a schema with one section type `s` holding one key `k`, and the
text `<s>` / `k v` / `</s>` where the datatype of `k` refuses `v`: the parse fails on line 3 (the closing line) with a conversion
error that names line 2 and carries the text `v`.
-/
namespace ZCV.Cfg.PosEx
open ZCV ZCV.Cfg

def kInfo : KeyInfo := { name := ['k'], attr := ['k'], multi := false, minOccurs := 0, dt := ['d'], dflt := .none, handler := none }
def sType : SType := { name := some ['s'], keytype := ['b'], datatype := ['n'], children := [(some ['k'], .key kInfo)] }
def sInfo : SectInfo := { name := ['*'], attr := ['s'], multi := false, minOccurs := 0, ty := ['s'], handler := none }
def topType : SType := { name := none, keytype := ['b'], datatype := ['n'], children := [(none, .sect sInfo)] }
def schema : Schema := { types := [(['s'], .concrete sType)], top := topType, handler := none, components := [] }
/-- keys pass unchanged, every value is refused with `ValueError`, sections pass unchanged -/
def conv : Conv := { key := fun _ k => .ok k, val := fun _ _ => .error .valueError, sect := fun _ v => .ok v }
def ls0 : LS := { schema := schema, privateSchema := false, handlers := [], stack := [newMatcher topType none none],
                  pkgs := fun _ => .noComponent, conv := conv }
def ps0 : PS LS := { ctx := ls0, stack := [], defs := [] }
def text : List Str := ["<s>".toList, "k v".toList, "</s>".toList]
def convErr : Err := { kind := .conversion, line := some 2, url := some ['m'], tag := "value", value := some ['v'] }

theorem shape_open : lineShape (strip "<s>".toList) = .open_ ['s'] none false :=
  lineShape_of_classify _ (by decide) _ (by decide) (by decide)
theorem shape_close : lineShape (strip "</s>".toList) = .close ['s'] := by decide

def ls1 : LS := { ls0 with stack := [newMatcher sType none none, newMatcher topType none none] }
theorem lower_s : lower ['s'] = ['s'] := rfl
theorem gsi : getsectioninfo schema topType ['s'] none = .ok sInfo := by
  simp [getsectioninfo, getsectioninfo.go, getsectioninfo.goUnkeyed, topType, sInfo, allowUnnamed]
theorem start_ok : lsStart ls0 ['s'] none = .ok ls1 := by
  unfold lsStart
  have h1 : ls0.stack = [newMatcher topType none none] := rfl
  have h2 : schema.gettype ['s'] = some (.concrete sType) := rfl
  have h3 : (newMatcher topType none none).ty = topType := rfl
  have h4 : sType.name.getD [] = ['s'] := rfl
  have h5 : ls0.schema = schema := rfl
  simp only [h1, h2, h3, h4, h5, gsi, bind, Except.bind]
  rfl
def pos2 : Pos := { line := 2, url := some ['m'] }
def m2 : Matcher := setSlot (newMatcher sType none none) ['k'] (.one { value := ['v'], pos := pos2 })
def ls2 : LS := { ls0 with stack := [m2, newMatcher topType none none] }
theorem value_ok : lsValue ls1 ['k'] ['v'] pos2 = .ok ls2 := by rfl
theorem stop_err : lsStop ls2 ['s'] none = .error (.cfg convErr) := by rfl
def ps1 : PS LS := { ctx := ls1, stack := [(['s'], none)], defs := [] }
def ps2 : PS LS := { ctx := ls2, stack := [(['s'], none)], defs := [] }

theorem step1 : stepLine 0 env loaderCtx [] (some ['m']) 1 (strip "<s>".toList) ps0 = .ok ps1 := by
  rw [stepLine]
  simp only [shape_open]
  unfold openSection
  have : loaderCtx.start ps0.ctx ['s'] none = .ok ls1 := start_ok
  rw [this]
  rfl

theorem step2 : stepLine 0 env loaderCtx [] (some ['m']) 2 (strip "k v".toList) ps1 = .ok ps2 := by
  rw [stepLine]
  simp only [shape_kv]
  rw [keyValue_eq]
  have hr : replace env ps1.defs (some ['m']) 2 ['v'] = .ok ['v'] := replace_nodollar _ _ _ _ _ (by decide)
  have hne : (['v'] == ([] : Str)) = false := by decide
  simp only [hne, Bool.false_eq_true, if_false, hr, ok_bind]
  unfold kvCore
  have : loaderCtx.value ps1.ctx ['k'] ['v'] { line := ((2 : Nat) : Int), url := some ['m'] } = .ok ls2 := value_ok
  rw [this]
  rfl

theorem step3 : stepLine 0 env loaderCtx [] (some ['m']) 3 (strip "</s>".toList) ps2 = .error (.cfg convErr) := by
  rw [stepLine]
  simp only [shape_close]
  unfold closeSection
  have : loaderCtx.stop ps2.ctx ['s'] none = .error (.cfg convErr) := stop_err
  simp only [ps2, bne_self_eq_false, Bool.false_eq_true, if_false]
  have h2 : loaderCtx.stop ls2 ['s'] none = .error (.cfg convErr) := stop_err
  rw [h2]
  rfl

/-- the loader's parse of `<s>` / `k v` / `</s>`, the value of `k` being refused by its datatype when `</s>` is read: the culprit
    is line 3, the error names line 2 (where the value stands) and carries the text `v` -/
theorem culprit_conv : Culprit env loaderCtx 0 [] (some ['m']) text 0 ps0 (.cfg convErr) (some ['m']) 3 ps2 := by
  refine .next _ _ _ _ _ _ _ ps1 _ _ _ _ step1 ?_
  refine .next _ _ _ _ _ _ _ ps2 _ _ _ _ step2 ?_
  refine .here _ _ _ _ _ _ _ _ ?_ step3
  intro f' u sub ⟨arg, _, hs, _⟩
  rw [shape_close] at hs
  cases hs

theorem parse_conv_fails : parseLines 0 env loaderCtx [] (some ['m']) text 0 ps0 = .error (.cfg convErr) :=
  culprit_sound culprit_conv

/-- the value was handed over on line 2 -/
theorem handed_conv : Handed env loaderCtx 0 [] (some ['m']) text 0 ps0 ['k'] ['v'] pos2 := by
  refine .next _ _ _ _ _ _ _ ps1 _ _ _ step1 ?_
  have hv : (if (['v'] == ([] : Str)) = true then pure [] else replace env ps1.defs (some ['m']) (0 + 1 + 1) ['v']) =
      (.ok ['v'] : M Str) := by
    have hne : (['v'] == ([] : Str)) = false := by decide
    simp only [hne, Bool.false_eq_true, if_false]
    exact replace_nodollar _ _ _ _ _ (by decide)
  exact .here _ _ _ _ _ _ _ ['k'] ['v'] ['v'] shape_kv hv

end ZCV.Cfg.PosEx
