import ZCV.Model.LoggerSetup
/-!
C20 — lemmas about the hand-written set-up model (`ZCV/Model/LoggerSetup.lean`): the logging world as a finite map,
`Factory.__call__` memoisation, and what `LoggerFactory.create` leaves behind.
-/
namespace ZCV.LogSetup
open ZCV

/-! #### the world as a finite map -/

theorem lgs_lookup_setAssoc_same (k : Str) (st : LoggerState) (l : List (Str × LoggerState)) :
    (setAssoc k st l).lookup k = some st := by
  induction l with
  | nil => simp [setAssoc]
  | cons p t ih =>
    obtain ⟨k', s'⟩ := p
    simp only [setAssoc]
    split
    · simp [List.lookup]
    · rename_i hne
      have : (k == k') = false := by
        rw [Bool.eq_false_iff]; intro h; apply hne; simp only [beq_iff_eq] at h ⊢; exact h.symm
      simp only [List.lookup, this, ih]

theorem lgs_lookup_setAssoc_other {k k' : Str} (hne : k' ≠ k) (st : LoggerState) (l : List (Str × LoggerState)) :
    (setAssoc k st l).lookup k' = l.lookup k' := by
  induction l with
  | nil =>
    have : (k' == k) = false := by simpa using hne
    simp [setAssoc, List.lookup, this]
  | cons p t ih =>
    obtain ⟨k₀, s₀⟩ := p
    simp only [setAssoc]
    split
    · rename_i h
      simp only [beq_iff_eq] at h
      subst h
      have : (k' == k₀) = false := by simpa using hne
      simp only [List.lookup, this]
    · simp only [List.lookup, ih]

@[simp] theorem lgs_get_set_same (w : World) (k : Str) (st : LoggerState) : (w.set k st).get k = st := by
  simp only [World.get, World.set, lgs_lookup_setAssoc_same]

theorem lgs_get_set_other (w : World) {k k' : Str} (hne : k' ≠ k) (st : LoggerState) : (w.set k st).get k' = w.get k' := by
  simp only [World.get, World.set, lgs_lookup_setAssoc_other hne]

@[simp] theorem lgs_nextId_set (w : World) (k : Str) (st : LoggerState) : (w.set k st).nextId = w.nextId := rfl

theorem lgs_get_bump (w : World) (n : Nat) (k : Str) : (⟨w.loggers, n⟩ : World).get k = w.get k := rfl

/-! #### the three `logging` methods -/

theorem lgs_setLevel_get (w : World) (k : Str) (lv : Int) : (setLevel w k lv).get k = ⟨lv, (w.get k).propagate, (w.get k).handlers⟩ := by
  simp only [setLevel, lgs_get_set_same]

theorem lgs_setLevel_other (w : World) {k k' : Str} (hne : k' ≠ k) (lv : Int) : (setLevel w k lv).get k' = w.get k' := by
  simp only [setLevel, lgs_get_set_other w hne]

theorem lgs_setLevel_nextId (w : World) (k : Str) (lv : Int) : (setLevel w k lv).nextId = w.nextId := rfl

theorem lgs_setPropagate_get (w : World) (k : Str) (p : Bool) :
    (setPropagate w k p).get k = ⟨(w.get k).level, p, (w.get k).handlers⟩ := by
  simp only [setPropagate, lgs_get_set_same]

theorem lgs_setPropagate_other (w : World) {k k' : Str} (hne : k' ≠ k) (p : Bool) :
    (setPropagate w k p).get k' = w.get k' := by
  simp only [setPropagate, lgs_get_set_other w hne]

theorem lgs_setPropagate_nextId (w : World) (k : Str) (p : Bool) : (setPropagate w k p).nextId = w.nextId := rfl

/-- adding a handler object that is not yet on the logger appends it -/
theorem lgs_addHandler_new (w : World) (k : Str) (h : Handler) (hnew : ∀ x ∈ (w.get k).handlers, x.id ≠ h.id) :
    (addHandler w k h).get k = ⟨(w.get k).level, (w.get k).propagate, (w.get k).handlers ++ [h]⟩ := by
  unfold addHandler
  have : (w.get k).handlers.any (·.id == h.id) = false := by
    rw [Bool.eq_false_iff]
    intro hany
    obtain ⟨x, hx, hid⟩ := List.any_eq_true.1 hany
    exact hnew x hx (by simpa using hid)
  simp only [this, Bool.false_eq_true, ↓reduceIte, lgs_get_set_same]

/-- adding a handler object that is already on the logger changes nothing -/
theorem lgs_addHandler_old (w : World) (k : Str) (h : Handler) (hold : ∃ x ∈ (w.get k).handlers, x.id = h.id) :
    addHandler w k h = w := by
  unfold addHandler
  have : (w.get k).handlers.any (·.id == h.id) = true := by
    obtain ⟨x, hx, hid⟩ := hold
    exact List.any_eq_true.2 ⟨x, hx, by simpa using hid⟩
  simp only [this, ↓reduceIte]

theorem lgs_addHandler_other (w : World) {k k' : Str} (hne : k' ≠ k) (h : Handler) : (addHandler w k h).get k' = w.get k' := by
  unfold addHandler
  dsimp only
  split
  · rfl
  · exact lgs_get_set_other w hne _

theorem lgs_addHandler_nextId (w : World) (k : Str) (h : Handler) : (addHandler w k h).nextId = w.nextId := by
  unfold addHandler
  dsimp only
  split <;> rfl

/-! #### `Factory.__call__` -/

/-- the memo: a second call returns the same product and changes neither the factory nor the world -/
theorem lgs_factoryCall_idem {F α σ : Type} (getInst : F → Option α) (setInst : F → α → F) (create : F → σ → α × F × σ)
    (hgs : ∀ f a, getInst (setInst f a) = some a) (f : F) (w : σ) :
    factoryCall getInst setInst create (factoryCall getInst setInst create f w).2.1 (factoryCall getInst setInst create f w).2.2
      = factoryCall getInst setInst create f w := by
  unfold factoryCall
  cases hi : getInst f with
  | some a => simp only [hi]
  | none => simp only [hgs]

/-- after a call the memo is filled with what the call returned -/
theorem lgs_factoryCall_inst {F α σ : Type} (getInst : F → Option α) (setInst : F → α → F) (create : F → σ → α × F × σ)
    (hgs : ∀ f a, getInst (setInst f a) = some a) (f : F) (w : σ) :
    getInst (factoryCall getInst setInst create f w).2.1 = some (factoryCall getInst setInst create f w).1 := by
  unfold factoryCall
  cases hi : getInst f with
  | some a => simp only [hi]
  | none => simp only [hgs]

/-- a factory whose memo is filled does not run `create` -/
theorem lgs_factoryCall_some {F α σ : Type} (getInst : F → Option α) (setInst : F → α → F) (create : F → σ → α × F × σ)
    (f : F) (w : σ) (a : α) (h : getInst f = some a) : factoryCall getInst setInst create f w = (a, f, w) := by
  unfold factoryCall; simp only [h]

theorem lgs_factoryCall_none {F α σ : Type} (getInst : F → Option α) (setInst : F → α → F) (create : F → σ → α × F × σ)
    (f : F) (w : σ) (h : getInst f = none) :
    factoryCall getInst setInst create f w = ((create f w).1, setInst (create f w).2.1 (create f w).1, (create f w).2.2) := by
  unfold factoryCall; simp only [h]

/-! #### handler factories -/

theorem lgs_handler_call_fresh (hf : HandlerFactory) (w : World) (h : hf.inst = none) :
    hf.call w = ({ id := w.nextId, cfg := some hf.cfg },
                 { hf with inst := some { id := w.nextId, cfg := some hf.cfg } },
                 { w with nextId := w.nextId + 1 }) := by
  unfold HandlerFactory.call
  rw [lgs_factoryCall_none _ _ _ _ _ h]
  rfl

/-- the handlers a list of fresh handler factories creates, the first with identity `n` -/
def newHandlers (n : Nat) : List HandlerFactory → List Handler
  | [] => []
  | hf :: rest => { id := n, cfg := some hf.cfg } :: newHandlers (n + 1) rest

/-- the same factories with their memos filled in -/
def filledFactories (n : Nat) : List HandlerFactory → List HandlerFactory
  | [] => []
  | hf :: rest => { hf with inst := some { id := n, cfg := some hf.cfg } } :: filledFactories (n + 1) rest

theorem lgs_newHandlers_cfg (n : Nat) (hfs : List HandlerFactory) :
    (newHandlers n hfs).map (·.cfg) = hfs.map (fun hf => some hf.cfg) := by
  induction hfs generalizing n with
  | nil => rfl
  | cons hf rest ih => simp only [newHandlers, List.map_cons, ih]

theorem lgs_newHandlers_ids (n : Nat) (hfs : List HandlerFactory) :
    (newHandlers n hfs).map (·.id) = List.range' n hfs.length := by
  induction hfs generalizing n with
  | nil => rfl
  | cons hf rest ih => simp only [newHandlers, List.map_cons, ih, List.length_cons, List.range'_succ]

theorem lgs_newHandlers_length (n : Nat) (hfs : List HandlerFactory) : (newHandlers n hfs).length = hfs.length := by
  have := congrArg List.length (lgs_newHandlers_cfg n hfs)
  simpa using this

theorem lgs_filledFactories_cfg (n : Nat) (hfs : List HandlerFactory) :
    (filledFactories n hfs).map (·.cfg) = hfs.map (·.cfg) := by
  induction hfs generalizing n with
  | nil => rfl
  | cons hf rest ih => simp only [filledFactories, List.map_cons, ih]

theorem lgs_filledFactories_inst (n : Nat) (hfs : List HandlerFactory) :
    (filledFactories n hfs).map (·.inst) = (newHandlers n hfs).map some := by
  induction hfs generalizing n with
  | nil => rfl
  | cons hf rest ih => simp only [filledFactories, newHandlers, List.map_cons, ih]

/-- the loop of `create` over fresh handler factories, on a logger all of whose handlers are older than `nextId` -/
theorem lgs_addConfigured_fresh (k : Str) (hfs : List HandlerFactory) (w : World)
    (hfresh : ∀ hf ∈ hfs, hf.inst = none) (hold : ∀ x ∈ (w.get k).handlers, x.id < w.nextId) :
    (addConfiguredHandlers k hfs w).1 = filledFactories w.nextId hfs ∧
    (addConfiguredHandlers k hfs w).2.nextId = w.nextId + hfs.length ∧
    (hfs ≠ [] → (addConfiguredHandlers k hfs w).2.get k =
      ⟨(w.get k).level, (w.get k).propagate, (w.get k).handlers ++ newHandlers w.nextId hfs⟩) ∧
    (∀ k', k' ≠ k → (addConfiguredHandlers k hfs w).2.get k' = w.get k') := by
  induction hfs generalizing w with
  | nil =>
    refine ⟨rfl, rfl, fun h => absurd rfl h, fun _ _ => rfl⟩
  | cons hf rest ih =>
    have hf0 : hf.inst = none := hfresh hf List.mem_cons_self
    have hrest : ∀ x ∈ rest, x.inst = none := fun x hx => hfresh x (List.mem_cons_of_mem _ hx)
    let h0 : Handler := { id := w.nextId, cfg := some hf.cfg }
    let w1 : World := addHandler ⟨w.loggers, w.nextId + 1⟩ k h0
    have hnew : ∀ x ∈ ((⟨w.loggers, w.nextId + 1⟩ : World).get k).handlers, x.id ≠ h0.id := by
      intro x hx; exact Nat.ne_of_lt (hold x hx)
    have hw1k : w1.get k = ⟨(w.get k).level, (w.get k).propagate, (w.get k).handlers ++ [h0]⟩ :=
      lgs_addHandler_new _ k h0 hnew
    have hw1n : w1.nextId = w.nextId + 1 := lgs_addHandler_nextId _ k h0
    have hold1 : ∀ x ∈ (w1.get k).handlers, x.id < w1.nextId := by
      rw [hw1k, hw1n]
      intro x hx
      rcases List.mem_append.1 hx with hx | hx
      · exact Nat.lt_succ_of_lt (hold x hx)
      · rw [List.mem_singleton.1 hx]; exact Nat.lt_succ_self _
    obtain ⟨ih1, ih2, ih3, ih4⟩ := ih w1 hrest hold1
    have hunf : addConfiguredHandlers k (hf :: rest) w =
        ({ hf with inst := some h0 } :: (addConfiguredHandlers k rest w1).1, (addConfiguredHandlers k rest w1).2) := by
      rw [addConfiguredHandlers, lgs_handler_call_fresh hf w hf0]
    rw [hunf]
    refine ⟨?_, ?_, ?_, ?_⟩
    · simp only [filledFactories, ih1, hw1n, h0]
    · simp only [ih2, hw1n, List.length_cons]; omega
    · intro _
      by_cases hr : rest = []
      · subst hr
        simp only [addConfiguredHandlers, newHandlers]
        exact hw1k
      · simp only [ih3 hr, hw1k, hw1n, newHandlers, List.append_assoc, List.singleton_append, h0]
    · intro k' hk'
      simp only [ih4 k' hk']
      exact lgs_addHandler_other _ hk' h0

/-! #### logger factories -/

/-- a logger factory as it comes out of the configuration loader: nothing has been called yet -/
def LoggerFactory.Fresh (f : LoggerFactory) : Prop := f.inst = none ∧ ∀ hf ∈ f.handlerFactories, hf.inst = none

instance (f : LoggerFactory) : Decidable f.Fresh := by unfold LoggerFactory.Fresh; infer_instance

theorem lgs_eventLogFactoryOf_fresh (level : Int) (handlers : List HandlerCfg) : (eventLogFactoryOf level handlers).Fresh := by
  refine ⟨rfl, ?_⟩
  intro hf hm
  simp only [eventLogFactoryOf, List.mem_map] at hm
  obtain ⟨c, _, rfl⟩ := hm
  rfl

theorem lgs_loggerFactoryOf_fresh (name : Option Str) (level : Int) (propagate : Bool) (handlers : List HandlerCfg) :
    (loggerFactoryOf name level propagate handlers).Fresh := by
  refine ⟨rfl, ?_⟩
  intro hf hm
  simp only [loggerFactoryOf, List.mem_map] at hm
  obtain ⟨c, _, rfl⟩ := hm
  rfl

/-- the handlers `create` puts on the logger when every handler factory is fresh: one per handler factory in order,
    or a single `NullHandler` when there is none -/
def createdHandlers (n : Nat) (hfs : List HandlerFactory) : List Handler :=
  if hfs.isEmpty then [{ id := n, cfg := none }] else newHandlers n hfs

theorem lgs_createdHandlers_cfg (n : Nat) (hfs : List HandlerFactory) :
    (createdHandlers n hfs).map (·.cfg) = if hfs.isEmpty then [none] else hfs.map (fun hf => some hf.cfg) := by
  unfold createdHandlers
  split
  · rfl
  · exact lgs_newHandlers_cfg n hfs

theorem lgs_createdHandlers_ids (n : Nat) (hfs : List HandlerFactory) :
    (createdHandlers n hfs).map (·.id) = List.range' n (createdHandlers n hfs).length := by
  unfold createdHandlers
  split
  · rfl
  · rw [lgs_newHandlers_ids, lgs_newHandlers_length]

theorem lgs_createdHandlers_length (n : Nat) (hfs : List HandlerFactory) :
    (createdHandlers n hfs).length = if hfs.isEmpty then 1 else hfs.length := by
  unfold createdHandlers
  split
  · rfl
  · exact lgs_newHandlers_length n hfs

theorem lgs_addNullHandler (w : World) (k : Str) (hold : ∀ x ∈ (w.get k).handlers, x.id < w.nextId) :
    (addNullHandler w k).get k = ⟨(w.get k).level, (w.get k).propagate, (w.get k).handlers ++ [⟨w.nextId, none⟩]⟩ ∧
    (∀ k', k' ≠ k → (addNullHandler w k).get k' = w.get k') ∧
    (addNullHandler w k).nextId = w.nextId + 1 := by
  unfold addNullHandler
  have hb : ∀ k', (⟨w.loggers, w.nextId + 1⟩ : World).get k' = w.get k' := fun _ => rfl
  refine ⟨?_, ?_, ?_⟩
  · have hnew : ∀ x ∈ ((⟨w.loggers, w.nextId + 1⟩ : World).get k).handlers, x.id ≠ (⟨w.nextId, none⟩ : Handler).id :=
      fun x hx => Nat.ne_of_lt (hold x hx)
    rw [lgs_addHandler_new _ k _ hnew, hb]
  · intro k' hk'
    rw [lgs_addHandler_other _ hk', hb]
  · rw [lgs_addHandler_nextId]

/-- `LoggerFactoryBase.create` with fresh handler factories, on a logger all of whose handlers are older than `nextId` -/
theorem lgs_baseCreate_fresh (f : LoggerFactory) (w : World) (hfresh : ∀ hf ∈ f.handlerFactories, hf.inst = none)
    (hold : ∀ x ∈ (w.get (loggerKey f.name)).handlers, x.id < w.nextId) :
    (f.baseCreate w).1 = loggerKey f.name ∧
    (f.baseCreate w).2.1 = { f with handlerFactories := filledFactories w.nextId f.handlerFactories } ∧
    (f.baseCreate w).2.2.get (loggerKey f.name) =
      ⟨f.level, (w.get (loggerKey f.name)).propagate,
        (w.get (loggerKey f.name)).handlers ++ createdHandlers w.nextId f.handlerFactories⟩ ∧
    (∀ k', k' ≠ loggerKey f.name → (f.baseCreate w).2.2.get k' = w.get k') ∧
    (f.baseCreate w).2.2.nextId = w.nextId + (createdHandlers w.nextId f.handlerFactories).length := by
  generalize hk : loggerKey f.name = k at hold ⊢
  have hw1k : (setLevel w k f.level).get k = ⟨f.level, (w.get k).propagate, (w.get k).handlers⟩ := lgs_setLevel_get w k f.level
  have hold1 : ∀ x ∈ ((setLevel w k f.level).get k).handlers, x.id < (setLevel w k f.level).nextId := by
    rw [hw1k]; exact hold
  unfold LoggerFactory.baseCreate createdHandlers
  simp only [hk]
  by_cases he : f.handlerFactories.isEmpty = true
  · -- no handler configured: a NullHandler
    have hnil : f.handlerFactories = [] := List.isEmpty_iff.1 he
    obtain ⟨hA, hB, hC⟩ := lgs_addNullHandler (setLevel w k f.level) k hold1
    rw [hw1k, lgs_setLevel_nextId] at hA
    rw [lgs_setLevel_nextId] at hC
    simp only [he, ↓reduceIte]
    refine ⟨trivial, ?_, hA, ?_, hC⟩
    · clear hA hB hC hold1 hw1k hold hk he hfresh
      cases f
      simp only at hnil
      subst hnil
      rfl
    · intro k' hk'
      rw [hB k' hk', lgs_setLevel_other w hk']
  · have hne : f.handlerFactories ≠ [] := fun h => he (List.isEmpty_iff.2 h)
    obtain ⟨h1, h2, h3, h4⟩ := lgs_addConfigured_fresh k f.handlerFactories (setLevel w k f.level) hfresh hold1
    have h3' := h3 hne
    rw [hw1k] at h3'
    rw [lgs_setLevel_nextId] at h1 h2 h3'
    simp only [he, Bool.false_eq_true, ↓reduceIte]
    refine ⟨trivial, ?_, h3', ?_, ?_⟩
    · rw [h1]
    · intro k' hk'
      rw [h4 k' hk', lgs_setLevel_other w hk']
    · rw [h2, lgs_newHandlers_length]

/-- `create` of a logger factory with fresh handler factories, on a logger all of whose handlers are older than `nextId` -/
theorem lgs_create_fresh (f : LoggerFactory) (w : World) (hfresh : ∀ hf ∈ f.handlerFactories, hf.inst = none)
    (hold : ∀ x ∈ (w.get (loggerKey f.name)).handlers, x.id < w.nextId) :
    (f.create w).1 = loggerKey f.name ∧
    (f.create w).2.1 = { f with handlerFactories := filledFactories w.nextId f.handlerFactories } ∧
    (f.create w).2.2.get (loggerKey f.name) =
      ⟨f.level, (f.propagate.getD (w.get (loggerKey f.name)).propagate),
        (w.get (loggerKey f.name)).handlers ++ createdHandlers w.nextId f.handlerFactories⟩ ∧
    (∀ k', k' ≠ loggerKey f.name → (f.create w).2.2.get k' = w.get k') ∧
    (f.create w).2.2.nextId = w.nextId + (createdHandlers w.nextId f.handlerFactories).length := by
  obtain ⟨h1, h2, h3, h4, h5⟩ := lgs_baseCreate_fresh f w hfresh hold
  unfold LoggerFactory.create
  cases hp : f.propagate with
  | none => exact ⟨h1, by rw [h2, hp], h3, h4, h5⟩
  | some p =>
    simp only
    refine ⟨h1, by rw [h2, hp], ?_, ?_, ?_⟩
    · rw [h1, lgs_setPropagate_get, h3]; rfl
    · intro k' hk'
      rw [h1, lgs_setPropagate_other _ hk', h4 k' hk']
    · rw [lgs_setPropagate_nextId, h5]

/-! #### calling logger factories -/

/-- calling a logger factory a second time returns the same logger and changes neither the factory nor the world -/
theorem lgs_call_idem (f : LoggerFactory) (w : World) : (f.call w).2.1.call (f.call w).2.2 = f.call w :=
  lgs_factoryCall_idem (F := LoggerFactory) (·.inst) (fun f n => { f with inst := some n }) LoggerFactory.create
    (fun _ _ => rfl) f w

theorem lgs_call_inst (f : LoggerFactory) (w : World) : (f.call w).2.1.inst = some (f.call w).1 :=
  lgs_factoryCall_inst (F := LoggerFactory) (·.inst) (fun f n => { f with inst := some n }) LoggerFactory.create
    (fun _ _ => rfl) f w

theorem lgs_handler_call_idem (hf : HandlerFactory) (w : World) : (hf.call w).2.1.call (hf.call w).2.2 = hf.call w :=
  lgs_factoryCall_idem (F := HandlerFactory) (·.inst) (fun hf h => { hf with inst := some h }) HandlerFactory.create
    (fun _ _ => rfl) hf w

theorem lgs_call_called (f : LoggerFactory) (w : World) (n : Str) (h : f.inst = some n) : f.call w = (n, f, w) :=
  lgs_factoryCall_some _ _ _ f w n h

theorem lgs_call_fresh (f : LoggerFactory) (w : World) (h : f.inst = none) :
    f.call w = ((f.create w).1, { (f.create w).2.1 with inst := some (f.create w).1 }, (f.create w).2.2) :=
  lgs_factoryCall_none _ _ _ f w h

/-- every handler on every logger was allocated before `nextId` -/
def World.WF (w : World) : Prop := ∀ k, ∀ x ∈ (w.get k).handlers, x.id < w.nextId

theorem lgs_wf_empty (n : Nat) : World.WF ⟨[], n⟩ := by
  intro k x hx
  simp [World.get, List.lookup, freshLogger] at hx

theorem lgs_mem_createdHandlers {n : Nat} {hfs : List HandlerFactory} {x : Handler} (hx : x ∈ createdHandlers n hfs) :
    n ≤ x.id ∧ x.id < n + (createdHandlers n hfs).length := by
  have : x.id ∈ (createdHandlers n hfs).map (·.id) := List.mem_map.2 ⟨x, hx, rfl⟩
  rw [lgs_createdHandlers_ids, List.mem_range'_1] at this
  exact this

/-- calling a fresh logger factory in a well-formed world: the complete description of the result -/
theorem lgs_call_fresh_wf (f : LoggerFactory) (w : World) (hf : f.Fresh) (hw : w.WF) :
    (f.call w).1 = loggerKey f.name ∧
    (f.call w).2.1 = { f with handlerFactories := filledFactories w.nextId f.handlerFactories, inst := some (loggerKey f.name) } ∧
    (f.call w).2.2.get (loggerKey f.name) =
      ⟨f.level, (f.propagate.getD (w.get (loggerKey f.name)).propagate),
        (w.get (loggerKey f.name)).handlers ++ createdHandlers w.nextId f.handlerFactories⟩ ∧
    (∀ k', k' ≠ loggerKey f.name → (f.call w).2.2.get k' = w.get k') ∧
    (f.call w).2.2.nextId = w.nextId + (createdHandlers w.nextId f.handlerFactories).length ∧
    (f.call w).2.2.WF := by
  obtain ⟨h1, h2, h3, h4, h5⟩ := lgs_create_fresh f w hf.2 (hw _)
  rw [lgs_call_fresh f w hf.1]
  refine ⟨h1, ?_, h3, h4, h5, ?_⟩
  · simp only [h1, h2]
  · intro k x hx
    simp only at hx ⊢
    rw [h5]
    by_cases hk : k = loggerKey f.name
    · subst hk
      rw [h3] at hx
      rcases List.mem_append.1 hx with hx | hx
      · exact Nat.lt_of_lt_of_le (hw _ x hx) (Nat.le_add_right _ _)
      · exact (lgs_mem_createdHandlers hx).2
    · rw [h4 k hk] at hx
      exact Nat.lt_of_lt_of_le (hw _ x hx) (Nat.le_add_right _ _)

end ZCV.LogSetup
