import ZCV.Spec.Nesting
/-!
Combinatorics behind C03's nesting clause, independent of the parser model: the stack discipline (`mstep`/`mrun`,
the abstract form of what `start_section`/`end_section` do) recognises exactly the listings of forests
(`Nesting.flatten`), emits `Nesting.events`, and gets stuck exactly where a beginning stops being completable.
-/
namespace ZCV.Nesting
open ZCV ZCV.Grammar

/-- an open section: the type and name of its opener -/
abbrev Frame := Str × Option Str

/-- the stack discipline on one classified line: the new stack of open sections and the events delivered;
    `none` = rejected -/
def mstep (S : List Frame) : Shape → Option (List Frame × List Ev)
  | .kv k v => some (S, [.value k v])
  | .import_ a => some (S, [.imp (strip a)])
  | .open_ ty nm true => some (S, [.start ty nm, .stop ty nm])
  | .open_ ty nm false => some ((ty, nm) :: S, [.start ty nm])
  | .close ty =>
    match S with
    | [] => none
    | (ot, nm) :: S' => if ty = ot then some (S', [.stop ty nm]) else none
  | _ => none

/-- … on a sequence of classified lines -/
def mrun : List Frame → List Shape → Option (List Frame × List Ev)
  | S, [] => some (S, [])
  | S, x :: s => (mstep S x).bind fun p => (mrun p.1 s).map fun q => (q.1, p.2 ++ q.2)

theorem mrun_nil (S : List Frame) : mrun S [] = some (S, []) := rfl

theorem mrun_cons (S : List Frame) (x : Shape) (s : List Shape) :
    mrun S (x :: s) = (mstep S x).bind fun p => (mrun p.1 s).map fun q => (q.1, p.2 ++ q.2) := rfl

theorem mrun_append : ∀ (a b : List Shape) (S : List Frame),
    mrun S (a ++ b) = (mrun S a).bind fun p => (mrun p.1 b).map fun q => (q.1, p.2 ++ q.2) := by
  intro a
  induction a with
  | nil =>
    intro b S
    simp only [List.nil_append, mrun_nil, Option.bind_some, List.nil_append]
    cases mrun S b <;> rfl
  | cons x a ih =>
    intro b S
    simp only [List.cons_append, mrun_cons]
    cases mstep S x with
    | none => rfl
    | some p =>
      simp only [Option.bind_some, ih]
      cases mrun p.1 a with
      | none => rfl
      | some q =>
        simp only [Option.bind_some, Option.map_some]
        cases mrun q.1 b with
        | none => rfl
        | some r => simp only [Option.map_some, List.append_assoc]

/-! ### a forest runs through, leaves the stack as it was and emits its events -/

mutual
theorem mrun_flattenNode : ∀ (n : Node) (S : List Frame) (r : List Shape),
    mrun S (flattenNode n ++ r) = (mrun S r).map fun q => (q.1, eventsNode n ++ q.2)
  | .kv k v, S, r => by
    simp only [flattenNode, eventsNode, List.cons_append, List.nil_append, mrun_cons, mstep, Option.bind_some]
  | .imp a, S, r => by
    simp only [flattenNode, eventsNode, List.cons_append, List.nil_append, mrun_cons, mstep, Option.bind_some]
  | .esect ty nm, S, r => by
    simp only [flattenNode, eventsNode, List.cons_append, List.nil_append, mrun_cons, mstep, Option.bind_some]
  | .sect ty nm body, S, r => by
    simp only [flattenNode, eventsNode, List.cons_append, List.append_assoc, List.nil_append, mrun_cons, mstep,
      Option.bind_some]
    rw [mrun_flatten body ((ty, nm) :: S) (.close ty :: r)]
    simp only [mrun_cons, mstep, if_true, Option.bind_some]
    cases mrun S r with
    | none => rfl
    | some q => simp only [Option.map_some, List.cons_append, List.nil_append]
theorem mrun_flatten : ∀ (t : List Node) (S : List Frame) (r : List Shape),
    mrun S (flatten t ++ r) = (mrun S r).map fun q => (q.1, events t ++ q.2)
  | [], S, r => by
    simp only [flatten, events, List.nil_append]
    cases mrun S r <;> rfl
  | n :: t, S, r => by
    simp only [flatten, events, List.append_assoc]
    rw [mrun_flattenNode n S (flatten t ++ r), mrun_flatten t S r]
    cases mrun S r with
    | none => rfl
    | some q => simp only [Option.map_some]
end

theorem mrun_flatten_nil (t : List Node) (S : List Frame) : mrun S (flatten t) = some (S, events t) := by
  have := mrun_flatten t S []
  simpa only [List.append_nil, mrun_nil, Option.map_some] using this

/-! ### what the stack discipline lets through is the listing of a forest -/

/-- `Rest S s`: `s` closes the open sections `S` (innermost first) in order, with whole items in between -/
inductive Rest : List Frame → List Shape → Prop
  | nil : Rest [] []
  | node (n : Node) {S : List Frame} {s : List Shape} : Rest S s → Rest S (flattenNode n ++ s)
  | close (ty : Str) (nm : Option Str) {S : List Frame} {s : List Shape} : Rest S s → Rest ((ty, nm) :: S) (.close ty :: s)

theorem Rest.flatten (t : List Node) {S : List Frame} {s : List Shape} (h : Rest S s) : Rest S (flatten t ++ s) := by
  induction t with
  | nil => exact h
  | cons n t ih =>
    simp only [Nesting.flatten, List.append_assoc]
    exact Rest.node n ih

theorem rest_nil_nested {s : List Shape} (h : Rest [] s) : Nested s := by
  generalize hS : ([] : List Frame) = S at h
  induction h with
  | nil => exact ⟨[], rfl⟩
  | node n _ ih =>
    obtain ⟨t, rfl⟩ := ih hS
    exact ⟨n :: t, rfl⟩
  | close ty nm _ _ => cases hS

theorem nested_rest_nil {s : List Shape} (h : Nested s) : Rest [] s := by
  obtain ⟨t, rfl⟩ := h
  have := Rest.flatten t Rest.nil
  simpa only [List.append_nil] using this

theorem rest_cons_inv {ty : Str} {nm : Option Str} {S : List Frame} {s : List Shape} (h : Rest ((ty, nm) :: S) s) :
    ∃ body s', s = flatten body ++ .close ty :: s' ∧ Rest S s' := by
  generalize hS : (ty, nm) :: S = S0 at h
  induction h with
  | nil => cases hS
  | node n _ ih =>
    obtain ⟨body, s', rfl, h'⟩ := ih hS
    exact ⟨n :: body, s', by simp only [flatten, List.append_assoc], h'⟩
  | close ty' nm' h' _ =>
    cases hS
    exact ⟨[], _, rfl, h'⟩

theorem rest_open {ty : Str} {nm : Option Str} {S : List Frame} {s : List Shape} (h : Rest ((ty, nm) :: S) s) :
    Rest S (.open_ ty nm false :: s) := by
  obtain ⟨body, s', rfl, h'⟩ := rest_cons_inv h
  have := Rest.node (.sect ty nm body) h'
  simpa only [flattenNode, List.cons_append, List.append_assoc, List.nil_append] using this

theorem mrun_rest : ∀ (s : List Shape) (S : List Frame) (E : List Ev), mrun S s = some ([], E) → Rest S s := by
  intro s
  induction s with
  | nil =>
    intro S E h
    simp only [mrun_nil, Option.some.injEq, Prod.mk.injEq] at h
    rw [h.1]
    exact Rest.nil
  | cons x s ih =>
    intro S E h
    rw [mrun_cons] at h
    cases hx : mstep S x with
    | none => rw [hx] at h; cases h
    | some p =>
      rw [hx, Option.bind_some] at h
      cases hr : mrun p.1 s with
      | none => rw [hr] at h; cases h
      | some q =>
        rw [hr, Option.map_some] at h
        simp only [Option.some.injEq, Prod.mk.injEq] at h
        have hq : mrun p.1 s = some ([], q.2) := by rw [hr, ← h.1]
        have hrest := ih _ _ hq
        cases x with
        | kv k v =>
          simp only [mstep, Option.some.injEq] at hx
          rw [← hx] at hrest
          exact Rest.node (.kv k v) hrest
        | import_ a =>
          simp only [mstep, Option.some.injEq] at hx
          rw [← hx] at hrest
          exact Rest.node (.imp a) hrest
        | open_ ty nm e =>
          cases e with
          | true =>
            simp only [mstep, Option.some.injEq] at hx
            rw [← hx] at hrest
            exact Rest.node (.esect ty nm) hrest
          | false =>
            simp only [mstep, Option.some.injEq] at hx
            rw [← hx] at hrest
            exact rest_open hrest
        | close ty =>
          cases S with
          | nil => simp only [mstep] at hx; cases hx
          | cons f S' =>
            obtain ⟨ot, nm⟩ := f
            simp only [mstep] at hx
            split at hx
            · rename_i hty
              simp only [Option.some.injEq] at hx
              rw [← hx] at hrest
              rw [← hty]
              exact Rest.close ty nm hrest
            · cases hx
        | skip => simp only [mstep] at hx; cases hx
        | define a => simp only [mstep] at hx; cases hx
        | include_ a => simp only [mstep] at hx; cases hx
        | bad => simp only [mstep] at hx; cases hx

/-- the stack discipline ends with every section closed exactly on the listings of forests -/
theorem nested_iff_mrun (s : List Shape) : Nested s ↔ ∃ E, mrun [] s = some ([], E) := by
  constructor
  · rintro ⟨t, rfl⟩
    exact ⟨_, mrun_flatten_nil t []⟩
  · rintro ⟨E, h⟩
    exact rest_nil_nested (mrun_rest s [] E h)

/-- the same, in a form that can be evaluated -/
theorem nested_iff_mrun_fst (s : List Shape) : Nested s ↔ (mrun [] s).map Prod.fst = some [] := by
  rw [nested_iff_mrun]
  cases mrun [] s with
  | none => simp only [reduceCtorEq, exists_false, Option.map_none]
  | some p =>
    obtain ⟨S, E⟩ := p
    simp only [Option.some.injEq, Prod.mk.injEq, Option.map_some]
    exact ⟨fun ⟨_, h, _⟩ => h, fun h => ⟨E, h, rfl⟩⟩

/-- what the discipline emits on a listing is the pre-order event list of the forest -/
theorem mrun_nested_events {s : List Shape} {t : List Node} {S : List Frame} {E : List Ev}
    (hs : s = flatten t) (h : mrun [] s = some (S, E)) : S = [] ∧ E = events t := by
  rw [hs, mrun_flatten_nil] at h
  simp only [Option.some.injEq, Prod.mk.injEq] at h
  exact ⟨h.1.symm, h.2.symm⟩

/-! ### completable beginnings = the discipline has not got stuck -/

/-- the closers still owed -/
def closes (S : List Frame) : List Shape := S.map fun f => .close f.1

theorem mrun_closes : ∀ (S : List Frame), ∃ E, mrun S (closes S) = some ([], E) := by
  intro S
  induction S with
  | nil => exact ⟨[], rfl⟩
  | cons f S ih =>
    obtain ⟨ty, nm⟩ := f
    obtain ⟨E, hE⟩ := ih
    refine ⟨[.stop ty nm] ++ E, ?_⟩
    simp only [closes, List.map_cons, mrun_cons, mstep, if_true, Option.bind_some]
    simp only [closes] at hE
    rw [hE]
    rfl

theorem completable_iff_mrun (s : List Shape) : Completable s ↔ (mrun [] s).isSome = true := by
  constructor
  · rintro ⟨rest, t, ht⟩
    have h := mrun_flatten_nil t []
    rw [← ht, mrun_append] at h
    cases hm : mrun [] s with
    | none => rw [hm] at h; cases h
    | some p => rfl
  · intro h
    cases hm : mrun [] s with
    | none => rw [hm] at h; cases h
    | some p =>
      obtain ⟨E, hE⟩ := mrun_closes p.1
      refine ⟨closes p.1, ?_⟩
      rw [nested_iff_mrun]
      refine ⟨p.2 ++ E, ?_⟩
      rw [mrun_append, hm, Option.bind_some, hE]
      rfl

/-- a beginning of a completable beginning is completable -/
theorem completable_prefix (a b : List Shape) (h : Completable (a ++ b)) : Completable a := by
  obtain ⟨rest, hn⟩ := h
  exact ⟨b ++ rest, by rw [← List.append_assoc]; exact hn⟩

theorem completable_nil : Completable [] := ⟨[], [], rfl⟩

theorem nested_completable {s : List Shape} (h : Nested s) : Completable s := ⟨[], by rw [List.append_nil]; exact h⟩

/-! ### which line breaks a completable beginning -/

theorem flatten_append (t u : List Node) : flatten (t ++ u) = flatten t ++ flatten u := by
  induction t with
  | nil => rfl
  | cons n t ih => simp only [List.cons_append, flatten, ih, List.append_assoc]

/-- `Pre S s`: the beginning `s` is whole items and, for each section of `S` (innermost first), its opener followed by
    whole items -/
inductive Pre : List Frame → List Shape → Prop
  | nil (t : List Node) : Pre [] (flatten t)
  | open_ (ty : Str) (nm : Option Str) (body : List Node) {S : List Frame} {pre : List Shape} :
      Pre S pre → Pre ((ty, nm) :: S) (pre ++ .open_ ty nm false :: flatten body)

theorem Pre.append_flatten {S : List Frame} {s : List Shape} (h : Pre S s) (u : List Node) : Pre S (s ++ flatten u) := by
  cases h with
  | nil t => rw [← flatten_append]; exact Pre.nil _
  | open_ ty nm body h' =>
    rw [List.append_assoc, List.cons_append, ← flatten_append]
    exact Pre.open_ ty nm _ h'

theorem pre_step {S0 S1 : List Frame} {pre : List Shape} {x : Shape} {E1 : List Ev} (h : Pre S0 pre)
    (hx : mstep S0 x = some (S1, E1)) : Pre S1 (pre ++ [x]) := by
  cases x with
  | kv k v =>
    simp only [mstep, Option.some.injEq, Prod.mk.injEq] at hx
    rw [← hx.1]
    exact h.append_flatten [.kv k v]
  | import_ a =>
    simp only [mstep, Option.some.injEq, Prod.mk.injEq] at hx
    rw [← hx.1]
    exact h.append_flatten [.imp a]
  | open_ ty nm e =>
    cases e with
    | true =>
      simp only [mstep, Option.some.injEq, Prod.mk.injEq] at hx
      rw [← hx.1]
      exact h.append_flatten [.esect ty nm]
    | false =>
      simp only [mstep, Option.some.injEq, Prod.mk.injEq] at hx
      rw [← hx.1]
      exact Pre.open_ ty nm [] h
  | close ty =>
    cases h with
    | nil t => simp only [mstep] at hx; cases hx
    | open_ ot nm body h' =>
      simp only [mstep] at hx
      split at hx
      · rename_i hty
        simp only [Option.some.injEq, Prod.mk.injEq] at hx
        rw [← hx.1, hty]
        have := h'.append_flatten [.sect ot nm body]
        simpa only [flatten, flattenNode, List.append_nil, List.append_assoc, List.cons_append] using this
      · cases hx
  | skip => simp only [mstep] at hx; cases hx
  | define a => simp only [mstep] at hx; cases hx
  | include_ a => simp only [mstep] at hx; cases hx
  | bad => simp only [mstep] at hx; cases hx

theorem mrun_pre_gen : ∀ (s : List Shape) (S0 S : List Frame) (E : List Ev) (pre : List Shape),
    Pre S0 pre → mrun S0 s = some (S, E) → Pre S (pre ++ s) := by
  intro s
  induction s with
  | nil =>
    intro S0 S E pre hp h
    simp only [mrun_nil, Option.some.injEq, Prod.mk.injEq] at h
    rw [List.append_nil, ← h.1]
    exact hp
  | cons x s ih =>
    intro S0 S E pre hp h
    rw [mrun_cons] at h
    cases hx : mstep S0 x with
    | none => rw [hx] at h; cases h
    | some p =>
      obtain ⟨S1, E1⟩ := p
      rw [hx, Option.bind_some] at h
      cases hr : mrun S1 s with
      | none => rw [hr] at h; cases h
      | some q =>
        rw [hr, Option.map_some] at h
        simp only [Option.some.injEq, Prod.mk.injEq] at h
        have := ih S1 q.1 q.2 (pre ++ [x]) (pre_step hp hx) hr
        rw [List.append_assoc, List.singleton_append, h.1] at this
        exact this

/-- the open sections the discipline holds after a beginning are the openers not yet closed in it -/
theorem mrun_pre {s : List Shape} {S : List Frame} {E : List Ev} (h : mrun [] s = some (S, E)) : Pre S s := by
  have := mrun_pre_gen s [] S E [] (Pre.nil []) h
  simpa only [List.nil_append] using this

/-- key/value lines, `%import` lines and section openers (both spellings) never break a completable beginning -/
theorem completable_snoc_item {s : List Shape} (x : Shape) (h : Completable s)
    (hx : (∃ k v, x = .kv k v) ∨ (∃ a, x = .import_ a) ∨ (∃ ty nm e, x = .open_ ty nm e)) : Completable (s ++ [x]) := by
  rw [completable_iff_mrun] at h ⊢
  rw [mrun_append]
  cases hm : mrun [] s with
  | none => rw [hm] at h; cases h
  | some p =>
    rw [Option.bind_some, mrun_cons]
    rcases hx with ⟨k, v, rfl⟩ | ⟨a, rfl⟩ | ⟨ty, nm, e, rfl⟩
    · rfl
    · rfl
    · cases e <;> rfl

/-- a line of no documented shape, a `%define`, an `%include` (or a skipped line, were it listed) is never part of a
    listing: it breaks every beginning -/
theorem not_completable_snoc_bad (s : List Shape) (x : Shape)
    (hx : x = .bad ∨ x = .skip ∨ (∃ a, x = .define a) ∨ (∃ a, x = .include_ a)) : ¬ Completable (s ++ [x]) := by
  rw [completable_iff_mrun, mrun_append]
  cases hm : mrun [] s with
  | none => exact fun h => by cases h
  | some p =>
    rw [Option.bind_some, mrun_cons]
    rcases hx with rfl | rfl | ⟨a, rfl⟩ | ⟨a, rfl⟩ <;> exact fun h => by cases h

/-- a closer keeps a beginning completable exactly when it names the innermost section still open: the beginning is a
    completable beginning, then an opener of that type, then whole items -/
theorem completable_snoc_close (s : List Shape) (ty : Str) :
    Completable (s ++ [.close ty]) ↔
      ∃ pre nm body, s = pre ++ .open_ ty nm false :: flatten body ∧ Completable pre := by
  constructor
  · intro h
    rw [completable_iff_mrun, mrun_append] at h
    cases hm : mrun [] s with
    | none => rw [hm] at h; cases h
    | some p =>
      obtain ⟨S, E⟩ := p
      rw [hm, Option.bind_some, mrun_cons] at h
      have hp := mrun_pre hm
      cases hp with
      | nil t => cases h
      | open_ ot nm body h' =>
        rename_i S' pre
        simp only [mstep] at h
        by_cases hty : ty = ot
        · subst hty
          refine ⟨pre, nm, body, rfl, ?_⟩
          rw [completable_iff_mrun]
          rw [mrun_append] at hm
          cases hq : mrun [] pre with
          | none => rw [hq] at hm; cases hm
          | some q => rfl
        · rw [if_neg hty] at h; cases h
  · rintro ⟨pre, nm, body, rfl, h⟩
    rw [completable_iff_mrun] at h ⊢
    cases hm : mrun [] pre with
    | none => rw [hm] at h; cases h
    | some p =>
      have e : pre ++ .open_ ty nm false :: flatten body ++ [.close ty] = pre ++ (flattenNode (.sect ty nm body) ++ []) := by
        simp only [flattenNode, List.append_assoc, List.cons_append, List.append_nil]
      rw [e, mrun_append, hm, Option.bind_some, mrun_flattenNode]
      rfl

/-- completable to the end but not nested: a section is left open -/
theorem completable_not_nested (s : List Shape) (h : Completable s) (hn : ¬ Nested s) :
    ∃ pre ty nm body, s = pre ++ .open_ ty nm false :: flatten body ∧ Completable pre := by
  rw [completable_iff_mrun] at h
  cases hm : mrun [] s with
  | none => rw [hm] at h; cases h
  | some p =>
    obtain ⟨S, E⟩ := p
    have hp := mrun_pre hm
    cases hp with
    | nil t => exact absurd ⟨t, rfl⟩ hn
    | open_ ty nm body h' =>
      rename_i S' pre
      refine ⟨pre, ty, nm, body, rfl, ?_⟩
      rw [completable_iff_mrun]
      rw [mrun_append] at hm
      cases hq : mrun [] pre with
      | none => rw [hq] at hm; cases hm
      | some q => rfl

/-! ### a listing determines its forest -/

/-- what may follow a forest inside a listing: nothing, or a closer -/
def Tail (r : List Shape) : Prop := r = [] ∨ ∃ ty r0, r = .close ty :: r0

theorem flattenNode_head (n : Node) : ∃ x r, flattenNode n = x :: r ∧ ∀ ty, x ≠ .close ty := by
  cases n with
  | kv k v => exact ⟨_, _, rfl, fun _ h => by cases h⟩
  | sect ty nm body => exact ⟨_, _, rfl, fun _ h => by cases h⟩
  | esect ty nm => exact ⟨_, _, rfl, fun _ h => by cases h⟩
  | imp a => exact ⟨_, _, rfl, fun _ h => by cases h⟩

theorem tail_ne_node {r : List Shape} (hr : Tail r) (n : Node) (u : List Shape) : r ≠ flattenNode n ++ u := by
  obtain ⟨x, w, hx, hne⟩ := flattenNode_head n
  rw [hx]
  rcases hr with rfl | ⟨ty, r0, rfl⟩
  · intro h; cases h
  · intro h
    simp only [List.cons_append, List.cons.injEq] at h
    exact hne ty h.1.symm

mutual
theorem flattenNode_inj : ∀ (n n' : Node) (r r' : List Shape),
    flattenNode n ++ r = flattenNode n' ++ r' → n = n' ∧ r = r'
  | .kv k v, n', r, r', h => by
    cases n' <;> simp only [flattenNode, List.cons_append, List.nil_append, List.cons.injEq, reduceCtorEq, false_and] at h
    obtain ⟨h1, h2⟩ := h
    cases h1
    exact ⟨rfl, h2⟩
  | .imp a, n', r, r', h => by
    cases n' <;> simp only [flattenNode, List.cons_append, List.nil_append, List.cons.injEq, reduceCtorEq, false_and] at h
    obtain ⟨h1, h2⟩ := h
    cases h1
    exact ⟨rfl, h2⟩
  | .esect ty nm, n', r, r', h => by
    cases n' <;> simp only [flattenNode, List.cons_append, List.nil_append, List.cons.injEq, reduceCtorEq, false_and,
      Shape.open_.injEq, and_false] at h
    obtain ⟨⟨h1, h2, _⟩, h3⟩ := h
    subst h1 h2
    exact ⟨rfl, h3⟩
  | .sect ty nm body, n', r, r', h => by
    cases n' with
    | kv k v => simp only [flattenNode, List.cons_append, List.cons.injEq, reduceCtorEq, false_and] at h
    | imp a => simp only [flattenNode, List.cons_append, List.cons.injEq, reduceCtorEq, false_and] at h
    | esect ty' nm' =>
      simp only [flattenNode, List.cons_append, List.cons.injEq, Shape.open_.injEq, reduceCtorEq, and_false, false_and] at h
    | sect ty' nm' body' =>
      simp only [flattenNode, List.cons_append, List.append_assoc, List.nil_append, List.cons.injEq, Shape.open_.injEq,
        and_true] at h
      obtain ⟨⟨h1, h2⟩, h3⟩ := h
      subst h1 h2
      obtain ⟨hb, hr⟩ := flatten_inj body body' (.close ty :: r) (.close ty :: r') (Or.inr ⟨_, _, rfl⟩) (Or.inr ⟨_, _, rfl⟩) h3
      subst hb
      simp only [List.cons.injEq, true_and] at hr
      exact ⟨rfl, hr⟩
theorem flatten_inj : ∀ (t t' : List Node) (r r' : List Shape), Tail r → Tail r' →
    flatten t ++ r = flatten t' ++ r' → t = t' ∧ r = r'
  | [], [], r, r', _, _, h => ⟨rfl, h⟩
  | [], n' :: t', r, r', hr, _, h => by
    simp only [flatten, List.nil_append, List.append_assoc] at h
    exact absurd h (tail_ne_node hr n' _)
  | n :: t, [], r, r', _, hr', h => by
    simp only [flatten, List.nil_append, List.append_assoc] at h
    exact absurd h.symm (tail_ne_node hr' n _)
  | n :: t, n' :: t', r, r', hr, hr', h => by
    simp only [flatten, List.append_assoc] at h
    obtain ⟨hn, h2⟩ := flattenNode_inj n n' _ _ h
    obtain ⟨ht, h3⟩ := flatten_inj t t' r r' hr hr' h2
    subst hn ht
    exact ⟨rfl, h3⟩
end

/-- `flatten` is injective: a properly nested text has exactly one tree -/
theorem flatten_injective {t t' : List Node} (h : flatten t = flatten t') : t = t' := by
  have := flatten_inj t t' [] [] (Or.inl rfl) (Or.inl rfl) (by simpa only [List.append_nil] using h)
  exact this.1

end ZCV.Nesting
