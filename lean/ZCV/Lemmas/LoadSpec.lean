import ZCV.Model.TreeLoad
import ZCV.Lemmas.Misc
import ZCV.Lemmas.Except
import ZCV.Lemmas.LoadTree
/-! The loader computes exactly the value the schema defines, and accepts exactly the conforming trees. -/
namespace ZCV.Conf
open ZCV ZCV.Cfg

/-- **C01 + C02 in one equation**: for every well-formed schema, every datatype family and every tree (any size, any
    nesting depth, any number of simultaneous faults): the loader returns a configuration iff the tree conforms, and
    then it returns exactly the value the schema defines. -/
theorem loadTree_eq_denote (conv : Conv) (s : Schema) (items : List Item)
    (hs : schemaOK s = true) (ht : tyCanon s items = true) :
    (loadTree conv s items).toOption = denote conv s items := by
  have hTop : STypeOK s s.top := by
    unfold schemaOK at hs
    simp only [Bool.and_eq_true] at hs
    exact stypeOK_prop s s.top hs.1.1
  have hP := pItems conv s hs items ht s.top none hTop
  unfold evalContainer at hP
  unfold loadTree denote
  simp only
  have hrun := runItems_eval conv s items
    { schema := s, privateSchema := false, handlers := [], stack := [newMatcher s.top none none],
      pkgs := fun _ => .notImportable, conv := conv } (newMatcher s.top none none) [] rfl rfl rfl rfl
  cases hev : evalItems conv s (newMatcher s.top none none) items with
  | error e =>
    rw [hev] at hrun hP
    obtain ⟨e', he'⟩ := hrun
    rw [he']
    simp only [toOption_error] at hP ⊢
    rw [← hP]
  | ok m' =>
    rw [hev] at hrun hP
    obtain ⟨_, hs', hr⟩ := hrun
    rw [hr]
    simp only [withTop] at hP ⊢
    cases hfin : finishMatcher conv s m' with
    | error e =>
      rw [hfin] at hP
      simp only [Except.map, toOption_error] at hP ⊢
      rw [← hP]
    | ok vh =>
      obtain ⟨v, hh⟩ := vh
      rw [hfin] at hP
      simp only [Except.map, toOption_ok] at hP ⊢
      rw [← hP]
      simp only
      cases conv.sect s.top.datatype v <;> rfl

end ZCV.Conf
