import ZCV.Lemmas.ImportLoadGrow
import ZCV.Lemmas.ImportLoadReplay
/-!
The tree-driven loader on top-level items with `%import`s (`loadTops`) against the declarative `denoteI`:

* `runTops_eval` — the loader seen from the top matcher and the schema only (`evalTops`);
* `evalTops_final` — if every header names a type known at its position, evaluating the items one after the other
  against the schema in force is evaluating them all against the FINAL schema; otherwise the load fails;
* `loadTops_eq_final`, `denoteI_eq_final`, `loadTops_eq_denoteI`.
-/
namespace ZCV.Conf
open ZCV ZCV.Cfg

/-! ### the loader seen from the top matcher and the schema -/

def evalTops (conv : Conv) (pkgs : Str → Pkg) : Schema → Matcher → List TopItem → Option (Schema × Matcher)
  | s, m, [] => some (s, m)
  | s, m, .item i :: r =>
    match evalItem conv s m i with
    | .ok m' => evalTops conv pkgs s m' r
    | .error _ => none
  | s, m, .imp p :: r =>
    match extend s (pkgs p) with
    | some s' => evalTops conv pkgs s' m r
    | none => none

theorem runTops_eval (conv : Conv) (pkgs : Str → Pkg) :
    ∀ (tops : List TopItem) (st : LS) (m : Matcher), st.stack = [m] → st.conv = conv → st.pkgs = pkgs → m.bag = none →
      match evalTops conv pkgs st.schema m tops with
      | some (sF, m') => ∃ st', runTops st tops = .ok st' ∧ st'.stack = [m'] ∧ st'.schema = sF
      | none => ∃ e, runTops st tops = .error e
  | [], st, m, hst, _, _, _ => by
    rw [evalTops, runTops]
    exact ⟨st, rfl, hst, rfl⟩
  | .item i :: r, st, m, hst, hconv, hpk, hb => by
    rw [evalTops, runTops]
    have h1 := runItem_eval conv st.schema i st m [] hst rfl hconv hb
    simp only [runTop]
    cases he : evalItem conv st.schema m i with
    | error e =>
      rw [he] at h1
      obtain ⟨e', he'⟩ := h1
      rw [he']
      exact ⟨e', rfl⟩
    | ok m' =>
      rw [he] at h1
      obtain ⟨hb', hs, hr⟩ := h1
      rw [hr]
      exact runTops_eval conv pkgs r (withTop st m' [] hs) m' rfl hconv hpk hb'
  | .imp p :: r, st, m, hst, hconv, hpk, hb => by
    cases hpk
    rw [evalTops, runTops]
    simp only [runTop]
    have h1 := lsImport_toOption st p
    cases he : extend st.schema (st.pkgs p) with
    | none =>
      rw [he] at h1
      cases hi : lsImport st p with
      | error e => exact ⟨e, rfl⟩
      | ok x => rw [hi] at h1; cases h1
    | some s' =>
      rw [he] at h1
      simp only [Option.map_some] at h1
      rw [toOption_eq_some] at h1
      rw [h1]
      exact runTops_eval conv st.pkgs r { st with schema := s', privateSchema := true } m hst hconv rfl hb

/-! ### the matcher keeps its type -/

theorem imp_addValueCore_ty (m m' : Matcher) (key rk v : Str) (pos : Pos)
    (h : addValueCore m key rk v pos = .ok m') : m'.ty = m.ty := by
  unfold addValueCore at h
  split_hyp h
  all_goals first | (cases h; rfl) | cases h

theorem imp_addSection_ty (s : Schema) (m m' : Matcher) (ty : Str) (nm : Option Str) (v : Val)
    (h : addSection s m ty nm v = .ok m') : m'.ty = m.ty := by
  rw [addSection_eq] at h
  split_hyp h
  all_goals first | (cases h; rfl) | cases h

theorem evalItem_ty (conv : Conv) (s : Schema) (m m' : Matcher) (i : Item) (h : evalItem conv s m i = .ok m') :
    m'.ty = m.ty := by
  cases i with
  | kv k v p =>
    rw [evalItem] at h
    unfold addValue at h
    split at h
    · cases h
    · split at h
      · split at h
        · cases h; rfl
        · exact imp_addValueCore_ty _ _ _ _ _ _ h
      · exact imp_addValueCore_ty _ _ _ _ _ _ h
  | sect ty nm sub =>
    rw [evalItem] at h
    split at h
    · cases h
    · cases h
    · split at h
      · cases h
      · split at h
        · cases h
        · split at h
          · cases h
          · split at h
            · cases h
            · split at h
              · cases h
              · exact imp_addSection_ty _ _ _ _ _ _ h

/-! ### well-formedness along the imports -/

theorem importsOK_head (pkgs : Str → Pkg) : ∀ (tops : List TopItem) (s : Schema), importsOK pkgs s tops = true →
    schemaOK s = true
  | [], s, h => by rw [importsOK] at h; exact h
  | .item _ :: r, s, h => by rw [importsOK] at h; exact importsOK_head pkgs r s h
  | .imp p :: r, s, h => by rw [importsOK, Bool.and_eq_true] at h; exact h.1

theorem importsOK_imp (pkgs : Str → Pkg) (p : Str) (r : List TopItem) (s s1 : Schema)
    (h : importsOK pkgs s (.imp p :: r) = true) (he : extend s (pkgs p) = some s1) : importsOK pkgs s1 r = true := by
  rw [importsOK, Bool.and_eq_true, he] at h
  exact h.2

theorem importsOK_final (pkgs : Str → Pkg) : ∀ (tops : List TopItem) (s sF : Schema), importsOK pkgs s tops = true →
    extendBy pkgs s tops = some sF → schemaOK sF = true
  | [], s, sF, h, he => by rw [extendBy] at he; cases he; rw [importsOK] at h; exact h
  | .item _ :: r, s, sF, h, he => by
    rw [importsOK] at h; rw [extendBy] at he
    exact importsOK_final pkgs r s sF h he
  | .imp p :: r, s, sF, h, he => by
    rw [extendBy] at he
    cases hx : extend s (pkgs p) with
    | none => rw [hx] at he; cases he
    | some s1 =>
      rw [hx] at he
      exact importsOK_final pkgs r s1 sF (importsOK_imp pkgs p r s s1 h hx) he

/-! ### item by item against the schema in force = all items against the final schema -/

theorem evalTops_none (conv : Conv) (pkgs : Str → Pkg) : ∀ (tops : List TopItem) (s : Schema) (m : Matcher),
    extendBy pkgs s tops = none → evalTops conv pkgs s m tops = none
  | [], s, m, h => by rw [extendBy] at h; cases h
  | .item i :: r, s, m, h => by
    rw [extendBy] at h
    rw [evalTops]
    cases evalItem conv s m i with
    | error e => rfl
    | ok m' => exact evalTops_none conv pkgs r s m' h
  | .imp p :: r, s, m, h => by
    rw [extendBy] at h
    rw [evalTops]
    cases hx : extend s (pkgs p) with
    | none => rfl
    | some s1 =>
      rw [hx] at h
      exact evalTops_none conv pkgs r s1 m h

theorem evalTops_final (conv : Conv) (pkgs : Str → Pkg) (sF : Schema) :
    ∀ (tops : List TopItem) (s : Schema) (m : Matcher), importsOK pkgs s tops = true → lowTops tops = true →
      extendBy pkgs s tops = some sF → m.ty = s.top →
      evalTops conv pkgs s m tops =
        if knownAt pkgs s tops then (evalItems conv sF m (itemsOf tops)).toOption.map (fun m' => (sF, m')) else none
  | [], s, m, _, _, he, _ => by
    rw [extendBy] at he
    cases he
    rw [evalTops, knownAt, itemsOf, evalItems]
    rfl
  | .imp p :: r, s, m, hok, hl, he, hm => by
    rw [extendBy] at he
    rw [lowTops] at hl
    rw [evalTops, knownAt, itemsOf]
    cases hx : extend s (pkgs p) with
    | none => rw [hx] at he; cases he
    | some s1 =>
      rw [hx] at he
      simp only
      exact evalTops_final conv pkgs sF r s1 m (importsOK_imp pkgs p r s s1 hok hx) hl he
        (by rw [hm, (Grow_of_extend s s1 _ hx).top])
  | .item i :: r, s, m, hok, hl, he, hm => by
    have hs := importsOK_head pkgs _ s hok
    have hsF := importsOK_final pkgs _ s sF hok he
    have hg := Grow_of_extendBy pkgs _ s sF he
    rw [extendBy] at he
    rw [importsOK] at hok
    rw [lowTops, Bool.and_eq_true] at hl
    rw [evalTops, knownAt, itemsOf, evalItems]
    cases hk : knownItem s i with
    | false =>
      have := evalItem_unknown conv s i m hk
      cases hev : evalItem conv s m i with
      | error e => rfl
      | ok m' => rw [hev] at this; cases this
    | true =>
      have hTop : stypeOK s m.ty = true := by rw [hm]; exact schemaOK_top s hs
      have h1 := evalItem_grow conv hs hsF hg m (stypeOK_prop s _ hTop) (stypeOK_slotsKnown s _ hTop) i hl.1 hk
      cases hev : evalItem conv s m i with
      | error e =>
        rw [hev] at h1
        cases hev' : evalItem conv sF m i with
        | ok x => rw [hev'] at h1; cases h1
        | error e' =>
          simp only [toOption_error, Option.map_none]
          split <;> rfl
      | ok m' =>
        rw [hev] at h1
        simp only [toOption_ok] at h1
        rw [toOption_eq_some] at h1
        rw [h1]
        simp only [Bool.true_and]
        exact evalTops_final conv pkgs sF r s m' hok hl.2 he (by rw [evalItem_ty conv s m m' i hev, hm])

/-! ### the whole load -/

theorem itemsOf_low : ∀ (tops : List TopItem), lowTops tops = true → lowItems (itemsOf tops) = true
  | [], _ => by rw [itemsOf, lowItems]
  | .item i :: r, h => by
    rw [lowTops, Bool.and_eq_true] at h
    rw [itemsOf, lowItems, h.1, itemsOf_low r h.2]
    rfl
  | .imp _ :: r, h => by
    rw [lowTops] at h
    rw [itemsOf]
    exact itemsOf_low r h

/-- the last two steps of a load against `sF`, in the vocabulary of the spec -/
theorem fin_eq_denote (conv : Conv) (sF : Schema) (hsF : schemaOK sF = true) (items : List Item)
    (hcan : tyCanon sF items = true) :
    (match evalItems conv sF (newMatcher sF.top none none) items with
      | .error _ => none
      | .ok m' =>
        match finishMatcher conv sF m' with
        | .error _ => none
        | .ok (v, _) => (conv.sect sF.top.datatype v).toOption) = denote conv sF items := by
  have hp := pItems conv sF hsF items hcan sF.top none (stypeOK_prop sF _ (schemaOK_top sF hsF))
  unfold denote
  rw [← hp]
  unfold evalContainer
  cases evalItems conv sF (newMatcher sF.top none none) items with
  | error e => rfl
  | ok m' =>
    simp only
    cases finishMatcher conv sF m' with
    | error e => rfl
    | ok vh => rfl

/-- **the load of top-level items, against the FINAL schema**: accepted iff every `%import` succeeds, every header
    names a type known at its position, and the text without its `%import` lines conforms to the fully extended
    schema; the value is then what that schema defines, and the load ends with that schema -/
theorem loadTops_eq_final (conv : Conv) (pkgs : Str → Pkg) (s : Schema) (tops : List TopItem)
    (hok : importsOK pkgs s tops = true) (hl : lowTops tops = true) :
    (loadTops conv pkgs s tops).toOption =
      (extendBy pkgs s tops).bind fun sF =>
        if knownAt pkgs s tops then (denote conv sF (itemsOf tops)).map (fun v => (v, sF)) else none := by
  have hrun := runTops_eval conv pkgs tops (loadSt0 conv pkgs s) (newMatcher s.top none none) rfl rfl rfl rfl
  unfold loadTops
  rw [toOption_bind]
  cases he : extendBy pkgs s tops with
  | none =>
    rw [show (loadSt0 conv pkgs s).schema = s from rfl, evalTops_none conv pkgs tops s _ he] at hrun
    obtain ⟨e, hr⟩ := hrun
    rw [hr]
    rfl
  | some sF =>
    have hsF := importsOK_final pkgs tops s sF hok he
    have htop : sF.top = s.top := (Grow_of_extendBy pkgs tops s sF he).top
    rw [show (loadSt0 conv pkgs s).schema = s from rfl,
      evalTops_final conv pkgs sF tops s _ hok hl he rfl] at hrun
    simp only [Option.bind_some]
    cases hk : knownAt pkgs s tops with
    | false =>
      rw [hk] at hrun
      simp only [Bool.false_eq_true, if_false] at hrun ⊢
      obtain ⟨e, hr⟩ := hrun
      rw [hr]
      rfl
    | true =>
      rw [hk] at hrun
      simp only [if_true] at hrun ⊢
      rw [← fin_eq_denote conv sF hsF (itemsOf tops) (tyCanon_of_low sF hsF _ (itemsOf_low tops hl)), htop]
      cases hev : evalItems conv sF (newMatcher s.top none none) (itemsOf tops) with
      | error e =>
        rw [hev] at hrun
        obtain ⟨e', hr⟩ := hrun
        rw [hr]
        rfl
      | ok m' =>
        rw [hev] at hrun
        obtain ⟨st', hr, hstk, hsch⟩ := hrun
        rw [hr]
        simp only [toOption_ok, Option.bind_some]
        unfold topsFin
        rw [hstk, hsch]
        simp only
        cases finishMatcher conv sF m' with
        | error e => rfl
        | ok vh =>
          obtain ⟨v, hs⟩ := vh
          simp only
          cases conv.sect s.top.datatype v <;> rfl

/-! ### `denoteI` in terms of the final schema -/

theorem topVals_known (conv : Conv) (pkgs : Str → Pkg) (sF : Schema) :
    ∀ (tops : List TopItem) (s : Schema), importsOK pkgs s tops = true → lowTops tops = true →
      extendBy pkgs s tops = some sF → knownAt pkgs s tops = true →
      topVals conv pkgs s tops = itemVals conv sF (itemsOf tops)
  | [], s, _, _, _, _ => by rw [topVals, itemsOf, itemVals]
  | .imp p :: r, s, hok, hl, he, hk => by
    rw [extendBy] at he
    rw [lowTops] at hl
    rw [knownAt] at hk
    rw [topVals, itemsOf]
    cases hx : extend s (pkgs p) with
    | none => rw [hx] at he; cases he
    | some s1 =>
      rw [hx] at he hk
      simp only at hk ⊢
      exact topVals_known conv pkgs sF r s1 (importsOK_imp pkgs p r s s1 hok hx) hl he hk
  | .item i :: r, s, hok, hl, he, hk => by
    have hs := importsOK_head pkgs _ s hok
    have hg := Grow_of_extendBy pkgs _ s sF he
    rw [extendBy] at he
    rw [importsOK] at hok
    rw [lowTops, Bool.and_eq_true] at hl
    rw [knownAt, Bool.and_eq_true] at hk
    rw [topVals, itemsOf, itemVals, itemVal_grow conv hs hg i hl.1 hk.1,
      topVals_known conv pkgs sF r s hok hl.2 he hk.2]

theorem topVals_unknown (conv : Conv) (pkgs : Str → Pkg) (sF : Schema) :
    ∀ (tops : List TopItem) (s : Schema), extendBy pkgs s tops = some sF → knownAt pkgs s tops = false →
      ∃ sb ∈ subsOf (itemsOf tops) (topVals conv pkgs s tops), sb.val = none
  | [], s, _, hk => by rw [knownAt] at hk; cases hk
  | .imp p :: r, s, he, hk => by
    rw [extendBy] at he
    rw [knownAt] at hk
    rw [topVals, itemsOf]
    cases hx : extend s (pkgs p) with
    | none => rw [hx] at he; cases he
    | some s1 =>
      rw [hx] at he hk
      simp only at hk ⊢
      exact topVals_unknown conv pkgs sF r s1 he hk
  | .item i :: r, s, he, hk => by
    rw [extendBy] at he
    rw [knownAt, Bool.and_eq_false_iff] at hk
    rw [topVals, itemsOf]
    cases i with
    | kv k v p =>
      rcases hk with hk | hk
      · rw [knownItem] at hk; cases hk
      · obtain ⟨sb, hsb, hv⟩ := topVals_unknown conv pkgs sF r s he hk
        refine ⟨sb, ?_, hv⟩
        rw [subsOf]
        exact hsb
    | sect ty nm sub =>
      rw [subsOf]
      rcases hk with hk | hk
      · exact ⟨_, List.mem_cons_self, itemVal_unknown conv s _ hk⟩
      · obtain ⟨sb, hsb, hv⟩ := topVals_unknown conv pkgs sF r s he hk
        exact ⟨sb, List.mem_cons_of_mem _ hsb, hv⟩

theorem schemaAt_length (s : Schema) (pkgs : Str → Pkg) (tops : List TopItem) :
    schemaAt s pkgs tops tops.length = extendBy pkgs s tops := by
  unfold schemaAt
  rw [List.take_length]

/-- **`denoteI` in one schema**: it is defined iff every `%import` succeeds and every header names a type known at its
    position, and it is then `denote` of the text without its `%import` lines against the fully extended schema -/
theorem denoteI_eq_final (conv : Conv) (pkgs : Str → Pkg) (s : Schema) (tops : List TopItem)
    (hok : importsOK pkgs s tops = true) (hl : lowTops tops = true) :
    denoteI conv s pkgs tops =
      (extendBy pkgs s tops).bind fun sF =>
        if knownAt pkgs s tops then denote conv sF (itemsOf tops) else none := by
  unfold denoteI
  rw [schemaAt_length]
  cases he : extendBy pkgs s tops with
  | none => rfl
  | some sF =>
    have htop : sF.top = s.top := (Grow_of_extendBy pkgs tops s sF he).top
    simp only [Option.bind_some]
    cases hk : knownAt pkgs s tops with
    | true =>
      rw [topVals_known conv pkgs sF tops s hok hl he hk]
      simp only [if_true]
      unfold denote
      rw [htop]
      rfl
    | false =>
      rw [containerVal_none_of_sub conv sF s.top none _ _ (topVals_unknown conv pkgs sF tops s he hk)]
      rfl

/-- **the load of top-level items against `denoteI`** -/
theorem loadTops_eq_denoteI (conv : Conv) (pkgs : Str → Pkg) (s : Schema) (tops : List TopItem)
    (hok : importsOK pkgs s tops = true) (hl : lowTops tops = true) :
    (loadTops conv pkgs s tops).toOption.map (·.1) = denoteI conv s pkgs tops := by
  rw [loadTops_eq_final conv pkgs s tops hok hl, denoteI_eq_final conv pkgs s tops hok hl]
  cases extendBy pkgs s tops with
  | none => rfl
  | some sF =>
    simp only [Option.bind_some]
    split
    · cases denote conv sF (itemsOf tops) <;> rfl
    · rfl

/-- … and the schema an accepted load ends with is the fully extended one -/
theorem loadTops_schema (conv : Conv) (pkgs : Str → Pkg) (s : Schema) (tops : List TopItem)
    (hok : importsOK pkgs s tops = true) (hl : lowTops tops = true) (v : Val) (sA : Schema)
    (h : loadTops conv pkgs s tops = .ok (v, sA)) : extendBy pkgs s tops = some sA := by
  have := loadTops_eq_final conv pkgs s tops hok hl
  rw [h] at this
  cases he : extendBy pkgs s tops with
  | none => rw [he] at this; cases this
  | some sF =>
    rw [he] at this
    simp only [toOption_ok, Option.bind_some] at this
    split at this
    · cases hd : denote conv sF (itemsOf tops) with
      | none => rw [hd] at this; cases this
      | some v' =>
        rw [hd] at this
        simp only [Option.map_some, Option.some.injEq, Prod.mk.injEq] at this
        rw [this.2]
    · cases this

/-! ### a computable acceptance check (for closed examples: `runItem` does not reduce in the kernel, `evalItem` does) -/

def acceptsTops (conv : Conv) (pkgs : Str → Pkg) (s : Schema) (tops : List TopItem) : Bool :=
  match evalTops conv pkgs s (newMatcher s.top none none) tops with
  | some (sF, m') =>
    (match finishMatcher conv sF m' with
     | .ok (v, _) => (conv.sect s.top.datatype v).toOption.isSome
     | .error _ => false)
  | none => false

theorem loadTops_of_accepts (conv : Conv) (pkgs : Str → Pkg) (s : Schema) (tops : List TopItem)
    (h : acceptsTops conv pkgs s tops = true) : ∃ r, loadTops conv pkgs s tops = .ok r := by
  have hrun := runTops_eval conv pkgs tops (loadSt0 conv pkgs s) (newMatcher s.top none none) rfl rfl rfl rfl
  unfold acceptsTops at h
  rw [show (loadSt0 conv pkgs s).schema = s from rfl] at hrun
  cases he : evalTops conv pkgs s (newMatcher s.top none none) tops with
  | none => rw [he] at h; cases h
  | some p =>
    obtain ⟨sF, m'⟩ := p
    rw [he] at h hrun
    obtain ⟨st', hr, hstk, hsch⟩ := hrun
    unfold loadTops
    rw [hr]
    show ∃ r, topsFin conv s st' = .ok r
    unfold topsFin
    rw [hstk, hsch]
    simp only at h ⊢
    cases hf : finishMatcher conv sF m' with
    | error e => rw [hf] at h; cases h
    | ok vh =>
      obtain ⟨v, hs⟩ := vh
      rw [hf] at h
      simp only at h ⊢
      cases hc : conv.sect s.top.datatype v with
      | error e => rw [hc] at h; cases h
      | ok r => exact ⟨_, rfl⟩

end ZCV.Conf
