import ZCV.Lemmas.ImportOvFinal
import ZCV.Lemmas.ImportLoadEx
import ZCV.Lemmas.Datatypes
/-!
A closed world for the theorems on loads with `%import` lines AND command-line overrides.

Schema: abstract type `ab`, a `*` multisection for it (attribute `s`, handler `hs`), a top-level key `plain`, a static
implementer `st` with a key `k` (handler `hk`), schema-level handler `hall`.  Package `p`: a component with the
implementer `leak` (key `k`).  Text:

    %import p
    <leak a>
    k 1
    </leak>
    <st b>
    k 1
    </st>

* overrides `b/k=2`, `plain=x` (into a section of a STATIC type, and a top-level key): accepted, = the edited text;
* override `a/k=2` (into the section of the `%import`-ed type): the edit against the initial schema is impossible and
  the load is REJECTED, although the text edited by hand is accepted — what the code does
  (`OptionBag.schema` is the application schema; known finding `C14-override-into-imported-type`).
-/
namespace ZCV.Cfg.ExOv
open ZCV ZCV.Cfg ZCV.Conf

def conv : Conv := Ex.conv
def env : Env := Ex.env

def keyK : Option Str × Info :=
  (some ['k'], .key { name := ['k'], attr := ['k'], multi := false, minOccurs := 0, dt := "string".toList,
                      dflt := .none, handler := some "hk".toList })
def keyPlain : Option Str × Info :=
  (some "plain".toList, .key { name := "plain".toList, attr := "plain".toList, multi := false, minOccurs := 0,
                               dt := "string".toList, dflt := .none, handler := none })
def slot : SectInfo :=
  { name := ['*'], attr := "s".toList, multi := true, minOccurs := 0, ty := "ab".toList, handler := some "hs".toList }
def top : SType :=
  { name := none, keytype := "basic-key".toList, datatype := "null".toList, children := [(none, .sect slot), keyPlain] }
def stT : SType := { name := some "st".toList, keytype := "basic-key".toList, datatype := "null".toList, children := [keyK] }
def leakT : SType := { name := some "leak".toList, keytype := "basic-key".toList, datatype := "null".toList, children := [keyK] }
def schema : Schema :=
  { types := [("ab".toList, .abstract_ "ab".toList ["st".toList]), ("st".toList, .concrete stT)], top := top,
    handler := some "hall".toList, components := [] }
def pkgs : Str → Pkg := fun n =>
  if n == "p".toList then .component "u".toList [("leak".toList, .concrete leakT)] [("leak".toList, "ab".toList)]
  else .notImportable

def lines (c : Char) : List Str :=
  ["%import p".toList, "<leak a>".toList, ['k', ' ', c], "</leak>".toList, "<st b>".toList, "k 1".toList, "</st>".toList]
def tops (c : Char) : List TopItem :=
  [.imp "p".toList,
   .item (.sect "leak".toList (some ['a']) [.kv ['k'] [c] { line := 3, url := none }]),
   .item (.sect "st".toList (some ['b']) [.kv ['k'] ['1'] { line := 6, url := none }])]

/-! ### the parse, line by line, for the structure-recording context -/

theorem shape_import : lineShape (strip "%import p".toList) = .import_ "p".toList := Ex.shape_import
theorem shape_leakA : lineShape (strip "<leak a>".toList) = .open_ "leak".toList (some ['a']) false :=
  shape_of_classify _ (by decide) (.open_ "leak".toList (some ['a']) false) (by simp) (by decide)
theorem shape_stB : lineShape (strip "<st b>".toList) = .open_ "st".toList (some ['b']) false :=
  shape_of_classify _ (by decide) (.open_ "st".toList (some ['b']) false) (by simp) (by decide)
theorem shape_k1 : lineShape (strip "k 1".toList) = .kv ['k'] ['1'] :=
  shape_of_classify _ (by decide) (.kv ['k'] ['1']) (by simp) (by decide)
theorem shape_k2 : lineShape (strip "k 2".toList) = .kv ['k'] ['2'] :=
  shape_of_classify _ (by decide) (.kv ['k'] ['2']) (by simp) (by decide)
theorem shape_cLeak : lineShape (strip "</leak>".toList) = .close "leak".toList :=
  shape_of_classify _ (by decide) (.close "leak".toList) (by simp) (by decide)
theorem shape_cSt : lineShape (strip "</st>".toList) = .close "st".toList :=
  shape_of_classify _ (by decide) (.close "st".toList) (by simp) (by decide)

theorem stepI_import (n : Nat) (st : PS TBI) :
    stepLine 64 env treeCtxI [] none n (strip "%import p".toList) st =
      (tbiImport st.ctx "p".toList).map fun c => { st with ctx := c } := by
  have hstrip : strip "p".toList = "p".toList := by decide
  rw [stepLine_import _ _ _ _ _ _ _ _ _ shape_import]
  unfold impStep
  rw [replace_nodollar _ _ _ _ _ (by decide), hstrip]
  simp only [bind, Except.bind, treeCtxI]

theorem stepI_open (l ty : Str) (nm : Option Str) (hs : lineShape (strip l) = .open_ ty nm false) (n : Nat) (st : PS TBI) :
    stepLine 64 env treeCtxI [] none n (strip l) st =
      .ok { st with ctx := { st.ctx with stack := (ty, nm, []) :: st.ctx.stack }, stack := (ty, nm) :: st.stack } := by
  rw [stepLine]
  simp only [hs, openSection, treeCtxI, tbiStart]
  rfl

theorem stepI_kv (l k v : Str) (hs : lineShape (strip l) = .kv k v) (hv : (v == ([] : Str)) = false) (hd : '$' ∉ v)
    (n : Nat) (st : PS TBI) :
    stepLine 64 env treeCtxI [] none n (strip l) st =
      (tbiValue st.ctx k v { line := n, url := none }).map fun c => { st with ctx := c } := by
  rw [stepLine]
  simp only [hs]
  rw [keyValue_eq]
  have hr : replace env st.defs none n v = .ok v := replace_nodollar _ _ _ _ _ hd
  simp only [hv, Bool.false_eq_true, if_false, hr, ok_bind]
  unfold kvCore
  simp only [treeCtxI]
  unfold tbiValue
  cases st.ctx.stack with
  | nil => rfl
  | cons x r => obtain ⟨a, b, c⟩ := x; rfl

theorem stepI_close (l ty : Str) (hs : lineShape (strip l) = .close ty) (n : Nat) (st : PS TBI) (nm : Option Str)
    (rest : List (Str × Option Str)) (hst : st.stack = (ty, nm) :: rest) :
    stepLine 64 env treeCtxI [] none n (strip l) st =
      (tbiStop st.ctx ty nm).map fun c => { st with ctx := c, stack := rest } := by
  rw [stepLine]
  simp only [hs]
  unfold closeSection
  rw [hst]
  simp only [bne_self_eq_false, Bool.false_eq_true, if_false, treeCtxI]
  unfold tbiStop
  cases st.ctx.stack with
  | nil => rfl
  | cons x r =>
    obtain ⟨a, b, c⟩ := x
    cases r with
    | nil => rfl
    | cons y r2 => obtain ⟨a2, b2, c2⟩ := y; rfl

/-- the seven lines, for the third line `k c` -/
theorem parse_lines (c : Char) (hs : lineShape (strip ['k', ' ', c]) = .kv ['k'] [c]) (hd : '$' ∉ [c]) :
    parseI env none (lines c) =
      .ok { ctx := { tops := (tops c).reverse, stack := [], nested := false }, stack := [], defs := [] } := by
  unfold parseI lines
  simp only
  rw [parseLines, stepI_import]
  simp only [tbiImport, Except.map, bind, Except.bind]
  rw [parseLines, stepI_open _ _ _ shape_leakA]
  simp only [bind, Except.bind]
  rw [parseLines, stepI_kv _ _ _ hs rfl hd]
  simp only [tbiValue, Except.map, bind, Except.bind]
  rw [parseLines, stepI_close _ _ shape_cLeak _ _ (some ['a']) [] rfl]
  simp only [tbiStop, Except.map, bind, Except.bind]
  rw [parseLines, stepI_open _ _ _ shape_stB]
  simp only [bind, Except.bind]
  rw [parseLines, stepI_kv _ _ _ shape_k1 (by decide) (by decide)]
  simp only [tbiValue, Except.map, bind, Except.bind]
  rw [parseLines, stepI_close _ _ shape_cSt _ _ (some ['b']) [] rfl]
  simp only [tbiStop, Except.map, bind, Except.bind]
  rw [parseLines]
  rfl

theorem tree_lines (c : Char) (hs : lineShape (strip ['k', ' ', c]) = .kv ['k'] [c]) (hd : '$' ∉ [c]) :
    treeOfI env none (lines c) = .ok (tops c) := by
  unfold treeOfI
  rw [parse_lines c hs hd]
  simp only [Except.map, List.reverse_reverse]

theorem atTop_lines (c : Char) (hs : lineShape (strip ['k', ' ', c]) = .kv ['k'] [c]) (hd : '$' ∉ [c]) :
    importsAtTop env none (lines c) := by
  intro ps h
  rw [parse_lines c hs hd] at h
  cases h
  rfl

theorem tree1 : treeOfI env none (lines '1') = .ok (tops '1') := tree_lines '1' shape_k1 (by decide)
theorem tree2 : treeOfI env none (lines '2') = .ok (tops '2') := tree_lines '2' shape_k2 (by decide)
theorem atTop1 : importsAtTop env none (lines '1') := atTop_lines '1' shape_k1 (by decide)
theorem atTop2 : importsAtTop env none (lines '2') := atTop_lines '2' shape_k2 (by decide)

/-! ### the hypotheses of the theorems -/

theorem ok1 : ∀ t, treeOfI env none (lines '1') = .ok t → importsOK pkgs schema t = true := by
  intro t h; rw [tree1] at h; cases h; decide
theorem ok2 : ∀ t, treeOfI env none (lines '2') = .ok t → importsOK pkgs schema t = true := by
  intro t h; rw [tree2] at h; cases h; decide

theorem idem : KeyIdemOn conv schema := by
  intro t _ k r hk
  cases hk
  rfl

/-- `b/k=2` (into the section NAMED `b`, of the static type `st`) and `plain=x` (a top-level key) -/
def specsGood : List Str := ["b/k=2".toList, "plain=x".toList]
def ovsGood : List OptItem := [{ path := [['b'], ['k']], val := ['2'] }, { path := ["plain".toList], val := ['x'] }]
/-- `a/k=2`: into the section named `a`, whose type `leak` is defined by the component the text imports -/
def specsBad : List Str := ["a/k=2".toList]
def ovsBad : List OptItem := [{ path := [['a'], ['k']], val := ['2'] }]

theorem split_good : specsGood.mapM addOption = .ok ovsGood := by rfl
theorem split_bad : specsBad.mapM addOption = .ok ovsBad := by rfl

theorem ovsGood_ok : ∀ ovs, specsGood.mapM addOption = .ok ovs → OvsOK ovs := by
  intro ovs h
  rw [split_good] at h
  cases h
  intro o ho c hc
  simp only [ovsGood, List.mem_cons, List.not_mem_nil, or_false] at ho
  rcases ho with rfl | rfl <;> simp only [List.dropLast, List.mem_cons, List.not_mem_nil, or_false] at hc
  subst hc
  exact ⟨_, by rw [DT.basicKey_eq_spec]; rfl⟩

theorem ovsBad_ok : ∀ ovs, specsBad.mapM addOption = .ok ovs → OvsOK ovs := by
  intro ovs h
  rw [split_bad] at h
  cases h
  intro o ho c hc
  simp only [ovsBad, List.mem_cons, List.not_mem_nil, or_false] at ho
  subst ho
  simp only [List.dropLast, List.mem_cons, List.not_mem_nil, or_false] at hc
  subst hc
  exact ⟨_, by rw [DT.basicKey_eq_spec]; rfl⟩

/-- the text edited by hand as `specsGood` asks: `k 1` of section `b` replaced, `plain x` supplied at the end -/
def topsGood : List TopItem :=
  [.imp "p".toList,
   .item (.sect "leak".toList (some ['a']) [.kv ['k'] ['1'] { line := 3, url := none }]),
   .item (.sect "st".toList (some ['b']) [.kv ['k'] ['2'] cmdPos]),
   .item (.kv "plain".toList ['x'] cmdPos)]

theorem edit_good : editI conv schema (tops '1') ovsGood = .ok topsGood := by rfl
theorem edit_bad : editI conv schema (tops '1') ovsBad = .error (.unknownType "leak".toList) := by rfl

def vLeak (c : Char) : Val := .sect "leak".toList (some ['a']) [(['k'], .str [c])]
def vSt (c : Char) : Val := .sect "st".toList (some ['b']) [(['k'], .str [c])]
def vGood : Val := .sect [] none [("s".toList, .list [vLeak '1', vSt '2']), ("plain".toList, .str ['x'])]

theorem denote_good : denoteI conv schema pkgs topsGood = some vGood := by rfl
theorem denote_tops2 : conformsI conv schema pkgs (tops '2') = true := by decide

theorem handlers_good : docHandlersI conv schema pkgs topsGood =
    [("hk".toList, .str ['1']), ("hk".toList, .str ['2']), ("hs".toList, .list [vLeak '1', vSt '2']),
     ("hall".toList, vGood)] := by rfl

end ZCV.Cfg.ExOv
