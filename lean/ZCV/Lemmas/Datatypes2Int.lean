import ZCV.Lemmas.Datatypes2Chars
import ZCV.Spec.Datatypes2
/-! `strip` and `int(str)`: the model functions `strip`, `stripInt`, `pyInt` against the grammar `DTSpec.IntLit`. -/
namespace ZCV.DT
open ZCV ZCV.DTSpec

/-! ## `strip`, for any character class `p` (`str.strip()` is `p = pySpace`; what `int()`/`float()` skip is `p = intSpace`) -/

theorem dt2_dropWhile_allP (p : Char → Bool) (pre x : Str) (h : ∀ c ∈ pre, p c = true) :
    (pre ++ x).dropWhile p = x.dropWhile p := by
  induction pre with
  | nil => rfl
  | cons c t ih =>
    have hc : p c = true := h c (by simp)
    simp only [List.cons_append, List.dropWhile_cons, hc, ↓reduceIte]
    exact ih (fun d hd => h d (List.mem_cons_of_mem _ hd))

theorem dt2_dropWhile_allP_nil (p : Char → Bool) (g : Str) (h : ∀ c ∈ g, p c = true) : g.dropWhile p = [] := by
  have := dt2_dropWhile_allP p g [] h
  simpa using this

theorem dt2_allP_reverse (p : Char → Bool) (g : Str) (h : ∀ c ∈ g, p c = true) : ∀ c ∈ g.reverse, p c = true :=
  fun c hc => h c (List.mem_reverse.mp hc)

/-- `strip` with respect to `p` -/
def dt2StripP (p : Char → Bool) (s : Str) : Str := ((s.dropWhile p).reverse.dropWhile p).reverse

theorem dt2_stripP_mid (p : Char → Bool) (pre mid post : Str) (hpre : ∀ c ∈ pre, p c = true)
    (hpost : ∀ c ∈ post, p c = true)
    (hm : mid = [] ∨ ((∃ c t, mid = c :: t ∧ p c = false) ∧ ∃ l, mid.getLast? = some l ∧ p l = false)) :
    dt2StripP p (pre ++ mid ++ post) = mid := by
  unfold dt2StripP
  rw [List.append_assoc, dt2_dropWhile_allP p _ _ hpre]
  rcases hm with rfl | ⟨⟨c, t, rfl, hc⟩, l, hl, hl2⟩
  · rw [List.nil_append, dt2_dropWhile_allP_nil p post hpost]; rfl
  · obtain ⟨ys, hys⟩ := List.getLast?_eq_some_iff.mp hl
    rw [List.cons_append, List.dropWhile_cons, hc]
    simp only [Bool.false_eq_true, ↓reduceIte]
    rw [← List.cons_append, List.reverse_append, dt2_dropWhile_allP p _ _ (dt2_allP_reverse p post hpost), hys]
    simp [hl2]

theorem dt2_takeWhile_allP (p : Char → Bool) (s : Str) : ∀ c ∈ s.takeWhile p, p c = true := by
  induction s with
  | nil => intro c hc; simp at hc
  | cons a t ih =>
    intro c hc
    rw [List.takeWhile_cons] at hc
    split at hc
    · rename_i ha
      rcases List.mem_cons.mp hc with rfl | h
      · exact ha
      · exact ih c h
    · simp at hc

theorem dt2_stripP_decomp (p : Char → Bool) (s : Str) :
    ∃ pre post, s = pre ++ dt2StripP p s ++ post ∧ (∀ c ∈ pre, p c = true) ∧ (∀ c ∈ post, p c = true) := by
  refine ⟨s.takeWhile p, ((s.dropWhile p).reverse.takeWhile p).reverse, ?_, dt2_takeWhile_allP p s,
    dt2_allP_reverse p _ (dt2_takeWhile_allP p _)⟩
  have h1 : s = s.takeWhile p ++ s.dropWhile p := (List.takeWhile_append_dropWhile).symm
  have h2 : s.dropWhile p = dt2StripP p s ++ ((s.dropWhile p).reverse.takeWhile p).reverse := by
    unfold dt2StripP
    rw [← List.reverse_append, List.takeWhile_append_dropWhile, List.reverse_reverse]
  rw [List.append_assoc, ← h2, ← h1]

theorem dt2_strip_eq (s : Str) : strip s = dt2StripP pySpace s := rfl
theorem dt2_stripInt_eq (s : Str) : stripInt s = dt2StripP intSpace s := rfl

/-! ### `str.strip()` -/

theorem dt2_dropWhile_allSpace (pre x : Str) (h : AllSpace pre) :
    (pre ++ x).dropWhile pySpace = x.dropWhile pySpace := dt2_dropWhile_allP pySpace pre x h

theorem dt2_dropWhile_all_nil (g : Str) (h : AllSpace g) : g.dropWhile pySpace = [] :=
  dt2_dropWhile_allP_nil pySpace g h

theorem dt2_allSpace_reverse (g : Str) (h : AllSpace g) : AllSpace g.reverse := dt2_allP_reverse pySpace g h

/-- what is left of `pre ++ mid ++ post` is `mid`, when `mid` neither starts nor ends with whitespace -/
theorem dt2_strip_mid (pre mid post : Str) (hpre : AllSpace pre) (hpost : AllSpace post)
    (hm : mid = [] ∨ ((∃ c t, mid = c :: t ∧ pySpace c = false) ∧ ∃ l, mid.getLast? = some l ∧ pySpace l = false)) :
    strip (pre ++ mid ++ post) = mid := dt2_stripP_mid pySpace pre mid post hpre hpost hm

theorem dt2_takeWhile_allSpace (s : Str) : AllSpace (s.takeWhile pySpace) := dt2_takeWhile_allP pySpace s

/-- every text is whitespace, its stripped form, whitespace -/
theorem dt2_strip_decomp (s : Str) : ∃ pre post, s = pre ++ strip s ++ post ∧ AllSpace pre ∧ AllSpace post :=
  dt2_stripP_decomp pySpace s

/-! ### the white space `int()` / `float()` skip -/

theorem dt2_intSpace_iff (c : Char) :
    intSpace c = true ↔ pySpace c = true ∧ c.toNat ∉ Gen.intSpaceExcluded := by
  unfold intSpace
  rw [Bool.and_eq_true, Bool.not_eq_true', ← Bool.not_eq_true, List.contains_iff_mem]

/-- what `int` skips is white space for `strip` as well -/
theorem dt2_intSpace_space (c : Char) (h : intSpace c = true) : pySpace c = true := ((dt2_intSpace_iff c).mp h).1

theorem dt2_not_space_not_intSpace (c : Char) (h : pySpace c = false) : intSpace c = false := by
  cases hi : intSpace c with
  | false => rfl
  | true => rw [dt2_intSpace_space c hi] at h; cases h

theorem dt2_allIntSpace_allSpace (g : Str) (h : AllIntSpace g) : AllSpace g :=
  fun c hc => dt2_intSpace_space c (h c hc)

/-- what is left of `pre ++ mid ++ post` is `mid`, when `mid` neither starts nor ends with a skipped character -/
theorem dt2_stripInt_mid (pre mid post : Str) (hpre : AllIntSpace pre) (hpost : AllIntSpace post)
    (hm : mid = [] ∨ ((∃ c t, mid = c :: t ∧ intSpace c = false) ∧ ∃ l, mid.getLast? = some l ∧ intSpace l = false)) :
    stripInt (pre ++ mid ++ post) = mid := dt2_stripP_mid intSpace pre mid post hpre hpost hm

/-- the same from the stronger "neither starts nor ends with `str.isspace` white space" -/
theorem dt2_stripInt_mid' (pre mid post : Str) (hpre : AllIntSpace pre) (hpost : AllIntSpace post)
    (hm : (∃ c t, mid = c :: t ∧ pySpace c = false) ∧ ∃ l, mid.getLast? = some l ∧ pySpace l = false) :
    stripInt (pre ++ mid ++ post) = mid := by
  obtain ⟨⟨c, t, h1, h2⟩, l, h3, h4⟩ := hm
  exact dt2_stripInt_mid pre mid post hpre hpost
    (Or.inr ⟨⟨c, t, h1, dt2_not_space_not_intSpace c h2⟩, l, h3, dt2_not_space_not_intSpace l h4⟩)

/-- every text is skipped white space, what `int`/`float` parse, skipped white space -/
theorem dt2_stripInt_decomp (s : Str) :
    ∃ pre post, s = pre ++ stripInt s ++ post ∧ AllIntSpace pre ∧ AllIntSpace post :=
  dt2_stripP_decomp intSpace s

/-! ## digits -/

theorem dt2_pyDigit_val (c : Char) : pyDigit c = true ↔ ∃ v, pyDigitVal c = some v := by
  unfold pyDigit
  rw [Option.isSome_iff_exists]

theorem dt2_pyDigit_of_val (c : Char) (v : Nat) (h : pyDigitVal c = some v) : pyDigit c = true :=
  (dt2_pyDigit_val c).mpr ⟨v, h⟩

theorem dt2_underscore_not_digit : pyDigit '_' = false := by decide

theorem dt2_digit_ne_underscore (c : Char) (h : pyDigit c = true) : c ≠ '_' := by
  rintro rfl; rw [dt2_underscore_not_digit] at h; cases h

theorem dt2_intBody_head (b : Str) (ds : List Nat) (h : IntBody b ds) : ∃ c t, b = c :: t ∧ pyDigit c = true := by
  cases h with
  | one c v hv => exact ⟨c, [], rfl, dt2_pyDigit_of_val c v hv⟩
  | cons c v t ds hv _ => exact ⟨c, t, rfl, dt2_pyDigit_of_val c v hv⟩
  | under c v t ds hv _ => exact ⟨c, _, rfl, dt2_pyDigit_of_val c v hv⟩

theorem dt2_intBody_last (b : Str) (ds : List Nat) (h : IntBody b ds) :
    ∃ l, b.getLast? = some l ∧ pyDigit l = true := by
  induction h with
  | one c v hv => exact ⟨c, rfl, dt2_pyDigit_of_val c v hv⟩
  | cons c v t ds hv ht ih =>
    obtain ⟨l, hl, hd⟩ := ih
    obtain ⟨c', t', rfl, _⟩ := dt2_intBody_head t ds ht
    exact ⟨l, by rw [List.getLast?_cons_cons]; exact hl, hd⟩
  | under c v t ds hv ht ih =>
    obtain ⟨l, hl, hd⟩ := ih
    obtain ⟨c', t', rfl, _⟩ := dt2_intBody_head t ds ht
    exact ⟨l, by rw [List.getLast?_cons_cons, List.getLast?_cons_cons]; exact hl, hd⟩

theorem dt2_intBody_length (b : Str) (ds : List Nat) (h : IntBody b ds) : ds ≠ [] := by
  cases h <;> simp

/-- `pyDigits` on a body: its digit values -/
theorem dt2_pyDigits_of_body (b : Str) (ds : List Nat) (h : IntBody b ds) : pyDigits b = some ds := by
  induction h with
  | one c v hv =>
    have := dt2_digit_ne_underscore c (dt2_pyDigit_of_val c v hv)
    simp [pyDigits, this, hv]
  | cons c v t ds hv ht ih =>
    have := dt2_digit_ne_underscore c (dt2_pyDigit_of_val c v hv)
    simp [pyDigits, this, hv, ih]
  | under c v t ds hv ht ih =>
    have := dt2_digit_ne_underscore c (dt2_pyDigit_of_val c v hv)
    obtain ⟨d, t', rfl, hd⟩ := dt2_intBody_head t ds ht
    rw [pyDigits, if_neg this]
    simp only [hv]
    rw [pyDigits, if_pos rfl]
    simp only [hd, ↓reduceIte, ih, Option.map_some]

/-- the three shapes of a text `pyDigits` accepts -/
theorem dt2_body_of_pyDigits (b : Str) : ∀ ds, pyDigits b = some ds →
    (b = [] ∧ ds = []) ∨ ((∃ c t, b = c :: t ∧ pyDigit c = true) ∧ IntBody b ds) ∨
      (∃ b', b = '_' :: b' ∧ (∃ c t, b' = c :: t ∧ pyDigit c = true) ∧ IntBody b' ds) := by
  induction b with
  | nil => intro ds h; simp [pyDigits] at h; exact Or.inl ⟨rfl, h⟩
  | cons c t ih =>
    intro ds h
    rw [pyDigits.eq_def] at h
    simp only at h
    by_cases hc : c = '_'
    · subst hc
      rw [if_pos rfl] at h
      cases t with
      | nil => simp at h
      | cons d t' =>
        simp only at h
        by_cases hd : pyDigit d = true
        · rw [if_pos hd] at h
          rcases ih ds h with ⟨h1, _⟩ | ⟨_, h2⟩ | ⟨b', h1, _⟩
          · cases h1
          · exact Or.inr (Or.inr ⟨_, rfl, ⟨d, t', rfl, hd⟩, h2⟩)
          · injection h1 with h1 _; subst h1; rw [dt2_underscore_not_digit] at hd; cases hd
        · rw [if_neg hd] at h; cases h
    · rw [if_neg hc] at h
      cases hv : pyDigitVal c with
      | none => rw [hv] at h; cases h
      | some v =>
        rw [hv] at h
        simp only at h
        cases ht : pyDigits t with
        | none => rw [ht] at h; cases h
        | some ds' =>
          rw [ht] at h
          simp only [Option.map_some, Option.some.injEq] at h
          subst h
          have hcd := dt2_pyDigit_of_val c v hv
          refine Or.inr (Or.inl ⟨⟨c, t, rfl, hcd⟩, ?_⟩)
          rcases ih ds' ht with ⟨rfl, rfl⟩ | ⟨_, h2⟩ | ⟨b', rfl, _, h2⟩
          · exact IntBody.one c v hv
          · exact IntBody.cons c v t ds' hv h2
          · exact IntBody.under c v b' ds' hv h2

theorem dt2_digitsVal_acc (ds : List Nat) (a : Nat) :
    ds.foldl (fun a d => a * 10 + d) a = a * 10 ^ ds.length + decimal ds := by
  induction ds generalizing a with
  | nil => simp [decimal]
  | cons d ds ih =>
    rw [List.foldl_cons, ih, decimal, List.length_cons, Nat.pow_succ, Nat.add_mul]
    rw [Nat.mul_assoc, Nat.mul_comm 10, Nat.add_assoc]

theorem dt2_digitsVal_decimal (ds : List Nat) : digitsVal ds = decimal ds := by
  unfold digitsVal
  rw [dt2_digitsVal_acc]; simp

/-- `pyNat` = "is a body", with the decimal value -/
theorem dt2_pyNat_iff (b : Str) (n : Nat) : pyNat b = some n ↔ ∃ ds, IntBody b ds ∧ n = decimal ds := by
  constructor
  · intro h
    unfold pyNat at h
    cases b with
    | nil => cases h
    | cons c t =>
      simp only at h
      by_cases hc : pyDigit c = true
      · rw [if_pos hc] at h
        cases hd : pyDigits (c :: t) with
        | none => rw [hd] at h; cases h
        | some ds =>
          rw [hd] at h
          simp only [Option.map_some, Option.some.injEq] at h
          refine ⟨ds, ?_, by rw [← h, dt2_digitsVal_decimal]⟩
          rcases dt2_body_of_pyDigits _ ds hd with ⟨h1, _⟩ | ⟨_, h2⟩ | ⟨b', h1, _⟩
          · cases h1
          · exact h2
          · injection h1 with h1 _; subst h1; rw [dt2_underscore_not_digit] at hc; cases hc
      · rw [if_neg hc] at h; cases h
  · rintro ⟨ds, hb, rfl⟩
    obtain ⟨c, t, rfl, hc⟩ := dt2_intBody_head b ds hb
    unfold pyNat
    simp only [hc, ↓reduceIte, dt2_pyDigits_of_body _ ds hb, Option.map_some, dt2_digitsVal_decimal]

/-! ## `int(str)` -/

theorem dt2_plus_not_space : pySpace '+' = false := by decide
theorem dt2_minus_not_space : pySpace '-' = false := by decide
theorem dt2_plus_not_digit : pyDigit '+' = false := by decide
theorem dt2_minus_not_digit : pyDigit '-' = false := by decide

theorem dt2_getLast?_append_cons {α} (l : List α) (a : α) (t : List α) :
    (l ++ a :: t).getLast? = (a :: t).getLast? := by
  induction l with
  | nil => rfl
  | cons b l ih =>
    cases hl : l ++ a :: t with
    | nil => simp at hl
    | cons x xs => rw [List.cons_append, hl, List.getLast?_cons_cons, ← hl, ih]

/-- a signed body neither starts nor ends with whitespace -/
theorem dt2_signed_body_ends (sg body : Str) (ds : List Nat) (hs : IsSign sg) (hb : IntBody body ds) :
    (∃ c t, sg ++ body = c :: t ∧ pySpace c = false) ∧ ∃ l, (sg ++ body).getLast? = some l ∧ pySpace l = false := by
  obtain ⟨c, t, rfl, hc⟩ := dt2_intBody_head body ds hb
  obtain ⟨l, hl, hld⟩ := dt2_intBody_last _ ds hb
  refine ⟨?_, l, by rw [dt2_getLast?_append_cons]; exact hl, dt2_digit_not_space l hld⟩
  rcases hs with rfl | rfl | rfl
  · exact ⟨c, t, rfl, dt2_digit_not_space c hc⟩
  · exact ⟨'+', c :: t, rfl, dt2_plus_not_space⟩
  · exact ⟨'-', c :: t, rfl, dt2_minus_not_space⟩

/-- **`int(str)`**: the model accepts exactly the integer literals, with their decimal value -/
theorem dt2_pyInt_iff (s : Str) (n : Int) : pyInt s = some n ↔ IntLit s n := by
  constructor
  · intro h
    obtain ⟨pre, post, hs, hpre, hpost⟩ := dt2_stripInt_decomp s
    unfold pyInt at h
    split at h
    · rename_i t ht
      cases hk : pyNat t with
      | none => rw [hk] at h; cases h
      | some k =>
        rw [hk] at h
        simp only [Option.map_some, Option.some.injEq] at h
        obtain ⟨ds, hb, rfl⟩ := (dt2_pyNat_iff t k).mp hk
        refine ⟨pre, ['-'], t, post, ds, ?_, hpre, hpost, hb, Or.inr ⟨rfl, h.symm⟩⟩
        rw [hs, ht]; simp
    · rename_i t ht
      cases hk : pyNat t with
      | none => rw [hk] at h; cases h
      | some k =>
        rw [hk] at h
        simp only [Option.map_some, Option.some.injEq] at h
        obtain ⟨ds, hb, rfl⟩ := (dt2_pyNat_iff t k).mp hk
        refine ⟨pre, ['+'], t, post, ds, ?_, hpre, hpost, hb, Or.inl ⟨Or.inr rfl, h.symm⟩⟩
        rw [hs, ht]; simp
    · cases hk : pyNat (stripInt s) with
      | none => rw [hk] at h; cases h
      | some k =>
        rw [hk] at h
        simp only [Option.map_some, Option.some.injEq] at h
        obtain ⟨ds, hb, rfl⟩ := (dt2_pyNat_iff _ k).mp hk
        exact ⟨pre, [], stripInt s, post, ds, by rw [List.append_nil]; exact hs, hpre, hpost, hb,
          Or.inl ⟨Or.inl rfl, h.symm⟩⟩
  · rintro ⟨pre, sg, body, post, ds, rfl, hpre, hpost, hb, hn⟩
    have hsg : IsSign sg := by
      rcases hn with ⟨h | h, _⟩ | ⟨h, _⟩
      · exact Or.inl h
      · exact Or.inr (Or.inl h)
      · exact Or.inr (Or.inr h)
    have hstrip : stripInt (pre ++ sg ++ body ++ post) = sg ++ body := by
      rw [List.append_assoc pre sg body]
      exact dt2_stripInt_mid' pre (sg ++ body) post hpre hpost (dt2_signed_body_ends sg body ds hsg hb)
    have hnat : pyNat body = some (decimal ds) := (dt2_pyNat_iff body _).mpr ⟨ds, hb, rfl⟩
    unfold pyInt
    rw [hstrip]
    rcases hn with ⟨rfl | rfl, rfl⟩ | ⟨rfl, rfl⟩
    · obtain ⟨c, t, rfl, hc⟩ := dt2_intBody_head body ds hb
      have h1 : c ≠ '-' := by rintro rfl; rw [dt2_minus_not_digit] at hc; cases hc
      have h2 : c ≠ '+' := by rintro rfl; rw [dt2_plus_not_digit] at hc; cases hc
      rw [List.nil_append]
      split
      · rename_i heq; injection heq with h _; exact absurd h h1
      · rename_i heq; injection heq with h _; exact absurd h h2
      · rw [hnat]; rfl
    · show (pyNat body).map Int.ofNat = _
      rw [hnat]; rfl
    · show (pyNat body).map (fun n => - Int.ofNat n) = _
      rw [hnat]; rfl

/-- an integer literal has one value -/
theorem dt2_intLit_unique (s : Str) (n n' : Int) (h : IntLit s n) (h' : IntLit s n') : n = n' := by
  have h1 := (dt2_pyInt_iff s n).mpr h
  have h2 := (dt2_pyInt_iff s n').mpr h'
  rw [h1] at h2; injection h2

theorem dt2_integer_spec (s : Str) : IsInteger s (integer s) := by
  unfold IsInteger integer
  cases h : pyInt s with
  | some n => exact Or.inl ⟨n, (dt2_pyInt_iff s n).mp h, rfl⟩
  | none =>
    refine Or.inr ⟨?_, rfl⟩
    rintro ⟨n, hn⟩
    rw [(dt2_pyInt_iff s n).mpr hn] at h; cases h

end ZCV.DT
