import ZCV.Lemmas.Include
import ZCV.Lemmas.ParseGen
/-!
C15: line numbers influence nothing but positions (any context that does not look at the position it is handed),
hence inserting a blank or comment line anywhere in a text changes nothing else.
-/
namespace ZCV.Cfg
open ZCV

/-- the context's `addValue` does not depend on the position it is handed (the recorder, the tree builder modulo
    positions …); for contexts that store positions, acceptance and the stored positions are all that can differ -/
def PosBlind {σ} (c : PCtx σ) : Prop :=
  ∀ s k v p p', (c.value s k v p).toOption = (c.value s k v p').toOption

theorem rec0_posBlind : PosBlind rec0 := fun _ _ _ _ _ => rfl

/-- one line: the line number does not matter (position-blind context) -/
theorem step_line_indep_gen {σ} (fuel : Nat) (env : Env) (c : PCtx σ) (hc : PosBlind c) (active : List Str)
    (url : Option Str) (line line' : Nat) (l : Str) (st : PS σ) :
    (stepLine fuel env c active url line l st).toOption = (stepLine fuel env c active url line' l st).toOption := by
  cases hs : lineShape l with
  | skip => rw [stepLine, stepLine]; simp only [hs]
  | bad t => rw [stepLine, stepLine]; simp only [hs]; rfl
  | internal t => rw [stepLine, stepLine]; simp only [hs]
  | close ty =>
    rw [stepLine, stepLine]; simp only [hs]
    rw [closeSection_toOption, closeSection_toOption]
  | open_ ty nm e =>
    rw [stepLine, stepLine]; simp only [hs]
    rw [openSection_toOption, openSection_toOption]
  | kv k raw =>
    rw [stepLine, stepLine]; simp only [hs]
    rw [keyValue_eq, keyValue_eq, toOption_bind, toOption_bind]
    have h1 : (if raw == [] then (pure [] : M Str) else replace env st.defs url line raw).toOption =
        (if raw == [] then (pure [] : M Str) else replace env st.defs url line' raw).toOption := by
      split
      · rfl
      · exact replace_indep _ _ _ _ _ _ _
    rw [h1]
    apply option_bind_congr
    intro v _
    rw [kvCore_toOption, kvCore_toOption, hc]
  | define a =>
    rw [stepLine_define _ _ _ _ _ _ _ _ _ hs, stepLine_define _ _ _ _ _ _ _ _ _ hs]
    unfold defStep
    split
    · rfl
    · rw [toOption_map, toOption_map, define_indep env url url line line']
  | import_ a =>
    rw [stepLine_import _ _ _ _ _ _ _ _ _ hs, stepLine_import _ _ _ _ _ _ _ _ _ hs]
    unfold impStep
    rw [toOption_bind, toOption_bind, replace_indep env st.defs url url line line']
  | include_ a =>
    rw [stepLine_include _ _ _ _ _ _ _ _ _ hs, stepLine_include _ _ _ _ _ _ _ _ _ hs]
    unfold incStep
    rw [toOption_bind, toOption_bind, replace_indep env st.defs url url line line']

/-- a whole text: where the numbering starts does not matter (included resources restart at 0 anyway) -/
theorem parse_line_indep_gen {σ} (fuel : Nat) (env : Env) (c : PCtx σ) (hc : PosBlind c) (active : List Str) (url : Option Str) :
    ∀ (lines : List Str) (n n' : Nat) (st : PS σ),
      (parseLines fuel env c active url lines n st).toOption =
        (parseLines fuel env c active url lines n' st).toOption := by
  intro lines
  induction lines with
  | nil =>
    intro n n' st
    rw [parseLines, parseLines]
    split <;> rfl
  | cons l rest ih =>
    intro n n' st
    rw [parseLines, parseLines, toOption_bind, toOption_bind, step_line_indep_gen fuel env c hc active url (n + 1) (n' + 1)]
    apply option_bind_congr
    intro s _
    exact ih _ _ _

/-- the lines the parser skips: empty after stripping, or starting with `#` -/
theorem lineShape_skip_iff (x : Str) : lineShape x = .skip ↔ (x = [] ∨ x.head? = some '#') := by
  have key : (x.take 1 == [] || x.take 1 == ['#']) = true ↔ (x = [] ∨ x.head? = some '#') := by
    cases x with
    | nil => simp
    | cons c t => simp
  rw [← key]
  constructor
  · intro h
    unfold lineShape at h
    split at h
    · assumption
    · exfalso
      split at h
      · split at h <;> cases h
      · split at h
        · split at h
          · cases h
          · dsimp only at h
            split at h
            · cases h
            · cases h
        · split at h
          · split at h
            · cases h
            · split at h
              · cases h
              · dsimp only at h
                split at h
                · cases h
                · split at h
                  · cases h
                  · split at h
                    · cases h
                    · split at h
                      · cases h
                      · cases h
          · split at h <;> cases h
  · intro h
    unfold lineShape
    rw [if_pos h]

/-- inserting a blank or comment line anywhere changes nothing but line numbers -/
theorem insert_skip_line {σ} (fuel : Nat) (env : Env) (c : PCtx σ) (hc : PosBlind c) (active : List Str) (url : Option Str)
    (A B : List Str) (l : Str) (n : Nat) (st : PS σ) (hl : lineShape (strip l) = .skip) :
    (parseLines fuel env c active url (A ++ l :: B) n st).toOption =
      (parseLines fuel env c active url (A ++ B) n st).toOption := by
  rw [parseLines_append, parseLines_append, toOption_bind, toOption_bind]
  apply option_bind_congr
  intro sA _
  rw [parseLines, stepLine]
  simp only [hl]
  exact parse_line_indep_gen fuel env c hc active url B _ _ sA

end ZCV.Cfg

namespace ZCV.Cfg
open ZCV

/-- the parser looks at a (stripped) line only through its classification -/
theorem stepLine_congr {σ} (fuel : Nat) (env : Env) (c : PCtx σ) (active : List Str) (url : Option Str) (line : Nat)
    (l l' : Str) (st : PS σ) (h : lineShape l = lineShape l') :
    stepLine fuel env c active url line l st = stepLine fuel env c active url line l' st := by
  rw [stepLine, stepLine.eq_def fuel env c active url line l' st, h]

/-- replacing one line of a text by a line that is classified in the same way changes nothing at all -/
theorem parse_congr_line {σ} (fuel : Nat) (env : Env) (c : PCtx σ) (active : List Str) (url : Option Str)
    (A B : List Str) (l l' : Str) (n : Nat) (st : PS σ) (h : lineShape (strip l) = lineShape (strip l')) :
    parseLines fuel env c active url (A ++ l :: B) n st = parseLines fuel env c active url (A ++ l' :: B) n st := by
  rw [parseLines_append, parseLines_append]
  congr 1
  funext sA
  rw [parseLines, parseLines.eq_def fuel env c active url (l' :: B), stepLine_congr fuel env c active url _ _ _ sA h]

end ZCV.Cfg
