import ZCV.Model.Conv
import ZCV.Lemmas.Datatypes2IpSpec
import ZCV.Lemmas.Datatypes2Float
/-! Totality of the stock datatype table: every modelled stock datatype returns a value or `ValueError`. -/
namespace ZCV.DT
open ZCV ZCV.Cfg

/-- a value or `ValueError` — no other exception -/
def dt2Total {α} (r : Except ConvErr α) : Prop := (∃ v, r = .ok v) ∨ r = .error .valueError

theorem dt2_total_ok {α} (v : α) : dt2Total (.ok v : Except ConvErr α) := Or.inl ⟨v, rfl⟩
theorem dt2_total_err {α} : dt2Total (.error .valueError : Except ConvErr α) := Or.inr rfl

theorem dt2_total_map {α β} (f : α → β) (r : Except ConvErr α) (h : dt2Total r) : dt2Total (r.map f) := by
  rcases h with ⟨v, rfl⟩ | rfl
  · exact Or.inl ⟨f v, rfl⟩
  · exact Or.inr rfl

theorem dt2_total_ite {α} (c : Prop) [Decidable c] (a b : Except ConvErr α) (ha : dt2Total a) (hb : dt2Total b) :
    dt2Total (if c then a else b) := by
  split <;> assumption

theorem dt2_integer_total (s : Str) : dt2Total (integer s) := by
  unfold integer
  cases pyInt s with
  | none => exact dt2_total_err
  | some n => exact dt2_total_ok n

theorem dt2_boolean_total (s : Str) : dt2Total (asBoolean s) := by
  unfold asBoolean
  exact dt2_total_ite _ _ _ (dt2_total_ok _) (dt2_total_ite _ _ _ (dt2_total_ok _) dt2_total_err)

theorem dt2_float_total (s : Str) : dt2Total (floatConv s) := by
  unfold floatConv
  exact dt2_total_ite _ _ _ (dt2_total_ok _) dt2_total_err

theorem dt2_regexConv_total (r : Rx.RE) (s : Str) : dt2Total (regexConv r s) := by
  unfold regexConv
  exact dt2_total_ite _ _ _ (dt2_total_ok _) dt2_total_err

theorem dt2_portNumber_total (s : Str) : dt2Total (portNumber s) := by
  rw [portNumber_eq_spec]
  unfold DTSpec.portNumber
  cases pyInt s with
  | none => exact dt2_total_err
  | some n => exact dt2_total_ite _ _ _ (dt2_total_ok _) dt2_total_err

theorem dt2_spec_integer_total (s : Str) : dt2Total (DTSpec.integer s) := dt2_integer_total s

theorem dt2_suffixed_total (tbl : List (String × Int)) (w : Nat) (s : Str) : dt2Total (DTSpec.suffixed tbl w s) := by
  unfold DTSpec.suffixed
  simp only
  split
  · exact dt2_total_map _ _ (dt2_spec_integer_total _)
  · exact dt2_spec_integer_total _

theorem dt2_byteSize_total (s : Str) : dt2Total (byteSize s) := by
  rw [byteSize_eq_spec]; exact dt2_suffixed_total _ _ _
theorem dt2_timeInterval_total (s : Str) : dt2Total (timeInterval s) := by
  rw [timeInterval_eq_spec]; exact dt2_suffixed_total _ _ _

theorem dt2_ipaddr_total (s : Str) : dt2Total (ipaddrOrHostname s) := by
  rw [dt2_ipaddrOrHostname_eq_spec]
  unfold DTSpec.ipaddrOrHostname
  exact dt2_total_ite _ _ _ (dt2_total_ok _) (dt2_total_ite _ _ _ (dt2_total_ok _)
    (dt2_total_ite _ _ _ (dt2_total_ok _) dt2_total_err))

theorem dt2_spec_portNumber_total (s : Str) : dt2Total (DTSpec.portNumber s) := by
  rw [← portNumber_eq_spec]; exact dt2_portNumber_total s

theorem dt2_inetAddress_total (d s : Str) : dt2Total (inetAddress d s) := by
  rw [inetAddress_eq_spec]
  unfold DTSpec.inetAddress
  have hwp : ∀ (p host : Str), dt2Total
      (if (p == []) = true then (Except.ok (if (lower host == []) = true then d else lower host, none) : R (Str × Option Int))
       else match DTSpec.portNumber p with
        | .ok n => .ok (if (lower host == []) = true then d else lower host, some n)
        | .error e => .error e) := by
    intro p host
    apply dt2_total_ite _ _ _ (dt2_total_ok _)
    rcases dt2_spec_portNumber_total p with ⟨v, hv⟩ | hv
    · rw [hv]; exact dt2_total_ok _
    · rw [hv]; exact dt2_total_err
  simp only
  split
  · generalize rsplit1 s ':' = hp
    obtain ⟨h, p⟩ := hp
    simp only
    split
    · exact hwp p _
    · split
      · exact dt2_total_ok _
      · exact hwp p h
  · rcases dt2_spec_portNumber_total s with ⟨v, hv⟩ | hv
    · rw [hv]; exact dt2_total_ok _
    · rw [hv]; exact dt2_total_ite _ _ _ (dt2_total_ok _) dt2_total_err

theorem dt2_socketAddress_total (d s : Str) : dt2Total (socketAddress d s) := by
  unfold socketAddress
  apply dt2_total_ite _ _ _ (dt2_total_ok _)
  rcases dt2_inetAddress_total d s with ⟨v, hv⟩ | hv
  · rw [hv]; exact dt2_total_ok _
  · rw [hv]; exact dt2_total_err

/-- the stock datatype names the value-conversion table `stockVal` models -/
def dt2Modelled : List Str :=
  ["boolean".toList, "dotted-name".toList, "dotted-suffix".toList, "identifier".toList, "integer".toList,
   "float".toList, "string".toList, "string-list".toList, "null".toList, "port-number".toList, "basic-key".toList,
   "inet-address".toList, "inet-binding-address".toList, "inet-connection-address".toList, "socket-address".toList,
   "socket-binding-address".toList, "socket-connection-address".toList, "ipaddr-or-hostname".toList,
   "byte-size".toList, "time-interval".toList]

/-- the stock datatype names it does not model (they consult the file system, the locale, or are `timedelta`) -/
def dt2Unmodelled : List Str :=
  ["locale".toList, "existing-directory".toList, "existing-path".toList, "existing-file".toList,
   "existing-dirpath".toList, "timedelta".toList]

theorem dt2_stockNames_split :
    Gen.stockNames.filter (fun d => dt2Modelled.contains d) = dt2Modelled ∧
    Gen.stockNames.filter (fun d => !dt2Modelled.contains d) = dt2Unmodelled := by
  decide +kernel

/-- a stock name outside the six unmodelled ones is one of the twenty modelled ones -/
theorem dt2_modelled_of_stock (dt : Str) (h : dt ∈ Gen.stockNames) (hn : dt ∉ dt2Unmodelled) : dt ∈ dt2Modelled := by
  cases hc : dt2Modelled.contains dt with
  | true => exact List.contains_iff_mem.mp hc
  | false =>
    exfalso
    apply hn
    rw [← dt2_stockNames_split.2, List.mem_filter]
    exact ⟨h, by rw [hc]; rfl⟩

theorem dt2_unmodelled_unknown (dt : Str) (h : dt ∈ dt2Unmodelled) (s : Str) :
    stockVal dt s = .error (.other "unknown-datatype".toList) := by
  simp only [dt2Unmodelled, List.mem_cons, List.not_mem_nil, or_false] at h
  rcases h with rfl | rfl | rfl | rfl | rfl | rfl <;> rfl

theorem dt2_stockVal_total (dt : Str) (h : dt ∈ dt2Modelled) (s : Str) : dt2Total (stockVal dt s) := by
  simp only [dt2Modelled, List.mem_cons, List.not_mem_nil, or_false] at h
  rcases h with rfl | rfl | rfl | rfl | rfl | rfl | rfl | rfl | rfl | rfl | rfl | rfl | rfl | rfl | rfl | rfl |
    rfl | rfl | rfl | rfl
  · exact dt2_total_map _ _ (dt2_boolean_total s)
  · exact dt2_total_map _ _ (dt2_regexConv_total _ s)
  · exact dt2_total_map _ _ (dt2_regexConv_total _ s)
  · exact dt2_total_map _ _ (dt2_regexConv_total _ s)
  · exact dt2_total_map _ _ (dt2_integer_total s)
  · exact dt2_float_total s
  · exact dt2_total_ok _
  · exact dt2_total_ok _
  · exact dt2_total_ok _
  · exact dt2_total_map _ _ (dt2_portNumber_total s)
  · exact dt2_total_map _ _ (dt2_total_map _ _ (dt2_regexConv_total _ s))
  · exact dt2_total_map _ _ (dt2_inetAddress_total _ s)
  · exact dt2_total_map _ _ (dt2_inetAddress_total _ s)
  · exact dt2_total_map _ _ (dt2_inetAddress_total _ s)
  · exact dt2_total_map _ _ (dt2_socketAddress_total _ s)
  · exact dt2_total_map _ _ (dt2_socketAddress_total _ s)
  · exact dt2_total_map _ _ (dt2_socketAddress_total _ s)
  · exact dt2_total_map _ _ (dt2_ipaddr_total s)
  · exact dt2_total_map _ _ (dt2_byteSize_total s)
  · exact dt2_total_map _ _ (dt2_timeInterval_total s)

/-! ## key types -/

theorem dt2_stockKey_idempotent (kt : Str)
    (h : kt ∈ ["basic-key".toList, "identifier".toList, "ipaddr-or-hostname".toList, "string".toList])
    (s r : Str) (hk : stockKey kt s = .ok r) : stockKey kt r = .ok r := by
  simp only [List.mem_cons, List.not_mem_nil, or_false] at h
  rcases h with rfl | rfl | rfl | rfl
  · exact basicKey_idempotent s r hk
  · exact identifier_idempotent s r hk
  · exact dt2_ipaddrOrHostname_idempotent s r hk
  · rfl

theorem dt2_ofList_eq (l : Str) (s : String) (h : String.ofList l = s) : l = s.toList := by
  rw [← h]; simp

/-- any other key type name is unknown to the table -/
theorem dt2_stockKey_unknown (kt : Str)
    (h : kt ∉ ["basic-key".toList, "identifier".toList, "ipaddr-or-hostname".toList, "string".toList]) (s : Str) :
    stockKey kt s = .error (.other "unknown-keytype".toList) := by
  unfold stockKey
  split
  · rename_i heq; exact absurd (dt2_ofList_eq _ _ heq) (fun e => h (by rw [e]; simp))
  · rename_i heq; exact absurd (dt2_ofList_eq _ _ heq) (fun e => h (by rw [e]; simp))
  · rename_i heq; exact absurd (dt2_ofList_eq _ _ heq) (fun e => h (by rw [e]; simp))
  · rename_i heq; exact absurd (dt2_ofList_eq _ _ heq) (fun e => h (by rw [e]; simp))
  · rfl

end ZCV.DT
