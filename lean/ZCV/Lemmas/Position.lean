import ZCV.Lemmas.ParseGen
/-!
C08, parse level: where the configuration error that ends a parse comes from, and which position it carries.

* `fixPos` — the position fix-up of `handle_key_value` / `_end_section`;
* `LineErr c url line st e` — the possible origins of a configuration error `e` that ends the processing of line `line`
  of resource `url` in parser state `st` (the parser itself, `addValue`, `endSection` with a conversion error,
  `importSchemaComponent`, a refused `%include`);
* `Enters` — the `%include` on a line gets as far as reading the included resource;
* `Culprit` — the line (resource, 1-based number, parser state) at which a failing parse fails, through `%include`s at any depth;
* `culprit_complete`, `culprit_sound`, `culprit_unique`, `culprit_lineErr`, `culprit_where` (`Reach`);
* `firstBad` and `culprit_of_firstBad_none/some` — the culprit in terms of line indices;
* `LineErr.line_or_exception`, `LineErr.has_line`, `LineErr.position(_nonconv)` — what the origin says about the position;
* `openSection_empty_eq`, `closeSection_line_shift` — `<type/>` against `<type>` + `</type>`.
-/
namespace ZCV.Cfg
open ZCV

/-! ### the position fix-up -/

/-- what `handle_key_value` and `_end_section` do to the position of an error raised by the context: a missing or negative line
    number becomes the parser's, a missing or empty URL becomes the resource's -/
def fixPos (url : Option Str) (line : Nat) (e : Err) : Err :=
  { e with line := (match e.line with | some l => if l < 0 then some (line : Int) else some l | none => some (line : Int)),
           url := (match e.url with | some u => if u == [] then url else some u | none => url) }

theorem fixPos_kind (url : Option Str) (line : Nat) (e : Err) : (fixPos url line e).kind = e.kind := rfl
theorem fixPos_tag (url : Option Str) (line : Nat) (e : Err) : (fixPos url line e).tag = e.tag := rfl
theorem fixPos_value (url : Option Str) (line : Nat) (e : Err) : (fixPos url line e).value = e.value := rfl

/-- an error without a position gets the parser's -/
theorem fixPos_nopos (url : Option Str) (line : Nat) (e : Err) (h1 : e.line = none) (h2 : e.url = none) :
    (fixPos url line e).line = some (line : Int) ∧ (fixPos url line e).url = url := by
  simp [fixPos, h1, h2]

/-- an error that already names line `line` of `url` keeps it -/
theorem fixPos_same (url : Option Str) (line : Nat) (e : Err) (h1 : e.line = some (line : Int)) (h2 : e.url = url) :
    (fixPos url line e).line = some (line : Int) ∧ (fixPos url line e).url = url := by
  subst h2
  simp only [fixPos, h1]
  constructor
  · split <;> rfl
  · cases hu : e.url with
    | none => rfl
    | some u =>
      simp only
      split
      · rename_i hn
        have : u = [] := by simpa using hn
        rw [this]
      · rfl

/-- an error with a proper position (non-negative line, non-empty URL) keeps it -/
theorem fixPos_keep (url : Option Str) (line : Nat) (e : Err) (l : Int) (u : Str) (h1 : e.line = some l) (hl : 0 ≤ l)
    (h2 : e.url = some u) (hu : u ≠ []) : (fixPos url line e).line = some l ∧ (fixPos url line e).url = some u := by
  simp only [fixPos, h1, h2]
  constructor
  · rw [if_neg (by omega)]
  · rw [if_neg (by simpa using hu)]

/-- after the fix-up there always is a non-negative line number -/
theorem fixPos_line (url : Option Str) (line : Nat) (e : Err) : ∃ n : Int, (fixPos url line e).line = some n ∧ 0 ≤ n := by
  unfold fixPos
  dsimp only
  split
  · rename_i l _
    split
    · exact ⟨line, rfl, by omega⟩
    · exact ⟨l, rfl, by omega⟩
  · exact ⟨line, rfl, by omega⟩

theorem kvCore_error {σ} (c : PCtx σ) (url : Option Str) (line : Nat) (key v : Str) (st : PS σ) (e : Err)
    (h : kvCore c url line key v st = .error (.cfg e)) :
    ∃ e', c.value st.ctx key v { line := line, url := url } = .error (.cfg e') ∧ e = fixPos url line e' := by
  unfold kvCore at h
  split at h
  · cases h
  · rename_i e' he'
    cases h
    exact ⟨e', he', rfl⟩
  · rename_i f hf1 hf2
    cases h
    exact absurd rfl (hf1 e)

theorem kvCore_error_other {σ} (c : PCtx σ) (url : Option Str) (line : Nat) (key v : Str) (st : PS σ) (f : Fail)
    (hf : ∀ e, f ≠ .cfg e) (h : kvCore c url line key v st = .error f) :
    c.value st.ctx key v { line := line, url := url } = .error f := by
  unfold kvCore at h
  split at h
  · cases h
  · cases h; exact absurd rfl (hf _)
  · rename_i f' hf1 hf2
    cases h
    exact hf2

theorem closeFixup_error {σ} (url : Option Str) (line : Nat) (r : M σ) (e : Err)
    (h : closeFixup url line r = .error (.cfg e)) :
    ∃ e', r = .error (.cfg e') ∧
      ((e'.kind = .conversion ∧ e = fixPos url line e') ∨
       (e'.kind ≠ .conversion ∧ e = { kind := .syntax, line := some (line : Int), url := url, tag := "close:" ++ e'.tag })) := by
  unfold closeFixup at h
  split at h
  · cases h
  · rename_i e'
    split at h
    · rename_i hk
      cases h
      exact ⟨e', rfl, .inl ⟨by simpa using hk, rfl⟩⟩
    · rename_i hk
      cases h
      exact ⟨e', rfl, .inr ⟨by simpa using hk, rfl⟩⟩
  · rename_i f hf
    cases h
    exact absurd rfl (hf e)

/-- `replace` only fails with a substitution error that names this line of this resource -/
theorem replace_error (env : Env) (defs) (url : Option Str) (line : Nat) (raw : Str) (f : Fail)
    (h : replace env defs url line raw = .error f) :
    ∃ e, f = .cfg e ∧ e.line = some (line : Int) ∧ e.url = url ∧ (e.kind = .replacement ∨ e.kind = .substSyntax) ∧
      e.value = none := by
  unfold replace at h
  split at h
  · cases h
  · cases h; exact ⟨_, rfl, rfl, rfl, .inl rfl, rfl⟩
  · cases h; exact ⟨_, rfl, rfl, rfl, .inr rfl, rfl⟩

/-- `%define` only fails with an error of the parser's own that names this line of this resource -/
theorem define_error (env : Env) (url : Option Str) (line : Nat) (rest : Str) (defs : List (Str × Str)) (e : Err)
    (h : define env url line rest defs = .error (.cfg e)) :
    e.line = some (line : Int) ∧ e.url = url ∧ (e.kind = .syntax ∨ e.kind = .replacement ∨ e.kind = .substSyntax) ∧
      e.value = none := by
  unfold define at h
  split at h
  · cases h
  · rename_i p0 more _
    simp only [bind, Except.bind, pure, Except.pure, throw, throwThe, MonadExceptOf.throw] at h
    have hr : ∀ f, replace env defs url line (defValue more) = .error f → f = .cfg e →
        e.line = some (line : Int) ∧ e.url = url ∧ (e.kind = .syntax ∨ e.kind = .replacement ∨ e.kind = .substSyntax) ∧
          e.value = none := by
      intro f hf he
      obtain ⟨e0, he0, h1, h2, h3, h4⟩ := replace_error _ _ _ _ _ _ hf
      rw [he] at he0
      cases he0
      exact ⟨h1, h2, .inr h3, h4⟩
    have hsyn : ∀ t, (Except.error (synErr url line t) : M (List (Str × Str))) = .error (.cfg e) →
        e.line = some (line : Int) ∧ e.url = url ∧ (e.kind = .syntax ∨ e.kind = .replacement ∨ e.kind = .substSyntax) ∧
          e.value = none := by
      intro t ht
      cases ht
      exact ⟨rfl, rfl, .inl rfl, rfl⟩
    cases hrep : replace env defs url line (defValue more) with
    | error f =>
      rw [hrep] at h
      split at h
      · cases h; exact hr _ hrep rfl
      · split at h
        · exact hsyn _ h
        · cases h; exact hr _ hrep rfl
    | ok v =>
      rw [hrep] at h
      split at h
      · dsimp only at h
        split at h
        · exact hsyn _ h
        · split at h
          · exact hsyn _ h
          · cases h
      · split at h
        · exact hsyn _ h
        · cases h

/-! ### origins of the error that ends one line -/

/-- the `%include` refusals of `includeConfiguration` / `openResource` / `normalizeURL`: plain configuration errors that name
    no line; the URL, if any, is that of the resource that could not be read -/
def IncludeRefusal (e : Err) : Prop :=
  e.kind = .plain ∧ e.line = none ∧ e.value = none ∧
    ((e.url = none ∧ e.tag = "fragment") ∨ (∃ u, e.url = some u ∧ (e.tag = "error opening" ∨ e.tag = "resource includes itself")))

/-- the possible origins of a configuration error `e` that ends the processing of line `line` of resource `url`, the parser
    being in state `st` when it reads the line -/
inductive LineErr {σ} (c : PCtx σ) (url : Option Str) (line : Nat) (st : PS σ) (e : Err) : Prop
  /-- raised by the parser itself (`self.error(...)`, or `replace`): this line, this resource -/
  | parser (hl : e.line = some (line : Int)) (hu : e.url = url)
      (hk : e.kind = .syntax ∨ e.kind = .replacement ∨ e.kind = .substSyntax) (hv : e.value = none)
  /-- raised by `section.addValue(key, value, position)` and fixed up -/
  | value (key v : Str) (e' : Err) (h : c.value st.ctx key v { line := line, url := url } = .error (.cfg e'))
      (he : e = fixPos url line e')
  /-- a conversion error raised by `endSection` (closing line or `<type/>`) and fixed up -/
  | stop (ctx : σ) (ty : Str) (nm : Option Str) (e' : Err)
      (hctx : ctx = st.ctx ∨ c.start st.ctx ty nm = .ok ctx)
      (h : c.stop ctx ty nm = .error (.cfg e')) (hk : e'.kind = .conversion) (he : e = fixPos url line e')
  /-- raised by `importSchemaComponent`: passes through untouched -/
  | imp (pkg : Str) (h : c.imp st.ctx pkg = .error (.cfg e))
  /-- the `%include` on this line is refused before the resource is read -/
  | include_ (h : IncludeRefusal e)

/-- the `%include` on the stripped line `l` (line `line` of `url`, parser state `st`) gets as far as reading resource `u`,
    whose lines are `sub`, with `fuel'` nesting levels left -/
def Enters {σ} (fuel : Nat) (env : Env) (c : PCtx σ) (active : List Str) (url : Option Str) (line : Nat) (l : Str) (st : PS σ)
    (fuel' : Nat) (u : Str) (sub : List Str) : Prop :=
  ∃ arg a, lineShape l = .include_ arg ∧ replace env st.defs url line (strip arg) = .ok a ∧ c.canInclude = true ∧
    env.resolve url a = .url u ∧ env.res u = some sub ∧ (u != [] && active.contains u) = false ∧ fuel = fuel' + 1

/-- the state in which an included resource is read -/
def subState {σ} (st : PS σ) : PS σ := { ctx := st.ctx, stack := [], defs := st.defs }

theorem Enters.unique {σ} {fuel : Nat} {env : Env} {c : PCtx σ} {active : List Str} {url : Option Str} {line : Nat} {l : Str}
    {st : PS σ} {f1 f2 : Nat} {u1 u2 : Str} {s1 s2 : List Str}
    (h1 : Enters fuel env c active url line l st f1 u1 s1) (h2 : Enters fuel env c active url line l st f2 u2 s2) :
    f1 = f2 ∧ u1 = u2 ∧ s1 = s2 := by
  obtain ⟨arg1, a1, hs1, hr1, _, hres1, hsub1, _, hf1⟩ := h1
  obtain ⟨arg2, a2, hs2, hr2, _, hres2, hsub2, _, hf2⟩ := h2
  rw [hs1] at hs2
  cases hs2
  rw [hr1] at hr2
  cases hr2
  rw [hres1] at hres2
  cases hres2
  rw [hsub1] at hsub2
  cases hsub2
  exact ⟨by omega, rfl, rfl⟩

/-- an entered `%include` line does exactly what the parse of the included resource does (errors included) -/
theorem stepLine_enters {σ} {fuel : Nat} {env : Env} {c : PCtx σ} {active : List Str} {url : Option Str} {line : Nat} {l : Str}
    {st : PS σ} {fuel' : Nat} {u : Str} {sub : List Str} (h : Enters fuel env c active url line l st fuel' u sub) :
    stepLine fuel env c active url line l st =
      (parseLines fuel' env c (u :: active) (some u) sub 0 (subState st) >>= fun r =>
        .ok { st with ctx := r.ctx, defs := r.defs }) := by
  obtain ⟨arg, a, hs, hr, hc, hres, hsub, hact, hf⟩ := h
  subst hf
  rw [stepLine_include _ _ _ _ _ _ _ _ _ hs]
  unfold incStep
  rw [hr]
  show (if (!c.canInclude) = true then _ else _) = _
  rw [hc]
  simp only [Bool.not_true, Bool.false_eq_true, if_false, hres, hsub, hact]
  rfl

/-- an `%include` line that succeeds has read its resource to the end -/
theorem stepLine_include_ok {σ} (fuel : Nat) (env : Env) (c : PCtx σ) (active : List Str) (url : Option Str) (line : Nat)
    (l a : Str) (st st1 : PS σ) (hs : lineShape l = .include_ a)
    (h : stepLine fuel env c active url line l st = .ok st1) :
    ∃ fuel' u sub r, Enters fuel env c active url line l st fuel' u sub ∧
      parseLines fuel' env c (u :: active) (some u) sub 0 (subState st) = .ok r ∧
      st1 = { st with ctx := r.ctx, defs := r.defs } := by
  rw [stepLine_include _ _ _ _ _ _ _ _ _ hs] at h
  unfold incStep at h
  obtain ⟨a', hrep, h⟩ := bind_ok_inv h
  split at h
  · cases h
  · rename_i hci
    split at h
    · cases h
    · cases h
    · rename_i u hres
      split at h
      · cases h
      · rename_i sub hsub
        split at h
        · cases h
        · rename_i hact
          cases fuel with
          | zero => cases h
          | succ fuel' =>
            dsimp only at h
            obtain ⟨r, hr, h⟩ := bind_ok_inv h
            cases h
            exact ⟨fuel', u, sub, r, ⟨a, a', hs, hrep, by simpa using hci, hres, hsub, by simpa using hact, rfl⟩, hr, rfl⟩

/-- an `%include` line fails because of a substitution error in its argument (this line, this resource), because the
    resource is refused before it is read, or with the very error of the parse of the included resource -/
theorem stepLine_include_error {σ} (fuel : Nat) (env : Env) (c : PCtx σ) (active : List Str) (url : Option Str) (line : Nat)
    (l a : Str) (st : PS σ) (e : Err) (hs : lineShape l = .include_ a)
    (h : stepLine fuel env c active url line l st = .error (.cfg e)) :
    (e.line = some (line : Int) ∧ e.url = url ∧ (e.kind = .replacement ∨ e.kind = .substSyntax) ∧ e.value = none) ∨
    IncludeRefusal e ∨
    ∃ fuel' u sub, Enters fuel env c active url line l st fuel' u sub ∧
      parseLines fuel' env c (u :: active) (some u) sub 0 (subState st) = .error (.cfg e) := by
  rw [stepLine_include _ _ _ _ _ _ _ _ _ hs] at h
  unfold incStep at h
  cases hrep : replace env st.defs url line (strip a) with
  | error f =>
    rw [hrep] at h
    cases h
    obtain ⟨e0, he0, h1, h2, h3, h4⟩ := replace_error _ _ _ _ _ _ hrep
    cases he0
    exact .inl ⟨h1, h2, h3, h4⟩
  | ok a' =>
    rw [hrep, ok_bind] at h
    split at h
    · cases h
    · rename_i hci
      split at h
      · cases h
        exact .inr (.inl ⟨rfl, rfl, rfl, .inl ⟨rfl, rfl⟩⟩)
      · cases h
      · rename_i u hres
        split at h
        · cases h
          exact .inr (.inl ⟨rfl, rfl, rfl, .inr ⟨u, rfl, .inl rfl⟩⟩)
        · rename_i sub hsub
          split at h
          · cases h
            exact .inr (.inl ⟨rfl, rfl, rfl, .inr ⟨u, rfl, .inr rfl⟩⟩)
          · rename_i hact
            split at h
            · cases h
            · rename_i fuel'
              refine .inr (.inr ⟨fuel', u, sub, ⟨a, a', hs, hrep, by simpa using hci, hres, hsub, by simpa using hact, rfl⟩, ?_⟩)
              cases hp : parseLines fuel' env c (u :: active) (some u) sub 0 (subState st) with
              | ok r => rw [show ({ ctx := st.ctx, stack := [], defs := st.defs } : PS σ) = subState st from rfl, hp] at h; cases h
              | error f =>
                rw [show ({ ctx := st.ctx, stack := [], defs := st.defs } : PS σ) = subState st from rfl, hp] at h
                cases h
                rfl


/-- one line: a configuration error is either explained by `LineErr`, or it is the error of the included resource -/
theorem stepLine_error {σ} (fuel : Nat) (env : Env) (c : PCtx σ) (active : List Str) (url : Option Str) (line : Nat)
    (l : Str) (st : PS σ) (e : Err) (h : stepLine fuel env c active url line l st = .error (.cfg e)) :
    LineErr c url line st e ∨
      ∃ fuel' u sub, Enters fuel env c active url line l st fuel' u sub ∧
        parseLines fuel' env c (u :: active) (some u) sub 0 (subState st) = .error (.cfg e) := by
  cases hs : lineShape l with
  | skip => rw [stepLine] at h; simp only [hs] at h; cases h
  | bad t => rw [stepLine] at h; simp only [hs] at h; cases h; exact .inl (.parser rfl rfl (.inl rfl) rfl)
  | internal t => rw [stepLine] at h; simp only [hs] at h; cases h
  | close ty =>
    rw [stepLine] at h; simp only [hs] at h
    unfold closeSection at h
    split at h
    · cases h; exact .inl (.parser rfl rfl (.inl rfl) rfl)
    · rename_i ot name T hst
      split at h
      · cases h; exact .inl (.parser rfl rfl (.inl rfl) rfl)
      · cases hcf : closeFixup url line (c.stop st.ctx ty name) with
        | ok s => rw [hcf] at h; cases h
        | error f =>
          rw [hcf] at h
          cases h
          obtain ⟨e', he', h2⟩ := closeFixup_error _ _ _ _ hcf
          rcases h2 with ⟨hk, rfl⟩ | ⟨_, rfl⟩
          · exact .inl (.stop st.ctx ty name e' (.inl rfl) he' hk rfl)
          · exact .inl (.parser rfl rfl (.inl rfl) rfl)
  | open_ ty nm emp =>
    rw [stepLine] at h; simp only [hs] at h
    unfold openSection at h
    split at h
    · cases h; exact .inl (.parser rfl rfl (.inl rfl) rfl)
    · rename_i f hf1 hf2
      cases h
      exact absurd rfl (hf1 e)
    · rename_i ctx1 h1
      split at h
      · cases hcf : closeFixup url line (c.stop ctx1 ty nm) with
        | ok s => rw [hcf] at h; cases h
        | error f =>
          rw [hcf] at h
          cases h
          obtain ⟨e', he', h2⟩ := closeFixup_error _ _ _ _ hcf
          rcases h2 with ⟨hk, rfl⟩ | ⟨_, rfl⟩
          · exact .inl (.stop ctx1 ty nm e' (.inr h1) he' hk rfl)
          · exact .inl (.parser rfl rfl (.inl rfl) rfl)
      · cases h
  | kv k raw =>
    rw [stepLine] at h; simp only [hs] at h
    rw [keyValue_eq] at h
    by_cases hr : (raw == []) = true
    · simp only [hr, if_true] at h
      obtain ⟨e', he', rfl⟩ := kvCore_error _ _ _ _ _ _ _ h
      exact .inl (.value k _ e' he' rfl)
    · simp only [hr] at h
      cases hrep : replace env st.defs url line raw with
      | error f =>
        rw [hrep] at h
        cases h
        obtain ⟨e0, he0, h1, h2, h3, h4⟩ := replace_error _ _ _ _ _ _ hrep
        cases he0
        exact .inl (.parser h1 h2 (.inr h3) h4)
      | ok v =>
        rw [hrep] at h
        obtain ⟨e', he', rfl⟩ := kvCore_error _ _ _ _ _ _ _ h
        exact .inl (.value k _ e' he' rfl)
  | define a =>
    rw [stepLine_define _ _ _ _ _ _ _ _ _ hs] at h
    unfold defStep at h
    split at h
    · cases h
    · cases hd : define env url line a st.defs with
      | ok d => rw [hd] at h; cases h
      | error f =>
        rw [hd] at h
        cases h
        obtain ⟨h1, h2, h3, h4⟩ := define_error _ _ _ _ _ _ hd
        exact .inl (.parser h1 h2 h3 h4)
  | import_ a =>
    rw [stepLine_import _ _ _ _ _ _ _ _ _ hs] at h
    unfold impStep at h
    cases hrep : replace env st.defs url line (strip a) with
    | error f =>
      rw [hrep] at h
      cases h
      obtain ⟨e0, he0, h1, h2, h3, h4⟩ := replace_error _ _ _ _ _ _ hrep
      cases he0
      exact .inl (.parser h1 h2 (.inr h3) h4)
    | ok pkg =>
      rw [hrep] at h
      cases hi : c.imp st.ctx pkg with
      | ok s => rw [ok_bind, hi] at h; cases h
      | error f =>
        rw [ok_bind, hi] at h
        cases h
        exact .inl (.imp pkg hi)
  | include_ a =>
    rcases stepLine_include_error _ _ _ _ _ _ _ _ _ _ hs h with ⟨h1, h2, h3, h4⟩ | h5 | h6
    · exact .inl (.parser h1 h2 (.inr h3) h4)
    · exact .inl (.include_ h5)
    · exact .inr h6

/-- a line that is not an `%include` never fails with the refusal of an `%include`: its configuration error has a line number
    or was raised by `importSchemaComponent` -/
theorem stepLine_noninclude_line {σ} (fuel : Nat) (env : Env) (c : PCtx σ) (active : List Str) (url : Option Str) (line : Nat)
    (l : Str) (st : PS σ) (e : Err) (hni : ∀ a, lineShape l ≠ .include_ a)
    (h : stepLine fuel env c active url line l st = .error (.cfg e)) :
    e.line ≠ none ∨ ∃ pkg, c.imp st.ctx pkg = .error (.cfg e) := by
  rcases stepLine_error _ _ _ _ _ _ _ _ _ h with hle | ⟨_, _, _, ⟨arg, _, hsh, _⟩, _⟩
  · cases hle with
    | parser hl hu hk hv => exact .inl (by rw [hl]; simp)
    | value key v e' h he =>
      subst he
      obtain ⟨m, hm, _⟩ := fixPos_line url line e'
      exact .inl (by rw [hm]; simp)
    | stop ctx ty nm e' hctx h hk he =>
      subst he
      obtain ⟨m, hm, _⟩ := fixPos_line url line e'
      exact .inl (by rw [hm]; simp)
    | imp pkg h => exact .inr ⟨pkg, h⟩
    | include_ hr =>
      -- only the `%include` arm of `stepLine` raises these: go through the arms
      refine Classical.byContradiction fun hcon => ?_
      have hl : e.line = none := Classical.byContradiction fun hne => hcon (.inl hne)
      have himp : ∀ pkg, c.imp st.ctx pkg ≠ .error (.cfg e) := fun pkg hp => hcon (.inr ⟨pkg, hp⟩)
      cases hs : lineShape l with
      | include_ a => exact hni a hs
      | skip => rw [stepLine] at h; simp only [hs] at h; cases h
      | bad t => rw [stepLine] at h; simp only [hs] at h; cases h; cases hl
      | internal t => rw [stepLine] at h; simp only [hs] at h; cases h
      | close ty =>
        rw [stepLine] at h; simp only [hs] at h
        unfold closeSection at h
        split at h
        · cases h; cases hl
        · split at h
          · cases h; cases hl
          · cases hcf : closeFixup url line (c.stop st.ctx ty _) with
            | ok s => rw [hcf] at h; cases h
            | error f =>
              rw [hcf] at h
              cases h
              exact closeFixup_error_has_line _ _ _ _ hcf hl
      | open_ ty nm emp =>
        rw [stepLine] at h; simp only [hs] at h
        unfold openSection at h
        split at h
        · cases h; cases hl
        · rename_i f hf1 hf2
          cases h
          exact absurd rfl (hf1 e)
        · rename_i ctx1 h1
          split at h
          · cases hcf : closeFixup url line (c.stop ctx1 ty nm) with
            | ok s => rw [hcf] at h; cases h
            | error f =>
              rw [hcf] at h
              cases h
              exact closeFixup_error_has_line _ _ _ _ hcf hl
          · cases h
      | kv k raw =>
        rw [stepLine] at h; simp only [hs] at h
        exact keyValue_error_has_line _ _ _ _ _ _ _ _ h hl
      | define a =>
        rw [stepLine_define _ _ _ _ _ _ _ _ _ hs] at h
        unfold defStep at h
        split at h
        · cases h
        · cases hd : define env url line a st.defs with
          | ok d => rw [hd] at h; cases h
          | error f =>
            rw [hd] at h
            cases h
            rw [(define_error _ _ _ _ _ _ hd).1] at hl
            cases hl
      | import_ a =>
        rw [stepLine_import _ _ _ _ _ _ _ _ _ hs] at h
        unfold impStep at h
        cases hrep : replace env st.defs url line (strip a) with
        | error f =>
          rw [hrep] at h
          cases h
          obtain ⟨e0, he0, h1, _⟩ := replace_error _ _ _ _ _ _ hrep
          cases he0
          rw [h1] at hl
          cases hl
        | ok pkg =>
          rw [hrep] at h
          cases hi : c.imp st.ctx pkg with
          | ok s => rw [ok_bind, hi] at h; cases h
          | error f =>
            rw [ok_bind, hi] at h
            cases h
            exact himp pkg hi
  · exact absurd hsh (hni _)

/-! ### what the origins say about the position -/

/-- the error brings no usable position of its own: no line number or a negative one, no URL or an empty one -/
def NoPos (e : Err) : Prop := (∀ l, e.line = some l → l < 0) ∧ (∀ u, e.url = some u → u = [])

theorem fixPos_noPos (url : Option Str) (line : Nat) (e : Err) (h : NoPos e) :
    (fixPos url line e).line = some (line : Int) ∧ (fixPos url line e).url = url := by
  obtain ⟨h1, h2⟩ := h
  unfold fixPos
  dsimp only
  constructor
  · cases hl : e.line with
    | none => rfl
    | some l => simp only; rw [if_pos (h1 l hl)]
  · cases hu : e.url with
    | none => rfl
    | some u => simp only; rw [h2 u hu]; rfl

/-- a configuration error that ends a line has a non-negative line number, unless `importSchemaComponent` raised it or it
    is the refusal of an `%include` -/
theorem LineErr.line_or_exception {σ} {c : PCtx σ} {u : Option Str} {n : Nat} {sF : PS σ} {e : Err}
    (h : LineErr c u n sF e) :
    (∃ m : Int, e.line = some m ∧ 0 ≤ m) ∨ (∃ pkg, c.imp sF.ctx pkg = .error (.cfg e)) ∨ IncludeRefusal e := by
  cases h with
  | parser hl hu hk hv => exact .inl ⟨n, hl, by omega⟩
  | value key v e' h he => subst he; exact .inl (fixPos_line _ _ _)
  | stop ctx ty nm e' hctx h hk he => subst he; exact .inl (fixPos_line _ _ _)
  | imp pkg h => exact .inr (.inl ⟨pkg, h⟩)
  | include_ h => exact .inr (.inr h)

/-- the kinds of error the property speaks about -/
def lineKind (k : Kind) : Prop := k = .syntax ∨ k = .conversion ∨ k = .replacement ∨ k = .substSyntax

/-- … so an error of one of the four line-bound kinds has a line number as soon as `importSchemaComponent` raises no such
    error without one -/
theorem LineErr.has_line {σ} {c : PCtx σ} {u : Option Str} {n : Nat} {sF : PS σ} {e : Err}
    (h : LineErr c u n sF e) (hk : lineKind e.kind)
    (himp : ∀ pkg e', c.imp sF.ctx pkg = .error (.cfg e') → lineKind e'.kind → ∃ m : Int, e'.line = some m ∧ 0 ≤ m) :
    ∃ m : Int, e.line = some m ∧ 0 ≤ m := by
  rcases h.line_or_exception with h | ⟨pkg, h⟩ | ⟨h, _⟩
  · exact h
  · exact himp pkg e h hk
  · rw [h] at hk
    rcases hk with hk | hk | hk | hk <;> cases hk

/-- the exact position: when the context's own errors bring no position (or, for `addValue`, the one they were given), the
    error names the culprit line and its resource -/
theorem LineErr.position {σ} {c : PCtx σ} {u : Option Str} {n : Nat} {sF : PS σ} {e : Err}
    (h : LineErr c u n sF e)
    (hv : ∀ key v e', c.value sF.ctx key v { line := n, url := u } = .error (.cfg e') →
      NoPos e' ∨ (e'.line = some (n : Int) ∧ e'.url = u))
    (hs : ∀ ctx ty nm e', (ctx = sF.ctx ∨ c.start sF.ctx ty nm = .ok ctx) → c.stop ctx ty nm = .error (.cfg e') →
      e'.kind = .conversion → NoPos e') :
    (e.line = some (n : Int) ∧ e.url = u) ∨ (∃ pkg, c.imp sF.ctx pkg = .error (.cfg e)) ∨ IncludeRefusal e := by
  cases h with
  | parser hl hu hk hv => exact .inl ⟨hl, hu⟩
  | value key v e' h he =>
    subst he
    rcases hv _ _ _ h with h | ⟨h1, h2⟩
    · exact .inl (fixPos_noPos _ _ _ h)
    · exact .inl (fixPos_same _ _ _ h1 h2)
  | stop ctx ty nm e' hctx h hk he =>
    subst he
    exact .inl (fixPos_noPos _ _ _ (hs _ _ _ _ hctx h hk))
  | imp pkg h => exact .inr (.inl ⟨pkg, h⟩)
  | include_ h => exact .inr (.inr h)

/-- the same for errors that are not conversion errors: only `addValue` matters -/
theorem LineErr.position_nonconv {σ} {c : PCtx σ} {u : Option Str} {n : Nat} {sF : PS σ} {e : Err}
    (h : LineErr c u n sF e) (hk : e.kind ≠ .conversion)
    (hv : ∀ key v e', c.value sF.ctx key v { line := n, url := u } = .error (.cfg e') →
      NoPos e' ∨ (e'.line = some (n : Int) ∧ e'.url = u)) :
    (e.line = some (n : Int) ∧ e.url = u) ∨ (∃ pkg, c.imp sF.ctx pkg = .error (.cfg e)) ∨ IncludeRefusal e := by
  cases h with
  | parser hl hu hk hv => exact .inl ⟨hl, hu⟩
  | value key v e' h he =>
    subst he
    rcases hv _ _ _ h with h | ⟨h1, h2⟩
    · exact .inl (fixPos_noPos _ _ _ h)
    · exact .inl (fixPos_same _ _ _ h1 h2)
  | stop ctx ty nm e' hctx h hk' he =>
    subst he
    exact absurd hk' hk
  | imp pkg h => exact .inr (.inl ⟨pkg, h⟩)
  | include_ h => exact .inr (.inr h)

/-! ### `<type/>` is `<type>` followed by `</type>` on the same line -/

/-- the self-closing form does exactly what the opening line followed by the closing line does, results and errors alike,
    the closing line being given the number of the `<type/>` line -/
theorem openSection_empty_eq {σ} (c : PCtx σ) (url : Option Str) (line : Nat) (ty : Str) (nm : Option Str) (st : PS σ) :
    openSection c url line ty nm true st =
      (openSection c url line ty nm false st >>= closeSection c url line ty) := by
  unfold openSection
  cases hs : c.start st.ctx ty nm with
  | error f => cases f <;> rfl
  | ok ctx1 =>
    simp only [if_true, Bool.false_eq_true, if_false, ok_bind]
    unfold closeSection
    simp only [bne_self_eq_false, Bool.false_eq_true, if_false]

/-- the number given to a closing line only shows in the line number of the error, and only when the error brought none -/
theorem closeSection_line_shift {σ} (c : PCtx σ) (url : Option Str) (line line2 : Nat) (ty : Str) (st : PS σ) (e2 : Err)
    (h : closeSection c url line2 ty st = .error (.cfg e2)) :
    ∃ e1, closeSection c url line ty st = .error (.cfg e1) ∧ e1.kind = e2.kind ∧ e1.url = e2.url ∧ e1.tag = e2.tag ∧
      e1.value = e2.value ∧ (e1.line = e2.line ∨ (e1.line = some (line : Int) ∧ e2.line = some (line2 : Int))) := by
  unfold closeSection at h ⊢
  cases hst : st.stack with
  | nil =>
    rw [hst] at h
    cases h
    exact ⟨_, rfl, rfl, rfl, rfl, rfl, .inr ⟨rfl, rfl⟩⟩
  | cons p T =>
    obtain ⟨ot, name⟩ := p
    rw [hst] at h
    dsimp only at h ⊢
    by_cases hne : (ty != ot) = true
    · rw [if_pos hne] at h ⊢
      cases h
      exact ⟨_, rfl, rfl, rfl, rfl, rfl, .inr ⟨rfl, rfl⟩⟩
    · rw [if_neg hne] at h ⊢
      cases hcf : closeFixup url line2 (c.stop st.ctx ty name) with
      | ok s => rw [hcf] at h; cases h
      | error f =>
        rw [hcf] at h
        cases h
        obtain ⟨e', he', h2⟩ := closeFixup_error _ _ _ _ hcf
        rw [he']
        unfold closeFixup
        dsimp only
        rcases h2 with ⟨hk, rfl⟩ | ⟨hk, rfl⟩
        · rw [if_pos (by simp [hk])]
          refine ⟨_, rfl, rfl, rfl, rfl, rfl, ?_⟩
          cases hl : e'.line with
          | none => exact .inr ⟨rfl, by simp [fixPos, hl]⟩
          | some l =>
            by_cases hneg : l < 0
            · exact .inr ⟨by simp [hneg], by simp [fixPos, hl, hneg]⟩
            · exact .inl (by simp [fixPos, hl, hneg])
        · rw [if_neg (by simpa using hk)]
          exact ⟨_, rfl, rfl, rfl, rfl, rfl, .inr ⟨rfl, rfl⟩⟩

/-! ### the culprit line of a failing parse -/

/-- `Culprit env c fuel active url lines lineno st f u n sF`: reading `lines` (the rest of resource `url`, `lineno` lines of which
    have been read already) from parser state `st` fails with `f`, and the failure arises at line `n` of resource `u`, which the
    parser reads in state `sF`.  Walk down the lines: a line that succeeds is passed (`next`); a line that fails without
    entering another resource is the culprit (`here`); when an `%include` line has opened its resource the culprit is looked for
    in there, where lines are counted from 1 again (`inner`); and when the lines are exhausted with sections still open, the
    culprit is the end of the resource, numbered like the last line read (`eof`). -/
inductive Culprit {σ} (env : Env) (c : PCtx σ) :
    Nat → List Str → Option Str → List Str → Nat → PS σ → Fail → Option Str → Nat → PS σ → Prop
  | eof (fuel active url lineno st) (h : st.stack ≠ []) :
      Culprit env c fuel active url [] lineno st (synErr url lineno "unclosed sections") url lineno st
  | here (fuel active url l rest lineno st f)
      (hne : ∀ fuel' u sub, ¬ Enters fuel env c active url (lineno + 1) (strip l) st fuel' u sub)
      (h : stepLine fuel env c active url (lineno + 1) (strip l) st = .error f) :
      Culprit env c fuel active url (l :: rest) lineno st f url (lineno + 1) st
  | inner (fuel active url l rest lineno st fuel' u sub f u' n sF)
      (hen : Enters fuel env c active url (lineno + 1) (strip l) st fuel' u sub)
      (h : Culprit env c fuel' (u :: active) (some u) sub 0 (subState st) f u' n sF) :
      Culprit env c fuel active url (l :: rest) lineno st f u' n sF
  | next (fuel active url l rest lineno st st1 f u n sF)
      (h1 : stepLine fuel env c active url (lineno + 1) (strip l) st = .ok st1)
      (h : Culprit env c fuel active url rest (lineno + 1) st1 f u n sF) :
      Culprit env c fuel active url (l :: rest) lineno st f u n sF

/-- a culprit is the culprit of a parse that fails, with exactly that failure -/
theorem culprit_sound {σ} {env : Env} {c : PCtx σ} {fuel : Nat} {active : List Str} {url : Option Str} {lines : List Str}
    {lineno : Nat} {st : PS σ} {f : Fail} {u : Option Str} {n : Nat} {sF : PS σ}
    (h : Culprit env c fuel active url lines lineno st f u n sF) :
    parseLines fuel env c active url lines lineno st = .error f := by
  induction h with
  | eof fuel active url lineno st h =>
    rw [parseLines]
    simp [h]
  | here fuel active url l rest lineno st f hne h =>
    rw [parseLines, h]
    rfl
  | inner fuel active url l rest lineno st fuel' u sub f u' n sF hen h ih =>
    rw [parseLines, stepLine_enters hen, ih]
    rfl
  | next fuel active url l rest lineno st st1 f u n sF h1 h ih =>
    rw [parseLines, h1]
    exact ih

/-- every failing parse has a culprit -/
theorem culprit_complete {σ} (env : Env) (c : PCtx σ) :
    ∀ (fuel : Nat) (active : List Str) (url : Option Str) (lines : List Str) (lineno : Nat) (st : PS σ) (f : Fail),
      parseLines fuel env c active url lines lineno st = .error f →
      ∃ u n sF, Culprit env c fuel active url lines lineno st f u n sF := by
  intro fuel
  induction fuel using Nat.strongRecOn with
  | _ fuel ihf =>
    intro active url lines
    induction lines with
    | nil =>
      intro lineno st f h
      rw [parseLines] at h
      split at h
      · rename_i hne
        cases h
        exact ⟨_, _, _, .eof _ _ _ _ _ (by simpa using hne)⟩
      · cases h
    | cons l rest ihl =>
      intro lineno st f h
      rw [parseLines] at h
      cases h1 : stepLine fuel env c active url (lineno + 1) (strip l) st with
      | ok st1 =>
        rw [h1] at h
        obtain ⟨u, n, sF, hc⟩ := ihl _ _ _ h
        exact ⟨u, n, sF, .next _ _ _ _ _ _ _ _ _ _ _ _ h1 hc⟩
      | error g =>
        rw [h1] at h
        cases h
        by_cases hen : ∃ fuel' u sub, Enters fuel env c active url (lineno + 1) (strip l) st fuel' u sub
        · obtain ⟨fuel', u, sub, hen⟩ := hen
          rw [stepLine_enters hen] at h1
          cases hp : parseLines fuel' env c (u :: active) (some u) sub 0 (subState st) with
          | ok r => rw [hp] at h1; cases h1
          | error g' =>
            rw [hp] at h1
            cases h1
            have hlt : fuel' < fuel := by
              obtain ⟨_, _, _, _, _, _, _, _, hf⟩ := hen
              omega
            obtain ⟨u', n, sF, hc⟩ := ihf fuel' hlt _ _ _ _ _ _ hp
            exact ⟨u', n, sF, .inner _ _ _ _ _ _ _ _ _ _ _ _ _ _ hen hc⟩
        · exact ⟨_, _, _, .here _ _ _ _ _ _ _ _ (fun f' u sub he => hen ⟨f', u, sub, he⟩) h1⟩

/-- the failure, the culprit line and the state in which it is read are determined by the parse -/
theorem culprit_unique {σ} {env : Env} {c : PCtx σ} {fuel : Nat} {active : List Str} {url : Option Str} {lines : List Str}
    {lineno : Nat} {st : PS σ} {f : Fail} {u : Option Str} {n : Nat} {sF : PS σ}
    (h : Culprit env c fuel active url lines lineno st f u n sF) :
    ∀ {f' : Fail} {u' : Option Str} {n' : Nat} {sF' : PS σ},
      Culprit env c fuel active url lines lineno st f' u' n' sF' → f = f' ∧ u = u' ∧ n = n' ∧ sF = sF' := by
  induction h with
  | eof fuel active url lineno st h =>
    intro f' u' n' sF' h'
    cases h'
    exact ⟨rfl, rfl, rfl, rfl⟩
  | here fuel active url l rest lineno st f hne h =>
    intro f' u' n' sF' h'
    cases h' with
    | here _ _ _ _ _ _ _ _ _ h2 => rw [h] at h2; cases h2; exact ⟨rfl, rfl, rfl, rfl⟩
    | inner _ _ _ _ _ _ _ _ _ _ _ _ _ _ hen _ => exact absurd hen (hne _ _ _)
    | next _ _ _ _ _ _ _ _ _ _ _ _ h1 _ => rw [h] at h1; cases h1
  | inner fuel active url l rest lineno st fuel' u sub f u' n sF hen h ih =>
    intro f' u'' n' sF' h'
    cases h' with
    | here _ _ _ _ _ _ _ _ hne _ => exact absurd hen (hne _ _ _)
    | inner _ _ _ _ _ _ _ _ _ _ _ _ _ _ hen2 h2 =>
      obtain ⟨rfl, rfl, rfl⟩ := Enters.unique hen hen2
      exact ih h2
    | next _ _ _ _ _ _ _ _ _ _ _ _ h1 _ =>
      rw [stepLine_enters hen, culprit_sound h] at h1
      cases h1
  | next fuel active url l rest lineno st st1 f u n sF h1 h ih =>
    intro f' u' n' sF' h'
    cases h' with
    | here _ _ _ _ _ _ _ _ _ h2 => rw [h1] at h2; cases h2
    | inner _ _ _ _ _ _ _ _ _ _ _ _ _ _ hen h2 =>
      rw [stepLine_enters hen, culprit_sound h2] at h1
      cases h1
    | next _ _ _ _ _ _ _ _ _ _ _ _ h1' h2 =>
      rw [h1] at h1'
      cases h1'
      exact ih h2

/-- a configuration error that ends a parse has one of the origins listed in `LineErr`, at the culprit line -/
theorem culprit_lineErr {σ} {env : Env} {c : PCtx σ} {fuel : Nat} {active : List Str} {url : Option Str} {lines : List Str}
    {lineno : Nat} {st : PS σ} {e : Err} {u : Option Str} {n : Nat} {sF : PS σ}
    (h : Culprit env c fuel active url lines lineno st (.cfg e) u n sF) : LineErr c u n sF e := by
  generalize hf : Fail.cfg e = f at h
  induction h with
  | eof fuel active url lineno st h =>
    cases hf
    exact .parser rfl rfl (.inl rfl) rfl
  | here fuel active url l rest lineno st f hne h =>
    subst hf
    rcases stepLine_error _ _ _ _ _ _ _ _ _ h with h | ⟨f', u, sub, hen, _⟩
    · exact h
    · exact absurd hen (hne _ _ _)
  | inner fuel active url l rest lineno st fuel' u sub f u' n sF hen h ih => exact ih hf
  | next fuel active url l rest lineno st st1 f u n sF h1 h ih => exact ih hf

/-! ### the culprit in terms of line indices -/

/-- index (0-based, within `lines`) of the first line whose processing fails; `none` when every line is processed -/
def firstBad {σ} (fuel : Nat) (env : Env) (c : PCtx σ) (active : List Str) (url : Option Str) :
    List Str → Nat → PS σ → Option Nat
  | [], _, _ => none
  | l :: rest, n, st =>
    match stepLine fuel env c active url (n + 1) (strip l) st with
    | .ok st' => (firstBad fuel env c active url rest (n + 1) st').map (· + 1)
    | .error _ => some 0

/-- `firstBad = some k`: the first `k` lines are processed, line `k` (numbered `lineno + k + 1`) fails -/
theorem firstBad_some {σ} (fuel : Nat) (env : Env) (c : PCtx σ) (active : List Str) (url : Option Str) :
    ∀ (lines : List Str) (lineno : Nat) (st : PS σ) (k : Nat),
      firstBad fuel env c active url lines lineno st = some k ↔
        ∃ l st' f, lines[k]? = some l ∧ runLines fuel env c active url (lines.take k) lineno st = .ok st' ∧
          stepLine fuel env c active url (lineno + k + 1) (strip l) st' = .error f := by
  intro lines
  induction lines with
  | nil => intro lineno st k; simp [firstBad]
  | cons l rest ih =>
    intro lineno st k
    rw [firstBad]
    cases h1 : stepLine fuel env c active url (lineno + 1) (strip l) st with
    | error f =>
      dsimp only
      constructor
      · intro hk
        cases hk
        exact ⟨l, st, f, rfl, rfl, h1⟩
      · rintro ⟨l', st', f', hl, hrun, hstep⟩
        cases k with
        | zero => rfl
        | succ k =>
          rw [List.take_succ_cons, runLines, h1] at hrun
          cases hrun
    | ok st1 =>
      dsimp only
      cases k with
      | zero =>
        constructor
        · intro hk
          cases hfb : firstBad fuel env c active url rest (lineno + 1) st1 <;> rw [hfb] at hk <;> cases hk
        · rintro ⟨l', st', f', hl, hrun, hstep⟩
          simp only [List.getElem?_cons_zero, Option.some.injEq] at hl
          subst hl
          rw [List.take_zero, runLines] at hrun
          cases hrun
          rw [h1] at hstep
          cases hstep
      | succ k =>
        have hk : ((firstBad fuel env c active url rest (lineno + 1) st1).map (· + 1) = some (k + 1)) ↔
            firstBad fuel env c active url rest (lineno + 1) st1 = some k := by
          cases firstBad fuel env c active url rest (lineno + 1) st1 <;> simp
        rw [hk, ih]
        have harith : lineno + 1 + k + 1 = lineno + (k + 1) + 1 := by omega
        simp only [List.getElem?_cons_succ, List.take_succ_cons, runLines, h1, ok_bind, harith]

/-- `firstBad = none`: all lines are processed -/
theorem firstBad_none {σ} (fuel : Nat) (env : Env) (c : PCtx σ) (active : List Str) (url : Option Str) :
    ∀ (lines : List Str) (lineno : Nat) (st : PS σ),
      firstBad fuel env c active url lines lineno st = none ↔
        ∃ st', runLines fuel env c active url lines lineno st = .ok st' := by
  intro lines
  induction lines with
  | nil => intro lineno st; simp [firstBad, runLines]
  | cons l rest ih =>
    intro lineno st
    rw [firstBad, runLines]
    cases h1 : stepLine fuel env c active url (lineno + 1) (strip l) st with
    | error f =>
      dsimp only
      constructor
      · intro h; cases h
      · rintro ⟨st', h⟩; cases h
    | ok st1 =>
      dsimp only
      rw [ok_bind, ← ih]
      cases firstBad fuel env c active url rest (lineno + 1) st1 <;> simp

/-- all lines are processed: the culprit is the end of the resource -/
theorem culprit_of_firstBad_none {σ} {env : Env} {c : PCtx σ} {fuel : Nat} {active : List Str} {url : Option Str}
    {lines : List Str} {lineno : Nat} {st : PS σ} {f : Fail} {u : Option Str} {n : Nat} {sF : PS σ}
    (h : Culprit env c fuel active url lines lineno st f u n sF)
    (hfb : firstBad fuel env c active url lines lineno st = none) :
    f = synErr url (lineno + lines.length) "unclosed sections" ∧ u = url ∧ n = lineno + lines.length ∧
      runLines fuel env c active url lines lineno st = .ok sF := by
  induction h with
  | eof fuel active url lineno st h => exact ⟨rfl, rfl, rfl, rfl⟩
  | here fuel active url l rest lineno st f hne h => rw [firstBad, h] at hfb; cases hfb
  | inner fuel active url l rest lineno st fuel' u sub f u' n sF hen h ih =>
    rw [firstBad, stepLine_enters hen, culprit_sound h] at hfb
    cases hfb
  | next fuel active url l rest lineno st st1 f u n sF h1 h ih =>
    rw [firstBad, h1] at hfb
    dsimp only at hfb
    have hfb' : firstBad fuel env c active url rest (lineno + 1) st1 = none := by
      cases hx : firstBad fuel env c active url rest (lineno + 1) st1 with
      | none => rfl
      | some k => rw [hx] at hfb; cases hfb
    obtain ⟨r1, r2, r3, r4⟩ := ih hfb'
    have harith : lineno + 1 + rest.length = lineno + (l :: rest).length := by simp only [List.length_cons]; omega
    rw [harith] at r1 r3
    refine ⟨r1, r2, r3, ?_⟩
    rw [runLines, h1]
    exact r4

/-- line `k` is the first that fails: either it is the culprit, or it is an `%include` that has opened its resource and the
    culprit is the culprit of that resource -/
theorem culprit_of_firstBad_some {σ} {env : Env} {c : PCtx σ} {fuel : Nat} {active : List Str} {url : Option Str}
    {lines : List Str} {lineno : Nat} {st : PS σ} {f : Fail} {u : Option Str} {n : Nat} {sF : PS σ}
    (h : Culprit env c fuel active url lines lineno st f u n sF) {k : Nat}
    (hfb : firstBad fuel env c active url lines lineno st = some k) :
    ∃ l st', lines[k]? = some l ∧ runLines fuel env c active url (lines.take k) lineno st = .ok st' ∧
      ((u = url ∧ n = lineno + k + 1 ∧ sF = st' ∧
          (∀ fuel' u1 sub, ¬ Enters fuel env c active url (lineno + k + 1) (strip l) st' fuel' u1 sub) ∧
          stepLine fuel env c active url (lineno + k + 1) (strip l) st' = .error f) ∨
       (∃ fuel' u1 sub, Enters fuel env c active url (lineno + k + 1) (strip l) st' fuel' u1 sub ∧
          Culprit env c fuel' (u1 :: active) (some u1) sub 0 (subState st') f u n sF)) := by
  induction h generalizing k with
  | eof fuel active url lineno st h => simp [firstBad] at hfb
  | here fuel active url l rest lineno st f hne h =>
    rw [firstBad, h] at hfb
    cases hfb
    exact ⟨l, st, rfl, rfl, .inl ⟨rfl, rfl, rfl, hne, h⟩⟩
  | inner fuel active url l rest lineno st fuel' u sub f u' n sF hen h ih =>
    rw [firstBad, stepLine_enters hen, culprit_sound h] at hfb
    cases hfb
    exact ⟨l, st, rfl, rfl, .inr ⟨fuel', u, sub, hen, h⟩⟩
  | next fuel active url l rest lineno st st1 f u n sF h1 h ih =>
    rw [firstBad, h1] at hfb
    dsimp only at hfb
    cases hx : firstBad fuel env c active url rest (lineno + 1) st1 with
    | none => rw [hx] at hfb; cases hfb
    | some k' =>
      rw [hx] at hfb
      cases hfb
      obtain ⟨l', st', hl, hrun, hcase⟩ := ih hx
      have harith : lineno + 1 + k' + 1 = lineno + (k' + 1) + 1 := by omega
      rw [harith] at hcase
      refine ⟨l', st', by simpa using hl, ?_, hcase⟩
      rw [List.take_succ_cons, runLines, h1]
      exact hrun

/-! ### where the culprit lies -/

/-- `Reach env url v`: resource `v` is `url` itself or is reached from it through `%include` arguments that resolve to
    readable resources -/
inductive Reach (env : Env) : Option Str → Option Str → Prop
  | refl (u : Option Str) : Reach env u u
  | step (url : Option Str) (a u : Str) (sub : List Str) (v : Option Str)
      (h1 : env.resolve url a = .url u) (h2 : env.res u = some sub) (h : Reach env (some u) v) : Reach env url v

/-- the culprit is a line (or the end) of the resource being read, or of a resource reached from it by `%include`, and its
    number lies within that resource -/
theorem culprit_where {σ} {env : Env} {c : PCtx σ} {fuel : Nat} {active : List Str} {url : Option Str} {lines : List Str}
    {lineno : Nat} {st : PS σ} {f : Fail} {u : Option Str} {n : Nat} {sF : PS σ}
    (h : Culprit env c fuel active url lines lineno st f u n sF) :
    Reach env url u ∧
      ((u = url ∧ lineno ≤ n ∧ n ≤ lineno + lines.length) ∨
       (∃ u' L, u = some u' ∧ env.res u' = some L ∧ n ≤ L.length)) := by
  induction h with
  | eof fuel active url lineno st h => exact ⟨.refl _, .inl ⟨rfl, Nat.le_refl _, by simp⟩⟩
  | here fuel active url l rest lineno st f hne h =>
    exact ⟨.refl _, .inl ⟨rfl, by omega, by simp only [List.length_cons]; omega⟩⟩
  | inner fuel active url l rest lineno st fuel' u sub f u' n sF hen h ih =>
    obtain ⟨arg, a, _, _, _, hres, hsub, _, _⟩ := hen
    obtain ⟨hr, hw⟩ := ih
    refine ⟨.step _ a u sub _ hres hsub hr, .inr ?_⟩
    rcases hw with ⟨rfl, _, h2⟩ | hw
    · exact ⟨u, sub, rfl, hsub, by simpa using h2⟩
    · exact hw
  | next fuel active url l rest lineno st st1 f u n sF h1 h ih =>
    obtain ⟨hr, hw⟩ := ih
    refine ⟨hr, ?_⟩
    rcases hw with ⟨rfl, h1, h2⟩ | hw
    · exact .inl ⟨rfl, by omega, by simp only [List.length_cons]; omega⟩
    · exact .inr hw

end ZCV.Cfg
