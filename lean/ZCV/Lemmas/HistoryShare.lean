import ZCV.Model.History
/-!
C13 (faithful histories), part 1: the type table under `addsubtype` calls.

`regEntries regs p` is one entry of a type table after the calls `regs`; a schema with the calls applied
(`Schema.withImplementers`) is the schema with every entry so treated.  A concrete entry never changes; an abstract entry
keeps key and name and its table grows at the end, by names that were not there, each of them asked for by a call
carrying the entry's key.  `shareTables` of a table against "the same table after some calls, plus new entries at the
end" gives the table after the calls – which is why the application's schema object after a load is the schema it was
with the load's `addsubtype` calls applied (`shareInto_traced`).
-/
namespace ZCV.Cfg
open ZCV ZCV.Conf

/-! ### one entry -/

/-- the calls applied to one entry of the type table -/
def regEntries (regs : List (Str × Str)) (p : Str × TypeEntry) : Str × TypeEntry :=
  regs.foldl (fun p ia => regEntry ia p) p

theorem regEntries_nil (p : Str × TypeEntry) : regEntries [] p = p := rfl

theorem regEntries_nil_fun : regEntries [] = id := rfl

theorem regEntries_cons (ia : Str × Str) (rest : List (Str × Str)) (p : Str × TypeEntry) :
    regEntries (ia :: rest) p = regEntries rest (regEntry ia p) := rfl

theorem regEntries_append (a b : List (Str × Str)) (p : Str × TypeEntry) :
    regEntries (a ++ b) p = regEntries b (regEntries a p) := by
  unfold regEntries
  rw [List.foldl_append]

theorem regEntry_concrete (ia : Str × Str) (k : Str) (t : SType) : regEntry ia (k, .concrete t) = (k, .concrete t) := rfl

theorem regEntries_concrete (regs : List (Str × Str)) (k : Str) (t : SType) :
    regEntries regs (k, .concrete t) = (k, .concrete t) := by
  induction regs with
  | nil => rfl
  | cons ia rest ih => rw [regEntries_cons, regEntry_concrete, ih]

theorem regEntry_abstract (ia : Str × Str) (k n : Str) (subs : List Str) :
    regEntry ia (k, .abstract_ n subs) =
      if k == ia.2 && !subs.contains ia.1 then (k, .abstract_ n (subs ++ [ia.1])) else (k, .abstract_ n subs) := rfl

/-- **an abstract entry under any calls**: key and name stay, the table grows at the end; every added name was missing
    before and was asked for by a call carrying this entry's key; every call carrying this entry's key is honoured; no
    name is added twice -/
theorem regEntries_abstract (regs : List (Str × Str)) (k n : Str) :
    ∀ (subs : List Str), ∃ add, regEntries regs (k, .abstract_ n subs) = (k, .abstract_ n (subs ++ add)) ∧
      (∀ c ∈ add, c ∉ subs ∧ (c, k) ∈ regs) ∧ (∀ c, (c, k) ∈ regs → c ∈ subs ++ add) ∧ add.Nodup := by
  induction regs with
  | nil => intro subs; exact ⟨[], by simp [regEntries_nil], by simp, by simp, List.nodup_nil⟩
  | cons ia rest ih =>
    intro subs
    rw [regEntries_cons, regEntry_abstract]
    by_cases hc : (k == ia.2 && !subs.contains ia.1) = true
    · simp only [hc, if_true]
      obtain ⟨add, he, h1, h2, h3⟩ := ih (subs ++ [ia.1])
      simp only [Bool.and_eq_true, beq_iff_eq, Bool.not_eq_true', List.contains_eq_mem, decide_eq_false_iff_not] at hc
      obtain ⟨hk, hnot⟩ := hc
      refine ⟨ia.1 :: add, by rw [he]; simp, ?_, ?_, ?_⟩
      · intro c hcm
        rcases List.mem_cons.mp hcm with rfl | hcm
        · refine ⟨hnot, ?_⟩
          rw [hk]
          exact List.mem_cons_self
        · obtain ⟨hn, hm⟩ := h1 c hcm
          exact ⟨fun h => hn (List.mem_append_left _ h), List.mem_cons_of_mem _ hm⟩
      · intro c hcm
        rcases List.mem_cons.mp hcm with h | h
        · have : c = ia.1 := by rw [← h]
          subst this
          simp
        · have := h2 c h
          simpa [List.append_assoc] using this
      · refine List.nodup_cons.mpr ⟨?_, h3⟩
        intro hm
        exact (h1 _ hm).1 (by simp)
    · simp only [hc, Bool.false_eq_true, if_false]
      obtain ⟨add, he, h1, h2, h3⟩ := ih subs
      refine ⟨add, he, fun c hcm => ⟨(h1 c hcm).1, List.mem_cons_of_mem _ (h1 c hcm).2⟩, ?_, h3⟩
      intro c hcm
      rcases List.mem_cons.mp hcm with h | h
      · have hk : k = ia.2 := by rw [← h]
        have hc1 : c = ia.1 := by rw [← h]
        subst hc1
        have : subs.contains ia.1 = true := by
          cases hcc : subs.contains ia.1 with
          | true => rfl
          | false => exact absurd (by rw [hcc, hk]; simp) hc
        exact List.mem_append_left _ (by simpa using this)
      · exact h2 c h

theorem regEntries_fst (regs : List (Str × Str)) (p : Str × TypeEntry) : (regEntries regs p).1 = p.1 := by
  induction regs generalizing p with
  | nil => rfl
  | cons ia rest ih => rw [regEntries_cons, ih, regEntry_fst]

/-- an entry a call would change is changed by every list of calls containing it -/
theorem regEntries_ne_of_mem (regs : List (Str × Str)) (ia : Str × Str) (p : Str × TypeEntry) (hm : ia ∈ regs)
    (hne : regEntry ia p ≠ p) : regEntries regs p ≠ p := by
  obtain ⟨k, te⟩ := p
  cases te with
  | concrete t => exact absurd (regEntry_concrete ia k t) hne
  | abstract_ n subs =>
    rw [regEntry_abstract] at hne
    by_cases hc : (k == ia.2 && !subs.contains ia.1) = true
    · simp only [Bool.and_eq_true, beq_iff_eq, Bool.not_eq_true', List.contains_eq_mem, decide_eq_false_iff_not] at hc
      obtain ⟨hk, hnot⟩ := hc
      obtain ⟨add, he, _, h2, _⟩ := regEntries_abstract regs k n subs
      intro heq
      rw [he] at heq
      have hadd : add = [] := by
        have : subs ++ add = subs := by
          have := congrArg (fun e : Str × TypeEntry => match e.2 with | .abstract_ _ s => s | _ => []) heq
          simpa using this
        simpa using this
      have := h2 ia.1 (by rw [hk]; exact hm)
      rw [hadd, List.append_nil] at this
      exact hnot this
    · simp only [hc, Bool.false_eq_true, if_false] at hne
      exact absurd rfl hne

/-- calls that change nothing one by one change nothing together -/
theorem regEntries_eq_of_all (regs : List (Str × Str)) (p : Str × TypeEntry) (h : ∀ ia ∈ regs, regEntry ia p = p) :
    regEntries regs p = p := by
  induction regs with
  | nil => rfl
  | cons ia rest ih =>
    rw [regEntries_cons, h ia List.mem_cons_self]
    exact ih (fun x hx => h x (List.mem_cons_of_mem _ hx))

theorem shareEntry_regEntries (regs : List (Str × Str)) (p : Str × TypeEntry) :
    shareEntry p (regEntries regs p) = regEntries regs p := by
  obtain ⟨k, te⟩ := p
  cases te with
  | concrete t => rw [regEntries_concrete]; rfl
  | abstract_ n subs =>
    obtain ⟨add, he, _⟩ := regEntries_abstract regs k n subs
    rw [he]
    rfl

/-! ### a whole table -/

theorem shareTables_map_append (f : Str × TypeEntry → Str × TypeEntry) (hf : ∀ p, shareEntry p (f p) = f p) :
    ∀ (L new : List (Str × TypeEntry)), shareTables L (L.map f ++ new) = L.map f := by
  intro L
  induction L with
  | nil => intro new; rfl
  | cons p ps ih =>
    intro new
    simp only [List.map_cons, List.cons_append, shareTables, hf, ih]

theorem shareTables_self (L : List (Str × TypeEntry)) : shareTables L L = L := by
  have := shareTables_map_append id (fun p => by
    obtain ⟨k, te⟩ := p
    cases te <;> rfl) L []
  simpa using this

/-! ### a schema with calls applied -/

theorem withImplementers_nil (s : Schema) : s.withImplementers [] = s := rfl

theorem withImplementers_cons (s : Schema) (ia : Str × Str) (rest : List (Str × Str)) :
    s.withImplementers (ia :: rest) = (regImpl s ia).withImplementers rest := rfl

theorem withImplementers_append (s : Schema) (a b : List (Str × Str)) :
    s.withImplementers (a ++ b) = (s.withImplementers a).withImplementers b := by
  unfold Schema.withImplementers
  rw [List.foldl_append]

/-- a schema with calls applied is the schema with every entry of its type table so treated, and nothing else changed -/
theorem withImplementers_eq (regs : List (Str × Str)) :
    ∀ (s : Schema), s.withImplementers regs = { s with types := s.types.map (regEntries regs) } := by
  induction regs with
  | nil => intro s; simp [withImplementers_nil, regEntries_nil_fun]
  | cons ia rest ih =>
    intro s
    rw [withImplementers_cons, ih]
    simp only [regImpl, List.map_map]
    congr 1

theorem withImplementers_types (s : Schema) (regs : List (Str × Str)) :
    (s.withImplementers regs).types = s.types.map (regEntries regs) := by rw [withImplementers_eq]

theorem withImplementers_top (s : Schema) (regs : List (Str × Str)) : (s.withImplementers regs).top = s.top := by
  rw [withImplementers_eq]

theorem withImplementers_handler (s : Schema) (regs : List (Str × Str)) :
    (s.withImplementers regs).handler = s.handler := by rw [withImplementers_eq]

theorem withImplementers_components (s : Schema) (regs : List (Str × Str)) :
    (s.withImplementers regs).components = s.components := by rw [withImplementers_eq]

theorem withImplementers_keys (s : Schema) (regs : List (Str × Str)) :
    (s.withImplementers regs).types.map (·.1) = s.types.map (·.1) := by
  rw [withImplementers_types, List.map_map]
  apply List.map_congr_left
  intro p _
  exact regEntries_fst regs p

theorem map_eq_self_iff {α} (f : α → α) : ∀ (L : List α), L.map f = L ↔ ∀ p ∈ L, f p = p := by
  intro L
  induction L with
  | nil => simp
  | cons a t ih => simp [ih]

/-- **exactly when the calls change the schema**: never, iff each of them alone changes nothing -/
theorem withImplementers_eq_self_iff (s : Schema) (regs : List (Str × Str)) :
    s.withImplementers regs = s ↔ ∀ ia ∈ regs, regImpl s ia = s := by
  have hone : ∀ ia, regImpl s ia = s ↔ ∀ p ∈ s.types, regEntry ia p = p := by
    intro ia
    rw [← map_eq_self_iff]
    constructor
    · intro h
      have := congrArg Schema.types h
      exact this
    · intro h
      unfold regImpl
      rw [h]
  constructor
  · intro h ia hia
    rw [hone]
    intro p hp
    have ht : s.types.map (regEntries regs) = s.types := by
      have := congrArg Schema.types h
      rwa [withImplementers_types] at this
    have hp' := (map_eq_self_iff _ _).mp ht p hp
    exact Classical.byContradiction fun hne => regEntries_ne_of_mem regs ia p hia hne hp'
  · intro h
    rw [withImplementers_eq]
    have : s.types.map (regEntries regs) = s.types := by
      rw [map_eq_self_iff]
      intro p hp
      exact regEntries_eq_of_all regs p (fun ia hia => (hone ia).mp (h ia hia) p hp)
    rw [this]

/-- a call changes nothing iff every abstract entry stored under its key lists the name already -/
theorem regImpl_eq_self_iff (s : Schema) (ia : Str × Str) :
    regImpl s ia = s ↔ ∀ n subs, (ia.2, TypeEntry.abstract_ n subs) ∈ s.types → ia.1 ∈ subs := by
  have hone : regImpl s ia = s ↔ ∀ p ∈ s.types, regEntry ia p = p := by
    rw [← map_eq_self_iff]
    constructor
    · intro h; exact congrArg Schema.types h
    · intro h; unfold regImpl; rw [h]
  rw [hone]
  constructor
  · intro h n subs hm
    have := h _ hm
    rw [regEntry_abstract] at this
    by_cases hc : subs.contains ia.1 = true
    · simpa using hc
    · simp only [beq_self_eq_true, hc, Bool.not_false, Bool.and_self, if_true] at this
      have h2 := congrArg (fun e : Str × TypeEntry => match e.2 with | .abstract_ _ s => s.length | _ => 0) this
      simp at h2
  · intro h p hp
    obtain ⟨k, te⟩ := p
    cases te with
    | concrete t => rfl
    | abstract_ n subs =>
      rw [regEntry_abstract]
      by_cases hk : k = ia.2
      · subst hk
        have := h n subs hp
        simp [this]
      · simp [hk]

/-! ### looking a name up in a schema with calls applied -/

theorem isAbstract_withImplementers (s : Schema) (regs : List (Str × Str)) (x : Str) :
    isAbstract (s.withImplementers regs) x = isAbstract s x := by
  induction regs generalizing s with
  | nil => rfl
  | cons ia rest ih => rw [withImplementers_cons, ih, isAbstract_regImpl]

theorem gettype_concrete_withImplementers (s : Schema) (regs : List (Str × Str)) (x : Str) (t : SType) :
    (s.withImplementers regs).gettype x = some (.concrete t) ↔ s.gettype x = some (.concrete t) := by
  rw [withImplementers_eq]
  unfold Schema.gettype
  simp only
  have hcomp : ((fun p : Str × TypeEntry => p.1 == lower x) ∘ regEntries regs) = fun p => p.1 == lower x := by
    funext p
    simp only [Function.comp, regEntries_fst]
  rw [List.find?_map, hcomp]
  cases hf : s.types.find? (fun p => p.1 == lower x) with
  | none => simp
  | some p =>
    obtain ⟨k, te⟩ := p
    cases te with
    | concrete t' => simp [regEntries_concrete]
    | abstract_ n subs =>
      obtain ⟨add, he, _⟩ := regEntries_abstract regs k n subs
      simp [he]

/-- **the implementers of `x` after the calls**: the old table, then the new names in the order they were first asked
    for; each of them was missing and was asked for by a call naming `x`'s key -/
theorem implementers_withImplementers (s : Schema) (regs : List (Str × Str)) (x : Str) :
    ∃ add, implementers (s.withImplementers regs) x = implementers s x ++ add ∧
      (∀ c ∈ add, c ∉ implementers s x ∧ (c, lower x) ∈ regs ∧ isAbstract s x = true) ∧ add.Nodup := by
  rw [withImplementers_eq]
  unfold implementers isAbstract Schema.gettype
  simp only
  have hcomp : ((fun p : Str × TypeEntry => p.1 == lower x) ∘ regEntries regs) = fun p => p.1 == lower x := by
    funext p
    simp only [Function.comp, regEntries_fst]
  rw [List.find?_map, hcomp]
  cases hf : s.types.find? (fun p => p.1 == lower x) with
  | none => exact ⟨[], by simp, by simp, List.nodup_nil⟩
  | some p =>
    obtain ⟨k, te⟩ := p
    have hk : k = lower x := by
      have := List.find?_some hf
      simpa using this
    subst hk
    cases te with
    | concrete t => exact ⟨[], by simp [regEntries_concrete], by simp, List.nodup_nil⟩
    | abstract_ n subs =>
      obtain ⟨add, he, h1, _, h3⟩ := regEntries_abstract regs (lower x) n subs
      refine ⟨add, by simp [he], ?_, h3⟩
      intro c hc
      exact ⟨by simpa using (h1 c hc).1, (h1 c hc).2, by simp⟩

/-! ### the application's schema object after a traced load -/

/-- the private schema `x.schema` descends from `sc` by the calls `x.regs` and by appending new types -/
def Traced (sc : Schema) (x : Stop) : Prop :=
  (∃ new, x.schema.types = sc.types.map (regEntries x.regs) ++ new) ∧ x.schema.top = sc.top ∧ x.schema.handler = sc.handler

theorem Traced.here (sc : Schema) : Traced sc (Stop.here sc) :=
  ⟨⟨[], by simp [Stop.here, regEntries_nil_fun]⟩, rfl, rfl⟩

theorem Traced.andThen {sc : Schema} {x y : Stop} (hx : Traced sc x) (hy : Traced x.schema y) :
    Traced sc (x.andThen y) := by
  obtain ⟨⟨n1, h1⟩, t1, d1⟩ := hx
  obtain ⟨⟨n2, h2⟩, t2, d2⟩ := hy
  refine ⟨⟨n1.map (regEntries y.regs) ++ n2, ?_⟩, t2.trans t1, d2.trans d1⟩
  simp only [Stop.andThen]
  rw [h2, h1, List.map_append, List.map_map, List.append_assoc]
  congr 1
  apply List.map_congr_left
  intro p _
  simp only [Function.comp, regEntries_append]

/-- **the application's schema object after a load that made the calls `x.regs`** is the schema it was with those calls
    applied: nothing else of the load's private schema reaches it -/
theorem shareInto_traced (s : Schema) (x : Stop) (h : Traced s x) : shareInto s x.schema = s.withImplementers x.regs := by
  obtain ⟨⟨new, hn⟩, _, _⟩ := h
  rw [withImplementers_eq]
  unfold shareInto
  rw [hn, shareTables_map_append _ (shareEntry_regEntries x.regs)]

theorem shareInto_self (s : Schema) : shareInto s s = s := by
  unfold shareInto
  rw [shareTables_self]

end ZCV.Cfg
