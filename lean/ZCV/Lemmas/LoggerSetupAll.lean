import ZCV.Lemmas.LoggerSetup
/-!
C20 — `configureLoggers`: calling every logger factory of a loaded configuration, in order.
-/
namespace ZCV.LogSetup
open ZCV

/-- what the handler sections of a logger section configure: one entry per section in order (`some cfg`), or the single
    `NullHandler` (`none`) when there is no handler section -/
def LoggerFactory.cfgs (f : LoggerFactory) : List (Option HandlerCfg) :=
  if f.handlerFactories.isEmpty then [none] else f.handlerFactories.map (fun hf => some hf.cfg)

theorem lgs_callAll_cons (f : LoggerFactory) (rest : List LoggerFactory) (w : World) :
    callAll (f :: rest) w = ((f.call w).2.1 :: (callAll rest (f.call w).2.2).1, (callAll rest (f.call w).2.2).2) := by
  rw [callAll]

/-- factories that have all been called are not run again -/
theorem lgs_callAll_called (fs : List LoggerFactory) (w : World) (h : ∀ f ∈ fs, ∃ n, f.inst = some n) :
    callAll fs w = (fs, w) := by
  induction fs with
  | nil => rfl
  | cons f rest ih =>
    obtain ⟨n, hn⟩ := h f List.mem_cons_self
    rw [lgs_callAll_cons, lgs_call_called f w n hn]
    simp only [ih (fun g hg => h g (List.mem_cons_of_mem _ hg))]

theorem lgs_callAll_insts (fs : List LoggerFactory) (w : World) : ∀ f ∈ (callAll fs w).1, ∃ n, f.inst = some n := by
  induction fs generalizing w with
  | nil => intro f hf; cases hf
  | cons g rest ih =>
    intro f hf
    rw [lgs_callAll_cons] at hf
    rcases List.mem_cons.1 hf with rfl | hf
    · exact ⟨_, lgs_call_inst g w⟩
    · exact ih _ f hf

/-- running the whole start-up loop a second time changes nothing -/
theorem lgs_callAll_idem (fs : List LoggerFactory) (w : World) :
    callAll (callAll fs w).1 (callAll fs w).2 = callAll fs w :=
  lgs_callAll_called _ _ (lgs_callAll_insts fs w)

/-- the start-up loop over fresh factories for pairwise different loggers -/
theorem lgs_callAll_fresh (fs : List LoggerFactory) (w : World) (hfresh : ∀ f ∈ fs, f.Fresh) (hw : w.WF)
    (hd : (fs.map (fun f => loggerKey f.name)).Nodup) :
    (∀ f ∈ fs,
      ((callAll fs w).2.get (loggerKey f.name)).level = f.level ∧
      ((callAll fs w).2.get (loggerKey f.name)).propagate =
        (f.propagate.getD (w.get (loggerKey f.name)).propagate) ∧
      ∃ new, ((callAll fs w).2.get (loggerKey f.name)).handlers = (w.get (loggerKey f.name)).handlers ++ new ∧
        new.map (·.cfg) = f.cfgs) ∧
    (∀ k, k ∉ fs.map (fun f => loggerKey f.name) → (callAll fs w).2.get k = w.get k) ∧
    (callAll fs w).2.WF := by
  induction fs generalizing w with
  | nil => exact ⟨fun f hf => absurd hf List.not_mem_nil, fun _ _ => rfl, hw⟩
  | cons g rest ih =>
    obtain ⟨hg1, hg2, hg3, hg4, hg5, hg6⟩ := lgs_call_fresh_wf g w (hfresh g List.mem_cons_self) hw
    simp only [List.map_cons, List.nodup_cons] at hd
    obtain ⟨ih1, ih2, ih3⟩ := ih (g.call w).2.2 (fun f hf => hfresh f (List.mem_cons_of_mem _ hf)) hg6 hd.2
    rw [lgs_callAll_cons]
    refine ⟨?_, ?_, ih3⟩
    · intro f hf
      rcases List.mem_cons.1 hf with rfl | hf
      · simp only [ih2 _ hd.1, hg3]
        exact ⟨trivial, trivial, _, rfl, lgs_createdHandlers_cfg _ _⟩
      · have hne : loggerKey f.name ≠ loggerKey g.name := by
          intro heq
          exact hd.1 (heq ▸ List.mem_map.2 ⟨f, hf, rfl⟩)
        have := ih1 f hf
        rw [hg4 _ hne] at this
        exact this
    · intro k hk
      simp only [List.map_cons, List.mem_cons, not_or] at hk
      simp only [ih2 k hk.2, hg4 k hk.1]

end ZCV.LogSetup
