import ZCV.Lemmas.ElabInvHandlers
/-!
`<sectiontype>`, `<import>`, `<schema>`, and the character-data elements keep the invariant.
-/
namespace ZCV.Elab
open ZCV ZCV.Cfg

theorem gettype_mem {es : ES} {x : Str} {p : Str × EEntry} (h : es.gettype x = some p) : p ∈ es.types := by
  unfold ES.gettype at h
  exact (find_key_mem h).1

theorem pure_bind_ok {α β} {a : α} {f : α → EM β} {r : β} (h : ((pure a : EM α) >>= f) = .ok r) : f a = .ok r := h

theorem err_bind_ok {α β} {e : EFail} {f : α → EM β} {r : β} (h : ((Except.error e : EM α) >>= f) = .ok r) : False := by
  simp [bind, Except.bind] at h

theorem startSectiontype_inv {env : Env} {st st' : PSt} {attrs : Attrs} (hinv : ESInv st.es)
    (h : startSectiontype env st attrs = .ok st') : ESInv st'.es ∧ Grows st.es st'.es := by
  unfold startSectiontype at h
  split at h
  · rw [bind_ok] at h
    obtain ⟨name, _, h⟩ := h
    rw [bind_ok] at h
    obtain ⟨st1, hpp, h⟩ := h
    have hes := (pushPrefix_es hpp).1
    extract_lets jpPure jpImpl at h
    have hPure : ∀ es3, ESInv es3 → Grows st.es es3 → jpPure es3 = .ok st' → ESInv st'.es ∧ Grows st.es st'.es := by
      intro es3 h3 g3 hj
      simp only [jpPure, pure, Except.pure, Except.ok.injEq] at hj
      subst hj; exact ⟨h3, g3⟩
    have hImpl : ∀ es2, ESInv es2 → Grows st.es es2 → jpImpl es2 = .ok st' → ESInv st'.es ∧ Grows st.es st'.es := by
      intro es2 h2 g2 hj
      simp only [jpImpl] at hj
      split at hj
      · rw [bind_ok] at hj
        obtain ⟨ifname, _, hj⟩ := hj
        split at hj
        · exact (err_bind_ok hj).elim
        · exact (err_bind_ok hj).elim
        · refine hPure _ (h2.map _ ?_ ?_) (g2.trans (Grows.map es2 _ ?_)) (pure_bind_ok hj)
          · intro ⟨k, e⟩; dsimp only; split <;> rfl
          · intro ⟨k, e⟩ _ hpe
            dsimp only
            split
            · cases e with
              | concrete t => exact hpe
              | abstract_ a b c => exact hpe
            · exact hpe
          · intro ⟨k, e⟩; dsimp only; split <;> rfl
      · exact hPure _ h2 g2 (pure_bind_ok hj)
    split at h
    · rw [bind_ok] at h
      obtain ⟨basename, _, h⟩ := h
      split at h
      · exact (err_bind_ok h).elim
      · exact (err_bind_ok h).elim
      · rename_i bn base hg
        rw [bind_ok] at h
        obtain ⟨⟨kt, dt⟩, _, h⟩ := h
        dsimp only at h
        rw [bind_ok] at h
        obtain ⟨es', hadd, h⟩ := h
        rw [bind_ok] at h
        obtain ⟨ch, hder, h⟩ := h
        refine hImpl _ ?_ ((hes ▸ addType_grows hadd : Grows st.es es').trans (Grows.updType es' _ _)) (pure_bind_ok h)
        have hbase : ChildrenOK st1.es.types base.children := by
          rw [hes]
          have := hinv.entries _ (gettype_mem (hes ▸ hg))
          exact this.2
        have hch := deriveChildren_ok hbase hder
        have hinv' : ESInv es' := addType_inv (hes ▸ hinv) hadd ⟨rfl, ChildrenOK.nil _⟩
        have htypes : es'.types = st1.es.types ++ [(name, EEntry.concrete { name := some name, keytype := kt, datatype := dt })] := by
          unfold addType at hadd
          split at hadd
          · cases hadd
          · injection hadd with hadd; subst hadd; rfl
        refine hinv'.updType name _ ?_
        intro t _
        refine ⟨rfl, hch.mono ?_⟩
        intro x hx
        rw [htypes, knownIn_append, hx]; rfl
    · rw [bind_ok] at h
      obtain ⟨⟨kt, dt⟩, _, h⟩ := h
      dsimp only at h
      rw [bind_ok] at h
      obtain ⟨es2, hadd, h⟩ := h
      exact hImpl _ (addType_inv (hes ▸ hinv) hadd ⟨rfl, ChildrenOK.nil _⟩) (hes ▸ addType_grows hadd) h
  · cases h

theorem ESInv.set_components {es : ES} (hinv : ESInv es) (c : List Str) : ESInv { es with components := c } :=
  ⟨hinv.topName, hinv.top, hinv.keys, hinv.entries⟩

theorem startImport_inv {env : Env} {hk : Hooks} {st st' : PSt} {attrs : Attrs} (hinv : ESInv st.es)
    (hload : ∀ es tree es', ESInv es → hk.loadComponent es tree = .ok es' → ESInv es' ∧ Grows es es')
    (h : startImport env hk st attrs = .ok st') : ESInv st'.es ∧ Grows st.es st'.es := by
  unfold startImport at h
  simp only [bind, Except.bind, serr, pure, Except.pure] at h
  rcases ite_ok h with ⟨_, h⟩ | ⟨_, h⟩
  · cases h
  rcases ite_ok h with ⟨_, h⟩ | ⟨_, h⟩
  · cases h
  rcases ite_ok h with ⟨_, h⟩ | ⟨_, h⟩
  · rcases ite_ok h with ⟨_, h⟩ | ⟨_, h⟩ <;> cases h
  rcases ite_ok h with ⟨_, h⟩ | ⟨_, h⟩
  · cases h
  cases hg : getClassname st (attrStrip attrs "package") with
  | error e => simp only [hg] at h; cases h
  | ok v =>
    simp only [hg] at h
    rcases ite_ok h with ⟨_, h⟩ | ⟨_, h⟩
    · cases h
    generalize env.comps v _ = res at h
    cases res with
    | notImportable => cases h
    | notPackage => cases h
    | noFile =>
      dsimp only at h
      rcases ite_ok h with ⟨_, h⟩ | ⟨_, h⟩
      · injection h with h; subst h; exact ⟨hinv, Grows.refl _⟩
      · cases h
    | doc tree =>
      dsimp only at h
      rcases ite_ok h with ⟨_, h⟩ | ⟨_, h⟩
      · injection h with h; subst h; exact ⟨hinv, Grows.refl _⟩
      · split at h
        · cases h
        · rename_i es2 hl
          injection h with h; subst h
          obtain ⟨h1, h2⟩ := hload _ _ _ (hinv.set_components _) hl
          exact ⟨h1, (Grows.of_types_eq rfl : Grows st.es _).trans h2⟩

/-- the state a schema document starts from is below the schema object it continues -/
def ExtGrow (ext : Option ES) (base : ES) : Prop :=
  match ext with
  | some es => Grows base es
  | none => base.types = []

theorem startSchema_inv {env : Env} {hk : Hooks} {ext : Option ES} {st st' : PSt} {attrs : Attrs}
    (hext : ∀ es, ext = some es → ESInv es) (base : ES)
    (hg : ExtGrow ext base)
    (hextend : ∀ es tree es', ESInv es → hk.extendSchema es tree = .ok es' → ESInv es' ∧ Grows es es')
    (h : startSchema env hk ext st attrs = .ok st') : ESInv st'.es ∧ Grows base st'.es := by
  unfold startSchema at h
  rw [bind_ok] at h
  obtain ⟨st1, _, h⟩ := h
  rw [bind_ok] at h
  obtain ⟨handler, _, h⟩ := h
  rw [bind_ok] at h
  obtain ⟨⟨kt, dt⟩, _, h⟩ := h
  dsimp -zeta only at h
  extract_lets es0 st2 jp at h
  have h0 : ESInv es0 := by
    simp only [es0]
    split
    · exact hext _ rfl
    · exact ⟨rfl, ChildrenOK.nil _, by simp, by intro p hp; cases hp⟩
  have g0 : Grows base es0 := by
    simp only [es0]
    unfold ExtGrow at hg
    split
    · exact hg
    · exact Grows.of_nil hg
  have hjp : ∀ st3 kt' dt', ESInv st3.es ∧ Grows base st3.es → jp (st3, kt', dt') = .ok st' → ESInv st'.es ∧ Grows base st'.es := by
    intro st3 kt' dt' h3 hj
    simp only [jp, pure, Except.pure, Except.ok.injEq] at hj
    subst hj
    exact ⟨h3.1.top_congr _ rfl rfl, h3.2.trans (Grows.of_types_eq rfl)⟩
  split at h
  · rw [bind_ok] at h
    obtain ⟨st3, hfold, h⟩ := h
    rw [bind_ok] at h
    obtain ⟨k, _, h⟩ := h
    rw [bind_ok] at h
    obtain ⟨d, _, h⟩ := h
    refine hjp st3 k d ?_ (pure_bind_ok h)
    refine foldlM_inv (fun acc : PSt => ESInv acc.es ∧ Grows base acc.es) _ ?_ _ _ st3 (by exact ⟨h0, g0⟩) hfold
    intro acc src acc' hacc hstep
    extract_lets jp2 at hstep
    obtain ⟨_, hstep⟩ := guard_jp hstep
    simp only [jp2] at hstep
    split at hstep
    · cases hstep
    · rw [bind_ok] at hstep
      obtain ⟨es', he, hstep⟩ := hstep
      simp only [pure, Except.pure, Except.ok.injEq] at hstep
      subst hstep
      obtain ⟨h1, h2⟩ := hextend _ _ _ hacc.1 he
      exact ⟨h1, hacc.2.trans h2⟩
  · exact hjp st2 kt dt ⟨h0, g0⟩ (pure_bind_ok h)

theorem endSchema_inv {b : Bool} {st st' : PSt} (hinv : ESInv st.es) (h : endSchema b st = .ok st') :
    ESInv st'.es ∧ Grows st.es st'.es := by
  unfold endSchema at h
  split at h
  · split at h
    · simp only [Except.ok.injEq] at h
      subst h
      split
      · exact ⟨ESInv.top_congr (es := st.es) hinv _ rfl rfl, Grows.of_types_eq rfl⟩
      · exact ⟨hinv, Grows.refl _⟩
    · cases h
  · cases h

/-! ### character-data elements -/

theorem markDesc_inv {c : Bool} {st st' : PSt} (hinv : ESInv st.es) (h : markDesc c st = .ok st') :
    ESInv st'.es ∧ Grows st.es st'.es := by
  unfold markDesc at h
  split at h
  · split at h
    · injection h with h; subst h; exact ⟨hinv, Grows.refl _⟩
    · cases h
  · rename_i f rest hs
    dsimp only at h
    split at h
    · rcases ite_ok h with ⟨_, h⟩ | ⟨_, h⟩
      · cases h
      · injection h with h; subst h
        exact ⟨hinv.top_congr _ rfl rfl, Grows.of_types_eq rfl⟩
    · split at h
      · rcases ite_ok h with ⟨_, h⟩ | ⟨_, h⟩
        · cases h
        · injection h with h; subst h
          exact ⟨hinv.updType _ _ (fun t ht => ⟨rfl, ht⟩), Grows.updType _ _ _⟩
      · cases h
    · split at h
      · rcases ite_ok h with ⟨_, h⟩ | ⟨_, h⟩
        · cases h
        · injection h with h; subst h
          refine ⟨hinv.map _ ?_ ?_, Grows.map _ _ ?_⟩
          · intro ⟨k, e⟩; dsimp only; split <;> rfl
          · intro ⟨k, e⟩ _ hpe
            dsimp only
            split
            · cases e with
              | concrete t => exact hpe
              | abstract_ a b c => exact hpe
            · exact hpe
          · intro ⟨k, e⟩; dsimp only; split <;> rfl
      · cases h
    · rcases ite_ok h with ⟨_, h⟩ | ⟨_, h⟩
      · cases h
      · injection h with h; subst h; exact ⟨hinv, Grows.refl _⟩
    · rcases ite_ok h with ⟨_, h⟩ | ⟨_, h⟩
      · cases h
      · injection h with h; subst h; exact ⟨hinv, Grows.refl _⟩

theorem markExample_inv {st st' : PSt} (hinv : ESInv st.es) (h : markExample st = .ok st') :
    ESInv st'.es ∧ Grows st.es st'.es := by
  unfold markExample at h
  split at h
  · cases h
  · rename_i f rest hs
    dsimp only at h
    split at h
    · rcases ite_ok h with ⟨_, h⟩ | ⟨_, h⟩
      · cases h
      · injection h with h; subst h
        exact ⟨hinv.top_congr _ rfl rfl, Grows.of_types_eq rfl⟩
    · split at h
      · rcases ite_ok h with ⟨_, h⟩ | ⟨_, h⟩
        · cases h
        · injection h with h; subst h
          exact ⟨hinv.updType _ _ (fun t ht => ⟨rfl, ht⟩), Grows.updType _ _ _⟩
      · cases h
    · cases h
    · rcases ite_ok h with ⟨_, h⟩ | ⟨_, h⟩
      · cases h
      · injection h with h; subst h; exact ⟨hinv, Grows.refl _⟩
    · rcases ite_ok h with ⟨_, h⟩ | ⟨_, h⟩
      · cases h
      · injection h with h; subst h; exact ⟨hinv, Grows.refl _⟩

theorem charactersTag_inv {c : Bool} {tag : Str} {attrs : Attrs} {data : Str} {st st' : PSt} (hinv : ESInv st.es)
    (h : charactersTag c tag attrs data st = .ok st') : ESInv st'.es ∧ Grows st.es st'.es := by
  unfold charactersTag at h
  rcases ite_ok h with ⟨_, h⟩ | ⟨_, h⟩
  · split at h
    · rcases ite_ok h with ⟨_, h⟩ | ⟨_, h⟩
      · cases h
      · rw [bind_ok] at h
        obtain ⟨k', _, h⟩ := h
        simp only [pure, Except.pure, Except.ok.injEq] at h
        subst h; exact ⟨hinv, Grows.refl _⟩
    · cases h
    · cases h
  rcases ite_ok h with ⟨_, h⟩ | ⟨_, h⟩
  · exact markDesc_inv hinv h
  rcases ite_ok h with ⟨_, h⟩ | ⟨_, h⟩
  · exact markExample_inv hinv h
  rcases ite_ok h with ⟨_, h⟩ | ⟨_, h⟩
  · injection h with h; subst h; exact ⟨hinv, Grows.refl _⟩
  · cases h

/-- a key frame on top of the stack: character data only touches that frame -/
theorem charactersTag_key {c : Bool} {tag : Str} {attrs : Attrs} {data : Str} {st st' : PSt} {k : EKey} {rest : List Frame}
    (hs : st.stack = .key k :: rest) (hk : KeyShape k)
    (h : charactersTag c tag attrs data st = .ok st') :
    st'.es = st.es ∧ ∃ k', st'.stack = .key k' :: rest ∧ KeyShape k' ∧ k'.name = k.name ∧ k'.attr = k.attr := by
  unfold charactersTag at h
  rcases ite_ok h with ⟨_, h⟩ | ⟨_, h⟩
  · rw [hs] at h
    dsimp only at h
    rcases ite_ok h with ⟨_, h⟩ | ⟨hmin, h⟩
    · cases h
    · rw [bind_ok] at h
      obtain ⟨k', hd, h⟩ := h
      simp only [pure, Except.pure, Except.ok.injEq] at h
      subst h
      have hmin' : k.minOccurs = 0 := by simpa using hmin
      obtain ⟨hs', hsame, _⟩ := addDefault_shape k k' data _ hk hmin' hd
      exact ⟨rfl, k', rfl, hs', hsame.name, hsame.attr⟩
  rcases ite_ok h with ⟨_, h⟩ | ⟨_, h⟩
  · unfold markDesc at h
    rw [hs] at h
    dsimp only at h
    rcases ite_ok h with ⟨_, h⟩ | ⟨_, h⟩
    · cases h
    · injection h with h; subst h
      exact ⟨rfl, _, rfl, hk.congr rfl rfl rfl rfl rfl, rfl, rfl⟩
  rcases ite_ok h with ⟨_, h⟩ | ⟨_, h⟩
  · unfold markExample at h
    rw [hs] at h
    dsimp only at h
    rcases ite_ok h with ⟨_, h⟩ | ⟨_, h⟩
    · cases h
    · injection h with h; subst h
      exact ⟨rfl, _, rfl, hk.congr rfl rfl rfl rfl rfl, rfl, rfl⟩
  rcases ite_ok h with ⟨_, h⟩ | ⟨_, h⟩
  · injection h with h; subst h; exact ⟨rfl, k, hs, hk, rfl, rfl⟩
  · cases h

end ZCV.Elab
