import ZCV.Lemmas.ElabCompleteDoc
/-!
C10, the converse of completeness ("an accepted document satisfies the rules", against the same judgement `DocRules`),
step 1: when a helper of the loader model succeeds, the attribute-level rule of the specification holds.
-/
namespace ZCV.SchemaRules
open ZCV ZCV.Elab
open ZCV.Cfg (VI SectInfo Default)

/-! ### datatype names, `handler`, `required`, prefixes -/

theorem getDatatype_ok_rules {env : Env} {st : PSt} {pfx : Str} {ps : List Str} {a : Attrs} {k dflt : String}
    {base : Option Str} {r : Str} (hp : st.prefixes = pfx :: ps) (h : getDatatype env st a k dflt base = .ok r) :
    dtAttrOK env pfx a k = true := by
  unfold dtAttrOK
  unfold getDatatype at h
  cases ha : attr a k with
  | none => rfl
  | some v =>
    rw [ha] at h
    simp only [getClassname_eq hp, bind, Except.bind] at h
    simp only [regGet_resolve h, Option.isSome_some]

theorem getSectTypeinfo_ok_rules {env : Env} {st : PSt} {pfx : Str} {ps : List Str} {a : Attrs}
    {base : Option (Str × Str)} {kt dt : Str} (hp : st.prefixes = pfx :: ps)
    (h : getSectTypeinfo env st a base = .ok (kt, dt)) :
    dtAttrOK env pfx a "keytype" = true ∧ dtAttrOK env pfx a "valuetype" = true ∧
      dtAttrOK env pfx a "datatype" = true := by
  obtain ⟨h1, ⟨vt, h2⟩, h3⟩ := getSectTypeinfo_ok h
  exact ⟨getDatatype_ok_rules hp h1, getDatatype_ok_rules hp h2, getDatatype_ok_rules hp h3⟩

theorem getHandler_ok_rules {a : Attrs} {r : Option Str} (h : getHandler a = .ok r) : handlerOK a = true := by
  unfold handlerOK
  unfold getHandler at h
  cases ha : attr a "handler" with
  | none => rfl
  | some v =>
    rw [ha] at h
    simp only at h ⊢
    cases hb : basicKeyE v with
    | ok x => exact (basicKeyE_ok hb).1
    | error e => rw [hb] at h; cases h

theorem getRequired_ok_rules {a : Attrs} {r : Bool} (h : getRequired a = .ok r) : requiredOK a = true := by
  unfold requiredOK
  rw [getRequired_eq] at h
  cases ha : attr a "required" with
  | none => rfl
  | some v =>
    rw [ha] at h
    simp only at h ⊢
    by_cases h1 : v = "yes".toList
    · simp [h1]
    · by_cases h2 : v = "no".toList
      · simp [h2]
      · simp only [h1, h2, ↓reduceIte] at h
        cases h

theorem pushPrefix_ok_rules_top {st st1 : PSt} {a : Attrs} (hp : st.prefixes = []) (h : pushPrefix st a = .ok st1) :
    prefixOK none a = true := by
  unfold prefixOK
  cases ha : attr a "prefix" with
  | none => rfl
  | some v =>
    cases v with
    | nil => rfl
    | cons c cs =>
      simp only [Option.isNone_none, ↓reduceIte]
      cases hv : DTSpec.isDottedName (c :: cs) with
      | true => rfl
      | false =>
        rw [pushPrefix_invalid st a c cs ha (by rw [hp]; exact hv)] at h
        cases h

theorem pushPrefix_ok_rules_inner {st st1 : PSt} {a : Attrs} {p : Str} {ps : List Str} (hp : st.prefixes = p :: ps)
    (h : pushPrefix st a = .ok st1) : prefixOK (some p) a = true := by
  unfold prefixOK
  cases ha : attr a "prefix" with
  | none => rfl
  | some v =>
    cases v with
    | nil => rfl
    | cons c cs =>
      simp only [Option.isNone_some, Bool.false_eq_true, ↓reduceIte]
      cases hv : DTSpec.isDottedSuffix (c :: cs) with
      | true => rfl
      | false =>
        rw [pushPrefix_invalid st a c cs ha (by rw [hp]; exact hv)] at h
        cases h

/-! ### names -/

theorem nameOf_of_effName {a : Attrs} {dflt : Option Str} {n : Str} (h : effName a dflt = some n) : nameOf a dflt = n := by
  unfold effName at h
  unfold nameOf
  cases ha : attr a "name" with
  | some v => rw [ha] at h; injection h
  | none =>
    rw [ha] at h
    simp only at h ⊢
    rw [h]; rfl

theorem attrNameE_ok_rules {a : Attrs} {o : Option Str} (h : attrNameE a = .ok o) :
    attributeWF a = true ∧ o = givenAttr a := by
  unfold attributeWF givenAttr
  rcases attrNameE_ok h with ⟨h1, h2⟩ | ⟨x, h1, h2, h3, h4, h5⟩
  · subst h1
    cases ha : attr a "attribute" with
    | none => exact ⟨rfl, rfl⟩
    | some v =>
      rw [ha] at h2
      simp only [Option.getD_some] at h2
      subst h2
      exact ⟨rfl, rfl⟩
  · subst h1
    rw [h2]
    cases x with
    | nil => exact absurd rfl h3
    | cons c cs => exact ⟨by simp only [h4, h5, Bool.not_false, Bool.and_self], rfl⟩

theorem convKeyName_ok_stored {env : Env} {kt n nm : Str} (hw : isWild n = false) (h : convKeyName env kt n = .ok nm) :
    storedName env kt n = some nm := by
  unfold storedName
  rw [hw]
  simp only [Bool.false_eq_true, ↓reduceIte]
  unfold convKeyName at h
  cases hk : env.conv.key kt n with
  | ok r => rw [hk] at h; injection h with h; rw [h]
  | error e =>
    rw [hk] at h
    cases e <;> cases h

/-- a successful `get_name_info`: the name rules hold (and then `getNameInfo_of_rules` tells what it returned) -/
theorem getNameInfo_ok_rules {env : Env} {st : PSt} {kt : Str} {a : Attrs} {dflt : Option Str}
    {r : Option Str × Option Str × Option Str} (hkt : topKeytype st = .ok kt) (h : getNameInfo env st a dflt = .ok r) :
    nameGiven a dflt = true ∧ attributeWF a = true ∧ wildHasAttr a (nameOf a dflt) = true ∧
      fixedNameOK env kt a (nameOf a dflt) = true := by
  rw [getNameInfo_eq] at h
  split at h
  · rename_i c cs hn
    have hno := nameOf_of_effName hn
    obtain ⟨aname, ha, h⟩ := er_bind_ok h
    obtain ⟨hwf, haeq⟩ := attrNameE_ok_rules ha
    subst haeq
    refine ⟨by unfold nameGiven; rw [hno]; rfl, hwf, ?_⟩
    rw [hno]
    by_cases hc : Gen.anyNames.contains (c :: cs) = true
    · rw [if_pos hc] at h
      have hw : isWild (c :: cs) = true := hc
      cases hg : givenAttr a with
      | none => rw [hg] at h; cases h
      | some x =>
        exact ⟨by unfold wildHasAttr; simp [hw, hg], by unfold fixedNameOK; simp [hw]⟩
    · rw [if_neg hc] at h
      have hw : isWild (c :: cs) = false := by simpa [isWild] using hc
      obtain ⟨kt', hkt', h⟩ := er_bind_ok h
      rw [hkt] at hkt'
      injection hkt' with hkt'
      subst hkt'
      obtain ⟨nm, hnm, h⟩ := er_bind_ok h
      have hs := convKeyName_ok_stored hw hnm
      refine ⟨by unfold wildHasAttr; simp [hw], ?_⟩
      unfold fixedNameOK
      rw [hw, hs]
      simp only [Bool.false_or]
      cases hg : givenAttr a with
      | some x => rfl
      | none =>
        rw [hg] at h
        simp only at h
        obtain ⟨x, hx, h⟩ := er_bind_ok h
        obtain ⟨y, hy, h⟩ := er_bind_ok h
        obtain ⟨hb1, hb2⟩ := basicKeyE_ok hx
        subst hb2
        obtain ⟨hi1, _⟩ := identifierE_ok hy
        have : (asciiLower nm).map (fun ch => if ch == '-' then '_' else ch) = derivedAttr nm := rfl
        rw [this] at hi1
        simp [hb1, hi1]
  · cases h

end ZCV.SchemaRules
