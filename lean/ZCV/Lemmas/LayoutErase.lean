import ZCV.Lemmas.LayoutPerm
/-!
C15: the value the schema defines for a text (`Conf.denote`) does not depend on the positions recorded in the tree.
-/
namespace ZCV.Conf
open ZCV ZCV.Cfg

def pos0 : Pos := { line := 0, url := none }

mutual
/-- the tree with all positions forgotten -/
def eraseItem : Item → Item
  | .kv k v _ => .kv k v pos0
  | .sect ty nm its => .sect ty nm (eraseItems its)
def eraseItems : List Item → List Item
  | [] => []
  | i :: r => eraseItem i :: eraseItems r
end

theorem eraseItems_eq_map (l : List Item) : eraseItems l = l.map eraseItem := by
  induction l with
  | nil => rw [eraseItems]; rfl
  | cons i r ih => rw [eraseItems, ih]; rfl

theorem eraseItems_append (a b : List Item) : eraseItems (a ++ b) = eraseItems a ++ eraseItems b := by
  simp only [eraseItems_eq_map, List.map_append]

theorem eraseItems_reverse (a : List Item) : eraseItems a.reverse = (eraseItems a).reverse := by
  simp only [eraseItems_eq_map, List.map_reverse]

theorem eraseItems_cons (i : Item) (r : List Item) : eraseItems (i :: r) = eraseItem i :: eraseItems r := by
  rw [eraseItems]

def eVI (vi : VI) : VI := { vi with pos := pos0 }
def eKL (e : Option Str × VI) : Option Str × VI := (e.1, eVI e.2)
def eR (e : Str × VI) : Str × VI := (e.1, eVI e.2)
def eG (e : Str × List VI) : Str × List VI := (e.1, e.2.map eVI)

theorem keyLines_erase (conv : Conv) (t : SType) (items : List Item) :
    keyLines conv t (eraseItems items) = (keyLines conv t items).map eKL := by
  induction items with
  | nil => rw [eraseItems]; rfl
  | cons i r ih =>
    rw [eraseItems]
    cases i with
    | kv k v p => rw [eraseItem, keyLines_kv, keyLines_kv, ih]; rfl
    | sect ty nm its => rw [eraseItem, keyLines_sect, keyLines_sect, ih]

theorem subsOf_erase (items : List Item) : ∀ vs, subsOf (eraseItems items) vs = subsOf items vs := by
  induction items with
  | nil => intro vs; rw [eraseItems]
  | cons i r ih =>
    intro vs
    rw [eraseItems]
    cases i with
    | kv k v p =>
      rw [eraseItem]
      cases vs with
      | nil => simp [subsOf]
      | cons x xs => rw [subsOf, subsOf, ih]
    | sect ty nm its =>
      rw [eraseItem]
      cases vs with
      | nil => simp [subsOf]
      | cons x xs => rw [subsOf, subsOf, ih]

theorem routed_erase (children : List (Option Str × Info)) (c : Option Str × Info) (kl : List (Option Str × VI)) :
    routed children c (kl.map eKL) = (routed children c kl).map eR := by
  unfold routed
  rw [List.filterMap_map, List.map_filterMap]
  congr 1
  funext x
  obtain ⟨rk?, vi⟩ := x
  cases rk? with
  | none => rfl
  | some rk =>
    simp only [Function.comp, eKL]
    cases route children rk with
    | none => rfl
    | some c' =>
      simp only
      split <;> rfl

theorem mapM_map_opt {α β γ} (f : β → Option γ) (g : α → β) (l : List α) :
    (l.map g).mapM f = l.mapM (fun a => f (g a)) := by
  induction l with
  | nil => rfl
  | cons a r ih => simp only [List.map_cons, List.mapM_cons, ih]

theorem convAll_erase (conv : Conv) (dt : Str) (vs : List VI) : convAll conv dt (vs.map eVI) = convAll conv dt vs := by
  unfold convAll
  rw [mapM_map_opt]
  rfl

theorem groupKeys_erase_aux (l : List (Str × VI)) : ∀ acc : List (Str × List VI),
    (l.map eR).foldl (fun acc (kv : Str × VI) =>
      if acc.any (·.1 == kv.1) then acc.map (fun p => if p.1 == kv.1 then (p.1, p.2 ++ [kv.2]) else p) else acc ++ [(kv.1, [kv.2])]) (acc.map eG) =
    (l.foldl (fun acc (kv : Str × VI) =>
      if acc.any (·.1 == kv.1) then acc.map (fun p => if p.1 == kv.1 then (p.1, p.2 ++ [kv.2]) else p) else acc ++ [(kv.1, [kv.2])]) acc).map eG := by
  induction l with
  | nil => intro acc; rfl
  | cons x r ih =>
    intro acc
    obtain ⟨k, v⟩ := x
    simp only [List.map_cons, List.foldl_cons]
    rw [← ih]
    congr 1
    have hany : (acc.map eG).any (·.1 == (eR (k, v)).1) = acc.any (·.1 == k) := by
      rw [List.any_map]; rfl
    rw [hany]
    split
    · simp only [List.map_map]
      apply List.map_congr_left
      intro p _
      show (if ((eG p).1 == k) = true then ((eG p).1, (eG p).2 ++ [eVI v]) else eG p) =
        eG (if (p.1 == k) = true then (p.1, p.2 ++ [v]) else p)
      have hp : (eG p).1 = p.1 := rfl
      rw [hp]
      by_cases h : (p.1 == k) = true
      · simp only [h, ↓reduceIte, eG, List.map_append, List.map_cons, List.map_nil]
      · simp only [h, Bool.false_eq_true, ↓reduceIte]
    · simp [eG, eR]

theorem groupKeys_erase (l : List (Str × VI)) : groupKeys (l.map eR) = (groupKeys l).map eG := by
  have := groupKeys_erase_aux l []
  simpa [groupKeys] using this

theorem keyVal_erase (conv : Conv) (ki : KeyInfo) (rs : List (Str × VI)) :
    keyVal conv ki (rs.map eR) = keyVal conv ki rs := by
  unfold keyVal
  by_cases h1 : (ki.name == ['+']) = true
  · simp only [h1, ↓reduceIte]
    by_cases h2 : ki.multi = true
    · simp only [h2, ↓reduceIte, groupKeys_erase, List.length_map, List.isEmpty_map]
      cases hg : (groupKeys rs).isEmpty with
      | true => simp only [↓reduceIte]
      | false =>
        simp only [Bool.false_eq_true, ↓reduceIte, List.length_map]
        rw [mapM_map_opt]
        simp only [eG, convAll_erase]
    · simp only [h2, Bool.false_eq_true, ↓reduceIte, List.map_map, List.length_map, List.isEmpty_map]
      have : (fun x : Str × VI => x.1) ∘ eR = fun x => x.1 := by funext x; rfl
      rw [this]
      cases hr : rs.isEmpty with
      | true => simp only [↓reduceIte]
      | false =>
        simp only [Bool.false_eq_true, ↓reduceIte]
        rw [mapM_map_opt]
        rfl
  · simp only [h1, Bool.false_eq_true, ↓reduceIte]
    by_cases h2 : ki.multi = true
    · simp only [h2, ↓reduceIte, List.map_map, List.isEmpty_map]
      have : (fun x : Str × VI => x.2) ∘ eR = eVI ∘ (fun x => x.2) := by funext x; rfl
      rw [this, ← List.map_map]
      cases hr : rs.isEmpty with
      | true => simp only [↓reduceIte]
      | false =>
        simp only [Bool.false_eq_true, ↓reduceIte, List.length_map, convAll_erase]
    · simp only [h2, Bool.false_eq_true, ↓reduceIte]
      cases rs with
      | nil => rfl
      | cons x r =>
        cases r with
        | nil => rfl
        | cons y r' => rfl

theorem childVal_erase (conv : Conv) (s : Schema) (t : SType) (kl : List (Option Str × VI)) (subs : List Sub)
    (c : Option Str × Info) :
    childVal conv s t (kl.map eKL) subs c = childVal conv s t kl subs c := by
  cases hc : c.2 with
  | key ki => rw [childVal_key _ _ _ _ _ _ ki hc, childVal_key _ _ _ _ _ _ ki hc, routed_erase, keyVal_erase]
  | sect si => rw [childVal_sect _ _ _ _ _ _ si hc, childVal_sect _ _ _ _ _ _ si hc]

theorem containerCore_erase (conv : Conv) (s : Schema) (t : SType) (nm : Option Str)
    (kl : List (Option Str × VI)) (subs : List Sub) :
    containerCore conv s t nm (kl.map eKL) subs = containerCore conv s t nm kl subs := by
  unfold containerCore
  simp only [childVal_erase, List.all_map]
  rfl

mutual
theorem itemVal_erase (conv : Conv) (s : Schema) : ∀ i : Item, itemVal conv s (eraseItem i) = itemVal conv s i
  | .kv k v p => by rw [eraseItem, itemVal, itemVal]
  | .sect ty nm its => by
    rw [eraseItem, itemVal, itemVal]
    cases s.gettype ty with
    | none => rfl
    | some te =>
      cases te with
      | abstract_ n subs => rfl
      | concrete t =>
        simp only
        rw [containerVal_eq_core, containerVal_eq_core, keyLines_erase, subsOf_erase, itemVals_erase conv s its,
          containerCore_erase]
theorem itemVals_erase (conv : Conv) (s : Schema) : ∀ l : List Item, itemVals conv s (eraseItems l) = itemVals conv s l
  | [] => by rw [eraseItems]
  | i :: r => by rw [eraseItems, itemVals, itemVals, itemVal_erase conv s i, itemVals_erase conv s r]
end

/-- **the value the schema defines does not depend on recorded positions** -/
theorem denote_erase (conv : Conv) (s : Schema) (items : List Item) :
    denote conv s (eraseItems items) = denote conv s items := by
  unfold denote
  rw [containerVal_eq_core, containerVal_eq_core, keyLines_erase, subsOf_erase, itemVals_erase, containerCore_erase]

theorem tyCanon_erase (s : Schema) : ∀ l : List Item, tyCanon s (eraseItems l) = tyCanon s l
  | [] => by rw [eraseItems]
  | .kv k v p :: r => by rw [eraseItems, eraseItem, tyCanon, tyCanon, tyCanon_erase s r]
  | .sect ty nm its :: r => by
    rw [eraseItems, eraseItem, tyCanon_sect, tyCanon_sect, tyCanon_erase s its, tyCanon_erase s r]

end ZCV.Conf
