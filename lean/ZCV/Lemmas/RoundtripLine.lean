import ZCV.Lemmas.RoundtripDefs
import ZCV.Lemmas.RoundtripText
import ZCV.Lemmas.RoundtripLower
import ZCV.Lemmas.Grammar
import ZCV.Lemmas.SubstExtra
import ZCV.Props.C04
/-!
One printed line at a time (C17): what `strip` leaves of it, and how the parser classifies that.
-/
namespace ZCV.Roundtrip
open ZCV ZCV.Cfg ZCV.SubstSpec

/-! ### `$`-escaping -/

/-- printing a value (every `$` doubled) and reading it back through `$`-substitution gives the value back,
    whatever is or is not defined: the documented function maps `escDollar v` to `v` -/
theorem value_roundtrip_spec (defs env : Str → Option Str) (src v : Str) :
    spec defs env src (escDollar v) = .ok v := by
  induction v with
  | nil => simp [escDollar, spec_nil]
  | cons c t ih =>
    by_cases hc : c = '$'
    · subst hc
      have : escDollar ('$' :: t) = '$' :: '$' :: escDollar t := by simp [escDollar]
      rw [this, spec, ih]; rfl
    · have : escDollar (c :: t) = c :: escDollar t := by simp [escDollar, hc]
      rw [this, spec_lit _ _ _ _ _ hc, ih]; rfl

/-- the same for the model of the code (by C04) -/
theorem value_roundtrip (defs env : Str → Option Str) (v : Str) :
    Subst.substitute defs env (escDollar v) = .ok v := by
  have h := ZCV.Props.C04.C04_substitute_eq_spec defs env (escDollar v)
  unfold substituteSpec at h
  rw [value_roundtrip_spec] at h
  cases hs : Subst.substitute defs env (escDollar v) with
  | ok r => rw [hs] at h; simp [Subst.conv] at h; rw [h]
  | error e => rw [hs] at h; simp [Subst.conv] at h

theorem replace_esc (env : Env) (defs : List (Str × Str)) (url : Option Str) (n : Nat) (v : Str) :
    replace env defs url n (escDollar v) = .ok v := by
  unfold replace
  rw [value_roundtrip]

theorem esc_nil : escDollar [] = [] := rfl

theorem esc_cons (c : Char) (t : Str) :
    escDollar (c :: t) = (if c == '$' then ['$', '$'] else [c]) ++ escDollar t := by
  simp [escDollar]

theorem esc_eq_nil {v : Str} : escDollar v = [] ↔ v = [] := by
  cases v with
  | nil => simp [esc_nil]
  | cons c t =>
    rw [esc_cons]
    by_cases h : (c == '$') = true <;> simp [h]

theorem mem_esc {a : Char} {v : Str} (h : a ∈ escDollar v) : a ∈ v := by
  unfold escDollar at h
  rw [List.mem_flatMap] at h
  obtain ⟨c, hc, ha⟩ := h
  by_cases hd : (c == '$') = true
  · simp only [hd, ↓reduceIte, List.mem_cons, List.not_mem_nil, or_false, or_self] at ha
    rw [ha, ← beq_iff_eq.1 hd]; exact hc
  · simp only [hd, Bool.false_eq_true, ↓reduceIte, List.mem_cons, List.not_mem_nil, or_false] at ha
    rw [ha]; exact hc

theorem esc_head (v : Str) (c : Char) (h : (escDollar v).head? = some c) : v.head? = some c := by
  cases v with
  | nil => simp [esc_nil] at h
  | cons a t =>
    rw [esc_cons] at h
    by_cases hd : (a == '$') = true
    · simp only [hd, ↓reduceIte, List.cons_append, List.nil_append, List.head?_cons, Option.some.injEq] at h
      rw [← h, ← beq_iff_eq.1 hd]; rfl
    · simpa [hd] using h

theorem esc_append (a b : Str) : escDollar (a ++ b) = escDollar a ++ escDollar b := by
  simp [escDollar]

theorem esc_last (v : Str) (c : Char) (h : (escDollar v).getLast? = some c) : v.getLast? = some c := by
  rcases List.eq_nil_or_concat v with rfl | ⟨L, b, rfl⟩
  · simp [esc_nil] at h
  · rw [List.concat_eq_append, esc_append] at h
    by_cases hd : b = '$'
    · subst hd
      have : escDollar ['$'] = ['$', '$'] := rfl
      rw [this] at h
      simp only [List.getLast?_append, List.getLast?_cons_cons, List.getLast?_singleton] at h
      rw [← h]; simp
    · have : escDollar [b] = [b] := by simp [escDollar, hd]
      rw [this] at h
      simpa using h

theorem getLast?_append_ne (a b : Str) (hb : b ≠ []) : (a ++ b).getLast? = b.getLast? := by
  rw [List.getLast?_append]
  cases b with
  | nil => exact absurd rfl hb
  | cons x t => cases h : (x :: t).getLast? with
    | none => simp at h
    | some y => rfl

theorem getLast?_cons_ne (a : Char) (b : Str) (hb : b ≠ []) : (a :: b).getLast? = b.getLast? :=
  getLast?_append_ne [a] b hb

/-! ### what the well-formedness predicates give -/

theorem isWord_ne_nl {c : Char} (h : Grammar.isWord c = true) : c ≠ '\n' :=
  not_space_ne_nl (isWord_not_space h)

theorem wordTok_ne {s : Str} (h : wordTok s = true) : s ≠ [] := by
  unfold wordTok at h
  intro e; subst e; simp at h

theorem wordTok_all {s : Str} (h : wordTok s = true) : ∀ c ∈ s, Grammar.isWord c = true := by
  unfold wordTok at h
  rw [Bool.and_eq_true, List.all_eq_true] at h
  exact h.2

theorem wordTok_nonl {s : Str} (h : wordTok s = true) : '\n' ∉ s :=
  fun hm => isWord_ne_nl (wordTok_all h _ hm) rfl

theorem wordTok_head {s : Str} (h : wordTok s = true) (c : Char) (hc : s.head? = some c) : pySpace c = false :=
  isWord_not_space (wordTok_all h c (List.mem_of_head? hc))

theorem wordTok_last {s : Str} (h : wordTok s = true) (c : Char) (hc : s.getLast? = some c) : pySpace c = false :=
  isWord_not_space (wordTok_all h c (List.mem_of_getLast? hc))

theorem cleanVal_nonl {v : Str} (h : cleanVal v = true) : '\n' ∉ v := by
  unfold cleanVal at h
  simp only [Bool.and_eq_true, Bool.not_eq_true', List.contains_eq_mem, decide_eq_false_iff_not] at h
  exact h.1.1

theorem cleanVal_head {v : Str} (h : cleanVal v = true) (c : Char) (hc : v.head? = some c) : pySpace c = false := by
  unfold cleanVal at h
  simp only [Bool.and_eq_true, Bool.not_eq_true'] at h
  have := h.1.2
  rw [hc] at this
  simpa using this

theorem cleanVal_last {v : Str} (h : cleanVal v = true) (c : Char) (hc : v.getLast? = some c) : pySpace c = false := by
  unfold cleanVal at h
  simp only [Bool.and_eq_true, Bool.not_eq_true'] at h
  have := h.2
  rw [hc] at this
  simpa using this

theorem keyOK_word {k : Str} (h : keyOK k = true) : wordTok k = true := by
  unfold keyOK at h
  simp only [Bool.and_eq_true] at h
  exact h.1.1.1

theorem keyOK_first {k : Str} (h : keyOK k = true) : ∃ c t, k = c :: t ∧ c ≠ '#' ∧ c ≠ '<' ∧ c ≠ '%' := by
  have hw := wordTok_ne (keyOK_word h)
  unfold keyOK at h
  cases k with
  | nil => exact absurd rfl hw
  | cons c t =>
    refine ⟨c, t, rfl, ?_⟩
    simp only [Bool.and_eq_true, List.take_succ_cons, List.take_zero, bne_iff_ne, ne_eq, List.cons.injEq,
      and_true] at h
    exact ⟨h.1.1.2, h.1.2, h.2⟩

theorem tokOK_word {s : Str} (h : tokOK s = true) : wordTok s = true := by
  unfold tokOK at h
  simp only [Bool.and_eq_true] at h
  exact h.1

theorem tokOK_lower {s : Str} (h : tokOK s = true) : lower s = s := by
  unfold tokOK at h
  simp only [Bool.and_eq_true, beq_iff_eq] at h
  exact h.2

theorem all_space_of_blanks {pre : Str} (h : pre.all (· == ' ') = true) : pre.all pySpace = true := by
  rw [List.all_eq_true] at h ⊢
  intro c hc
  rw [beq_iff_eq.1 (h c hc)]
  decide

theorem blanks_nonl {pre : Str} (h : pre.all (· == ' ') = true) : '\n' ∉ pre := by
  rw [List.all_eq_true] at h
  intro hm
  have := beq_iff_eq.1 (h _ hm)
  cases this

/-! ### `strip` of the printed lines -/

theorem strip_indent (pre body : Str) (hpre : pre.all (· == ' ') = true)
    (h1 : ∀ c, body.head? = some c → pySpace c = false) (h2 : ∀ c, body.getLast? = some c → pySpace c = false) :
    strip (pre ++ body) = body := by
  rw [strip_pad_left _ _ (all_space_of_blanks hpre), strip_clean body h1 h2]

theorem strip_kv (pre k v : Str) (hpre : pre.all (· == ' ') = true) (hk : keyOK k = true) (hv : cleanVal v = true) :
    strip (pre ++ k ++ ' ' :: escDollar v) = kvLine k v := by
  have hw := keyOK_word hk
  unfold kvLine
  by_cases he : v = []
  · subst he
    rw [if_pos rfl, esc_nil]
    rw [strip_pad pre k [' '] (all_space_of_blanks hpre) (by decide)]
    exact strip_clean k (wordTok_head hw) (wordTok_last hw)
  · rw [if_neg he, List.append_assoc]
    apply strip_indent _ _ hpre
    · intro c hc
      obtain ⟨c0, t, rfl, _⟩ := keyOK_first hk
      simp only [List.cons_append, List.head?_cons, Option.some.injEq] at hc
      rw [← hc]
      exact wordTok_head hw c0 rfl
    · intro c hc
      have hne : escDollar v ≠ [] := fun e => he (esc_eq_nil.1 e)
      rw [getLast?_append_ne _ _ (by simp), getLast?_cons_ne _ _ hne] at hc
      exact cleanVal_last hv c (esc_last v c hc)

theorem endsWith_one (s : Str) (c : Char) : endsWith s [c] = decide (s.getLast? = some c) := by
  unfold endsWith
  have := lastN_one_beq s c
  unfold lastN at this
  simp only [List.length_cons, List.length_nil, Nat.zero_add]
  rw [this]
  cases s with
  | nil => simp
  | cons a t => simp

theorem hdrBody_ne {ty : Str} (nm : Option Str) (h : ty ≠ []) : hdrBody ty nm ≠ [] := by
  unfold hdrBody
  cases nm with
  | none => exact h
  | some n =>
    simp only
    split
    · exact h
    · simp [h]

theorem hdr_text (pre ty : Str) (nm : Option Str) :
    (match nm with
      | some n => if n.isEmpty then pre ++ '<' :: ty else pre ++ '<' :: ty ++ ' ' :: n
      | none => pre ++ '<' :: ty) = pre ++ '<' :: hdrBody ty nm := by
  unfold hdrBody
  cases nm with
  | none => rfl
  | some n =>
    simp only
    split <;> simp

theorem closeHeader_eq (pre B : Str) (hB : B ≠ []) :
    closeHeader (pre ++ '<' :: B) = pre ++ ('<' :: B ++ (if B.getLast? = some '/' then [' ', '>'] else ['>'])) := by
  unfold closeHeader
  rw [endsWith_one]
  have : (pre ++ '<' :: B).getLast? = B.getLast? := by
    rw [getLast?_append_ne _ _ (by simp), getLast?_cons_ne _ _ hB]
  rw [this]
  by_cases h : B.getLast? = some '/'
  · simp [h]
  · simp [h]

theorem hdrBody_last {ty : Str} {nm : Option Str} (hty : tyOK ty = true) (hnm : nameOK nm = true) (c : Char)
    (hc : (hdrBody ty nm).getLast? = some c) : pySpace c = false := by
  have hw : wordTok ty = true := by
    unfold tyOK at hty; rw [Bool.and_eq_true] at hty; exact tokOK_word hty.1
  unfold hdrBody at hc
  cases nm with
  | none => exact wordTok_last hw c hc
  | some n =>
    have hn : wordTok n = true := tokOK_word hnm
    simp only at hc
    split at hc
    · exact wordTok_last hw c hc
    · rw [getLast?_append_ne _ _ (by simp), getLast?_cons_ne _ _ (wordTok_ne hn)] at hc
      exact wordTok_last hn c hc

theorem strip_hdr (pre ty : Str) (nm : Option Str) (hpre : pre.all (· == ' ') = true)
    (hty : tyOK ty = true) :
    strip (closeHeader (pre ++ '<' :: hdrBody ty nm)) = hdrLine ty nm := by
  have hw : wordTok ty = true := by
    unfold tyOK at hty; rw [Bool.and_eq_true] at hty; exact tokOK_word hty.1
  rw [closeHeader_eq _ _ (hdrBody_ne nm (wordTok_ne hw))]
  unfold hdrLine
  apply strip_indent _ _ hpre
  · intro c hc
    simp only [List.cons_append, List.head?_cons, Option.some.injEq] at hc
    rw [← hc]; decide
  · intro c hc
    rw [getLast?_append_ne _ _ (by split <;> simp)] at hc
    split at hc
    · simp at hc; rw [← hc]; decide
    · simp at hc; rw [← hc]; decide

theorem strip_close (pre ty : Str) (hpre : pre.all (· == ' ') = true) :
    strip (pre ++ '<' :: '/' :: ty ++ ['>']) = closeLine ty := by
  unfold closeLine
  rw [List.append_assoc]
  apply strip_indent _ _ hpre
  · intro c hc
    simp only [List.cons_append, List.head?_cons, Option.some.injEq] at hc
    rw [← hc]; decide
  · intro c hc
    rw [getLast?_append_ne _ _ (by simp)] at hc
    simp at hc; rw [← hc]; decide

theorem impsOK_all {imps : List Str} (h : impsOK imps = true) : ∀ p ∈ imps, p ≠ [] ∧ cleanVal p = true := by
  unfold impsOK at h
  rw [Bool.and_eq_true, List.all_eq_true] at h
  intro p hp
  have := h.1 p hp
  simp only [Bool.and_eq_true, Bool.not_eq_true'] at this
  exact ⟨fun e => by rw [e] at this; simp at this, this.2⟩

theorem impsOK_nodup {imps : List Str} (h : impsOK imps = true) : imps.Nodup := by
  unfold impsOK at h
  rw [Bool.and_eq_true, decide_eq_true_eq] at h
  exact h.2

theorem strip_imp (p : Str) (hne : p ≠ []) (hp : cleanVal p = true) :
    strip ("%import ".toList ++ escDollar p) = impLine p := by
  unfold impLine
  apply strip_clean
  · intro c hc
    have : ("%import ".toList ++ escDollar p).head? = some '%' := rfl
    rw [this] at hc
    cases hc; decide
  · intro c hc
    have hne' : escDollar p ≠ [] := fun e => hne (esc_eq_nil.1 e)
    rw [getLast?_append_ne _ _ hne'] at hc
    exact cleanVal_last hp c (esc_last p c hc)

/-! ### how the parser classifies them -/

theorem takeWhile_stop {p : Char → Bool} (a : Str) (b : Char) (r : Str) (ha : ∀ c ∈ a, p c = true) (hb : p b = false) :
    (a ++ b :: r).takeWhile p = a ∧ (a ++ b :: r).dropWhile p = b :: r := by
  induction a with
  | nil => simp [hb]
  | cons x t ih =>
    have hx := ha x List.mem_cons_self
    have := ih (fun c hc => ha c (List.mem_cons_of_mem _ hc))
    simp [hx, this.1, this.2]

theorem takeWhile_all {p : Char → Bool} (a : Str) (ha : ∀ c ∈ a, p c = true) :
    a.takeWhile p = a ∧ a.dropWhile p = [] := by
  induction a with
  | nil => simp
  | cons x t ih =>
    have hx := ha x List.mem_cons_self
    have := ih (fun c hc => ha c (List.mem_cons_of_mem _ hc))
    simp [hx, this.1, this.2]

theorem isWord_blank : Grammar.isWord ' ' = false := by decide

/-- a line that starts with none of `#`, `<`, `%` is a key with its value -/
theorem lineShape_data (c : Char) (t : Str) (h1 : c ≠ '#') (h2 : c ≠ '<') (h3 : c ≠ '%') (hn : '\n' ∉ c :: t) :
    lineShape (c :: t) = match Grammar.keyValue (c :: t) with
      | none => .bad "malformed configuration data"
      | some (key, value?) => .kv key (match value? with | none => [] | some v => v) := by
  unfold lineShape
  rw [kvMatch_eq_keyValue _ hn]
  have e2 : ((c :: t).take 2 == ['<', '/']) = false := by
    cases t <;> simp [h2]
  simp [h1, h2, h3]
  generalize Grammar.keyValue (c :: t) = o
  rcases o with _ | ⟨k, _ | v⟩ <;> rfl

theorem keyValue_line (k v : Str) (hk : wordTok k = true) (hv : ∀ c, v.head? = some c → pySpace c = false) :
    Grammar.keyValue (kvLine k v) = some (k, if v = [] then none else some (escDollar v)) := by
  unfold kvLine Grammar.keyValue
  by_cases he : v = []
  · simp only [he, ↓reduceIte]
    have := takeWhile_all (p := Grammar.isWord) k (wordTok_all hk)
    rw [this.1, this.2]
    simp [wordTok_ne hk]
  · simp only [he, ↓reduceIte]
    have := takeWhile_stop (p := Grammar.isWord) k ' ' (escDollar v) (wordTok_all hk) isWord_blank
    rw [this.1, this.2]
    have hne : escDollar v ≠ [] := fun e => he (esc_eq_nil.1 e)
    have hd : (' ' :: escDollar v).dropWhile pySpace = escDollar v := by
      cases hx : escDollar v with
      | nil => exact absurd hx hne
      | cons a r =>
        have : pySpace a = false := hv a (esc_head v a (by rw [hx]; rfl))
        have hsp : pySpace ' ' = true := by decide
        simp [hsp, this]
    rw [hd]
    simp [wordTok_ne hk, hne]

theorem lineShape_kvLine (k v : Str) (hk : keyOK k = true) (hv : cleanVal v = true) :
    lineShape (kvLine k v) = .kv k (escDollar v) := by
  obtain ⟨c, t, hkt, h1, h2, h3⟩ := keyOK_first hk
  have hw := keyOK_word hk
  have hcons : ∃ t', kvLine k v = c :: t' := by
    unfold kvLine; split
    · exact ⟨t, hkt⟩
    · exact ⟨t ++ ' ' :: escDollar v, by rw [hkt]; rfl⟩
  obtain ⟨t', ht'⟩ := hcons
  have hn : '\n' ∉ kvLine k v := by
    unfold kvLine; split
    · exact wordTok_nonl hw
    · intro hm
      rcases List.mem_append.1 hm with h | h
      · exact wordTok_nonl hw h
      · rcases List.mem_cons.1 h with h | h
        · cases h
        · exact cleanVal_nonl hv (mem_esc h)
  have hkv := keyValue_line k v hw (cleanVal_head hv)
  rw [ht'] at hn hkv
  rw [ht', lineShape_data c t' h1 h2 h3 hn, hkv]
  by_cases he : v = []
  · simp [he, esc_nil]
  · simp [he]

theorem dropLastN_snoc (a : Str) (c : Char) : dropLastN (a ++ [c]) 1 = a := by
  simp [dropLastN]

theorem lastN_snoc (a : Str) (c : Char) : lastN (a ++ [c]) 1 = [c] := by
  simp [lastN]

/-- `<…>` that is not `</…>` -/
theorem lineShape_open (R : Str) (hR : R.take 1 ≠ ['/']) :
    lineShape ('<' :: R ++ ['>']) =
      match hdrMatch (rstrip (if lastN R 1 == ['/'] then dropLastN R 1 else R)) with
      | none => .bad "malformed section header"
      | some (ty0, nm0) =>
        .open_ (lower ty0) (match nm0 with | some n => if n == [] then none else some (lower n) | none => none)
          (lastN R 1 == ['/']) := by
  have e2 : (('<' :: R ++ ['>']).take 2 == ['<', '/']) = false := by
    cases R with
    | nil => simp
    | cons a r =>
      have : a ≠ '/' := fun e => hR (by rw [e]; rfl)
      simp [this]
  have e2' : List.take 1 (R ++ ['>']) ≠ ['/'] := by
    cases R with
    | nil => simp
    | cons a r => simpa using hR
  have e3 : lastN ('<' :: R ++ ['>']) 1 = ['>'] := lastN_snoc _ _
  have e4 : dropLastN (('<' :: R ++ ['>']).drop 1) 1 = R := by
    simp only [List.cons_append, List.drop_succ_cons, List.drop_zero]
    exact dropLastN_snoc _ _
  unfold lineShape
  rw [e3, e4]
  simp [e2']
  generalize hdrMatch (rstrip (if lastN R 1 = ['/'] then dropLastN R 1 else R)) = o
  rcases o with _ | ⟨ty0, _ | n⟩ <;> rfl

theorem lineShape_closeTag (R : Str) :
    lineShape ('<' :: '/' :: R ++ ['>']) = .close (lower (rstrip R)) := by
  have e3 : lastN ('<' :: '/' :: R ++ ['>']) 1 = ['>'] := lastN_snoc _ _
  have e4 : dropLastN (('<' :: '/' :: R ++ ['>']).drop 2) 1 = R := by
    simp only [List.cons_append, List.drop_succ_cons, List.drop_zero]
    exact dropLastN_snoc _ _
  unfold lineShape
  rw [e3, e4]
  simp

theorem rstrip_clean (s : Str) (h : ∀ c, s.getLast? = some c → pySpace c = false) : rstrip s = s := by
  rcases List.eq_nil_or_concat s with rfl | ⟨L, b, rfl⟩
  · rfl
  · rw [List.concat_eq_append]
    apply rstrip_of_last
    apply h
    simp

theorem header_body (ty : Str) (nm : Option Str) (hty : wordTok ty = true) (hnm : nameOK nm = true) :
    Grammar.header (hdrBody ty nm) = some (ty, nm) := by
  unfold hdrBody
  cases nm with
  | none =>
    unfold Grammar.header
    have := takeWhile_all (p := Grammar.isWord) ty (wordTok_all hty)
    simp [this.1, this.2, wordTok_ne hty]
  | some n =>
    have hn : wordTok n = true := tokOK_word hnm
    have hne := wordTok_ne hn
    have hnil : n.isEmpty = false := by
      cases n with
      | nil => exact absurd rfl hne
      | cons _ _ => rfl
    simp only [hnil, Bool.false_eq_true, ↓reduceIte]
    unfold Grammar.header
    have h1 := takeWhile_stop (p := Grammar.isWord) ty ' ' n (wordTok_all hty) isWord_blank
    have h2 := takeWhile_all (p := Grammar.isWord) n (wordTok_all hn)
    have hd : (' ' :: n).dropWhile pySpace = n := by
      cases n with
      | nil => exact absurd rfl hne
      | cons a r =>
        have : pySpace a = false := wordTok_head hn a rfl
        have hsp : pySpace ' ' = true := by decide
        simp [hsp, this]
    simp only [h1.1, h1.2, hd, h2.1, h2.2]
    simp [wordTok_ne hty, hne]

theorem hdrBody_nonl {ty : Str} {nm : Option Str} (hty : wordTok ty = true) (hnm : nameOK nm = true) :
    '\n' ∉ hdrBody ty nm := by
  unfold hdrBody
  cases nm with
  | none => exact wordTok_nonl hty
  | some n =>
    have hn : wordTok n = true := tokOK_word hnm
    simp only
    split
    · exact wordTok_nonl hty
    · intro hm
      rcases List.mem_append.1 hm with h | h
      · exact wordTok_nonl hty h
      · rcases List.mem_cons.1 h with h | h
        · cases h
        · exact wordTok_nonl hn h

theorem tyOK_parts {ty : Str} (h : tyOK ty = true) :
    wordTok ty = true ∧ lower ty = ty ∧ ty.take 1 ≠ ['/'] := by
  unfold tyOK at h
  simp only [Bool.and_eq_true, bne_iff_ne, ne_eq] at h
  exact ⟨tokOK_word h.1, tokOK_lower h.1, h.2⟩

theorem lineShape_hdrLine (ty : Str) (nm : Option Str) (hty : tyOK ty = true) (hnm : nameOK nm = true) :
    lineShape (hdrLine ty nm) = .open_ ty nm false := by
  obtain ⟨hw, hlow, hsl⟩ := tyOK_parts hty
  have hB := hdrBody_ne nm (wordTok_ne hw)
  have hlast := hdrBody_last hty hnm
  have htake : ∀ x : Str, (hdrBody ty nm ++ x).take 1 ≠ ['/'] := by
    intro x
    have : ∃ r, hdrBody ty nm = ty ++ r := by
      unfold hdrBody
      cases nm with
      | none => exact ⟨[], by simp⟩
      | some n => simp only; split; exact ⟨[], by simp⟩; exact ⟨' ' :: n, rfl⟩
    obtain ⟨r, hr⟩ := this
    rw [hr]
    cases ty with
    | nil => exact absurd rfl (wordTok_ne hw)
    | cons a t => simpa using hsl
  have hres : ∀ (nm0 : Option Str), nm0 = nm →
      (match nm0 with | some n => if n == [] then none else some (lower n) | none => none) = nm := by
    intro nm0 e
    subst e
    cases nm0 with
    | none => rfl
    | some n =>
      have hn : wordTok n = true := tokOK_word hnm
      have : (n == []) = false := by
        rw [beq_eq_false_iff_ne]; exact wordTok_ne hn
      simp only [this, Bool.false_eq_true, ↓reduceIte, tokOK_lower hnm]
  have hhdr : hdrMatch (hdrBody ty nm) = some (ty, nm) := by
    rw [hdrMatch_eq_header _ (hdrBody_nonl hw hnm), header_body ty nm hw hnm]
  unfold hdrLine
  by_cases hs : (hdrBody ty nm).getLast? = some '/'
  · rw [if_pos hs]
    have e : '<' :: hdrBody ty nm ++ [' ', '>'] = '<' :: (hdrBody ty nm ++ [' ']) ++ ['>'] := by simp
    rw [e, lineShape_open _ (by simpa using htake [' ']), lastN_snoc]
    have : ([' '] == ['/']) = false := by decide
    simp only [this, Bool.false_eq_true, ↓reduceIte]
    rw [rstrip_pad_right _ [' '] (by decide), rstrip_clean _ hlast, hhdr]
    simp only [hlow, hres nm rfl]
  · rw [if_neg hs]
    have hR := htake []
    rw [List.append_nil] at hR
    rw [lineShape_open _ hR]
    have : (lastN (hdrBody ty nm) 1 == ['/']) = false := by
      rw [lastN_one_beq]; simp [hs]
    simp only [this, Bool.false_eq_true, ↓reduceIte]
    rw [rstrip_clean _ hlast, hhdr]
    simp only [hlow, hres nm rfl]

theorem lineShape_closeLine (ty : Str) (hty : tyOK ty = true) : lineShape (closeLine ty) = .close ty := by
  obtain ⟨hw, hlow, _⟩ := tyOK_parts hty
  unfold closeLine
  rw [lineShape_closeTag, rstrip_clean _ (wordTok_last hw), hlow]

theorem import_word : wordTok "import".toList = true := by decide

theorem lineShape_impLine (p : Str) (hne : p ≠ []) (hp : cleanVal p = true) :
    lineShape (impLine p) = .import_ (escDollar p) := by
  have hkv : Grammar.keyValue (kvLine "import".toList p) = some ("import".toList, some (escDollar p)) := by
    rw [keyValue_line _ p import_word (cleanVal_head hp)]
    simp [hne]
  have hl : impLine p = '%' :: kvLine "import".toList p := by
    unfold impLine kvLine
    rw [if_neg hne]; rfl
  have hn : '\n' ∉ kvLine "import".toList p := by
    unfold kvLine
    rw [if_neg hne]
    intro hm
    rcases List.mem_append.1 hm with h | h
    · revert h; decide
    · rcases List.mem_cons.1 h with h | h
      · cases h
      · exact cleanVal_nonl hp (mem_esc h)
  have hne' : escDollar p ≠ [] := fun e => hne (esc_eq_nil.1 e)
  rw [hl]
  unfold lineShape
  simp only [List.take_succ_cons, List.take_zero, List.drop_succ_cons, List.drop_zero]
  rw [kvMatch_eq_keyValue _ hn, hkv, directives_eq]
  have hb : (escDollar p == []) = false := by rw [beq_eq_false_iff_ne]; exact hne'
  simp [hb]

end ZCV.Roundtrip
