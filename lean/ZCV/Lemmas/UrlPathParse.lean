import ZCV.Lemmas.UrlPathSplit
/-! `urlsplit` / `urlparse` on `file:///…` URLs and on plain path references. -/
namespace ZCV.UrlPath
open ZCV

/-- `"file"` -/
def fileScheme : Str := ['f', 'i', 'l', 'e']

/-- a character with no meaning for `urlsplit` inside a path: not `#`, `?`, tab, CR, LF -/
def cleanChar (c : Char) : Bool := c != '#' && c != '?' && !tabCrLf c

/-- a URL path segment: clean characters and no `/` -/
def segChar (c : Char) : Bool := cleanChar c && c != '/'

theorem up_cleanChar_slash : cleanChar '/' = true := by decide

theorem up_segChar_clean (c : Char) (h : segChar c = true) : cleanChar c = true := by
  simp only [segChar, Bool.and_eq_true] at h; exact h.1

theorem up_segChar_ne_slash (c : Char) (h : segChar c = true) : c ≠ '/' := by
  simp only [segChar, Bool.and_eq_true, bne_iff_ne, ne_eq] at h; exact h.2

theorem up_clean_ne_hash (c : Char) (h : cleanChar c = true) : c ≠ '#' := by
  simp only [cleanChar, Bool.and_eq_true, bne_iff_ne, ne_eq] at h; exact h.1.1

theorem up_clean_ne_qmark (c : Char) (h : cleanChar c = true) : c ≠ '?' := by
  simp only [cleanChar, Bool.and_eq_true, bne_iff_ne, ne_eq] at h; exact h.1.2

theorem up_filter_clean (s : Str) (h : ∀ c ∈ s, cleanChar c = true) : s.filter (fun c => !tabCrLf c) = s := by
  rw [List.filter_eq_self]
  intro c hc
  have := h c hc
  simp only [cleanChar, Bool.and_eq_true] at this
  exact this.2

theorem up_contains_false (c : Char) (s : Str) (h : c ∉ s) : s.contains c = false := by
  rw [List.contains_eq_mem]; simp only [h, decide_false]

theorem up_contains_true (c : Char) (s : Str) (h : c ∈ s) : s.contains c = true := by
  rw [List.contains_eq_mem]; simp only [h, decide_true]

/-- joined clean segments are clean text -/
theorem up_joinWith_clean (l : List Str) (h : ∀ s ∈ l, ∀ c ∈ s, segChar c = true) :
    ∀ c ∈ joinWith '/' l, cleanChar c = true := by
  induction l with
  | nil => intro c hc; simp [joinWith] at hc
  | cons a t ih =>
    cases t with
    | nil => intro c hc; exact up_segChar_clean c (h a (by simp) c hc)
    | cons b t =>
      intro c hc
      rw [up_joinWith_cons _ a _ (by simp)] at hc
      simp only [List.mem_append, List.mem_cons] at hc
      rcases hc with hc | rfl | hc
      · exact up_segChar_clean c (h a (by simp) c hc)
      · exact up_cleanChar_slash
      · exact ih (fun s hs => h s (by simp [hs])) c hc

/-! ## the stages of `urlsplit` -/

theorem up_cleanUrl_id (s : Str) (h0 : ∀ c, s.head? = some c → c0OrSpace c = false)
    (h : ∀ c ∈ s, cleanChar c = true) : cleanUrl s = s := by
  unfold cleanUrl
  cases s with
  | nil => rfl
  | cons c t =>
    rw [List.dropWhile_cons_of_neg (by rw [h0 c rfl]; decide)]
    exact up_filter_clean _ h

theorem up_cleanScheme_nil : cleanScheme [] = [] := rfl

theorem up_cleanScheme_file : cleanScheme fileScheme = fileScheme := by decide

/-- `file:` followed by anything has the scheme `file` -/
theorem up_splitScheme_file (rest dflt : Str) :
    splitScheme (fileScheme ++ ':' :: rest) dflt = (fileScheme, rest) := by
  unfold splitScheme
  have hp : List.takeWhile (· != ':') (fileScheme ++ ':' :: rest) = fileScheme := by
    rw [List.takeWhile_append_of_pos (by decide), List.takeWhile_cons_of_neg (by decide), List.append_nil]
  have hc : (fileScheme ++ ':' :: rest).contains ':' = true := up_contains_true _ _ (by simp)
  simp only [hp, hc]
  have h3 : lower fileScheme = fileScheme := by decide
  rw [if_pos (by decide), h3]
  rfl

/-- no colon before the first slash: no scheme -/
theorem up_splitScheme_none (r dflt : Str) (h : ∀ c ∈ r.takeWhile (· != '/'), c ≠ ':') :
    splitScheme r dflt = (dflt, r) := by
  unfold splitScheme
  by_cases hc : r.contains ':' = true
  · have hall : (List.takeWhile (· != ':') r).all schemeChar = false := by
      rw [List.all_eq_false]
      refine ⟨'/', ?_, by decide⟩
      have hsplit := (List.takeWhile_append_dropWhile (p := (· != '/')) (l := r)).symm
      cases hd : List.dropWhile (· != '/') r with
      | nil =>
        rw [hd, List.append_nil] at hsplit
        rw [List.contains_iff_mem, hsplit] at hc
        exact absurd rfl (h ':' hc)
      | cons x b =>
        have hx : x = '/' := by
          have := List.head_dropWhile_not (p := (· != '/')) (l := r) (by rw [hd]; simp)
          simp only [hd, List.head_cons, bne_eq_false_iff_eq] at this
          exact this
        subst hx
        rw [hd] at hsplit
        rw [hsplit, List.takeWhile_append_of_pos (by
          intro a ha
          simp only [bne_iff_ne, ne_eq]
          exact h a ha)]
        rw [List.takeWhile_cons_of_pos (by decide)]
        simp
    simp only [hall, Bool.and_false, Bool.false_eq_true, ↓reduceIte]
  · simp only [hc, Bool.false_and, Bool.false_eq_true, ↓reduceIte]

theorem up_splitNetloc_slashes (t : Str) : splitNetloc ('/' :: '/' :: '/' :: t) = ([], '/' :: t) := by
  unfold splitNetloc
  simp only [List.take_succ_cons, List.take_zero, beq_self_eq_true, ↓reduceIte, List.drop_succ_cons, List.drop_zero]
  rw [List.takeWhile_cons_of_neg (by decide), List.dropWhile_cons_of_neg (by decide)]

/-- a reference that does not start with two slashes has no network location -/
theorem up_splitNetloc_none (r : Str) (h : r.take 2 ≠ ['/', '/']) : splitNetloc r = ([], r) := by
  unfold splitNetloc
  rw [if_neg]
  simp only [beq_iff_eq]
  exact h

theorem up_splitAt1_none (c : Char) (s : Str) (h : c ∉ s) : splitAt1 c s = (s, []) := by
  unfold splitAt1
  rw [up_contains_false c s h]
  simp only [Bool.false_eq_true, ↓reduceIte]

/-! ## whole URLs -/

/-- `urlsplit("file://" + path)` for an absolute path of clean text -/
theorem up_urlsplit_file (t dflt : Str) (hc : ∀ c ∈ t, cleanChar c = true) :
    urlsplit (fileSlashes ++ '/' :: t) dflt = ⟨fileScheme, [], '/' :: t, [], [], []⟩ := by
  have hall : ∀ c ∈ fileSlashes ++ '/' :: t, cleanChar c = true := by
    intro c hm
    simp only [List.mem_append, List.mem_cons] at hm
    rcases hm with hm | rfl | hm
    · revert c; decide
    · decide
    · exact hc c hm
  have h1 : cleanUrl (fileSlashes ++ '/' :: t) = fileSlashes ++ '/' :: t :=
    up_cleanUrl_id _ (by intro c hh; simp only [fileSlashes, List.cons_append, List.head?_cons, Option.some.injEq] at hh; subst hh; decide) hall
  have h2 : fileSlashes ++ '/' :: t = fileScheme ++ ':' :: ('/' :: '/' :: '/' :: t) := rfl
  have h3 : '#' ∉ '/' :: t := by
    intro hm
    simp only [List.mem_cons] at hm
    rcases hm with hm | hm
    · exact absurd hm (by decide)
    · exact up_clean_ne_hash _ (hc _ hm) rfl
  have h4 : '?' ∉ '/' :: t := by
    intro hm
    simp only [List.mem_cons] at hm
    rcases hm with hm | hm
    · exact absurd hm (by decide)
    · exact up_clean_ne_qmark _ (hc _ hm) rfl
  unfold urlsplit
  simp only [h1]
  rw [h2, up_splitScheme_file]
  simp only [up_splitNetloc_slashes, up_splitAt1_none _ _ h3, up_splitAt1_none _ _ h4]

theorem up_urlparse_file (t dflt : Str) (hc : ∀ c ∈ t, cleanChar c = true) :
    urlparse (fileSlashes ++ '/' :: t) dflt = ⟨fileScheme, [], '/' :: t, [], [], []⟩ := by
  unfold urlparse
  rw [up_urlsplit_file t dflt hc]
  have : usesParams.contains fileScheme = false := by decide
  simp only [this, Bool.false_and, Bool.false_eq_true, ↓reduceIte]

/-- `urlsplit(ref, "file")` for a path reference of clean text that has no scheme and no network location -/
theorem up_urlsplit_ref (r : Str) (h0 : ∀ c, r.head? = some c → c0OrSpace c = false)
    (hc : ∀ c ∈ r, cleanChar c = true) (hns : ∀ c ∈ r.takeWhile (· != '/'), c ≠ ':')
    (hnl : r.take 2 ≠ ['/', '/']) :
    urlsplit r fileScheme = ⟨fileScheme, [], r, [], [], []⟩ := by
  have h3 : '#' ∉ r := fun hm => up_clean_ne_hash _ (hc _ hm) rfl
  have h4 : '?' ∉ r := fun hm => up_clean_ne_qmark _ (hc _ hm) rfl
  unfold urlsplit
  simp only [up_cleanUrl_id r h0 hc, up_cleanScheme_file, up_splitScheme_none r fileScheme hns,
    up_splitNetloc_none r hnl, up_splitAt1_none _ _ h3, up_splitAt1_none _ _ h4]

theorem up_urlparse_ref (r : Str) (h0 : ∀ c, r.head? = some c → c0OrSpace c = false)
    (hc : ∀ c ∈ r, cleanChar c = true) (hns : ∀ c ∈ r.takeWhile (· != '/'), c ≠ ':')
    (hnl : r.take 2 ≠ ['/', '/']) :
    urlparse r fileScheme = ⟨fileScheme, [], r, [], [], []⟩ := by
  unfold urlparse
  rw [up_urlsplit_ref r h0 hc hns hnl]
  have : usesParams.contains fileScheme = false := by decide
  simp only [this, Bool.false_and, Bool.false_eq_true, ↓reduceIte]

end ZCV.UrlPath
