import ZCV.Lemmas.ElabExpandCongr
/-!
C11 (`extends` = written-out expansion), step 3: two parser states that agree on the container on top of the stack
(`SimTop`) stay in agreement when the same `<key>` / `<multikey>` / `<section>` / `<multisection>` element is read in both.
-/
namespace ZCV.Elab
open ZCV ZCV.Cfg

/-- the key object `start_key` builds, with the name it is filed under -/
def startKeyObj (gi : EM (Str × Str × Option Str × Str)) (attrs : Attrs) : EM (Str × EKey) := do
  let (name, dt, handler, attrName) ← gi
  let req ← getRequired attrs
  let k0 : EKey := { name := name, attr := attrName, multi := false, minOccurs := if req then 1 else 0, dt := dt,
                     handler := handler, dflt := if name == ['+'] then .keyed [] else .none }
  let k1 ← match attr attrs "default" with
    | some d => if req then serr "required key cannot have a default value" else addDefault k0 (strip d) none
    | none => pure k0
  let k2 ← if name != ['+'] then finishKey k1 else pure k1
  pure (name, k2)

theorem startKey_eq_obj (env : Env) (st : PSt) (attrs : Attrs) :
    startKey env st attrs = (startKeyObj (getKeyInfo env st attrs) attrs >>= fun p =>
      addChild st (some p.1) (.key p.2) >>= fun st' => pure { st' with stack := .key p.2 :: st'.stack }) := by
  unfold startKey startKeyObj
  cases getKeyInfo env st attrs with
  | error e => rfl
  | ok r =>
    obtain ⟨name, dt, handler, an⟩ := r
    simp only [bind, Except.bind, pure, Except.pure]
    cases getRequired attrs with
    | error e => rfl
    | ok req =>
      simp only
      cases attr attrs "default" with
      | none =>
        simp only
        by_cases hn : (name != ['+']) = true
        · simp only [hn, ↓reduceIte]
          cases finishKey _ <;> rfl
        · simp only [hn, Bool.false_eq_true, ↓reduceIte]
      | some d =>
        simp only
        cases req with
        | true => rfl
        | false =>
          simp only [Bool.false_eq_true, ↓reduceIte]
          cases addDefault _ (strip d) none with
          | error e => rfl
          | ok k1 =>
            simp only
            by_cases hn : (name != ['+']) = true
            · simp only [hn, ↓reduceIte]
              cases finishKey k1 <;> rfl
            · simp only [hn, Bool.false_eq_true, ↓reduceIte]

def startMultikeyObj (gi : EM (Str × Str × Option Str × Str)) (attrs : Attrs) : EM (Str × EKey) := do
  if hasAttr attrs "default" then serr "default values for multikey must be given using 'default' elements"
  let (name, dt, handler, attrName) ← gi
  let req ← getRequired attrs
  let k : EKey := { name := name, attr := attrName, multi := true, minOccurs := if req then 1 else 0, dt := dt,
                    handler := handler, dflt := if name == ['+'] then .keyedMany [] else .many [] }
  pure (name, k)

theorem startMultikey_eq_obj (env : Env) (st : PSt) (attrs : Attrs) :
    startMultikey env st attrs = (startMultikeyObj (getKeyInfo env st attrs) attrs >>= fun p =>
      addChild st (some p.1) (.key p.2) >>= fun st' => pure { st' with stack := .key p.2 :: st'.stack }) := by
  unfold startMultikey startMultikeyObj
  by_cases hd : hasAttr attrs "default" = true
  · simp only [hd, ↓reduceIte]; rfl
  · simp only [hd, Bool.false_eq_true, ↓reduceIte]
    cases getKeyInfo env st attrs with
    | error e => rfl
    | ok r =>
      obtain ⟨name, dt, handler, an⟩ := r
      simp only [bind, Except.bind, pure, Except.pure]
      cases getRequired attrs <;> rfl

def startSectionObj (gs : EM Str) (gn : EM (Option Str × Option Str × Option Str)) (attrs : Attrs) :
    EM (Option Str × SectInfo) := do
  let ty ← gs
  let handler ← getHandler attrs
  let req ← getRequired attrs
  let (anyName, name, attrName) ← gn
  if name == some ['*'] || name == some ['+'] then .error (.internal "AssertionError")
  let si : SectInfo := { name := (match anyName with | some a => a | none => name.getD []), attr := attrName.getD [],
                         multi := false, minOccurs := if req then 1 else 0, ty := ty, handler := handler }
  pure (name, si)

theorem startSection_eq_obj (env : Env) (st : PSt) (attrs : Attrs) :
    startSection env st attrs =
      (startSectionObj (getSectiontype st attrs) (getNameInfo env st attrs (some ['*'])) attrs >>= fun p =>
        addChild st p.1 (.sect p.2) >>= fun st' => pure { st' with stack := .sect false false :: st'.stack }) := by
  unfold startSection startSectionObj
  cases getSectiontype st attrs with
  | error e => rfl
  | ok ty =>
    simp only [bind, Except.bind, pure, Except.pure]
    cases getHandler attrs with
    | error e => rfl
    | ok handler =>
      simp only
      cases getRequired attrs with
      | error e => rfl
      | ok req =>
        simp only
        cases getNameInfo env st attrs (some ['*']) with
        | error e => rfl
        | ok r =>
          obtain ⟨anyName, name, attrName⟩ := r
          simp only
          by_cases hn : (name == some ['*'] || name == some ['+']) = true
          · simp only [hn, ↓reduceIte]
          · simp only [hn, Bool.false_eq_true, ↓reduceIte]
            rfl

def startMultisectionObj (gs : EM Str) (gn : EM (Option Str × Option Str × Option Str)) (attrs : Attrs) :
    EM (Option Str × SectInfo) := do
  let ty ← gs
  let req ← getRequired attrs
  let (anyName, name, attrName) ← gn
  match anyName with
  | some a =>
    if !Gen.multisectionNames.contains a then serr "multisection must specify '*' or '+' for the name"
    let handler ← getHandler attrs
    let si : SectInfo := { name := a, attr := attrName.getD [], multi := true, minOccurs := if req then 1 else 0,
                           ty := ty, handler := handler }
    pure (name, si)
  | none => serr "multisection must specify '*' or '+' for the name"

theorem startMultisection_eq_obj (env : Env) (st : PSt) (attrs : Attrs) :
    startMultisection env st attrs =
      (startMultisectionObj (getSectiontype st attrs) (getNameInfo env st attrs (some ['*'])) attrs >>= fun p =>
        addChild st p.1 (.sect p.2) >>= fun st' => pure { st' with stack := .sect false false :: st'.stack }) := by
  unfold startMultisection startMultisectionObj
  cases getSectiontype st attrs with
  | error e => rfl
  | ok ty =>
    simp only [bind, Except.bind, pure, Except.pure]
    cases getRequired attrs with
    | error e => rfl
    | ok req =>
      simp only
      cases getNameInfo env st attrs (some ['*']) with
      | error e => rfl
      | ok r =>
        obtain ⟨anyName, name, attrName⟩ := r
        simp only
        cases anyName with
        | none => rfl
        | some an =>
          simp only
          by_cases hn : (!Gen.multisectionNames.contains an) = true
          · simp only [hn, ↓reduceIte]; rfl
          · simp only [hn, Bool.false_eq_true, ↓reduceIte]
            cases getHandler attrs <;> rfl

/-! ### states that agree on the container on top of the stack -/

structure SimTop (sb sd : PSt) : Prop where
  ch : ∃ ch, topOf sb.es sb.stack = .ok ch ∧ topOf sd.es sd.stack = .ok ch
  kt : ktOf sb.es sb.stack = ktOf sd.es sd.stack
  pre : sb.prefixes.head? = sd.prefixes.head?
  grows : Grows sb.es sd.es

theorem SimTop.topKeytype {sb sd : PSt} (h : SimTop sb sd) : topKeytype sb = topKeytype sd := by
  rw [topKeytype_ktOf, topKeytype_ktOf]; exact h.kt

/-- both containers get the same new list of children -/
theorem SimTop.setTop {sb sd : PSt} (h : SimTop sb sd) (c : List (Option Str × EInfo)) :
    SimTop { sb with es := setTopOf sb.es sb.stack c } { sd with es := setTopOf sd.es sd.stack c } := by
  obtain ⟨ch, h1, h2⟩ := h.ch
  refine ⟨⟨c, topOf_setTopOf h1, topOf_setTopOf h2⟩, ?_, h.pre, ?_⟩
  · show ktOf (setTopOf sb.es sb.stack c) sb.stack = ktOf (setTopOf sd.es sd.stack c) sd.stack
    rw [ktOf_setTopOf, ktOf_setTopOf]; exact h.kt
  · show Grows (setTopOf sb.es sb.stack c) (setTopOf sd.es sd.stack c)
    unfold Grows
    rw [names_setTopOf, names_setTopOf]
    exact h.grows

/-- what a start handler of a child element does in both states: the same child is appended, the same frame pushed -/
def PushedBoth (sb sd sb1 sd1 : PSt) (f : Frame) (c : List (Option Str × EInfo)) : Prop :=
  sb1 = { sb with es := setTopOf sb.es sb.stack c, stack := f :: sb.stack } ∧
  sd1 = { sd with es := setTopOf sd.es sd.stack c, stack := f :: sd.stack }

theorem pushChild_sim {sb sd sb1 : PSt} (hs : SimTop sb sd) {key : Option Str} {info : EInfo} {f : Frame}
    (h : (addChild sb key info >>= fun st' => (pure { st' with stack := f :: st'.stack } : EM PSt)) = .ok sb1) :
    ∃ ch sd1, topOf sb.es sb.stack = .ok ch ∧ topOf sd.es sd.stack = .ok ch ∧
      (addChild sd key info >>= fun st' => (pure { st' with stack := f :: st'.stack } : EM PSt)) = .ok sd1 ∧
      PushedBoth sb sd sb1 sd1 f (ch ++ [(key, info)]) := by
  obtain ⟨ch, h1, h2⟩ := hs.ch
  rw [bind_ok] at h
  obtain ⟨x, hadd, h⟩ := h
  simp only [pure, Except.pure, Except.ok.injEq] at h
  subst h
  obtain ⟨ch', hch', rfl⟩ := addChild_eff hadd
  rw [h1] at hch'
  injection hch' with hch'
  subst hch'
  refine ⟨ch, _, h1, h2, ?_, rfl, rfl⟩
  rw [addChild_congr h1 h2 hadd]
  rfl

theorem startKey_sim {env : Env} {sb sd sb1 : PSt} {a : Attrs} (hs : SimTop sb sd) (h : startKey env sb a = .ok sb1) :
    ∃ name k ch sd1, topOf sb.es sb.stack = .ok ch ∧ topOf sd.es sd.stack = .ok ch ∧ startKey env sd a = .ok sd1 ∧
      PushedBoth sb sd sb1 sd1 (.key k) (ch ++ [(some name, EInfo.key k)]) := by
  rw [startKey_eq_obj] at h ⊢
  rw [← getKeyInfo_congr hs.topKeytype hs.pre]
  rw [bind_ok] at h
  obtain ⟨p, hp, h⟩ := h
  obtain ⟨ch, sd1, h1, h2, h3, h4⟩ := pushChild_sim hs h
  refine ⟨p.1, p.2, ch, sd1, h1, h2, ?_, h4⟩
  rw [hp]
  exact h3

theorem startMultikey_sim {env : Env} {sb sd sb1 : PSt} {a : Attrs} (hs : SimTop sb sd)
    (h : startMultikey env sb a = .ok sb1) :
    ∃ name k ch sd1, topOf sb.es sb.stack = .ok ch ∧ topOf sd.es sd.stack = .ok ch ∧ startMultikey env sd a = .ok sd1 ∧
      PushedBoth sb sd sb1 sd1 (.key k) (ch ++ [(some name, EInfo.key k)]) := by
  rw [startMultikey_eq_obj] at h ⊢
  rw [← getKeyInfo_congr hs.topKeytype hs.pre]
  rw [bind_ok] at h
  obtain ⟨p, hp, h⟩ := h
  obtain ⟨ch, sd1, h1, h2, h3, h4⟩ := pushChild_sim hs h
  refine ⟨p.1, p.2, ch, sd1, h1, h2, ?_, h4⟩
  rw [hp]
  exact h3

theorem startSectionObj_gs {gs : EM Str} {gn : EM (Option Str × Option Str × Option Str)} {a : Attrs}
    {r : Option Str × SectInfo} (h : startSectionObj gs gn a = .ok r) : ∃ ty, gs = .ok ty := by
  unfold startSectionObj at h
  rw [bind_ok] at h
  obtain ⟨ty, hty, _⟩ := h
  exact ⟨ty, hty⟩

theorem startMultisectionObj_gs {gs : EM Str} {gn : EM (Option Str × Option Str × Option Str)} {a : Attrs}
    {r : Option Str × SectInfo} (h : startMultisectionObj gs gn a = .ok r) : ∃ ty, gs = .ok ty := by
  unfold startMultisectionObj at h
  rw [bind_ok] at h
  obtain ⟨ty, hty, _⟩ := h
  exact ⟨ty, hty⟩

theorem startSection_sim {env : Env} {sb sd sb1 : PSt} {a : Attrs} (hs : SimTop sb sd)
    (h : startSection env sb a = .ok sb1) :
    ∃ key si ch sd1, topOf sb.es sb.stack = .ok ch ∧ topOf sd.es sd.stack = .ok ch ∧ startSection env sd a = .ok sd1 ∧
      PushedBoth sb sd sb1 sd1 (.sect false false) (ch ++ [(key, EInfo.sect si)]) := by
  rw [startSection_eq_obj] at h ⊢
  rw [← getNameInfo_congr hs.topKeytype]
  rw [bind_ok] at h
  obtain ⟨p, hp, h⟩ := h
  obtain ⟨ty, hty⟩ := startSectionObj_gs hp
  rw [getSectiontype_grows hs.grows hty, ← hty]
  obtain ⟨ch, sd1, h1, h2, h3, h4⟩ := pushChild_sim hs h
  refine ⟨p.1, p.2, ch, sd1, h1, h2, ?_, h4⟩
  rw [hp]
  exact h3

theorem startMultisection_sim {env : Env} {sb sd sb1 : PSt} {a : Attrs} (hs : SimTop sb sd)
    (h : startMultisection env sb a = .ok sb1) :
    ∃ key si ch sd1, topOf sb.es sb.stack = .ok ch ∧ topOf sd.es sd.stack = .ok ch ∧ startMultisection env sd a = .ok sd1 ∧
      PushedBoth sb sd sb1 sd1 (.sect false false) (ch ++ [(key, EInfo.sect si)]) := by
  rw [startMultisection_eq_obj] at h ⊢
  rw [← getNameInfo_congr hs.topKeytype]
  rw [bind_ok] at h
  obtain ⟨p, hp, h⟩ := h
  obtain ⟨ty, hty⟩ := startMultisectionObj_gs hp
  rw [getSectiontype_grows hs.grows hty, ← hty]
  obtain ⟨ch, sd1, h1, h2, h3, h4⟩ := pushChild_sim hs h
  refine ⟨p.1, p.2, ch, sd1, h1, h2, ?_, h4⟩
  rw [hp]
  exact h3

end ZCV.Elab
