import ZCV.Model.Parser
/-!
C07, regex part: the argument that `_keyvalue_rx` hands to `%define` starts with a non-blank character whenever it is
there at all (for EVERY way the live pattern can match, hence for the first one), so `rest.split(None, 1)` in
`handle_define` is never empty and `parts[0]` cannot raise IndexError.  No assumption on the line (it may contain
newlines).
-/
namespace ZCV.Rx

/-- every result keeps the captures and does not lengthen the remaining text -/
def Pres (r : RE) : Prop :=
  ∀ w f (st st' : St), st' ∈ m w r f st → st'.2 = st.2 ∧ st'.1.length ≤ st.1.length

theorem pres_cls (k : Cls) : Pres (.cls k) := by
  intro w f st st' h
  obtain ⟨s, cs⟩ := st
  cases s with
  | nil => simp [m] at h
  | cons c t =>
    simp only [m] at h
    split at h
    · simp only [List.mem_singleton] at h
      subst h
      exact ⟨rfl, by simp⟩
    · cases h

theorem pres_any : Pres .any := by
  intro w f st st' h
  obtain ⟨s, cs⟩ := st
  cases s with
  | nil => simp [m] at h
  | cons c t =>
    simp only [m] at h
    split at h
    · simp only [List.mem_singleton] at h
      subst h
      exact ⟨rfl, by simp⟩
    · cases h

theorem pres_seq {a b : RE} (ha : Pres a) (hb : Pres b) : Pres (.seq a b) := by
  intro w f st st' h
  rw [m] at h
  obtain ⟨s1, h1, h2⟩ := List.mem_flatMap.mp h
  have p1 := ha w f st s1 h1
  have p2 := hb w f s1 st' h2
  exact ⟨p2.1.trans p1.1, Nat.le_trans p2.2 p1.2⟩

theorem pres_star {a : RE} (ha : Pres a) : Pres (.star a) := by
  intro w f
  induction f with
  | zero =>
    intro st st' h
    rw [m] at h
    simp only [List.mem_singleton] at h
    subst h
    exact ⟨rfl, Nat.le_refl _⟩
  | succ f ih =>
    intro st st' h
    rw [m] at h
    rcases List.mem_append.mp h with h | h
    · obtain ⟨s1, h1, h2⟩ := List.mem_flatMap.mp h
      have h1' := (List.mem_filter.mp h1).1
      have p1 := ha w (f + 1) st s1 h1'
      have p2 := ih s1 st' h2
      exact ⟨p2.1.trans p1.1, Nat.le_trans p2.2 p1.2⟩
    · simp only [List.mem_singleton] at h
      subst h
      exact ⟨rfl, Nat.le_refl _⟩

theorem mem_eol (w f : Nat) (st st' : St) (h : st' ∈ m w .eol f st) : st' = st := by
  rw [m] at h
  split at h
  · simpa using h
  · cases h

end ZCV.Rx

namespace ZCV.Cfg
open ZCV ZCV.Rx

/-- in every match of the live `_keyvalue_rx`, the `value` group is absent or starts with a non-blank character -/
theorem keyvalueRx_value_nonblank (w f : Nat) (s : Str) (st : St)
    (h : st ∈ m w Gen.keyvalueRx f (s, [])) (v : Str) (hv : group st.2 Gen.keyvalueRx_value = some v) :
    ∃ c t, v = c :: t ∧ pySpace c = false := by
  unfold Gen.keyvalueRx at h
  rw [m] at h
  obtain ⟨s1, h1, h⟩ := List.mem_flatMap.mp h
  -- the key group
  rw [m] at h1
  obtain ⟨s0, h0, rfl⟩ := List.mem_map.mp h1
  have p0 := pres_seq (pres_cls _) (pres_star (pres_cls _)) w f _ s0 h0
  rw [m] at h
  obtain ⟨s2, h2, h⟩ := List.mem_flatMap.mp h
  have p2 := pres_star (pres_cls _) w f _ s2 h2
  rw [m] at h
  obtain ⟨s3, h3, h⟩ := List.mem_flatMap.mp h
  have e4 := mem_eol w f s3 st h
  subst e4
  rw [m] at h3
  have hs2 : s2.2 = [(1, s.take (s.length - s0.1.length))] := by
    rw [p2.1]; simp only; rw [p0.1]
  rcases List.mem_append.mp h3 with h3 | h3
  · rw [m] at h3
    obtain ⟨s5, h5, rfl⟩ := List.mem_map.mp h3
    rw [m] at h5
    obtain ⟨s6, h6, h7⟩ := List.mem_flatMap.mp h5
    have p7 := pres_star pres_any w f s6 s5 h7
    obtain ⟨r2, c2⟩ := s2
    cases r2 with
    | nil => simp [m] at h6
    | cons c t =>
      simp only [m] at h6
      split at h6
      · rename_i hc
        simp only [List.mem_singleton] at h6
        subst h6
        simp only at p7
        simp only [group, Gen.keyvalueRx_value, List.find?_cons, beq_self_eq_true, Option.map_some,
          Option.some.injEq] at hv
        subst hv
        refine ⟨c, t.take (t.length - s5.1.length), ?_, ?_⟩
        · have : (c :: t).length - s5.1.length = (t.length - s5.1.length) + 1 := by
            simp only [List.length_cons]; omega
          rw [this, List.take_succ_cons]
        · simpa [Cls.test, Item.test] using hc
      · cases h6
  · simp only [List.mem_singleton] at h3
    subst h3
    rw [hs2] at hv
    simp [group, Gen.keyvalueRx_value] at hv

/-- the directive names `handle_directive` lets through all have a handler method (generated tuple) -/
theorem lineShape_no_internal (l : Str) (e : String) : lineShape l ≠ .internal e := by
  unfold lineShape
  dsimp only
  repeat' split
  all_goals first
    | (intro h; cases h; done)
    | skip
  rename_i name arg hdir harg h1 h2 h3
  have hd : Gen.directives = ["define".toList, "import".toList, "include".toList] := rfl
  rw [hd] at hdir
  simp only [List.contains_cons, List.contains_nil, Bool.or_false, Bool.not_eq_true', Bool.or_eq_false_iff] at hdir
  simp_all

/-- `%define`'s argument always has a first word: `rest.split(None, 1)` is not empty -/
theorem lineShape_define_arg (l arg : Str) (h : lineShape l = .define arg) : splitWS1 arg ≠ [] := by
  unfold lineShape at h
  split at h
  · cases h
  · split at h
    · split at h <;> cases h
    · split at h
      · split at h
        · cases h
        · dsimp only at h
          split at h <;> cases h
      · split at h
        · split at h
          · cases h
          · rename_i name arg? hkv
            split at h
            · cases h
            · dsimp only at h
              split at h
              · cases h
              · rename_i hne
                have harg : arg = arg?.getD [] := by
                  split at h
                  · cases h; rfl
                  · split at h
                    · cases h
                    · split at h <;> cases h
                subst harg
                unfold kvMatch pyMatch at hkv
                cases hm : (m (l.drop 1).length Gen.keyvalueRx (l.drop 1).length (l.drop 1, [])).head? with
                | none => rw [hm] at hkv; cases hkv
                | some st =>
                  rw [hm] at hkv
                  simp only [Option.map_some, Option.some.injEq, Prod.mk.injEq] at hkv
                  have hmem := List.mem_of_head? hm
                  cases ha : arg? with
                  | none => rw [ha] at hne; simp at hne
                  | some v =>
                    obtain ⟨c, t, rfl, hc⟩ := keyvalueRx_value_nonblank _ _ _ st hmem v (by rw [hkv.2, ha])
                    simp only [Option.getD_some]
                    unfold splitWS1
                    simp only [lstrip, List.dropWhile_cons, hc]
                    simp only [Bool.false_eq_true, if_false, beq_iff_eq, reduceCtorEq]
                    split <;> simp
        · split at h <;> cases h

end ZCV.Cfg
