import ZCV.Lemmas.LoadSlot
/-!
Step 2 of `loadTree_eq_denote`: the matcher invariant.  After the loader has taken a prefix of a container's items,
the matcher is `mk kl secs` — a function of the key lines `kl` seen and the sections `secs` closed so far — and the
prefix is `Good`.  If a step fails, the extended prefix is not `Good` (and `Good` is prefix-closed).
-/
namespace ZCV.Conf
open ZCV ZCV.Cfg

/-! ### `mapM` in `Option` -/

def omap {α β} (f : α → Option β) : List α → Option (List β)
  | [] => some []
  | a :: l =>
    match f a with
    | none => none
    | some b =>
      match omap f l with
      | none => none
      | some bs => some (b :: bs)

theorem mapM_eq_omap {α β} (f : α → Option β) (l : List α) : l.mapM f = omap f l := by
  induction l with
  | nil => rfl
  | cons a l ih =>
    rw [List.mapM_cons, ih, omap]
    cases f a with
    | none => rfl
    | some b => cases omap f l <;> rfl

theorem mapM_toOption {ε α β} (f : α → Except ε β) (l : List α) :
    (l.mapM f).toOption = omap (fun a => (f a).toOption) l := by
  induction l with
  | nil => rfl
  | cons a l ih =>
    rw [List.mapM_cons, omap, ← ih]
    cases f a with
    | error e => rfl
    | ok b => cases l.mapM f <;> rfl

theorem omap_congr {α β} (f g : α → Option β) (l : List α) (h : ∀ a ∈ l, f a = g a) : omap f l = omap g l := by
  induction l with
  | nil => rfl
  | cons a l ih =>
    rw [omap, omap, h a List.mem_cons_self, ih (fun b hb => h b (List.mem_cons_of_mem _ hb))]

theorem omap_none_of_mem {α β} (f : α → Option β) (l : List α) (a : α) (ha : a ∈ l) (h : f a = none) :
    omap f l = none := by
  induction l with
  | nil => cases ha
  | cons x l ih =>
    rw [omap]
    rcases List.mem_cons.mp ha with rfl | hm
    · rw [h]
    · rw [ih hm]
      cases f x <;> rfl

theorem omap_map {α β γ} (f : α → Option β) (g : β → γ) (l : List α) :
    (omap f l).map (List.map g) = omap (fun a => (f a).map g) l := by
  induction l with
  | nil => rfl
  | cons a l ih =>
    rw [omap, omap, ← ih]
    cases f a with
    | none => rfl
    | some b => cases omap f l <;> rfl

theorem omap_map_list {α β γ} (f : β → Option γ) (g : α → β) (l : List α) :
    omap f (l.map g) = omap (fun a => f (g a)) l := by
  induction l with
  | nil => rfl
  | cons a l ih => rw [List.map_cons, omap, omap, ih]

/-- two passes in `Except`, seen through `toOption`, are one pass -/
theorem mapM_mapM_toOption {ε α β γ} (f : α → Except ε β) (g : β → Except ε γ) (l : List α) :
    (l.mapM f >>= fun r => r.mapM g).toOption = omap (fun a => (f a >>= g).toOption) l := by
  induction l with
  | nil => rfl
  | cons a l ih =>
    rw [List.mapM_cons, omap, ← ih]
    cases hfa : f a with
    | error e => rfl
    | ok b =>
      cases hl : l.mapM f with
      | error e =>
        simp only [bind, Except.bind, toOption_error]
        cases g b <;> rfl
      | ok bs =>
        simp only [bind, Except.bind, pure, Except.pure]
        rw [List.mapM_cons]
        cases g b with
        | error e => rfl
        | ok c => cases bs.mapM g <;> rfl

/-! ### the abstract state of a matcher -/

/-- a closed sub-section as the parent's slot holds it: type, name, raw attributes (before the section datatype) -/
structure SecR where
  ty : Str
  nm : Option Str
  attrs : List (Str × Val)

def SecR.raw (r : SecR) : Val := .sect r.ty r.nm r.attrs

/-- the spec value of a closed section: the raw value through its type's section datatype -/
def sectVal (conv : Conv) (s : Schema) (r : SecR) : Option Val :=
  match s.gettype r.ty with
  | some (.concrete tc) => (conv.sect tc.datatype r.raw).toOption
  | _ => none

def toSub (conv : Conv) (s : Schema) (r : SecR) : Sub := { ty := r.ty, nm := r.nm, val := sectVal conv s r }

/-- the header `<ty nm>` goes to the slot with attribute `a` -/
def owned (s : Schema) (t : SType) (a : Str) (ty : Str) (nm : Option Str) : Bool :=
  match slotOf s t ty nm with
  | some si' => si'.attr == a
  | none => false

/-- slot of a key child that has received `rs` -/
def keySlot (ki : KeyInfo) (rs : List (Str × VI)) : Slot :=
  if ki.name == ['+'] then (if ki.multi then .mmap (groupKeys rs) else .map rs)
  else if ki.multi then .many (rs.map (·.2))
  else
    match rs with
    | [] => .none
    | kv :: _ => .one kv.2

/-- slot of a section child that has received `mine` -/
def sectSlot (si : SectInfo) (mine : List SecR) : Slot :=
  if si.multi then .sects (mine.map (·.raw))
  else
    match mine with
    | [] => .none
    | r :: _ => .sect r.raw

/-- what the slot of child `c` holds after key lines `kl` and closed sections `secs` -/
def slotFn (s : Schema) (t : SType) (c : Option Str × Info) (kl : List (Option Str × VI)) (secs : List SecR) : Slot :=
  match c.2 with
  | .key ki => keySlot ki (routed t.children c kl)
  | .sect si => sectSlot si (secs.filter fun r => owned s t si.attr r.ty r.nm)

def secNames (secs : List SecR) : List Str := secs.flatMap fun r => newName r.nm

def mk (s : Schema) (t : SType) (nm : Option Str) (kl : List (Option Str × VI)) (secs : List SecR) : Matcher :=
  { ty := t, name := nm, values := t.children.map (fun c => (c.2.attr, slotFn s t c kl secs)),
    used := secNames secs, bag := none }

/-! ### the checks of `containerVal`, named -/

def chk1 (t : SType) (kl : List (Option Str × VI)) : Bool :=
  kl.all fun (rk?, _) => match rk? with
    | some rk => (match route t.children rk with | some c => !c.2.isSection | none => false)
    | none => false

def subNames (subs : List Sub) : List Str :=
  subs.filterMap fun sb => match sb.nm with | some n => if n.isEmpty then none else some n | none => none

def chk3 (s : Schema) (t : SType) (subs : List Sub) : Bool :=
  subs.all fun sb => match slotOf s t sb.ty sb.nm with
    | some si => nameOK si sb.nm && (sb.nm.isSome || si.name == ['*']) && sb.val.isSome && !isAbs s sb.ty
    | none => false

/-- `chk3` without "the content conforms" -/
def chk3' (s : Schema) (t : SType) (subs : List Sub) : Bool :=
  subs.all fun sb => match slotOf s t sb.ty sb.nm with
    | some si => nameOK si sb.nm && (sb.nm.isSome || si.name == ['*']) && !isAbs s sb.ty
    | none => false

def attrsVal (conv : Conv) (s : Schema) (t : SType) (kl : List (Option Str × VI)) (subs : List Sub) :
    Option (List (Str × Val)) :=
  t.children.mapM fun c => (childVal conv s t kl subs c).map fun v => (c.2.attr, v)

theorem containerVal_eq (conv : Conv) (s : Schema) (t : SType) (nm : Option Str) (items : List Item)
    (sv : List (Option Val)) :
    containerVal conv s t nm items sv =
      if !chk1 t (keyLines conv t items) then none
      else if !nodupB (subNames (subsOf items sv)) then none
      else if !chk3 s t (subsOf items sv) then none
      else (attrsVal conv s t (keyLines conv t items) (subsOf items sv)).map fun attrs =>
        Val.sect (t.name.getD []) nm attrs := by
  rfl

/-! ### `Good`: the prefix can still be completed; prefix-closed -/

def keyOver (ki : KeyInfo) (rs : List (Str × VI)) : Bool :=
  if ki.multi then true
  else if ki.name == ['+'] then nodupB (rs.map (·.1))
  else decide (rs.length ≤ 1)

def sectOver (si : SectInfo) (n : Nat) : Bool := si.multi || decide (n ≤ 1)

/-- child `c` has not received more than it can hold -/
def noOver (s : Schema) (t : SType) (c : Option Str × Info) (kl : List (Option Str × VI)) (subs : List Sub) : Bool :=
  match c.2 with
  | .key ki => keyOver ki (routed t.children c kl)
  | .sect si => sectOver si (subs.filter fun sb => owned s t si.attr sb.ty sb.nm).length

structure Good (s : Schema) (t : SType) (kl : List (Option Str × VI)) (subs : List Sub) : Prop where
  c1 : chk1 t kl = true
  c2 : nodupB (subNames subs) = true
  c3 : chk3' s t subs = true
  over : ∀ c ∈ t.children, noOver s t c kl subs = true

def GoodFull (s : Schema) (t : SType) (kl : List (Option Str × VI)) (subs : List Sub) : Prop :=
  Good s t kl subs ∧ subs.all (fun sb => sb.val.isSome) = true

theorem routed_append (ch : List (Option Str × Info)) (c : Option Str × Info) (a b : List (Option Str × VI)) :
    routed ch c (a ++ b) = routed ch c a ++ routed ch c b := by
  simp [routed, List.filterMap_append]

theorem nodupB_append_left (a b : List Str) (h : nodupB (a ++ b) = true) : nodupB a = true := by
  rw [nodupB_iff] at h ⊢
  exact (List.nodup_append.mp h).1

theorem noOver_prefix (s : Schema) (t : SType) (c : Option Str × Info) (kl kl2 : List (Option Str × VI))
    (subs subs2 : List Sub) (h : noOver s t c (kl ++ kl2) (subs ++ subs2) = true) : noOver s t c kl subs = true := by
  unfold noOver at h ⊢
  cases hc : c.2 with
  | key ki =>
    simp only [hc, keyOver, routed_append, List.map_append, List.length_append] at h ⊢
    split
    · rfl
    · rename_i hm
      simp only [hm, if_false, Bool.false_eq_true] at h
      split
      · rename_i hp
        simp only [hp, if_true] at h
        exact nodupB_append_left _ _ h
      · rename_i hp
        simp only [hp, if_false, Bool.false_eq_true, decide_eq_true_eq] at h
        simp only [decide_eq_true_eq]
        omega
  | sect si =>
    simp only [hc, sectOver, List.filter_append, List.length_append, Bool.or_eq_true, decide_eq_true_eq] at h ⊢
    rcases h with h | h
    · exact .inl h
    · exact .inr (by omega)

theorem Good.prefix {s : Schema} {t : SType} {kl kl2 : List (Option Str × VI)} {subs subs2 : List Sub}
    (h : Good s t (kl ++ kl2) (subs ++ subs2)) : Good s t kl subs := by
  obtain ⟨h1, h2, h3, h4⟩ := h
  refine ⟨?_, ?_, ?_, ?_⟩
  · unfold chk1 at h1 ⊢
    rw [List.all_append, Bool.and_eq_true] at h1
    exact h1.1
  · unfold subNames at h2 ⊢
    rw [List.filterMap_append] at h2
    exact nodupB_append_left _ _ h2
  · unfold chk3' at h3 ⊢
    rw [List.all_append, Bool.and_eq_true] at h3
    exact h3.1
  · intro c hc
    exact noOver_prefix _ _ _ _ _ _ _ (h4 c hc)

theorem GoodFull.prefix {s : Schema} {t : SType} {kl kl2 : List (Option Str × VI)} {subs subs2 : List Sub}
    (h : GoodFull s t (kl ++ kl2) (subs ++ subs2)) : GoodFull s t kl subs := by
  obtain ⟨h1, h2⟩ := h
  refine ⟨h1.prefix, ?_⟩
  rw [List.all_append, Bool.and_eq_true] at h2
  exact h2.1

theorem chk3_iff (s : Schema) (t : SType) (subs : List Sub) :
    chk3 s t subs = true ↔ chk3' s t subs = true ∧ subs.all (fun sb => sb.val.isSome) = true := by
  unfold chk3 chk3'
  simp only [List.all_eq_true]
  constructor
  · intro h
    constructor
    · intro sb hsb
      have := h sb hsb
      split at this
      · simp only [Bool.and_eq_true] at this ⊢
        exact ⟨⟨this.1.1.1, this.1.1.2⟩, this.2⟩
      · cases this
    · intro sb hsb
      have := h sb hsb
      split at this
      · simp only [Bool.and_eq_true] at this
        exact this.1.2
      · cases this
  · intro ⟨h1, h2⟩ sb hsb
    have a := h1 sb hsb
    have b := h2 sb hsb
    split at a
    · simp only [Bool.and_eq_true] at a ⊢
      exact ⟨⟨⟨a.1.1, a.1.2⟩, b⟩, a.2⟩
    · cases a

/-! ### `childVal` by kind of child -/

/-- value of a key child from the values routed to it -/
def keyVal (conv : Conv) (ki : KeyInfo) (rs : List (Str × VI)) : Option Val :=
  if ki.name == ['+'] then
    if ki.multi then
      let g := groupKeys rs
      if ki.minOccurs > g.length then none
      else
        let g' := if g.isEmpty then (match ki.dflt with | .keyedMany d => d | _ => []) else g
        if g'.length < ki.minOccurs then none
        else (g'.mapM fun (kv : Str × List VI) => (convAll conv ki.dt kv.2).map fun r => (kv.1, Val.list r)).map Val.map
    else
      if !nodupB (rs.map (·.1)) then none
      else if ki.minOccurs > rs.length then none
      else
        let src := if rs.isEmpty then (match ki.dflt with | .keyed d => d | _ => []) else rs
        (src.mapM fun (kv : Str × VI) => ((conv.val ki.dt kv.2.value).toOption).map fun r => (kv.1, r)).map Val.map
  else if ki.multi then
    let vs := rs.map (·.2)
    let vs' := if vs.isEmpty then (match ki.dflt with | .many d => d | _ => []) else vs
    if vs'.length < ki.minOccurs then none else (convAll conv ki.dt vs').map Val.list
  else
    match rs with
    | [] =>
      if ki.minOccurs > 0 then none
      else (match ki.dflt with
            | .one d => (conv.val ki.dt d.value).toOption
            | _ => some .none)
    | [(_, vi)] => (conv.val ki.dt vi.value).toOption
    | _ => none

/-- value of a section slot from the sections it receives -/
def slotVal (si : SectInfo) (mine : List Sub) : Option Val :=
  if si.multi then
    if mine.length < si.minOccurs then none
    else (mine.mapM fun (sb : Sub) => sb.val).map Val.list
  else
    match mine with
    | [] => if si.minOccurs > 0 then none else some .none
    | [sb] => sb.val
    | _ => none

theorem childVal_key (conv : Conv) (s : Schema) (t : SType) (kl : List (Option Str × VI)) (subs : List Sub)
    (c : Option Str × Info) (ki : KeyInfo) (hc : c.2 = .key ki) :
    childVal conv s t kl subs c = keyVal conv ki (routed t.children c kl) := by
  unfold childVal
  simp only [hc]
  rfl

theorem childVal_sect (conv : Conv) (s : Schema) (t : SType) (kl : List (Option Str × VI)) (subs : List Sub)
    (c : Option Str × Info) (si : SectInfo) (hc : c.2 = .sect si) :
    childVal conv s t kl subs c = slotVal si (subs.filter fun sb => owned s t si.attr sb.ty sb.nm) := by
  unfold childVal
  simp only [hc]
  rfl

/-! ### the spec rejects what is not `GoodFull` -/

theorem childVal_none_of_over (conv : Conv) (s : Schema) (t : SType) (kl : List (Option Str × VI)) (subs : List Sub)
    (c : Option Str × Info) (h : noOver s t c kl subs = false) : childVal conv s t kl subs c = none := by
  unfold noOver at h
  cases hc : c.2 with
  | key ki =>
    rw [childVal_key _ _ _ _ _ _ _ hc]
    unfold keyVal
    simp only [hc, keyOver] at h
    by_cases hm : ki.multi = true
    · simp [hm] at h
    · simp only [hm, if_false, Bool.false_eq_true] at h ⊢
      by_cases hp : (ki.name == ['+']) = true
      · simp only [hp, if_true] at h ⊢
        simp [h]
      · simp only [hp, if_false, Bool.false_eq_true, decide_eq_false_iff_not] at h ⊢
        match hr : routed t.children c kl with
        | [] => rw [hr] at h; simp at h
        | [x] => rw [hr] at h; simp at h
        | x :: y :: l => rfl
  | sect si =>
    rw [childVal_sect _ _ _ _ _ _ _ hc]
    unfold slotVal
    simp only [hc, sectOver, Bool.or_eq_false_iff, decide_eq_false_iff_not] at h
    obtain ⟨hm, hl⟩ := h
    simp only [hm, Bool.false_eq_true, if_false]
    match hr : subs.filter (fun sb => owned s t si.attr sb.ty sb.nm) with
    | [] => rw [hr] at hl; simp at hl
    | [x] => rw [hr] at hl; simp at hl
    | x :: y :: l => rw [hr]

theorem childVal_none_of_val_none (conv : Conv) (s : Schema) (t : SType) (kl : List (Option Str × VI)) (subs : List Sub)
    (sb : Sub) (hsb : sb ∈ subs) (si : SectInfo) (hsl : slotOf s t sb.ty sb.nm = some si) (k : Option Str)
    (hv : sb.val = none) : childVal conv s t kl subs (k, .sect si) = none := by
  rw [childVal_sect _ _ _ _ _ _ si rfl]
  have hmem : sb ∈ subs.filter (fun sb => owned s t si.attr sb.ty sb.nm) := by
    rw [List.mem_filter]
    exact ⟨hsb, by simp [owned, hsl]⟩
  unfold slotVal
  split
  · split
    · rfl
    · rw [mapM_eq_omap, omap_none_of_mem _ _ sb hmem hv]; rfl
  · match hr : subs.filter (fun sb => owned s t si.attr sb.ty sb.nm) with
    | [] => rw [hr] at hmem; cases hmem
    | [x] =>
      rw [hr] at hmem
      simp only [List.mem_singleton] at hmem
      rw [hr]
      simp only
      rw [← hmem]; exact hv
    | x :: y :: l => rw [hr]

theorem attrsVal_none_of_mem (conv : Conv) (s : Schema) (t : SType) (kl : List (Option Str × VI)) (subs : List Sub)
    (c : Option Str × Info) (hc : c ∈ t.children) (h : childVal conv s t kl subs c = none) :
    attrsVal conv s t kl subs = none := by
  unfold attrsVal
  rw [mapM_eq_omap]
  exact omap_none_of_mem _ _ c hc (by rw [h]; rfl)

theorem containerVal_good (conv : Conv) (s : Schema) (t : SType) (nm : Option Str) (items : List Item)
    (sv : List (Option Val)) (hg : Good s t (keyLines conv t items) (subsOf items sv)) :
    containerVal conv s t nm items sv =
      (attrsVal conv s t (keyLines conv t items) (subsOf items sv)).map fun attrs => Val.sect (t.name.getD []) nm attrs := by
  rw [containerVal_eq]
  simp only [hg.c1, hg.c2, Bool.not_true, Bool.false_eq_true, if_false]
  by_cases h3 : chk3 s t (subsOf items sv) = true
  · simp only [h3, Bool.not_true, Bool.false_eq_true, if_false]
  · simp only [h3, Bool.not_false, if_true]
    have : ¬ (subsOf items sv).all (fun sb => sb.val.isSome) = true := fun h => h3 ((chk3_iff _ _ _).mpr ⟨hg.c3, h⟩)
    have : ∃ sb, sb ∈ subsOf items sv ∧ sb.val = none := by
      apply Classical.byContradiction
      intro hne
      apply this
      rw [List.all_eq_true]
      intro sb hsb
      cases h : sb.val with
      | none => exact absurd ⟨sb, hsb, h⟩ hne
      | some v => rfl
    obtain ⟨sb, hsb, hv'⟩ := this
    have h3' := hg.c3
    unfold chk3' at h3'
    rw [List.all_eq_true] at h3'
    have := h3' sb hsb
    split at this
    · rename_i si hsl
      obtain ⟨k, hk⟩ := slotOf_mem _ _ _ _ _ hsl
      rw [attrsVal_none_of_mem conv s t _ _ _ hk (childVal_none_of_val_none conv s t _ _ sb hsb si hsl k hv')]
      rfl
    · cases this

theorem containerVal_none (conv : Conv) (s : Schema) (t : SType) (nm : Option Str) (items : List Item)
    (sv : List (Option Val)) (hg : ¬ GoodFull s t (keyLines conv t items) (subsOf items sv)) :
    containerVal conv s t nm items sv = none := by
  rw [containerVal_eq]
  by_cases h1 : chk1 t (keyLines conv t items) = true
  · by_cases h2 : nodupB (subNames (subsOf items sv)) = true
    · by_cases h3 : chk3 s t (subsOf items sv) = true
      · simp only [h1, h2, h3, Bool.not_true, Bool.false_eq_true, if_false]
        obtain ⟨h3a, h3b⟩ := (chk3_iff _ _ _).mp h3
        have : ¬ ∀ c ∈ t.children, noOver s t c (keyLines conv t items) (subsOf items sv) = true :=
          fun h => hg ⟨⟨h1, h2, h3a, h⟩, h3b⟩
        have : ∃ c, c ∈ t.children ∧ noOver s t c (keyLines conv t items) (subsOf items sv) = false := by
          apply Classical.byContradiction
          intro hne
          apply this
          intro c hc
          cases h : noOver s t c (keyLines conv t items) (subsOf items sv) with
          | false => exact absurd ⟨c, hc, h⟩ hne
          | true => rfl
        obtain ⟨c, hc, hno'⟩ := this
        rw [attrsVal_none_of_mem conv s t _ _ c hc (childVal_none_of_over conv s t _ _ c hno')]
        rfl
      · simp [h3]
    · simp [h2]
  · simp [h1]

end ZCV.Conf
