import ZCV.Model.Elab
import ZCV.Lemmas.Datatypes
import ZCV.Lemmas.Except
/-!
Helper lemmas about the schema-loader model (`ZCV/Model/Elab.lean`): one group per handler.
The property theorems built from them are in `ZCV/Props/C10.lean` and `ZCV/Props/C11.lean`.
-/
namespace ZCV.Elab
open ZCV ZCV.Cfg

/-- the failure is a `SchemaError` -/
def EFail.isSchema : EFail → Prop
  | .schema _ => True
  | _ => False

theorem EFail.isSchema_iff (e : EFail) : e.isSchema ↔ ∃ t, e = .schema t := by
  cases e <;> simp [EFail.isSchema]

/-- the keys of the type table, in definition order -/
def ES.typeNames (es : ES) : List Str := es.types.map (·.1)

/-! ## generic list facts -/

theorem any_fst_beq {β} (l : List (Str × β)) (n : Str) : l.any (·.1 == n) = true ↔ n ∈ l.map (·.1) := by
  simp only [List.any_eq_true, beq_iff_eq, List.mem_map]

theorem find_fst_none {β} (l : List (Str × β)) (n : Str) : l.find? (·.1 == n) = none ↔ n ∉ l.map (·.1) := by
  simp only [List.find?_eq_none, beq_iff_eq, List.mem_map, not_exists, not_and]

theorem find_fst_some {β} (l : List (Str × β)) (n : Str) (p : Str × β) (h : l.find? (·.1 == n) = some p) :
    p.1 = n ∧ p ∈ l := by
  have h1 := List.find?_some h
  have h2 := List.mem_of_find?_eq_some h
  simp only [beq_iff_eq] at h1
  exact ⟨h1, h2⟩

/-- a key-preserving map commutes with lookup by key -/
theorem find_fst_map {β} (l : List (Str × β)) (n : Str) (f : Str × β → Str × β) (hf : ∀ x, (f x).1 = x.1) :
    (l.map f).find? (·.1 == n) = (l.find? (·.1 == n)).map f := by
  induction l with
  | nil => rfl
  | cons a l ih =>
    simp only [List.map_cons, List.find?_cons, hf]
    split
    · rfl
    · exact ih

theorem find_fst_append_fresh {β} (l : List (Str × β)) (n : Str) (e : β) (h : n ∉ l.map (·.1)) :
    (l ++ [(n, e)]).find? (·.1 == n) = some (n, e) := by
  rw [List.find?_append, (find_fst_none l n).2 h]
  simp

theorem find_fst_append_other {β} (l : List (Str × β)) (n m : Str) (e : β) (h : m ≠ n) :
    (l ++ [(n, e)]).find? (·.1 == m) = l.find? (·.1 == m) := by
  rw [List.find?_append]
  have : ([(n, e)] : List (Str × β)).find? (·.1 == m) = none := by
    simp [Ne.symm h]
  rw [this]; simp

/-! ## 11. well-formed names -/

theorem basicKeyE_eq (s : Str) :
    basicKeyE s = if DTSpec.isBasicKey s then .ok (asciiLower s) else .error (.schema "value did not match regular expression") := by
  unfold basicKeyE
  rw [DT.basicKey_eq_spec]; unfold DTSpec.basicKey
  by_cases h : DTSpec.isBasicKey s = true
  · rw [if_pos h, if_pos h]
  · rw [if_neg h, if_neg h]; rfl

theorem identifierE_eq (s : Str) :
    identifierE s = if DTSpec.isIdent s then .ok s else .error (.schema "not a valid Python identifier") := by
  unfold identifierE
  rw [DT.identifier_eq_spec]; unfold DTSpec.identifier
  by_cases h : DTSpec.isIdent s = true
  · rw [if_pos h, if_pos h]
  · rw [if_neg h, if_neg h]; rfl

theorem basicKeyE_ok {s r : Str} (h : basicKeyE s = .ok r) : DTSpec.isBasicKey s = true ∧ r = asciiLower s := by
  rw [basicKeyE_eq] at h
  split at h
  · rename_i hk; injection h with h; exact ⟨hk, h.symm⟩
  · cases h

theorem identifierE_ok {s r : Str} (h : identifierE s = .ok r) : DTSpec.isIdent s = true ∧ r = s := by
  rw [identifierE_eq] at h
  split at h
  · rename_i hk; injection h with h; exact ⟨hk, h.symm⟩
  · cases h

theorem basicKeyE_error {s : Str} {e : EFail} (h : basicKeyE s = .error e) : e.isSchema := by
  rw [basicKeyE_eq] at h
  split at h
  · cases h
  · injection h with h; subst h; trivial

theorem identifierE_error {s : Str} {e : EFail} (h : identifierE s = .error e) : e.isSchema := by
  rw [identifierE_eq] at h
  split at h
  · cases h
  · injection h with h; subst h; trivial

theorem basicKeyE_nil : basicKeyE [] = .error (.schema "value did not match regular expression") := by
  rw [basicKeyE_eq]; rfl

theorem isBasicKey_ne_nil {s : Str} (h : DTSpec.isBasicKey s = true) : s ≠ [] := by
  intro e; subst e; simp [DTSpec.isBasicKey] at h

theorem isIdent_ne_nil {s : Str} (h : DTSpec.isIdent s = true) : s ≠ [] := by
  intro e; subst e; simp [DTSpec.isIdent] at h

/-! ## 9. `required` -/

theorem getRequired_eq (attrs : Attrs) :
    getRequired attrs =
      match attr attrs "required" with
      | none => .ok false
      | some v => if v = "yes".toList then .ok true else if v = "no".toList then .ok false
                  else .error (.schema "value for 'required' must be 'yes' or 'no'") := by
  unfold getRequired
  cases attr attrs "required" with
  | none => rfl
  | some v => simp only [beq_iff_eq]; rfl

theorem getRequired_error {attrs : Attrs} {e : EFail} (h : getRequired attrs = .error e) : e.isSchema := by
  rw [getRequired_eq] at h
  split at h
  · cases h
  · split at h
    · cases h
    · split at h
      · cases h
      · injection h with h; subst h; trivial

/-! ## 1. unique type names -/

theorem addType_dup (es : ES) (n : Str) (e : EEntry) (h : n ∈ es.typeNames) :
    addType es n e = .error (.schema "type name cannot be redefined") := by
  unfold addType
  rw [if_pos ((any_fst_beq _ _).2 h)]; rfl

theorem addType_fresh (es : ES) (n : Str) (e : EEntry) (h : n ∉ es.typeNames) :
    addType es n e = .ok { es with types := es.types ++ [(n, e)] } := by
  unfold addType
  rw [if_neg (fun hc => h ((any_fst_beq _ _).1 hc))]

theorem addType_ok {es es' : ES} {n : Str} {e : EEntry} (h : addType es n e = .ok es') :
    n ∉ es.typeNames ∧ es' = { es with types := es.types ++ [(n, e)] } := by
  by_cases hn : n ∈ es.typeNames
  · rw [addType_dup es n e hn] at h; cases h
  · rw [addType_fresh es n e hn] at h; injection h with h; exact ⟨hn, h.symm⟩

theorem addType_error {es : ES} {n : Str} {e : EEntry} {err : EFail} (h : addType es n e = .error err) :
    n ∈ es.typeNames ∧ err = .schema "type name cannot be redefined" := by
  by_cases hn : n ∈ es.typeNames
  · rw [addType_dup es n e hn] at h; injection h with h; exact ⟨hn, h.symm⟩
  · rw [addType_fresh es n e hn] at h; cases h

/-! ## 2. unique child names and attributes per container -/

theorem addChild_eq (st : PSt) (key : Option Str) (info : EInfo) :
    addChild st key info =
      match topChildren st with
      | .error e => .error e
      | .ok ch =>
        if truthyKey key && ch.any (fun c => truthyKey c.1 && c.1 == key) then .error (.schema "child name … already used")
        else if !info.attr.isEmpty && ch.any (fun c => c.2.attr == info.attr) then
          .error (.schema "child attribute name … already used")
        else .ok (setTopChildren st (ch ++ [(key, info)])) := by
  unfold addChild
  cases topChildren st with
  | error e => rfl
  | ok ch =>
    simp only [bind, Except.bind, pure, Except.pure, serr]

/-- the key is non-empty and already the key of a child -/
def DupKey (ch : List (Option Str × EInfo)) (key : Option Str) : Prop := truthyKey key = true ∧ key ∈ ch.map (·.1)
/-- the attribute name is non-empty and already the attribute of a child -/
def DupAttr (ch : List (Option Str × EInfo)) (a : Str) : Prop := a ≠ [] ∧ a ∈ ch.map (·.2.attr)

theorem dupKey_iff (ch : List (Option Str × EInfo)) (key : Option Str) :
    (truthyKey key && ch.any (fun c => truthyKey c.1 && c.1 == key)) = true ↔ DupKey ch key := by
  simp only [Bool.and_eq_true, List.any_eq_true, beq_iff_eq, DupKey, List.mem_map]
  constructor
  · rintro ⟨hk, c, hc, _, rfl⟩; exact ⟨hk, c, hc, rfl⟩
  · rintro ⟨hk, c, hc, rfl⟩; exact ⟨hk, c, hc, hk, rfl⟩

theorem dupAttr_iff (ch : List (Option Str × EInfo)) (a : Str) :
    (!a.isEmpty && ch.any (fun c => c.2.attr == a)) = true ↔ DupAttr ch a := by
  simp only [Bool.and_eq_true, Bool.not_eq_true', List.isEmpty_eq_false_iff, List.any_eq_true, beq_iff_eq,
    DupAttr, List.mem_map, ne_eq]

instance (ch : List (Option Str × EInfo)) (key : Option Str) : Decidable (DupKey ch key) :=
  decidable_of_iff _ (dupKey_iff ch key)
instance (ch : List (Option Str × EInfo)) (a : Str) : Decidable (DupAttr ch a) :=
  decidable_of_iff _ (dupAttr_iff ch a)

theorem addChild_dupKey {st : PSt} {ch} (key : Option Str) (info : EInfo) (hch : topChildren st = .ok ch)
    (h : DupKey ch key) : addChild st key info = .error (.schema "child name … already used") := by
  rw [addChild_eq, hch]; simp only
  rw [if_pos ((dupKey_iff _ _).2 h)]

theorem addChild_dupAttr {st : PSt} {ch} (key : Option Str) (info : EInfo) (hch : topChildren st = .ok ch)
    (hk : ¬ DupKey ch key) (h : DupAttr ch info.attr) :
    addChild st key info = .error (.schema "child attribute name … already used") := by
  rw [addChild_eq, hch]; simp only
  rw [if_neg (fun hc => hk ((dupKey_iff _ _).1 hc)), if_pos ((dupAttr_iff _ _).2 h)]

theorem addChild_fresh {st : PSt} {ch} (key : Option Str) (info : EInfo) (hch : topChildren st = .ok ch)
    (hk : ¬ DupKey ch key) (ha : ¬ DupAttr ch info.attr) :
    addChild st key info = .ok (setTopChildren st (ch ++ [(key, info)])) := by
  rw [addChild_eq, hch]; simp only
  rw [if_neg (fun hc => hk ((dupKey_iff _ _).1 hc)), if_neg (fun hc => ha ((dupAttr_iff _ _).1 hc))]

theorem addChild_noTop {st : PSt} {e} (key : Option Str) (info : EInfo) (hch : topChildren st = .error e) :
    addChild st key info = .error e := by
  rw [addChild_eq, hch]

theorem topChildren_error {st : PSt} {e} (h : topChildren st = .error e) : ∃ s, e = .internal s := by
  unfold topChildren at h
  split at h
  · cases h
  · split at h
    · cases h
    · injection h with h; exact ⟨_, h.symm⟩
  · injection h with h; exact ⟨_, h.symm⟩
  · injection h with h; exact ⟨_, h.symm⟩

theorem addChild_schema_iff (st : PSt) (key : Option Str) (info : EInfo) :
    (∃ t, addChild st key info = .error (.schema t)) ↔
      ∃ ch, topChildren st = .ok ch ∧ (DupKey ch key ∨ DupAttr ch info.attr) := by
  cases hch : topChildren st with
  | error e =>
    rw [addChild_noTop key info hch]
    obtain ⟨s, rfl⟩ := topChildren_error hch
    constructor
    · rintro ⟨t, ht⟩; cases ht
    · rintro ⟨ch, hc, _⟩; cases hc
  | ok ch =>
    by_cases hk : DupKey ch key
    · rw [addChild_dupKey key info hch hk]
      exact ⟨fun _ => ⟨ch, rfl, Or.inl hk⟩, fun _ => ⟨_, rfl⟩⟩
    · by_cases ha : DupAttr ch info.attr
      · rw [addChild_dupAttr key info hch hk ha]
        exact ⟨fun _ => ⟨ch, rfl, Or.inr ha⟩, fun _ => ⟨_, rfl⟩⟩
      · rw [addChild_fresh key info hch hk ha]
        constructor
        · rintro ⟨t, ht⟩; cases ht
        · rintro ⟨ch', hc, h⟩
          injection hc with hc; subst hc
          exact absurd h (by intro h; cases h <;> contradiction)

theorem addChild_ok {st st' : PSt} {key : Option Str} {info : EInfo} (h : addChild st key info = .ok st') :
    ∃ ch, topChildren st = .ok ch ∧ ¬ DupKey ch key ∧ ¬ DupAttr ch info.attr ∧
      st' = setTopChildren st (ch ++ [(key, info)]) := by
  cases hch : topChildren st with
  | error e => rw [addChild_noTop key info hch] at h; cases h
  | ok ch =>
    by_cases hk : DupKey ch key
    · rw [addChild_dupKey key info hch hk] at h; cases h
    · by_cases ha : DupAttr ch info.attr
      · rw [addChild_dupAttr key info hch hk ha] at h; cases h
      · rw [addChild_fresh key info hch hk ha] at h
        injection h with h
        exact ⟨ch, rfl, hk, ha, h.symm⟩

/-! ### `updType`, and reading back what `setTopChildren` wrote -/

theorem updType_typeNames (es : ES) (n : Str) (f : EType → EType) : (es.updType n f).typeNames = es.typeNames := by
  simp only [ES.updType, ES.typeNames, List.map_map]
  apply List.map_congr_left
  intro x _
  simp only [Function.comp]
  split <;> rfl

theorem updType_find (es : ES) (n m : Str) (f : EType → EType) :
    (es.updType n f).types.find? (·.1 == m) =
      (es.types.find? (·.1 == m)).map fun (k, e) =>
        if k == n then (k, match e with | .concrete t => .concrete (f t) | a => a) else (k, e) := by
  simp only [ES.updType]
  apply find_fst_map
  intro x
  split <;> rfl

theorem topChildren_setTopChildren {st : PSt} {ch} (ch' : List (Option Str × EInfo)) (h : topChildren st = .ok ch) :
    topChildren (setTopChildren st ch') = .ok ch' := by
  unfold topChildren at h
  unfold setTopChildren topChildren
  split at h
  · rename_i hs; simp only [hs]
  · rename_i n r hs
    simp only [hs]
    rw [updType_find]
    split at h
    · rename_i x t hf
      rw [hf]
      have hx := (find_fst_some _ _ _ hf).1
      simp only at hx
      simp only [Option.map_some, hx, beq_self_eq_true, ↓reduceIte]
    · cases h
  · cases h
  · cases h

theorem setTopChildren_stack (st : PSt) (ch : List (Option Str × EInfo)) : (setTopChildren st ch).stack = st.stack := by
  unfold setTopChildren
  split <;> rfl

theorem setTopChildren_prefixes (st : PSt) (ch : List (Option Str × EInfo)) :
    (setTopChildren st ch).prefixes = st.prefixes := by
  unfold setTopChildren
  split <;> rfl

theorem setTopChildren_typeNames (st : PSt) (ch : List (Option Str × EInfo)) :
    (setTopChildren st ch).es.typeNames = st.es.typeNames := by
  unfold setTopChildren
  split
  · rfl
  · exact updType_typeNames _ _ _
  · rfl

/-! ## 3. types are defined before they are used -/

theorem gettype_none_iff (es : ES) (n : Str) : es.gettype n = none ↔ lower n ∉ es.typeNames :=
  find_fst_none _ _

theorem gettype_some {es : ES} {n : Str} {p : Str × EEntry} (h : es.gettype n = some p) :
    p.1 = lower n ∧ p ∈ es.types := find_fst_some _ _ _ h

theorem gettype_some_mem {es : ES} {n : Str} {p : Str × EEntry} (h : es.gettype n = some p) :
    lower n ∈ es.typeNames := by
  obtain ⟨h1, h2⟩ := gettype_some h
  exact List.mem_map.2 ⟨p, h2, h1⟩

theorem gettype_isSome_iff (es : ES) (n : Str) : (es.gettype n).isSome = true ↔ lower n ∈ es.typeNames := by
  cases h : es.gettype n with
  | none => simp [(gettype_none_iff es n).1 h]
  | some p => simp [gettype_some_mem h]

theorem getSectiontype_missing (st : PSt) (attrs : Attrs) (h : (attr attrs "type").getD [] = []) :
    getSectiontype st attrs = .error (.schema "section must specify type") := by
  unfold getSectiontype
  cases ha : attr attrs "type" with
  | none => rfl
  | some v =>
    rw [ha] at h; simp only [Option.getD_some] at h; subst h; rfl

theorem getSectiontype_unknown (st : PSt) (attrs : Attrs) (v : Str) (ha : attr attrs "type" = some v) (hv : v ≠ [])
    (h : lower v ∉ st.es.typeNames) : getSectiontype st attrs = .error (.schema "unknown type name") := by
  unfold getSectiontype
  rw [ha]
  cases v with
  | nil => exact absurd rfl hv
  | cons c cs =>
    simp only
    rw [(gettype_none_iff _ _).2 h]; rfl

theorem er_getSectiontype_known (st : PSt) (attrs : Attrs) (v : Str) (ha : attr attrs "type" = some v) (hv : v ≠ [])
    (h : lower v ∈ st.es.typeNames) : getSectiontype st attrs = .ok (lower v) := by
  unfold getSectiontype
  rw [ha]
  cases v with
  | nil => exact absurd rfl hv
  | cons c cs =>
    simp only
    cases hg : st.es.gettype (c :: cs) with
    | none => exact absurd h ((gettype_none_iff _ _).1 hg)
    | some p =>
      obtain ⟨n, e⟩ := p
      have := (gettype_some hg).1
      simp only at this
      simp only [this]

theorem getSectiontype_cases (st : PSt) (attrs : Attrs) :
    ((attr attrs "type").getD [] = [] ∧ getSectiontype st attrs = .error (.schema "section must specify type")) ∨
    (∃ v, attr attrs "type" = some v ∧ v ≠ [] ∧ lower v ∉ st.es.typeNames ∧
        getSectiontype st attrs = .error (.schema "unknown type name")) ∨
    (∃ v, attr attrs "type" = some v ∧ v ≠ [] ∧ lower v ∈ st.es.typeNames ∧ getSectiontype st attrs = .ok (lower v)) := by
  by_cases h0 : (attr attrs "type").getD [] = []
  · exact Or.inl ⟨h0, getSectiontype_missing st attrs h0⟩
  · cases ha : attr attrs "type" with
    | none => rw [ha] at h0; exact absurd rfl h0
    | some v =>
      have hv : v ≠ [] := by rw [ha] at h0; exact h0
      by_cases hm : lower v ∈ st.es.typeNames
      · exact Or.inr (Or.inr ⟨v, rfl, hv, hm, er_getSectiontype_known st attrs v ha hv hm⟩)
      · exact Or.inr (Or.inl ⟨v, rfl, hv, hm, getSectiontype_unknown st attrs v ha hv hm⟩)

theorem getSectiontype_error {st : PSt} {attrs : Attrs} {e} (h : getSectiontype st attrs = .error e) : e.isSchema := by
  rcases getSectiontype_cases st attrs with ⟨_, h1⟩ | ⟨_, _, _, _, h1⟩ | ⟨_, _, _, _, h1⟩ <;>
    (rw [h1] at h; cases h) <;> trivial

/-! ## prefixes (C11) -/

theorem getClassname_dot (st : PSt) (name p : Str) (ps : List Str) (h : name.head? = some '.')
    (hp : st.prefixes = p :: ps) : getClassname st name = .ok (p ++ name) := by
  unfold getClassname
  rw [if_pos (by rw [h]; rfl), hp]

theorem getClassname_plain (st : PSt) (name : Str) (h : name.head? ≠ some '.') : getClassname st name = .ok name := by
  unfold getClassname
  rw [if_neg (by simpa using h)]

theorem getClassname_dot_noprefix (st : PSt) (name : Str) (h : name.head? = some '.') (hp : st.prefixes = []) :
    getClassname st name = .error (.internal "IndexError") := by
  unfold getClassname
  rw [if_pos (by rw [h]; rfl), hp]

/-- `pushPrefix` only touches the prefix stack, and pushes exactly one entry -/
theorem pushPrefix_ok {st st1 : PSt} {attrs : Attrs} (h : pushPrefix st attrs = .ok st1) :
    ∃ p, st1 = { st with prefixes := p :: st.prefixes } := by
  unfold pushPrefix at h
  simp only at h
  split at h
  · rename_i c cs _
    generalize (if st.prefixes.isEmpty then DT.dottedName (c :: cs) else DT.dottedSuffix (c :: cs)) = r at h
    cases r with
    | error e => cases h
    | ok nm =>
      simp only at h
      split at h
      · split at h
        · injection h with h; exact ⟨_, h.symm⟩
        · cases h
      · injection h with h; exact ⟨_, h.symm⟩
  · split at h
    · rename_i p r hp
      injection h with h; exact ⟨p, h.symm⟩
    · rename_i hp
      injection h with h; refine ⟨[], ?_⟩; rw [hp]; exact h.symm

theorem popPrefix_pushPrefix {st st1 : PSt} {attrs : Attrs} (h : pushPrefix st attrs = .ok st1) :
    popPrefix st1 = st := by
  obtain ⟨p, rfl⟩ := pushPrefix_ok h
  rfl

/-- no `prefix` attribute (or an empty one): the enclosing prefix is repeated (`""` at the outermost level) -/
theorem pushPrefix_none (st : PSt) (attrs : Attrs) (h : (attr attrs "prefix").getD [] = []) :
    pushPrefix st attrs = .ok { st with prefixes := (st.prefixes.head?.getD []) :: st.prefixes } := by
  unfold pushPrefix
  have : ∀ o : Option Str, o.getD [] = [] →
      (match o with
        | some (c :: cs) =>
          let name := c :: cs
          let r := if st.prefixes.isEmpty then DT.dottedName name else DT.dottedSuffix name
          match r with
          | .error _ => serr "not a valid prefix"
          | .ok nm =>
            if nm.head? == some '.' then
              match st.prefixes with
              | p :: _ => .ok { st with prefixes := (p ++ nm) :: st.prefixes }
              | [] => .error (.internal "IndexError")
            else .ok { st with prefixes := nm :: st.prefixes }
        | _ =>
          match st.prefixes with
          | p :: _ => .ok { st with prefixes := p :: st.prefixes }
          | [] => .ok { st with prefixes := [[]] }) =
      (.ok { st with prefixes := (st.prefixes.head?.getD []) :: st.prefixes } : EM PSt) := by
    intro o ho
    cases o with
    | none => cases hp : st.prefixes <;> simp
    | some v =>
      simp only [Option.getD_some] at ho; subst ho
      cases hp : st.prefixes <;> simp
  exact this _ h

/-- a prefix starting with `.` composes with the enclosing one -/
theorem pushPrefix_relative (st : PSt) (attrs : Attrs) (nm p : Str) (ps : List Str)
    (ha : attr attrs "prefix" = some ('.' :: nm)) (hp : st.prefixes = p :: ps)
    (hv : DTSpec.isDottedSuffix ('.' :: nm) = true) :
    pushPrefix st attrs = .ok { st with prefixes := (p ++ '.' :: nm) :: st.prefixes } := by
  unfold pushPrefix
  rw [ha]
  simp only [hp, List.isEmpty_cons, Bool.false_eq_true, ↓reduceIte]
  rw [DT.dottedSuffix_eq_spec]; unfold DTSpec.dottedSuffix
  rw [if_pos hv]
  simp

/-- a prefix not starting with `.` replaces the enclosing one -/
theorem pushPrefix_absolute (st : PSt) (attrs : Attrs) (c : Char) (cs : Str)
    (ha : attr attrs "prefix" = some (c :: cs)) (hc : c ≠ '.')
    (hv : (if st.prefixes.isEmpty then DTSpec.isDottedName (c :: cs) else DTSpec.isDottedSuffix (c :: cs)) = true) :
    pushPrefix st attrs = .ok { st with prefixes := (c :: cs) :: st.prefixes } := by
  unfold pushPrefix
  rw [ha]
  simp only
  rw [DT.dottedSuffix_eq_spec, DT.dottedName_eq_spec]; unfold DTSpec.dottedSuffix DTSpec.dottedName
  cases he : st.prefixes.isEmpty
  · rw [he] at hv
    simp only [Bool.false_eq_true, ↓reduceIte] at hv ⊢
    rw [if_pos hv]
    simp [hc]
  · rw [he] at hv
    simp only [↓reduceIte] at hv ⊢
    rw [if_pos hv]
    simp [hc]

/-- an ill-formed prefix is a schema error -/
theorem pushPrefix_invalid (st : PSt) (attrs : Attrs) (c : Char) (cs : Str)
    (ha : attr attrs "prefix" = some (c :: cs))
    (hv : (if st.prefixes.isEmpty then DTSpec.isDottedName (c :: cs) else DTSpec.isDottedSuffix (c :: cs)) = false) :
    pushPrefix st attrs = .error (.schema "not a valid prefix") := by
  unfold pushPrefix
  rw [ha]
  simp only
  rw [DT.dottedSuffix_eq_spec, DT.dottedName_eq_spec]; unfold DTSpec.dottedSuffix DTSpec.dottedName
  cases he : st.prefixes.isEmpty
  · rw [he] at hv
    simp only [Bool.false_eq_true, ↓reduceIte] at hv ⊢
    rw [if_neg (by simp [hv])]; rfl
  · rw [he] at hv
    simp only [↓reduceIte] at hv ⊢
    rw [if_neg (by simp [hv])]; rfl

/-! ## datatype attributes with a base fallback -/

theorem getDatatype_attr (env : Env) (st : PSt) (attrs : Attrs) (key dflt : String) (base : Option Str) (v : Str)
    (h : attr attrs key = some v) :
    getDatatype env st attrs key dflt base = (getClassname st v >>= regGet env) := by
  unfold getDatatype; rw [h]

theorem getDatatype_base (env : Env) (st : PSt) (attrs : Attrs) (key dflt : String) (b : Str)
    (h : attr attrs key = none) : getDatatype env st attrs key dflt (some b) = .ok b := by
  unfold getDatatype; rw [h]

theorem getDatatype_default (env : Env) (st : PSt) (attrs : Attrs) (key dflt : String)
    (h : attr attrs key = none) : getDatatype env st attrs key dflt none = regGet env dflt.toList := by
  unfold getDatatype; rw [h]

/-- with the attribute present the base's value plays no role -/
theorem getDatatype_attr_base_irrelevant (env : Env) (st : PSt) (attrs : Attrs) (key dflt : String) (b1 b2 : Option Str)
    (h : (attr attrs key).isSome = true) :
    getDatatype env st attrs key dflt b1 = getDatatype env st attrs key dflt b2 := by
  cases ha : attr attrs key with
  | none => rw [ha] at h; cases h
  | some v => rw [getDatatype_attr _ _ _ _ _ _ v ha, getDatatype_attr _ _ _ _ _ _ v ha]

theorem getSectTypeinfo_ok {env : Env} {st : PSt} {attrs : Attrs} {base : Option (Str × Str)} {kt dt : Str}
    (h : getSectTypeinfo env st attrs base = .ok (kt, dt)) :
    getDatatype env st attrs "keytype" "basic-key" (base.map (·.1)) = .ok kt ∧
    (∃ vt, getDatatype env st attrs "valuetype" "string" none = .ok vt) ∧
    getDatatype env st attrs "datatype" "null" (base.map (·.2)) = .ok dt := by
  unfold getSectTypeinfo at h
  cases h1 : getDatatype env st attrs "keytype" "basic-key" (base.map (·.1)) with
  | error e => simp [h1, bind, Except.bind] at h
  | ok a =>
    cases h2 : getDatatype env st attrs "valuetype" "string" none with
    | error e => simp [h1, h2, bind, Except.bind] at h
    | ok b =>
      cases h3 : getDatatype env st attrs "datatype" "null" (base.map (·.2)) with
      | error e => simp [h1, h2, h3, bind, Except.bind] at h
      | ok c =>
        simp only [h1, h2, h3, bind, Except.bind, pure, Except.pure, Except.ok.injEq, Prod.mk.injEq] at h
        exact ⟨by rw [h.1], ⟨b, rfl⟩, by rw [h.2]⟩

/-! ## `start_sectiontype`, cut in its three steps -/

/-- the `extends` step: the new type is entered in the table, with the base's children when there is a base -/
def sectiontypeBase (env : Env) (st1 : PSt) (attrs : Attrs) (name : Str) : EM ES :=
  match attr attrs "extends" with
  | some b => do
    let basename ← basicKeyE b
    match st1.es.gettype basename with
    | none => serr "unknown type name"
    | some (_, .abstract_ _ _ _) => serr "sectiontype cannot extend an abstract type"
    | some (_, .concrete base) =>
      let (kt, dt) ← getSectTypeinfo env st1 attrs (some (base.keytype, base.datatype))
      let es' ← addType st1.es name (.concrete { name := some name, keytype := kt, datatype := dt })
      let ch ← deriveChildren env kt base.children
      pure (es'.updType name fun t => { t with children := ch })
  | none => do
    let (kt, dt) ← getSectTypeinfo env st1 attrs none
    addType st1.es name (.concrete { name := some name, keytype := kt, datatype := dt })

/-- `AbstractType.addsubtype` on the entry `an` -/
def addSubtype (es : ES) (an name : Str) : ES :=
  { es with types := es.types.map fun (k, e) =>
      if k == an then
        (k, match e with
            | .abstract_ nm subs d => .abstract_ nm (if subs.contains name then subs else subs ++ [name]) d
            | o => o)
      else (k, e) }

/-- the `implements` step -/
def sectiontypeImplements (es2 : ES) (attrs : Attrs) (name : Str) : EM ES :=
  match attr attrs "implements" with
  | some i => do
    let ifname ← basicKeyE i
    match es2.gettype ifname with
    | none => serr "unknown type name"
    | some (_, .concrete _) => serr "type specified by implements is not an abstracttype"
    | some (an, .abstract_ _ _ _) => pure (addSubtype es2 an name)
  | none => pure es2

theorem startSectiontype_eq (env : Env) (st : PSt) (attrs : Attrs) :
    startSectiontype env st attrs =
      match attr attrs "name" with
      | some (c :: cs) => do
        let name ← basicKeyE (c :: cs)
        let st1 ← pushPrefix st attrs
        let es2 ← sectiontypeBase env st1 attrs name
        let es3 ← sectiontypeImplements es2 attrs name
        pure { st1 with es := es3, stack := .stype name :: st1.stack }
      | _ => serr "sectiontype name must not be omitted or empty" := by
  unfold startSectiontype sectiontypeBase sectiontypeImplements addSubtype
  cases attr attrs "name" with
  | none => rfl
  | some v =>
  cases v with
  | nil => rfl
  | cons c cs =>
  simp only [bind, Except.bind, pure, Except.pure, serr]
  cases basicKeyE (c :: cs) with
  | error e => rfl
  | ok name =>
  simp only
  cases pushPrefix st attrs with
  | error e => rfl
  | ok st1 =>
  simp only
  cases attr attrs "implements" with
  | none =>
    simp only
    cases attr attrs "extends" with
    | none =>
      simp only
      cases getSectTypeinfo env st1 attrs none with
      | error e => rfl
      | ok q =>
        simp only
    | some b =>
      simp only
      cases basicKeyE b with
      | error e => rfl
      | ok basename =>
        simp only
        cases st1.es.gettype basename with
        | none => rfl
        | some q =>
          obtain ⟨bn, e⟩ := q
          cases e with
          | abstract_ a b c => rfl
          | concrete base =>
            simp only
            cases getSectTypeinfo env st1 attrs (some (base.keytype, base.datatype)) with
            | error e => rfl
            | ok q =>
              simp only
              cases addType st1.es name (EEntry.concrete { name := some name, keytype := q.1, datatype := q.2 }) with
              | error e => rfl
              | ok es' =>
                simp only
                cases deriveChildren env q.1 base.children <;> rfl
  | some i =>
    simp only
    cases basicKeyE i with
    | error e =>
      simp only
      cases attr attrs "extends" with
      | none =>
        simp only
        cases getSectTypeinfo env st1 attrs none with
        | error e => rfl
        | ok q =>
          simp only
      | some b =>
        simp only
        cases basicKeyE b with
        | error e => rfl
        | ok basename =>
          simp only
          cases st1.es.gettype basename with
          | none => rfl
          | some q =>
            obtain ⟨bn, e⟩ := q
            cases e with
            | abstract_ a b c => rfl
            | concrete base =>
              simp only
              cases getSectTypeinfo env st1 attrs (some (base.keytype, base.datatype)) with
              | error e => rfl
              | ok q =>
                simp only
                cases addType st1.es name (EEntry.concrete { name := some name, keytype := q.1, datatype := q.2 }) with
                | error e => rfl
                | ok es' =>
                  simp only
                  cases deriveChildren env q.1 base.children <;> rfl
    | ok ifname =>
      simp only
      cases attr attrs "extends" with
      | none =>
        simp only
        cases getSectTypeinfo env st1 attrs none with
        | error e => rfl
        | ok q =>
          simp only
          cases addType st1.es name (EEntry.concrete { name := some name, keytype := q.1, datatype := q.2 }) with
          | error e => rfl
          | ok es2 =>
            simp only
            cases es2.gettype ifname with
            | none => rfl
            | some q => obtain ⟨an, e⟩ := q; cases e <;> rfl
      | some b =>
        simp only
        cases basicKeyE b with
        | error e => rfl
        | ok basename =>
          simp only
          cases st1.es.gettype basename with
          | none => rfl
          | some q =>
            obtain ⟨bn, e⟩ := q
            cases e with
            | abstract_ a b c => rfl
            | concrete base =>
              simp only
              cases getSectTypeinfo env st1 attrs (some (base.keytype, base.datatype)) with
              | error e => rfl
              | ok q =>
                simp only
                cases addType st1.es name (EEntry.concrete { name := some name, keytype := q.1, datatype := q.2 }) with
                | error e => rfl
                | ok es' =>
                  simp only
                  cases deriveChildren env q.1 base.children with
                  | error e => rfl
                  | ok ch =>
                    simp only
                    generalize ES.gettype _ ifname = g
                    cases g with
                    | none => rfl
                    | some q => obtain ⟨an, e⟩ := q; cases e <;> rfl

/-! ## generic `Except` facts -/

theorem er_bind_ok {ε α β} {x : Except ε α} {f : α → Except ε β} {b : β} (h : x >>= f = .ok b) :
    ∃ a, x = .ok a ∧ f a = .ok b := by
  cases x with
  | error e => cases h
  | ok a => exact ⟨a, rfl, h⟩

theorem bind_error {ε α β} {x : Except ε α} {f : α → Except ε β} {e : ε} (h : x >>= f = .error e) :
    x = .error e ∨ ∃ a, x = .ok a ∧ f a = .error e := by
  cases x with
  | error e' => left; simpa [bind, Except.bind] using h
  | ok a => right; exact ⟨a, rfl, h⟩

theorem foldlM_inv {ε α β} (P : β → Prop) (f : β → α → Except ε β)
    (hf : ∀ b a b', P b → f b a = .ok b' → P b') :
    ∀ (l : List α) (init r : β), P init → l.foldlM f init = .ok r → P r := by
  intro l
  induction l with
  | nil => intro init r hp h; simp only [List.foldlM_nil, pure, Except.pure] at h; injection h with h; subst h; exact hp
  | cons a l ih =>
    intro init r hp h
    rw [List.foldlM_cons] at h
    obtain ⟨b, hb, hr⟩ := er_bind_ok h
    exact ih b r (hf _ _ _ hp hb) hr

/-! ## C11 a. derived types: defaults of wildcard keys are recomputed from the keys as written -/

theorem addValueInfo_ok {k k' : EKey} {vi : VI} {key : Option Str} (h : addValueInfo k vi key = .ok k') :
    ∃ d, k' = { k with dflt := d } := by
  unfold addValueInfo at h
  simp only at h
  repeat' split at h
  all_goals (cases h <;> exact ⟨_, rfl⟩)

/-- what `computeDefault` leaves alone: everything but `dflt`, and `raw` becomes the defaults as written -/
theorem computeDefault_ok {env : Env} {kt : Str} {k k' : EKey} (h : computeDefault env kt k = .ok k') :
    k.name = ['+'] ∧ ∃ d, k' = { k with raw := some (k.raw.getD k.dflt), dflt := d } := by
  unfold computeDefault at h
  split at h
  · cases h
  · rename_i hn
    simp only [bne_iff_ne, ne_eq, Decidable.not_not] at hn
    refine ⟨hn, ?_⟩
    simp only at h
    split at h
    · rename_i m hraw
      refine foldlM_inv (fun a => ∃ d, a = { k with raw := some (k.raw.getD k.dflt), dflt := d }) _ ?_ _ _ _ ?_ h
      · rintro b a b' ⟨d, rfl⟩ hb
        obtain ⟨key, _, hb⟩ := er_bind_ok hb
        obtain ⟨d', rfl⟩ := addValueInfo_ok hb
        exact ⟨d', rfl⟩
      · exact ⟨_, by rw [hraw]⟩
    · rename_i m hraw
      refine foldlM_inv (fun a => ∃ d, a = { k with raw := some (k.raw.getD k.dflt), dflt := d }) _ ?_ _ _ _ ?_ h
      · rintro b a b' hb0 hb
        obtain ⟨key, _, hb⟩ := er_bind_ok hb
        refine foldlM_inv (fun a => ∃ d, a = { k with raw := some (k.raw.getD k.dflt), dflt := d }) _ ?_ _ _ _ hb0 hb
        rintro b2 a2 b2' ⟨d, rfl⟩ hb2
        obtain ⟨d', rfl⟩ := addValueInfo_ok hb2
        exact ⟨d', rfl⟩
      · exact ⟨_, by rw [hraw]⟩
    · cases h

/-- recomputing under another key type starts again from the keys as written, not from the normalised ones -/
theorem computeDefault_again {env : Env} {kt kt2 : Str} {k k' : EKey} (h : computeDefault env kt k = .ok k') :
    computeDefault env kt2 k' = computeDefault env kt2 k := by
  obtain ⟨hn, d, rfl⟩ := computeDefault_ok h
  unfold computeDefault
  simp only [Option.getD_some]

/-- two lists of the same length whose elements are related position by position -/
inductive Pointwise {α β} (R : α → β → Prop) : List α → List β → Prop
  | nil : Pointwise R [] []
  | cons {a b l l'} : R a b → Pointwise R l l' → Pointwise R (a :: l) (b :: l')

theorem Pointwise.length_eq {α β} {R : α → β → Prop} {l : List α} {l' : List β} (h : Pointwise R l l') :
    l'.length = l.length := by
  induction h with
  | nil => rfl
  | cons _ _ ih => simp [ih]

theorem Pointwise.get {α β} {R : α → β → Prop} {l : List α} {l' : List β} (h : Pointwise R l l') :
    ∀ (i : Nat) (h1 : i < l.length) (h2 : i < l'.length), R l[i] l'[i] := by
  induction h with
  | nil => intro i h1; cases h1
  | cons hab _ ih =>
    intro i h1 h2
    cases i with
    | zero => exact hab
    | succ j => exact ih j (Nat.lt_of_succ_lt_succ h1) (Nat.lt_of_succ_lt_succ h2)

theorem mapM_ok_forall2 {ε α β} (f : α → Except ε β) :
    ∀ (l : List α) (r : List β), l.mapM f = .ok r → Pointwise (fun a b => f a = .ok b) l r := by
  intro l
  induction l with
  | nil => intro r h; simp [pure, Except.pure] at h; subst h; exact .nil
  | cons a l ih =>
    intro r h
    obtain ⟨b, bs, h1, h2, h3⟩ := mapM_ok_cons f a l r h
    subst h3
    exact .cons h1 (ih bs h2)

theorem forall2_mapM_ok {ε α β} (f : α → Except ε β) :
    ∀ (l : List α) (r : List β), Pointwise (fun a b => f a = .ok b) l r → l.mapM f = .ok r := by
  intro l r h
  induction h with
  | nil => rfl
  | cons h1 _ ih => rw [List.mapM_cons, h1, ih]; rfl

theorem mapM_congr_forall2 {ε α β} (f : α → Except ε β) (R : α → α → Prop) (hR : ∀ a a', R a a' → f a' = f a) :
    ∀ (l l' : List α), Pointwise R l l' → l'.mapM f = l.mapM f := by
  intro l l' h
  induction h with
  | nil => rfl
  | cons h1 _ ih => rw [List.mapM_cons, List.mapM_cons, hR _ _ h1, ih]

/-- `deriveSectionType` on one child of the base -/
def deriveChild (env : Env) (kt : Str) : Option Str × EInfo → EM (Option Str × EInfo) := fun (key, info) =>
  match info with
  | .key k =>
    if k.name == ['+'] then do
      let k' ← computeDefault env kt k
      pure (key, EInfo.key k')
    else pure (key, info)
  | _ => pure (key, info)

theorem deriveChildren_eq (env : Env) (kt : Str) (ch : List (Option Str × EInfo)) :
    deriveChildren env kt ch = ch.mapM (deriveChild env kt) := rfl

/-- how one child `c` of the base appears (as `c'`) in a type derived under key type `kt` -/
def DerivedChild (env : Env) (kt : Str) (c c' : Option Str × EInfo) : Prop :=
  match c.2 with
  | .key k => if k.name = ['+'] then ∃ k', computeDefault env kt k = .ok k' ∧ c' = (c.1, .key k') else c' = c
  | .sect _ => c' = c

theorem deriveChild_ok_iff (env : Env) (kt : Str) (c c' : Option Str × EInfo) :
    deriveChild env kt c = .ok c' ↔ DerivedChild env kt c c' := by
  obtain ⟨key, info⟩ := c
  cases info with
  | sect s =>
    simp only [deriveChild, DerivedChild, pure, Except.pure, Except.ok.injEq]
    exact eq_comm
  | key k =>
    simp only [deriveChild, DerivedChild, beq_iff_eq]
    by_cases hn : k.name = ['+']
    · simp only [hn, ↓reduceIte]
      constructor
      · intro h
        obtain ⟨k', h1, h2⟩ := er_bind_ok h
        simp only [pure, Except.pure, Except.ok.injEq] at h2
        exact ⟨k', h1, h2.symm⟩
      · rintro ⟨k', h1, rfl⟩
        rw [h1]; rfl
    · simp only [hn, ↓reduceIte, pure, Except.pure, Except.ok.injEq]
      exact eq_comm

theorem deriveChildren_ok_iff (env : Env) (kt : Str) (ch ch' : List (Option Str × EInfo)) :
    deriveChildren env kt ch = .ok ch' ↔ Pointwise (DerivedChild env kt) ch ch' := by
  rw [deriveChildren_eq]
  have : (fun a b => deriveChild env kt a = .ok b) = DerivedChild env kt := by
    funext a b; exact propext (deriveChild_ok_iff env kt a b)
  constructor
  · intro h; rw [← this]; exact mapM_ok_forall2 _ _ _ h
  · intro h; rw [← this] at h; exact forall2_mapM_ok _ _ _ h

theorem DerivedChild.key_eq {env : Env} {kt : Str} {c c' : Option Str × EInfo} (h : DerivedChild env kt c c') :
    c'.1 = c.1 := by
  unfold DerivedChild at h
  split at h
  · split at h
    · obtain ⟨k', _, rfl⟩ := h; rfl
    · rw [h]
  · rw [h]

theorem DerivedChild.attr_eq {env : Env} {kt : Str} {c c' : Option Str × EInfo} (h : DerivedChild env kt c c') :
    c'.2.attr = c.2.attr := by
  unfold DerivedChild at h
  split at h
  · rename_i k hk
    split at h
    · obtain ⟨k', h1, rfl⟩ := h
      obtain ⟨_, d, rfl⟩ := computeDefault_ok h1
      rw [hk]; rfl
    · rw [h]
  · rw [h]

theorem forall2_map_eq {α β} {R : α → α → Prop} (g : α → β) (hR : ∀ a a', R a a' → g a' = g a) :
    ∀ {l l' : List α}, Pointwise R l l' → l'.map g = l.map g := by
  intro l l' h
  induction h with
  | nil => rfl
  | cons h1 _ ih => rw [List.map_cons, List.map_cons, hR _ _ h1, ih]

theorem deriveChildren_keys {env : Env} {kt : Str} {ch ch' : List (Option Str × EInfo)}
    (h : deriveChildren env kt ch = .ok ch') : ch'.map (·.1) = ch.map (·.1) :=
  forall2_map_eq (·.1) (fun _ _ h => DerivedChild.key_eq h) ((deriveChildren_ok_iff _ _ _ _).1 h)

theorem deriveChildren_attrs {env : Env} {kt : Str} {ch ch' : List (Option Str × EInfo)}
    (h : deriveChildren env kt ch = .ok ch') : ch'.map (·.2.attr) = ch.map (·.2.attr) :=
  forall2_map_eq (·.2.attr) (fun _ _ h => DerivedChild.attr_eq h) ((deriveChildren_ok_iff _ _ _ _).1 h)

theorem deriveChildren_length {env : Env} {kt : Str} {ch ch' : List (Option Str × EInfo)}
    (h : deriveChildren env kt ch = .ok ch') : ch'.length = ch.length :=
  mapM_ok_length _ _ _ h

theorem deriveChild_again {env : Env} {kt kt2 : Str} {c c' : Option Str × EInfo} (h : DerivedChild env kt c c') :
    deriveChild env kt2 c' = deriveChild env kt2 c := by
  unfold DerivedChild at h
  obtain ⟨key, info⟩ := c
  cases info with
  | sect s => simp only at h; rw [h]
  | key k =>
    simp only at h
    split at h
    · rename_i hn
      obtain ⟨k', h1, rfl⟩ := h
      have hn' : k'.name = ['+'] := by
        obtain ⟨_, d, rfl⟩ := computeDefault_ok h1; exact hn
      simp only [deriveChild, hn, hn', beq_self_eq_true, ↓reduceIte]
      rw [computeDefault_again h1]
    · rw [h]

/-- deriving from a derived type recomputes the wildcard defaults from the keys as written in the first base -/
theorem deriveChildren_again {env : Env} {kt kt2 : Str} {ch ch' : List (Option Str × EInfo)}
    (h : deriveChildren env kt ch = .ok ch') : deriveChildren env kt2 ch' = deriveChildren env kt2 ch := by
  rw [deriveChildren_eq, deriveChildren_eq]
  exact mapM_congr_forall2 _ (DerivedChild env kt) (fun _ _ h => deriveChild_again h) _ _
    ((deriveChildren_ok_iff _ _ _ _).1 h)

/-! ## the `extends` step -/

theorem updType_append_fresh (es : ES) (n : Str) (t : EType) (f : EType → EType) (h : n ∉ es.typeNames) :
    ({ es with types := es.types ++ [(n, .concrete t)] } : ES).updType n f =
      { es with types := es.types ++ [(n, .concrete (f t))] } := by
  simp only [ES.updType, List.map_append, List.map_cons, List.map_nil, beq_self_eq_true, ↓reduceIte]
  congr 2
  conv => rhs; rw [← List.map_id es.types]
  apply List.map_congr_left
  intro x hx
  have : x.1 ≠ n := fun e => h (List.mem_map.2 ⟨x, hx, e⟩)
  simp [this]

/-- success of the `extends` step without a base -/
theorem sectiontypeBase_plain_ok {env : Env} {st1 : PSt} {attrs : Attrs} {name : Str} {es2 : ES}
    (hx : attr attrs "extends" = none) (h : sectiontypeBase env st1 attrs name = .ok es2) :
    ∃ kt dt, getSectTypeinfo env st1 attrs none = .ok (kt, dt) ∧ name ∉ st1.es.typeNames ∧
      es2 = { st1.es with types := st1.es.types ++
                [(name, .concrete { name := some name, keytype := kt, datatype := dt })] } := by
  unfold sectiontypeBase at h
  rw [hx] at h
  obtain ⟨⟨kt, dt⟩, h1, h2⟩ := er_bind_ok h
  obtain ⟨h3, h4⟩ := addType_ok h2
  exact ⟨kt, dt, h1, h3, h4⟩

/-- success of the `extends` step with a base -/
theorem sectiontypeBase_ext_ok {env : Env} {st1 : PSt} {attrs : Attrs} {name b : Str} {es2 : ES}
    (hx : attr attrs "extends" = some b) (h : sectiontypeBase env st1 attrs name = .ok es2) :
    ∃ bn key base kt dt ch, basicKeyE b = .ok bn ∧ st1.es.gettype bn = some (key, .concrete base) ∧
      getSectTypeinfo env st1 attrs (some (base.keytype, base.datatype)) = .ok (kt, dt) ∧
      name ∉ st1.es.typeNames ∧ deriveChildren env kt base.children = .ok ch ∧
      es2 = { st1.es with types := st1.es.types ++
                [(name, .concrete { name := some name, keytype := kt, datatype := dt, children := ch })] } := by
  unfold sectiontypeBase at h
  rw [hx] at h
  obtain ⟨bn, h0, h⟩ := er_bind_ok h
  simp only at h
  split at h
  · cases h
  · cases h
  · rename_i key base hg
    obtain ⟨⟨kt, dt⟩, h1, h⟩ := er_bind_ok h
    obtain ⟨es', h2, h⟩ := er_bind_ok h
    obtain ⟨ch, h3, h⟩ := er_bind_ok h
    obtain ⟨h4, rfl⟩ := addType_ok h2
    simp only [pure, Except.pure, Except.ok.injEq] at h
    rw [updType_append_fresh _ _ _ _ h4] at h
    exact ⟨bn, key, base, kt, dt, ch, h0, hg, h1, h4, h3, h.symm⟩

/-- in both cases one concrete entry named `name` is appended to the table, and `name` was fresh -/
theorem sectiontypeBase_ok {env : Env} {st1 : PSt} {attrs : Attrs} {name : Str} {es2 : ES}
    (h : sectiontypeBase env st1 attrs name = .ok es2) :
    name ∉ st1.es.typeNames ∧
      ∃ t : EType, t.name = some name ∧ es2 = { st1.es with types := st1.es.types ++ [(name, .concrete t)] } := by
  cases hx : attr attrs "extends" with
  | none =>
    obtain ⟨kt, dt, _, h2, h3⟩ := sectiontypeBase_plain_ok hx h
    exact ⟨h2, _, rfl, h3⟩
  | some b =>
    obtain ⟨bn, key, base, kt, dt, ch, _, _, _, h4, _, h6⟩ := sectiontypeBase_ext_ok hx h
    exact ⟨h4, _, rfl, h6⟩

theorem sectiontypeBase_unknown (env : Env) (st1 : PSt) (attrs : Attrs) (name b bn : Str)
    (hx : attr attrs "extends" = some b) (hb : basicKeyE b = .ok bn) (hg : st1.es.gettype bn = none) :
    sectiontypeBase env st1 attrs name = .error (.schema "unknown type name") := by
  unfold sectiontypeBase
  rw [hx]; simp only [hb, bind, Except.bind, hg]; rfl

theorem sectiontypeBase_abstract (env : Env) (st1 : PSt) (attrs : Attrs) (name b bn key an : Str) (subs : List Str)
    (d : Bool) (hx : attr attrs "extends" = some b) (hb : basicKeyE b = .ok bn)
    (hg : st1.es.gettype bn = some (key, .abstract_ an subs d)) :
    sectiontypeBase env st1 attrs name = .error (.schema "sectiontype cannot extend an abstract type") := by
  unfold sectiontypeBase
  rw [hx]; simp only [hb, bind, Except.bind, hg]; rfl

theorem sectiontypeBase_badname (env : Env) (st1 : PSt) (attrs : Attrs) (name b : Str) (e : EFail)
    (hx : attr attrs "extends" = some b) (hb : basicKeyE b = .error e) :
    sectiontypeBase env st1 attrs name = .error e := by
  unfold sectiontypeBase
  rw [hx]; simp only [hb, bind, Except.bind]

/-- a redefinition is refused, with or without a base, as soon as the attributes of the element are acceptable -/
theorem sectiontypeBase_dup_plain (env : Env) (st1 : PSt) (attrs : Attrs) (name kt dt : Str)
    (hx : attr attrs "extends" = none) (hi : getSectTypeinfo env st1 attrs none = .ok (kt, dt))
    (hd : name ∈ st1.es.typeNames) :
    sectiontypeBase env st1 attrs name = .error (.schema "type name cannot be redefined") := by
  unfold sectiontypeBase
  rw [hx]; simp only [hi, bind, Except.bind]
  exact addType_dup _ _ _ hd

theorem sectiontypeBase_dup_ext (env : Env) (st1 : PSt) (attrs : Attrs) (name b bn key kt dt : Str) (base : EType)
    (hx : attr attrs "extends" = some b) (hb : basicKeyE b = .ok bn)
    (hg : st1.es.gettype bn = some (key, .concrete base))
    (hi : getSectTypeinfo env st1 attrs (some (base.keytype, base.datatype)) = .ok (kt, dt))
    (hd : name ∈ st1.es.typeNames) :
    sectiontypeBase env st1 attrs name = .error (.schema "type name cannot be redefined") := by
  unfold sectiontypeBase
  rw [hx]; simp only [hb, bind, Except.bind, hg, hi]
  rw [addType_dup _ _ _ hd]

/-! ## the `implements` step -/

theorem addSubtype_typeNames (es : ES) (an name : Str) : (addSubtype es an name).typeNames = es.typeNames := by
  simp only [addSubtype, ES.typeNames, List.map_map]
  apply List.map_congr_left
  intro x _
  simp only [Function.comp]
  split <;> rfl

theorem addSubtype_find (es : ES) (an name m : Str) :
    (addSubtype es an name).types.find? (·.1 == m) =
      (es.types.find? (·.1 == m)).map fun (k, e) =>
        if k == an then
          (k, match e with
              | .abstract_ nm subs d => .abstract_ nm (if subs.contains name then subs else subs ++ [name]) d
              | o => o)
        else (k, e) := by
  simp only [addSubtype]
  apply find_fst_map
  intro x
  split <;> rfl

/-- concrete types are untouched by `implements` -/
theorem addSubtype_find_concrete (es : ES) (an name m k : Str) (t : EType)
    (h : es.types.find? (·.1 == m) = some (k, .concrete t)) :
    (addSubtype es an name).types.find? (·.1 == m) = some (k, .concrete t) := by
  rw [addSubtype_find, h]
  simp only [Option.map_some]
  split <;> rfl

/-- abstract types other than the one named are untouched -/
theorem addSubtype_find_other (es : ES) (an name m : Str) (hm : m ≠ an) :
    (addSubtype es an name).types.find? (·.1 == m) = es.types.find? (·.1 == m) := by
  rw [addSubtype_find]
  cases h : es.types.find? (·.1 == m) with
  | none => rfl
  | some p =>
    have := (find_fst_some _ _ _ h).1
    obtain ⟨k, e⟩ := p
    simp only at this
    subst this
    simp [hm]

/-- the abstract type named gains the new name exactly once -/
theorem addSubtype_find_self (es : ES) (an name k nm : Str) (subs : List Str) (d : Bool)
    (h : es.types.find? (·.1 == an) = some (k, .abstract_ nm subs d)) :
    (addSubtype es an name).types.find? (·.1 == an) =
      some (k, .abstract_ nm (if subs.contains name then subs else subs ++ [name]) d) := by
  rw [addSubtype_find, h]
  have := (find_fst_some _ _ _ h).1
  simp only at this
  subst this
  simp

theorem sectiontypeImplements_none (es2 : ES) (attrs : Attrs) (name : Str) (hi : attr attrs "implements" = none) :
    sectiontypeImplements es2 attrs name = .ok es2 := by
  unfold sectiontypeImplements; rw [hi]; rfl

theorem sectiontypeImplements_some_ok {es2 es3 : ES} {attrs : Attrs} {name i : Str}
    (hi : attr attrs "implements" = some i) (h : sectiontypeImplements es2 attrs name = .ok es3) :
    ∃ ifn an nm subs d, basicKeyE i = .ok ifn ∧ es2.gettype ifn = some (an, .abstract_ nm subs d) ∧
      es3 = addSubtype es2 an name := by
  unfold sectiontypeImplements at h
  rw [hi] at h
  obtain ⟨ifn, h0, h⟩ := er_bind_ok h
  split at h
  · cases h
  · cases h
  · rename_i an nm subs d hg
    simp only [pure, Except.pure, Except.ok.injEq] at h
    exact ⟨ifn, an, nm, subs, d, h0, hg, h.symm⟩

theorem sectiontypeImplements_unknown (es2 : ES) (attrs : Attrs) (name i ifn : Str)
    (hi : attr attrs "implements" = some i) (hb : basicKeyE i = .ok ifn) (hg : es2.gettype ifn = none) :
    sectiontypeImplements es2 attrs name = .error (.schema "unknown type name") := by
  unfold sectiontypeImplements
  rw [hi]; simp only [hb, bind, Except.bind, hg]; rfl

theorem sectiontypeImplements_concrete (es2 : ES) (attrs : Attrs) (name i ifn key : Str) (t : EType)
    (hi : attr attrs "implements" = some i) (hb : basicKeyE i = .ok ifn) (hg : es2.gettype ifn = some (key, .concrete t)) :
    sectiontypeImplements es2 attrs name = .error (.schema "type specified by implements is not an abstracttype") := by
  unfold sectiontypeImplements
  rw [hi]; simp only [hb, bind, Except.bind, hg]; rfl

theorem sectiontypeImplements_abstract (es2 : ES) (attrs : Attrs) (name i ifn an nm : Str) (subs : List Str) (d : Bool)
    (hi : attr attrs "implements" = some i) (hb : basicKeyE i = .ok ifn)
    (hg : es2.gettype ifn = some (an, .abstract_ nm subs d)) :
    sectiontypeImplements es2 attrs name = .ok (addSubtype es2 an name) := by
  unfold sectiontypeImplements
  rw [hi]; simp only [hb, bind, Except.bind, hg]; rfl

/-- the `implements` step can only fail with a schema error -/
theorem sectiontypeImplements_error {es2 : ES} {attrs : Attrs} {name : Str} {e : EFail}
    (h : sectiontypeImplements es2 attrs name = .error e) : e.isSchema := by
  cases hi : attr attrs "implements" with
  | none => rw [sectiontypeImplements_none _ _ _ hi] at h; cases h
  | some i =>
    cases hb : basicKeyE i with
    | error e' =>
      unfold sectiontypeImplements at h
      rw [hi] at h; simp only [hb, bind, Except.bind] at h
      injection h with h; subst h
      exact basicKeyE_error hb
    | ok ifn =>
      cases hg : es2.gettype ifn with
      | none => rw [sectiontypeImplements_unknown _ _ _ _ _ hi hb hg] at h; cases h; trivial
      | some p =>
        obtain ⟨an, en⟩ := p
        cases en with
        | concrete t => rw [sectiontypeImplements_concrete _ _ _ _ _ _ _ hi hb hg] at h; cases h; trivial
        | abstract_ nm subs d => rw [sectiontypeImplements_abstract _ _ _ _ _ _ _ _ _ hi hb hg] at h; cases h

theorem sectiontypeImplements_typeNames {es2 es3 : ES} {attrs : Attrs} {name : Str}
    (h : sectiontypeImplements es2 attrs name = .ok es3) : es3.typeNames = es2.typeNames := by
  cases hi : attr attrs "implements" with
  | none => rw [sectiontypeImplements_none _ _ _ hi] at h; cases h; rfl
  | some i =>
    obtain ⟨_, an, _, _, _, _, _, rfl⟩ := sectiontypeImplements_some_ok hi h
    exact addSubtype_typeNames _ _ _

theorem sectiontypeImplements_find_concrete {es2 es3 : ES} {attrs : Attrs} {name m k : Str} {t : EType}
    (h : sectiontypeImplements es2 attrs name = .ok es3) (hf : es2.types.find? (·.1 == m) = some (k, .concrete t)) :
    es3.types.find? (·.1 == m) = some (k, .concrete t) := by
  cases hi : attr attrs "implements" with
  | none => rw [sectiontypeImplements_none _ _ _ hi] at h; cases h; exact hf
  | some i =>
    obtain ⟨_, an, _, _, _, _, _, rfl⟩ := sectiontypeImplements_some_ok hi h
    exact addSubtype_find_concrete _ _ _ _ _ _ hf

/-! ## `start_sectiontype` as a whole -/

theorem startSectiontype_ok {env : Env} {st st' : PSt} {attrs : Attrs} (h : startSectiontype env st attrs = .ok st') :
    ∃ v name st1 es2 es3, attr attrs "name" = some v ∧ basicKeyE v = .ok name ∧ pushPrefix st attrs = .ok st1 ∧
      sectiontypeBase env st1 attrs name = .ok es2 ∧ sectiontypeImplements es2 attrs name = .ok es3 ∧
      st' = { st1 with es := es3, stack := .stype name :: st1.stack } := by
  rw [startSectiontype_eq] at h
  split at h
  · rename_i c cs hn
    obtain ⟨name, h1, h⟩ := er_bind_ok h
    obtain ⟨st1, h2, h⟩ := er_bind_ok h
    obtain ⟨es2, h3, h⟩ := er_bind_ok h
    obtain ⟨es3, h4, h⟩ := er_bind_ok h
    simp only [pure, Except.pure, Except.ok.injEq] at h
    exact ⟨_, name, st1, es2, es3, hn, h1, h2, h3, h4, h.symm⟩
  · cases h

theorem startSectiontype_noname (env : Env) (st : PSt) (attrs : Attrs) (h : (attr attrs "name").getD [] = []) :
    startSectiontype env st attrs = .error (.schema "sectiontype name must not be omitted or empty") := by
  rw [startSectiontype_eq]
  cases ha : attr attrs "name" with
  | none => rfl
  | some v => rw [ha] at h; simp only [Option.getD_some] at h; subst h; rfl

theorem startSectiontype_steps (env : Env) (st : PSt) (attrs : Attrs) (v name : Str) (st1 : PSt)
    (hn : attr attrs "name" = some v) (hb : basicKeyE v = .ok name) (hp : pushPrefix st attrs = .ok st1) :
    startSectiontype env st attrs =
      (do let es2 ← sectiontypeBase env st1 attrs name
          let es3 ← sectiontypeImplements es2 attrs name
          pure { st1 with es := es3, stack := .stype name :: st1.stack }) := by
  rw [startSectiontype_eq, hn]
  cases v with
  | nil => rw [basicKeyE_nil] at hb; cases hb
  | cons c cs => simp only [hb, hp, bind, Except.bind]

/-- what the table and the stack look like after a successful `<sectiontype>` start tag -/
theorem startSectiontype_result {env : Env} {st st' : PSt} {attrs : Attrs}
    (h : startSectiontype env st attrs = .ok st') :
    ∃ v name t, attr attrs "name" = some v ∧ basicKeyE v = .ok name ∧ name ∉ st.es.typeNames ∧
      st'.es.typeNames = st.es.typeNames ++ [name] ∧ st'.stack = .stype name :: st.stack ∧
      st'.es.types.find? (·.1 == name) = some (name, .concrete t) ∧ t.name = some name ∧
      topChildren st' = .ok t.children := by
  obtain ⟨v, name, st1, es2, es3, h1, h2, h3, h4, h5, rfl⟩ := startSectiontype_ok h
  obtain ⟨p, rfl⟩ := pushPrefix_ok h3
  obtain ⟨h6, t, h7, rfl⟩ := sectiontypeBase_ok h4
  have hf : es3.types.find? (·.1 == name) = some (name, .concrete t) :=
    sectiontypeImplements_find_concrete h5 (find_fst_append_fresh _ _ _ h6)
  refine ⟨v, name, t, h1, h2, h6, ?_, rfl, hf, h7, ?_⟩
  · rw [sectiontypeImplements_typeNames h5]
    simp [ES.typeNames]
  · simp only [topChildren, hf]

/-- …with `extends`: the new type starts with the base's children, derived under the new key type -/
theorem startSectiontype_extends_result {env : Env} {st st' : PSt} {attrs : Attrs} {b : Str}
    (hx : attr attrs "extends" = some b) (h : startSectiontype env st attrs = .ok st') :
    ∃ name st1 bn key base t, pushPrefix st attrs = .ok st1 ∧ basicKeyE b = .ok bn ∧
      st.es.gettype bn = some (key, .concrete base) ∧
      st'.es.types.find? (·.1 == name) = some (name, .concrete t) ∧ st'.stack = .stype name :: st.stack ∧
      topChildren st' = .ok t.children ∧
      getSectTypeinfo env st1 attrs (some (base.keytype, base.datatype)) = .ok (t.keytype, t.datatype) ∧
      deriveChildren env t.keytype base.children = .ok t.children := by
  obtain ⟨v, name, st1, es2, es3, h1, h2, h3, h4, h5, rfl⟩ := startSectiontype_ok h
  obtain ⟨bn, key, base, kt, dt, ch, g1, g2, g3, g4, g5, rfl⟩ := sectiontypeBase_ext_ok hx h4
  have hf := sectiontypeImplements_find_concrete h5 (find_fst_append_fresh _ _ _ g4)
  obtain ⟨p, rfl⟩ := pushPrefix_ok h3
  refine ⟨name, _, bn, key, base, _, h3, g1, g2, hf, rfl, ?_, g3, g5⟩
  simp only [topChildren, hf]

/-- …without `extends`: the new type has no children, and its key type and datatype are its own attributes' -/
theorem startSectiontype_plain_result {env : Env} {st st' : PSt} {attrs : Attrs}
    (hx : attr attrs "extends" = none) (h : startSectiontype env st attrs = .ok st') :
    ∃ name st1 t, pushPrefix st attrs = .ok st1 ∧
      st'.es.types.find? (·.1 == name) = some (name, .concrete t) ∧ st'.stack = .stype name :: st.stack ∧
      t.children = [] ∧ getSectTypeinfo env st1 attrs none = .ok (t.keytype, t.datatype) := by
  obtain ⟨v, name, st1, es2, es3, h1, h2, h3, h4, h5, rfl⟩ := startSectiontype_ok h
  obtain ⟨kt, dt, g1, g2, rfl⟩ := sectiontypeBase_plain_ok hx h4
  have hf := sectiontypeImplements_find_concrete h5 (find_fst_append_fresh _ _ _ g2)
  obtain ⟨p, rfl⟩ := pushPrefix_ok h3
  exact ⟨name, _, _, h3, hf, rfl, rfl, g1⟩

theorem find_append_abstract (l : List (Str × EEntry)) (n m : Str) (t : EType) (p : Str × EEntry)
    (h : (l ++ [(n, EEntry.concrete t)]).find? (·.1 == m) = some p) (hp : ∀ t', p.2 ≠ EEntry.concrete t') :
    l.find? (·.1 == m) = some p := by
  rw [List.find?_append] at h
  cases hl : l.find? (·.1 == m) with
  | some q => rw [hl] at h; exact h
  | none =>
    rw [hl] at h
    simp only [Option.none_or, List.find?_cons] at h
    split at h
    · injection h with h; subst h; exact absurd rfl (hp t)
    · cases h

/-- without `implements` nothing but the new entry changes in the table: in particular no abstract type gains the
new name, whatever the base implements -/
theorem startSectiontype_noimplements {env : Env} {st st' : PSt} {attrs : Attrs}
    (hi : attr attrs "implements" = none) (h : startSectiontype env st attrs = .ok st') :
    ∃ name t, st'.es = { st.es with types := st.es.types ++ [(name, .concrete t)] } := by
  obtain ⟨v, name, st1, es2, es3, h1, h2, h3, h4, h5, rfl⟩ := startSectiontype_ok h
  obtain ⟨p, rfl⟩ := pushPrefix_ok h3
  obtain ⟨h6, t, h7, rfl⟩ := sectiontypeBase_ok h4
  rw [sectiontypeImplements_none _ _ _ hi] at h5
  cases h5
  exact ⟨name, t, rfl⟩

/-- with `implements`: the abstract type named — and only it — gains the new name -/
theorem startSectiontype_implements {env : Env} {st st' : PSt} {attrs : Attrs} {i : Str}
    (hi : attr attrs "implements" = some i) (h : startSectiontype env st attrs = .ok st') :
    ∃ name t ifn an nm subs d, basicKeyE i = .ok ifn ∧ st.es.gettype ifn = some (an, .abstract_ nm subs d) ∧
      st'.es = addSubtype { st.es with types := st.es.types ++ [(name, .concrete t)] } an name := by
  obtain ⟨v, name, st1, es2, es3, h1, h2, h3, h4, h5, rfl⟩ := startSectiontype_ok h
  obtain ⟨p, rfl⟩ := pushPrefix_ok h3
  obtain ⟨h6, t, h7, rfl⟩ := sectiontypeBase_ok h4
  obtain ⟨ifn, an, nm, subs, d, g1, g2, rfl⟩ := sectiontypeImplements_some_ok hi h5
  refine ⟨name, t, ifn, an, nm, subs, d, g1, ?_, rfl⟩
  exact find_append_abstract st.es.types name (lower ifn) t _ g2 (fun t' => by simp)

/-! ## 5. names: wildcards need an attribute, `*` is not a key name -/

theorem anyNames_iff (n : Str) : Gen.anyNames.contains n = true ↔ n = ['*'] ∨ n = ['+'] := by
  simp [Gen.anyNames]

theorem multisectionNames_iff (n : Str) : Gen.multisectionNames.contains n = true ↔ n = ['*'] ∨ n = ['+'] := by
  simp [Gen.multisectionNames]

/-- the `name` attribute, or the default the handler passes (`*` for sections) -/
def effName (attrs : Attrs) (dflt : Option Str) : Option Str :=
  match attr attrs "name" with | some v => some v | none => dflt

/-- the `attribute` attribute: absent/empty, or an identifier not starting with `getSection` -/
def attrNameE (attrs : Attrs) : EM (Option Str) :=
  match attr attrs "attribute" with
  | some (c :: cs) =>
    if DTSpec.isIdent (c :: cs) then
      if startsWith (c :: cs) Gen.reservedAttrPrefix then serr "attribute names may not start with 'getSection'"
      else .ok (some (c :: cs))
    else serr "not a valid Python identifier"
  | _ => .ok none

theorem getNameInfo_eq (env : Env) (st : PSt) (attrs : Attrs) (dflt : Option Str) :
    getNameInfo env st attrs dflt =
      match effName attrs dflt with
      | some (c :: cs) => do
        let aname ← attrNameE attrs
        if Gen.anyNames.contains (c :: cs) then
          match aname with
          | some a => pure (some (c :: cs), none, some a)
          | none => serr "container attribute must be specified"
        else do
          let kt ← topKeytype st
          let nm ← convKeyName env kt (c :: cs)
          match aname with
          | some a => pure (none, some nm, some a)
          | none => do
            let a ← basicKeyE nm
            let a' ← identifierE (a.map fun ch => if ch == '-' then '_' else ch)
            pure (none, some nm, some a')
      | _ => serr "name must be specified and non-empty" := by
  unfold getNameInfo effName attrNameE
  simp only [bind, Except.bind, pure, Except.pure, serr]
  rcases attr attrs "name" with _ | n <;> simp only
  · rcases dflt with _ | n
    · rfl
    rcases n with _ | ⟨c, cs⟩
    · rfl
    simp only
    rcases attr attrs "attribute" with _ | a
    · simp only
    rcases a with _ | ⟨d, ds⟩
    · simp only
    simp only
    rw [identifierE_eq]
    by_cases hi : DTSpec.isIdent (d :: ds) = true
    · simp only [hi, ↓reduceIte]
      by_cases hr : startsWith (d :: ds) Gen.reservedAttrPrefix = true
      · simp only [hr, ↓reduceIte]
      · simp only [hr]
        rfl
    · simp only [hi]; rfl
  · rcases n with _ | ⟨c, cs⟩
    · rfl
    simp only
    rcases attr attrs "attribute" with _ | a
    · simp only
    rcases a with _ | ⟨d, ds⟩
    · simp only
    simp only
    rw [identifierE_eq]
    by_cases hi : DTSpec.isIdent (d :: ds) = true
    · simp only [hi, ↓reduceIte]
      by_cases hr : startsWith (d :: ds) Gen.reservedAttrPrefix = true
      · simp only [hr, ↓reduceIte]
      · simp only [hr]
        rfl
    · simp only [hi]; rfl

theorem attrNameE_error {attrs : Attrs} {e : EFail} (h : attrNameE attrs = .error e) : e.isSchema := by
  unfold attrNameE at h
  split at h
  · split at h
    · split at h
      · cases h; trivial
      · cases h
    · cases h; trivial
  · cases h

theorem attrNameE_none (attrs : Attrs) (h : (attr attrs "attribute").getD [] = []) : attrNameE attrs = .ok none := by
  unfold attrNameE
  cases ha : attr attrs "attribute" with
  | none => rfl
  | some v => rw [ha] at h; simp only [Option.getD_some] at h; subst h; rfl

theorem attrNameE_ok {attrs : Attrs} {o : Option Str} (h : attrNameE attrs = .ok o) :
    (o = none ∧ (attr attrs "attribute").getD [] = []) ∨
    (∃ a, o = some a ∧ attr attrs "attribute" = some a ∧ a ≠ [] ∧ DTSpec.isIdent a = true ∧
        startsWith a Gen.reservedAttrPrefix = false) := by
  unfold attrNameE at h
  split at h
  · rename_i c cs ha
    split at h
    · rename_i hi
      split at h
      · cases h
      · rename_i hr
        cases h
        exact Or.inr ⟨_, rfl, ha, by simp, hi, by simpa using hr⟩
    · cases h
  · rename_i hne
    cases h
    left
    refine ⟨rfl, ?_⟩
    cases ha : attr attrs "attribute" with
    | none => rfl
    | some v =>
      cases v with
      | nil => rfl
      | cons c cs => exact absurd ha (hne c cs)

theorem getNameInfo_noname (env : Env) (st : PSt) (attrs : Attrs) (dflt : Option Str)
    (h : (effName attrs dflt).getD [] = []) :
    getNameInfo env st attrs dflt = .error (.schema "name must be specified and non-empty") := by
  rw [getNameInfo_eq]
  cases hn : effName attrs dflt with
  | none => rfl
  | some v => rw [hn] at h; simp only [Option.getD_some] at h; subst h; rfl

/-- `get_name_info` for a wildcard name: only the `attribute` attribute matters -/
theorem getNameInfo_wild (env : Env) (st : PSt) (attrs : Attrs) (dflt : Option Str) (n : Str)
    (hn : effName attrs dflt = some n) (hw : n = ['*'] ∨ n = ['+']) :
    getNameInfo env st attrs dflt =
      (attrNameE attrs >>= fun aname =>
        match aname with
        | some a => pure (some n, none, some a)
        | none => serr "container attribute must be specified") := by
  rw [getNameInfo_eq, hn]
  have hc : Gen.anyNames.contains n = true := (anyNames_iff n).2 hw
  rcases hw with rfl | rfl <;> simp only [hc, ↓reduceIte]

theorem getNameInfo_wild_noattr (env : Env) (st : PSt) (attrs : Attrs) (dflt : Option Str) (n : Str)
    (hn : effName attrs dflt = some n) (hw : n = ['*'] ∨ n = ['+']) (ha : (attr attrs "attribute").getD [] = []) :
    getNameInfo env st attrs dflt = .error (.schema "container attribute must be specified") := by
  rw [getNameInfo_wild env st attrs dflt n hn hw, attrNameE_none attrs ha]; rfl

theorem getNameInfo_wild_attr (env : Env) (st : PSt) (attrs : Attrs) (dflt : Option Str) (n a : Str)
    (hn : effName attrs dflt = some n) (hw : n = ['*'] ∨ n = ['+']) (ha : attrNameE attrs = .ok (some a)) :
    getNameInfo env st attrs dflt = .ok (some n, none, some a) := by
  rw [getNameInfo_wild env st attrs dflt n hn hw, ha]; rfl

theorem getNameInfo_wild_error {env : Env} {st : PSt} {attrs : Attrs} {dflt : Option Str} {n : Str} {e : EFail}
    (hn : effName attrs dflt = some n) (hw : n = ['*'] ∨ n = ['+']) (h : getNameInfo env st attrs dflt = .error e) :
    e.isSchema := by
  rw [getNameInfo_wild env st attrs dflt n hn hw] at h
  rcases bind_error h with h1 | ⟨o, _, h2⟩
  · exact attrNameE_error h1
  · cases o with
    | none => cases h2; trivial
    | some a => cases h2

/-- shape of a successful `get_name_info`: exactly one of any-name / name is set, the attribute name always -/
theorem getNameInfo_ok {env : Env} {st : PSt} {attrs : Attrs} {dflt : Option Str} {r : Option Str × Option Str × Option Str}
    (h : getNameInfo env st attrs dflt = .ok r) :
    ∃ n a, effName attrs dflt = some n ∧ n ≠ [] ∧ a ≠ [] ∧ r.2.2 = some a ∧
      (((n = ['*'] ∨ n = ['+']) ∧ r.1 = some n ∧ r.2.1 = none ∧ attr attrs "attribute" = some a) ∨
       (¬ (n = ['*'] ∨ n = ['+']) ∧ r.1 = none ∧
          ∃ kt nm, topKeytype st = .ok kt ∧ convKeyName env kt n = .ok nm ∧ r.2.1 = some nm)) := by
  rw [getNameInfo_eq] at h
  split at h
  · rename_i c cs hn
    obtain ⟨aname, ha, h⟩ := er_bind_ok h
    by_cases hc : Gen.anyNames.contains (c :: cs) = true
    · rw [if_pos hc] at h
      have hw := (anyNames_iff _).1 hc
      cases aname with
      | none => cases h
      | some a =>
        cases h
        rcases attrNameE_ok ha with ⟨h0, _⟩ | ⟨a', h1, h2, h3, _⟩
        · cases h0
        · cases h1
          exact ⟨_, a, hn, by simp, h3, rfl, Or.inl ⟨hw, rfl, rfl, h2⟩⟩
    · rw [if_neg hc] at h
      have hw : ¬ (c :: cs = ['*'] ∨ c :: cs = ['+']) := fun hw => hc ((anyNames_iff _).2 hw)
      obtain ⟨kt, hkt, h⟩ := er_bind_ok h
      obtain ⟨nm, hnm, h⟩ := er_bind_ok h
      cases aname with
      | some a =>
        cases h
        rcases attrNameE_ok ha with ⟨h0, _⟩ | ⟨a', h1, h2, h3, _⟩
        · cases h0
        · cases h1
          exact ⟨_, a, hn, by simp, h3, rfl, Or.inr ⟨hw, rfl, kt, nm, hkt, hnm, rfl⟩⟩
      | none =>
        simp only at h
        obtain ⟨a, hba, h⟩ := er_bind_ok h
        obtain ⟨a', hia, h⟩ := er_bind_ok h
        cases h
        obtain ⟨hi1, hi2⟩ := identifierE_ok hia
        exact ⟨_, a', hn, by simp, by rw [hi2]; exact isIdent_ne_nil hi1, rfl,
          Or.inr ⟨hw, rfl, kt, nm, hkt, hnm, rfl⟩⟩
  · cases h

/-! ### `get_key_info`, `start_key`, `start_multikey` -/

theorem getKeyInfo_of_error {env : Env} {st : PSt} {attrs : Attrs} {e : EFail}
    (h : getNameInfo env st attrs none = .error e) : getKeyInfo env st attrs = .error e := by
  unfold getKeyInfo
  simp only [bind, Except.bind, h]

theorem getKeyInfo_of_star {env : Env} {st : PSt} {attrs : Attrs} {nm an : Option Str}
    (h : getNameInfo env st attrs none = .ok (some ['*'], nm, an)) :
    getKeyInfo env st attrs = .error (.schema "may not specify '*' for name") := by
  unfold getKeyInfo
  simp only [bind, Except.bind, h]
  rfl

/-- `name="*"` on a key: always a schema error -/
theorem getKeyInfo_star (env : Env) (st : PSt) (attrs : Attrs) (h : attr attrs "name" = some ['*']) :
    ∃ t, getKeyInfo env st attrs = .error (.schema t) := by
  have hn : effName attrs none = some ['*'] := by unfold effName; rw [h]
  cases hr : getNameInfo env st attrs none with
  | error e =>
    rw [getKeyInfo_of_error hr]
    obtain ⟨t, rfl⟩ := (EFail.isSchema_iff e).1 (getNameInfo_wild_error hn (Or.inl rfl) hr)
    exact ⟨t, rfl⟩
  | ok r =>
    obtain ⟨n, a, h1, _, _, _, h5⟩ := getNameInfo_ok hr
    rw [hn] at h1; cases h1
    rcases h5 with ⟨_, h6, _⟩ | ⟨h6, _⟩
    · obtain ⟨r1, r2, r3⟩ := r
      simp only at h6; subst h6
      exact ⟨_, getKeyInfo_of_star hr⟩
    · exact absurd (Or.inl rfl) h6

theorem startKey_of_error {env : Env} {st : PSt} {attrs : Attrs} {e : EFail}
    (h : getKeyInfo env st attrs = .error e) : startKey env st attrs = .error e := by
  unfold startKey
  simp only [bind, Except.bind, h]

theorem startKey_star (env : Env) (st : PSt) (attrs : Attrs) (h : attr attrs "name" = some ['*']) :
    ∃ t, startKey env st attrs = .error (.schema t) := by
  obtain ⟨t, ht⟩ := getKeyInfo_star env st attrs h
  exact ⟨t, startKey_of_error ht⟩

theorem startMultikey_star (env : Env) (st : PSt) (attrs : Attrs) (h : attr attrs "name" = some ['*']) :
    ∃ t, startMultikey env st attrs = .error (.schema t) := by
  obtain ⟨t, ht⟩ := getKeyInfo_star env st attrs h
  unfold startMultikey
  simp only [bind, Except.bind, serr, ht]
  split
  · exact ⟨_, rfl⟩
  · exact ⟨_, rfl⟩

/-! ## 7. a required key has no default -/

theorem getRequired_yes (attrs : Attrs) (h : attr attrs "required" = some "yes".toList) : getRequired attrs = .ok true := by
  rw [getRequired_eq, h]; rfl

theorem startKey_required_default (env : Env) (st : PSt) (attrs : Attrs) (r : Str × Str × Option Str × Str) (d : Str)
    (hk : getKeyInfo env st attrs = .ok r) (hr : attr attrs "required" = some "yes".toList)
    (hd : attr attrs "default" = some d) :
    startKey env st attrs = .error (.schema "required key cannot have a default value") := by
  unfold startKey
  simp only [bind, Except.bind, serr, hk, getRequired_yes attrs hr, hd, ↓reduceIte]

theorem startKey_required_default_fails (env : Env) (st st' : PSt) (attrs : Attrs) (d : Str)
    (hr : attr attrs "required" = some "yes".toList) (hd : attr attrs "default" = some d) :
    startKey env st attrs ≠ .ok st' := by
  cases hk : getKeyInfo env st attrs with
  | error e => rw [startKey_of_error hk]; intro h; cases h
  | ok r => rw [startKey_required_default env st attrs r d hk hr hd]; intro h; cases h

theorem charactersTag_default_required (isC : Bool) (attrs : Attrs) (data : Str) (st : PSt) (k : EKey) (rest : List Frame)
    (hs : st.stack = .key k :: rest) (hm : k.minOccurs ≠ 0) :
    charactersTag isC "default".toList attrs data st = .error (.schema "required key cannot have default values") := by
  unfold charactersTag
  simp only [beq_self_eq_true, ↓reduceIte, hs]
  rw [if_pos (by simpa using hm)]; rfl

theorem charactersTag_default_optional (isC : Bool) (attrs : Attrs) (data : Str) (st : PSt) (k : EKey) (rest : List Frame)
    (hs : st.stack = .key k :: rest) (hm : k.minOccurs = 0) :
    charactersTag isC "default".toList attrs data st =
      (addDefault k data (attr attrs "key")).map fun k' => { st with stack := .key k' :: rest } := by
  unfold charactersTag
  simp only [beq_self_eq_true, ↓reduceIte, hs]
  rw [if_neg (by simp [hm])]
  cases addDefault k data (attr attrs "key") <;> rfl

/-- the key object `start_key` / `start_multikey` builds from the element's attributes -/
def newKey (r : Str × Str × Option Str × Str) (req multi : Bool) : EKey :=
  { name := r.1, attr := r.2.2.2, multi := multi, minOccurs := if req then 1 else 0, dt := r.2.1, handler := r.2.2.1,
    dflt := if r.1 == ['+'] then (if multi then .keyedMany [] else .keyed []) else (if multi then .many [] else .none) }

theorem startKey_eq (env : Env) (st : PSt) (attrs : Attrs) :
    startKey env st attrs = (do
      let r ← getKeyInfo env st attrs
      let req ← getRequired attrs
      let k1 ← (match attr attrs "default" with
        | some d => if req then serr "required key cannot have a default value"
                    else addDefault (newKey r req false) (strip d) none
        | none => pure (newKey r req false))
      let k2 ← (if r.1 != ['+'] then finishKey k1 else pure k1)
      let st' ← addChild st (some r.1) (.key k2)
      pure { st' with stack := .key k2 :: st'.stack }) := by
  unfold startKey newKey
  simp only [bind, Except.bind, pure, Except.pure, serr, Bool.false_eq_true, ↓reduceIte]
  cases getKeyInfo env st attrs with
  | error e => rfl
  | ok r =>
  simp only
  cases getRequired attrs with
  | error e => rfl
  | ok req =>
  simp only
  cases attr attrs "default" with
  | none =>
    simp only
    by_cases hp : (r.1 != ['+']) = true
    · simp only [hp, ↓reduceIte]
    · rw [if_neg hp, if_neg hp]
  | some d =>
    simp only
    cases req with
    | true => simp only [↓reduceIte]
    | false =>
      simp only [Bool.false_eq_true, ↓reduceIte]
      cases addDefault _ (strip d) none with
      | error e => rfl
      | ok k1 =>
        simp only
        by_cases hp : (r.1 != ['+']) = true
        · simp only [hp, ↓reduceIte]
        · rw [if_neg hp, if_neg hp]

theorem startMultikey_eq (env : Env) (st : PSt) (attrs : Attrs) :
    startMultikey env st attrs =
      (if hasAttr attrs "default" then serr "default values for multikey must be given using 'default' elements"
      else (do
        let r ← getKeyInfo env st attrs
        let req ← getRequired attrs
        let st' ← addChild st (some r.1) (.key (newKey r req true))
        pure { st' with stack := .key (newKey r req true) :: st'.stack })) := by
  unfold startMultikey newKey
  simp only [bind, Except.bind, pure, Except.pure, serr, ↓reduceIte]

/-- the key frame pushed by `<key>` records `required` as `minOccurs` -/
theorem startKey_ok_stack {env : Env} {st st' : PSt} {attrs : Attrs} (h : startKey env st attrs = .ok st') :
    ∃ k req, getRequired attrs = .ok req ∧ st'.stack = .key k :: st.stack ∧ k.minOccurs = (if req then 1 else 0) ∧
      k.multi = false := by
  rw [startKey_eq] at h
  obtain ⟨r, _, h⟩ := er_bind_ok h
  obtain ⟨req, hreq, h⟩ := er_bind_ok h
  obtain ⟨k1, hk1, h⟩ := er_bind_ok h
  obtain ⟨k2, hk2, h⟩ := er_bind_ok h
  obtain ⟨st1, hst1, h⟩ := er_bind_ok h
  simp only [pure, Except.pure, Except.ok.injEq] at h
  subst h
  obtain ⟨ch, _, _, _, rfl⟩ := addChild_ok hst1
  refine ⟨k2, req, hreq, by simp only [setTopChildren_stack], ?_⟩
  have hk1' : k1.minOccurs = (if req then 1 else 0) ∧ k1.multi = false := by
    split at hk1
    · split at hk1
      · cases hk1
      · unfold addDefault at hk1
        repeat' split at hk1
        all_goals first | (cases hk1; done) | (obtain ⟨d, rfl⟩ := addValueInfo_ok hk1; exact ⟨rfl, rfl⟩)
    · cases hk1; exact ⟨rfl, rfl⟩
  split at hk2
  · unfold finishKey at hk2
    split at hk2
    · cases hk2
    · cases hk2; exact hk1'
  · cases hk2; exact hk1'

/-- the key frame pushed by `<multikey>` records `required` as `minOccurs` -/
theorem startMultikey_ok_stack {env : Env} {st st' : PSt} {attrs : Attrs} (h : startMultikey env st attrs = .ok st') :
    ∃ k req, getRequired attrs = .ok req ∧ st'.stack = .key k :: st.stack ∧ k.minOccurs = (if req then 1 else 0) ∧
      k.multi = true := by
  rw [startMultikey_eq] at h
  split at h
  · cases h
  obtain ⟨r, _, h⟩ := er_bind_ok h
  obtain ⟨req, hreq, h⟩ := er_bind_ok h
  obtain ⟨st1, hst1, h⟩ := er_bind_ok h
  simp only [pure, Except.pure, Except.ok.injEq] at h
  subst h
  obtain ⟨ch, _, _, _, rfl⟩ := addChild_ok hst1
  exact ⟨newKey r req true, req, hreq, by simp only [setTopChildren_stack], rfl, rfl⟩

/-! ## 6. multisections are named `*` or `+` -/

theorem startMultisection_ok_name {env : Env} {st st' : PSt} {attrs : Attrs}
    (h : startMultisection env st attrs = .ok st') :
    ∃ n, effName attrs (some ['*']) = some n ∧ (n = ['*'] ∨ n = ['+']) := by
  unfold startMultisection at h
  obtain ⟨ty, _, h⟩ := er_bind_ok h
  obtain ⟨req, _, h⟩ := er_bind_ok h
  obtain ⟨r, hr, h⟩ := er_bind_ok h
  obtain ⟨n, a, h1, _, _, _, h5⟩ := getNameInfo_ok hr
  rcases h5 with ⟨hw, _⟩ | ⟨_, h6, _⟩
  · exact ⟨n, h1, hw⟩
  · obtain ⟨r1, r2, r3⟩ := r
    simp only at h6; subst h6
    cases h

theorem startMultisection_fixed_name (env : Env) (st : PSt) (attrs : Attrs) (ty : Str) (req : Bool)
    (nm an : Option Str) (ht : getSectiontype st attrs = .ok ty) (hq : getRequired attrs = .ok req)
    (hn : getNameInfo env st attrs (some ['*']) = .ok (none, nm, an)) :
    startMultisection env st attrs = .error (.schema "multisection must specify '*' or '+' for the name") := by
  unfold startMultisection
  simp only [bind, Except.bind, ht, hq, hn]
  rfl

/-! ## 8. defaults are keyed exactly for wildcard keys, and keys do not collide -/

theorem addDefault_finished (k : EKey) (v : Str) (key : Option Str) (hf : k.finished = true) :
    addDefault k v key = .error (.schema "cannot add default values to finished KeyInfo") := by
  unfold addDefault; rw [if_pos hf]; rfl

theorem addDefault_unkeyed_wild (k : EKey) (v : Str) (hf : k.finished = false) (hn : k.name = ['+']) :
    addDefault k v none = .error (.schema "default values must be keyed for name='+'") := by
  unfold addDefault
  rw [if_neg (by simp [hf]), if_pos (by simp [hn])]; rfl

theorem addDefault_keyed_fixed (k : EKey) (v kk : Str) (hf : k.finished = false) (hn : k.name ≠ ['+']) :
    addDefault k v (some kk) = .error (.schema "unexpected key for default value") := by
  unfold addDefault
  rw [if_neg (by simp [hf]), if_neg (by simp), if_pos (by simp [hn])]; rfl

theorem addDefault_wellkeyed (k : EKey) (v : Str) (key : Option Str) (hf : k.finished = false)
    (hk : k.name = ['+'] ↔ key.isSome = true) :
    addDefault k v key = addValueInfo k { value := v, pos := defaultPos } key := by
  unfold addDefault
  rw [if_neg (by simp [hf])]
  by_cases hn : k.name = ['+']
  · cases key with
    | none => exact absurd (hk.1 hn) (by simp)
    | some kk => rw [if_neg (by simp), if_neg (by simp [hn])]
  · cases key with
    | none => rw [if_neg (by simp [hn]), if_neg (by simp)]
    | some kk => exact absurd (hk.2 rfl) hn

theorem addDefault_ok {k k' : EKey} {v : Str} {key : Option Str} (h : addDefault k v key = .ok k') :
    k.finished = false ∧ (k.name = ['+'] ↔ key.isSome = true) ∧
      addValueInfo k { value := v, pos := defaultPos } key = .ok k' := by
  have hf : k.finished = false := by
    cases hf : k.finished with
    | false => rfl
    | true => rw [addDefault_finished k v key hf] at h; cases h
  have hk : k.name = ['+'] ↔ key.isSome = true := by
    by_cases hn : k.name = ['+']
    · cases key with
      | none => rw [addDefault_unkeyed_wild k v hf hn] at h; cases h
      | some kk => simp [hn]
    · cases key with
      | none => simp [hn]
      | some kk => rw [addDefault_keyed_fixed k v kk hf hn] at h; cases h
  exact ⟨hf, hk, by rw [← addDefault_wellkeyed k v key hf hk]; exact h⟩

theorem addDefault_error_schema_of_shape {k : EKey} {v : Str} {key : Option Str} {e : EFail}
    (hshape : k.multi = false) (hd : (k.name = ['+'] → ∃ m, k.dflt = .keyed m) ∧
      (k.name ≠ ['+'] → k.dflt = .none ∨ ∃ vi, k.dflt = .one vi))
    (h : addDefault k v key = .error e) : e.isSchema := by
  unfold addDefault at h
  split at h
  · cases h; trivial
  · split at h
    · cases h; trivial
    · split at h
      · cases h; trivial
      · unfold addValueInfo at h
        simp only [hshape, Bool.false_eq_true, ↓reduceIte] at h
        by_cases hn : k.name = ['+']
        · obtain ⟨m, hm⟩ := hd.1 hn
          simp only [hn, hm, beq_self_eq_true, ↓reduceIte] at h
          split at h
          · cases h; trivial
          · cases h
        · have hn' : (k.name == ['+']) = false := by simp [hn]
          simp only [hn', Bool.false_eq_true, ↓reduceIte] at h
          rcases hd.2 hn with h0 | ⟨vi, h1⟩
          · simp only [h0] at h; cases h
          · simp only [h1] at h; cases h; trivial

/-- single-valued `+` key: a repeated key is refused -/
theorem addValueInfo_single_dup (k : EKey) (vi : VI) (kk : Str) (m : List (Str × VI)) (hm : k.multi = false)
    (hn : k.name = ['+']) (hd : k.dflt = .keyed m) (hk : kk ∈ m.map (·.1)) :
    addValueInfo k vi (some kk) = .error (.schema "duplicate default value for key") := by
  unfold addValueInfo
  simp only [hm, Bool.false_eq_true, ↓reduceIte, hn, beq_self_eq_true, hd, Option.getD_some]
  rw [if_pos ((any_fst_beq m kk).2 hk)]; rfl

theorem addValueInfo_single_new (k : EKey) (vi : VI) (kk : Str) (m : List (Str × VI)) (hm : k.multi = false)
    (hn : k.name = ['+']) (hd : k.dflt = .keyed m) (hk : kk ∉ m.map (·.1)) :
    addValueInfo k vi (some kk) = .ok { k with dflt := .keyed (m ++ [(kk, vi)]) } := by
  unfold addValueInfo
  simp only [hm, Bool.false_eq_true, ↓reduceIte, hn, beq_self_eq_true, hd, Option.getD_some]
  rw [if_neg (fun hc => hk ((any_fst_beq m kk).1 hc))]

/-- single-valued fixed key: a second default is refused -/
theorem addValueInfo_single_second (k : EKey) (vi vi0 : VI) (key : Option Str) (hm : k.multi = false)
    (hn : k.name ≠ ['+']) (hd : k.dflt = .one vi0) :
    addValueInfo k vi key = .error (.schema "cannot set more than one default to key with maxOccurs == 1") := by
  unfold addValueInfo
  have hn' : (k.name == ['+']) = false := by simp [hn]
  simp only [hm, Bool.false_eq_true, ↓reduceIte, hn', hd]; rfl

/-- one step of `computedefault` for a single-valued `+` key -/
def cdStep (env : Env) (kt : Str) (acc : EKey) (p : Str × VI) : EM EKey := do
  let key ← convDefaultKey env kt p.1
  addValueInfo acc p.2 (some key)

/-- the keys as written, each normalised by the key type -/
def normKeys (env : Env) (kt : Str) (m : List (Str × VI)) : EM (List Str) := m.mapM fun p => convDefaultKey env kt p.1

theorem cdFold_ok (env : Env) (kt : Str) :
    ∀ (m : List (Str × VI)) (ks : List Str) (acc : EKey) (d : List (Str × VI)),
      acc.multi = false → acc.name = ['+'] → acc.dflt = .keyed d → normKeys env kt m = .ok ks →
      (((∀ x ∈ ks, x ∉ d.map (·.1)) ∧ ks.Nodup) →
          m.foldlM (cdStep env kt) acc = .ok { acc with dflt := .keyed (d ++ ks.zip (m.map (·.2))) }) ∧
      (¬ ((∀ x ∈ ks, x ∉ d.map (·.1)) ∧ ks.Nodup) →
          m.foldlM (cdStep env kt) acc = .error (.schema "duplicate default value for key")) := by
  intro m
  induction m with
  | nil =>
    intro ks acc d _ _ hd hks
    simp only [normKeys, List.mapM_nil, pure, Except.pure, Except.ok.injEq] at hks
    subst hks
    constructor
    · intro _
      simp only [List.foldlM_nil, pure, Except.pure, List.zip_nil_left, List.append_nil, ← hd]
    · intro hc; exact absurd ⟨by simp, List.nodup_nil⟩ hc
  | cons p m ih =>
    intro ks acc d hm hn hd hks
    obtain ⟨key, ks', h1, h2, rfl⟩ := mapM_ok_cons _ p m ks hks
    rw [List.foldlM_cons]
    have hstep : cdStep env kt acc p = addValueInfo acc p.2 (some key) := by
      simp only [cdStep, h1, bind, Except.bind]
    rw [hstep]
    by_cases hk : key ∈ d.map (·.1)
    · rw [addValueInfo_single_dup acc p.2 key d hm hn hd hk]
      constructor
      · rintro ⟨hdis, _⟩; exact absurd hk (hdis key (by simp))
      · intro _; rfl
    · rw [addValueInfo_single_new acc p.2 key d hm hn hd hk]
      have ih' := ih ks' { acc with dflt := .keyed (d ++ [(key, p.2)]) } (d ++ [(key, p.2)]) hm hn rfl h2
      have hmem : ∀ x, x ∈ (d ++ [(key, p.2)]).map (·.1) ↔ x ∈ d.map (·.1) ∨ x = key := by
        intro x; simp [List.map_append]
      have hequiv : ((∀ x ∈ ks', x ∉ (d ++ [(key, p.2)]).map (·.1)) ∧ ks'.Nodup) ↔
          ((∀ x ∈ key :: ks', x ∉ d.map (·.1)) ∧ (key :: ks').Nodup) := by
        rw [List.nodup_cons]
        constructor
        · rintro ⟨h3, h4⟩
          refine ⟨?_, fun hc => (h3 key hc) ((hmem key).2 (Or.inr rfl)), h4⟩
          intro x hx
          rcases List.mem_cons.1 hx with rfl | hx
          · exact hk
          · exact fun hc => h3 x hx ((hmem x).2 (Or.inl hc))
        · rintro ⟨h3, h4, h5⟩
          refine ⟨fun x hx hc => ?_, h5⟩
          rcases (hmem x).1 hc with hc | rfl
          · exact h3 x (List.mem_cons_of_mem _ hx) hc
          · exact h4 hx
      constructor
      · intro hc
        have := ih'.1 (hequiv.2 hc)
        simp only [bind, Except.bind]
        rw [this]
        simp [List.append_assoc]
      · intro hc
        have := ih'.2 (fun h => hc (hequiv.1 h))
        simp only [bind, Except.bind]
        rw [this]

theorem cdFold_fail (env : Env) (kt : Str) :
    ∀ (m : List (Str × VI)) (e : EFail) (acc : EKey), normKeys env kt m = .error e →
      ∃ e', m.foldlM (cdStep env kt) acc = .error e' := by
  intro m
  induction m with
  | nil => intro e acc h; simp [normKeys, pure, Except.pure] at h
  | cons p m ih =>
    intro e acc h
    rw [List.foldlM_cons]
    simp only [normKeys, List.mapM_cons] at h
    cases h1 : convDefaultKey env kt p.1 with
    | error e1 => exact ⟨e1, by simp only [cdStep, h1, bind, Except.bind]⟩
    | ok key =>
      cases h2 : addValueInfo acc p.2 (some key) with
      | error e2 => exact ⟨e2, by simp only [cdStep, h1, h2, bind, Except.bind]⟩
      | ok acc' =>
        have hm : normKeys env kt m = .error e := by
          cases h3 : normKeys env kt m with
          | error e3 =>
            simp only [normKeys] at h3
            simp only [h1, h3, bind, Except.bind, Except.error.injEq] at h
            rw [h]
          | ok ks =>
            simp only [normKeys] at h3
            simp only [h1, h3, bind, Except.bind, pure, Except.pure] at h
            cases h
        obtain ⟨e', he'⟩ := ih e acc' hm
        exact ⟨e', by simp only [cdStep, h1, h2, bind, Except.bind]; exact he'⟩

theorem computeDefault_single_eq (env : Env) (kt : Str) (k : EKey) (m : List (Str × VI)) (hn : k.name = ['+'])
    (hraw : k.raw.getD k.dflt = .keyed m) :
    computeDefault env kt k = m.foldlM (cdStep env kt) { k with raw := some (.keyed m), dflt := .keyed [] } := by
  unfold computeDefault
  rw [if_neg (by simp [hn])]
  simp only [hraw]
  rfl

/-- single-valued `+` key: `computedefault` succeeds exactly when every key as written is accepted by the key type and
no two of them normalise to the same key; the result pairs the normalised keys with the values, in order -/
theorem computeDefault_single (env : Env) (kt : Str) (k : EKey) (m : List (Str × VI)) (ks : List Str)
    (hn : k.name = ['+']) (hm : k.multi = false) (hraw : k.raw.getD k.dflt = .keyed m)
    (hks : normKeys env kt m = .ok ks) :
    (ks.Nodup → computeDefault env kt k =
        .ok { k with raw := some (.keyed m), dflt := .keyed (ks.zip (m.map (·.2))) }) ∧
    (¬ ks.Nodup → computeDefault env kt k = .error (.schema "duplicate default value for key")) := by
  rw [computeDefault_single_eq env kt k m hn hraw]
  have := cdFold_ok env kt m ks { k with raw := some (.keyed m), dflt := .keyed [] } [] hm hn rfl hks
  constructor
  · intro hnd
    have h1 := this.1 ⟨by simp, hnd⟩
    rw [h1]; simp
  · intro hnd
    exact this.2 (fun h => hnd h.2)

theorem computeDefault_single_ok {env : Env} {kt : Str} {k k' : EKey} {m : List (Str × VI)}
    (hn : k.name = ['+']) (hm : k.multi = false) (hraw : k.raw.getD k.dflt = .keyed m)
    (h : computeDefault env kt k = .ok k') :
    ∃ ks, normKeys env kt m = .ok ks ∧ ks.Nodup ∧
      k' = { k with raw := some (.keyed m), dflt := .keyed (ks.zip (m.map (·.2))) } := by
  cases hks : normKeys env kt m with
  | error e =>
    rw [computeDefault_single_eq env kt k m hn hraw] at h
    obtain ⟨e', he'⟩ := cdFold_fail env kt m e { k with raw := some (.keyed m), dflt := .keyed [] } hks
    rw [he'] at h; cases h
  | ok ks =>
    obtain ⟨h1, h2⟩ := computeDefault_single env kt k m ks hn hm hraw hks
    by_cases hnd : ks.Nodup
    · rw [h1 hnd] at h; cases h; exact ⟨ks, rfl, hnd, rfl⟩
    · rw [h2 hnd] at h; cases h

/-! ## 10. element nesting, stray text, document element -/

theorem nestingCheck_eq (parent name : Str) :
    nestingCheck parent name =
      match Gen.allowedParents.find? (·.1 == name) with
      | none => .error (.schema "Unknown tag")
      | some (_, ps) => if ps.contains parent then .ok () else .error (.schema "elements may not be nested") := rfl

theorem nestingCheck_ok_iff_find (parent name : Str) :
    nestingCheck parent name = .ok () ↔
      ∃ ps, Gen.allowedParents.find? (·.1 == name) = some (name, ps) ∧ parent ∈ ps := by
  rw [nestingCheck_eq]
  cases hf : Gen.allowedParents.find? (·.1 == name) with
  | none => simp
  | some q =>
    obtain ⟨n, ps⟩ := q
    have hn := (find_fst_some _ _ _ hf).1
    simp only at hn; subst hn
    simp only
    by_cases hc : ps.contains parent = true
    · rw [if_pos hc]
      simp only [Option.some.injEq, Prod.mk.injEq, true_and, exists_eq_left', true_iff]
      simpa using hc
    · rw [if_neg hc]
      constructor
      · intro h; cases h
      · rintro ⟨ps', h1, h2⟩
        cases h1
        exact absurd (by simpa using h2) hc

theorem allowedParents_keys_nodup : (Gen.allowedParents.map (·.1)).Nodup := by decide +kernel

theorem find_of_mem_nodup {β} : ∀ (l : List (Str × β)) (n : Str) (b : β), (l.map (·.1)).Nodup → (n, b) ∈ l →
    l.find? (·.1 == n) = some (n, b) := by
  intro l
  induction l with
  | nil => intro n b _ h; cases h
  | cons a l ih =>
    intro n b hnd hm
    rw [List.map_cons, List.nodup_cons] at hnd
    rw [List.find?_cons]
    rcases List.mem_cons.1 hm with rfl | hm
    · simp
    · have : (a.1 == n) = false := by
        simp only [beq_eq_false_iff_ne, ne_eq]
        exact fun e => hnd.1 (e ▸ List.mem_map.2 ⟨(n, b), hm, rfl⟩)
      rw [this]
      exact ih n b hnd.2 hm

/-- an element is accepted below `parent` exactly when the table lists `parent` for it -/
theorem nestingCheck_ok_iff (parent name : Str) :
    nestingCheck parent name = .ok () ↔ ∃ ps, (name, ps) ∈ Gen.allowedParents ∧ parent ∈ ps := by
  rw [nestingCheck_ok_iff_find]
  constructor
  · rintro ⟨ps, h1, h2⟩; exact ⟨ps, List.mem_of_find?_eq_some h1, h2⟩
  · rintro ⟨ps, h1, h2⟩; exact ⟨ps, find_of_mem_nodup _ _ _ allowedParents_keys_nodup h1, h2⟩

theorem nestingCheck_error {parent name : Str} {e : EFail} (h : nestingCheck parent name = .error e) : e.isSchema := by
  rw [nestingCheck_eq] at h
  split at h
  · cases h; trivial
  · split at h
    · cases h
    · cases h; trivial

theorem nestingCheck_of_table (parent name : Str) (ps : List Str)
    (h : Gen.allowedParents.find? (·.1 == name) = some (name, ps)) :
    nestingCheck parent name = .ok () ↔ parent ∈ ps := by
  rw [nestingCheck_ok_iff_find, h]
  simp

theorem visitChildren_text (env : Env) (h : Hooks) (d : DocKind) (parent : Str) (st : PSt) (s : Str) (r : List Node) :
    visitChildren env h d parent st (.text s :: r) =
      if (strip s).isEmpty then visitChildren env h d parent st r
      else .error (.schema "unexpected non-blank character data") := by
  rw [visitChildren]; rfl

theorem visitChildren_elem (env : Env) (h : Hooks) (d : DocKind) (parent : Str) (st : PSt) (t : Str) (a : Attrs)
    (c r : List Node) :
    visitChildren env h d parent st (.elem t a c :: r) =
      (visitElem env h d (some parent) st (.elem t a c) >>= fun st' => visitChildren env h d parent st' r) := by
  rw [visitChildren]
  cases visitElem env h d (some parent) st (.elem t a c) <;> rfl

theorem visitElem_nesting_error (env : Env) (h : Hooks) (d : DocKind) (parent : Str) (st : PSt) (t : Str) (a : Attrs)
    (c : List Node) (e : EFail) (hn : nestingCheck parent t = .error e) :
    visitElem env h d (some parent) st (.elem t a c) = .error e := by
  unfold visitElem
  simp only [hn]

theorem visitElem_ok_nesting {env : Env} {h : Hooks} {d : DocKind} {parent : Str} {st st' : PSt} {t : Str} {a : Attrs}
    {c : List Node} (hv : visitElem env h d (some parent) st (.elem t a c) = .ok st') :
    nestingCheck parent t = .ok () := by
  cases hn : nestingCheck parent t with
  | error e => rw [visitElem_nesting_error env h d parent st t a c e hn] at hv; cases hv
  | ok u => rfl

/-- a document whose root is not the expected element is refused at once -/
theorem visitElem_wrong_root (env : Env) (h : Hooks) (d : DocKind) (st : PSt) (t : Str) (a : Attrs) (c : List Node)
    (ht : t ≠ d.topLevel) :
    visitElem env h d none st (.elem t a c) = .error (.schema "UnknownDocumentTypeError") := by
  unfold visitElem
  simp only [bne_iff_ne, ne_eq, ht, not_false_eq_true, ↓reduceIte]

/-- a successful pass over the children of an element: all text is blank, all elements are allowed there -/
theorem visitChildren_ok_all {env : Env} {h : Hooks} {d : DocKind} {parent : Str} :
    ∀ {l : List Node} {st st' : PSt}, visitChildren env h d parent st l = .ok st' →
      ∀ n ∈ l, match n with
        | .text s => (strip s).isEmpty = true
        | .elem t _ _ => nestingCheck parent t = .ok () := by
  intro l
  induction l with
  | nil => intro st st' _ n hn; cases hn
  | cons x l ih =>
    intro st st' hv n hn
    cases x with
    | text s =>
      rw [visitChildren_text] at hv
      by_cases hb : (strip s).isEmpty = true
      · rw [if_pos hb] at hv
        rcases List.mem_cons.1 hn with rfl | hn
        · exact hb
        · exact ih hv n hn
      · rw [if_neg hb] at hv; cases hv
    | elem t a c =>
      rw [visitChildren_elem] at hv
      obtain ⟨st1, h1, h2⟩ := er_bind_ok hv
      rcases List.mem_cons.1 hn with rfl | hn
      · exact visitElem_ok_nesting h1
      · exact ih h2 n hn

/-! ## C11 d. a component is merged once -/

/-- the string under which an imported component is remembered -/
def importSource (pkg file : Str) : Str := "package:".toList ++ pkg ++ [':'] ++ file
/-- the `file` attribute, `component.xml` by default -/
def importFile (attrs : Attrs) : Str :=
  if (attrStrip attrs "file").isEmpty then "component.xml".toList else attrStrip attrs "file"

/-- `start_import` for a well-formed `<import package=…>`, once the package name is resolved against the prefix -/
theorem startImport_package (env : Env) (h : Hooks) (st : PSt) (attrs : Attrs) (pkg' : Str)
    (hsrc : attrStrip attrs "src" = []) (hpkg : attrStrip attrs "package" ≠ [])
    (hfile : (attrStrip attrs "file").contains '/' = false)
    (hcls : getClassname st (attrStrip attrs "package") = .ok pkg')
    (hsplit : (splitOnChar pkg' '.').contains [] = false) :
    startImport env h st attrs =
      match env.comps pkg' (importFile attrs) with
      | .notImportable => .error (.schemaResource "could not load package")
      | .notPackage => .error (.schemaResource "import name does not refer to a package")
      | .noFile =>
        if st.es.components.contains (importSource pkg' (importFile attrs)) then .ok st
        else .error (.schemaResource "component file not found")
      | .doc tree =>
        if st.es.components.contains (importSource pkg' (importFile attrs)) then .ok st
        else (h.loadComponent { st.es with components := st.es.components ++ [importSource pkg' (importFile attrs)] } tree).map
              fun es2 => { st with es := es2 } := by
  have hpkg' : (attrStrip attrs "package").isEmpty = false := by
    cases hp : attrStrip attrs "package" with
    | nil => exact absurd hp hpkg
    | cons c cs => rfl
  unfold startImport importSource importFile
  simp only [bind, Except.bind, pure, Except.pure, hsrc, hpkg', hfile, hcls, hsplit, List.isEmpty_nil,
    Bool.and_false, Bool.false_eq_true, ↓reduceIte, Bool.not_true, Bool.and_true, Bool.not_false]
  cases env.comps pkg' (if (attrStrip attrs "file").isEmpty = true then "component.xml".toList else attrStrip attrs "file") with
  | notImportable => rfl
  | notPackage => rfl
  | noFile => simp only
  | doc tree =>
    simp only
    split
    · rfl
    · cases h.loadComponent _ tree <;> rfl

/-- already merged: nothing is read, nothing changes — whatever the hooks are -/
theorem startImport_once (env : Env) (h : Hooks) (st : PSt) (attrs : Attrs) (pkg' : Str)
    (hsrc : attrStrip attrs "src" = []) (hpkg : attrStrip attrs "package" ≠ [])
    (hfile : (attrStrip attrs "file").contains '/' = false)
    (hcls : getClassname st (attrStrip attrs "package") = .ok pkg')
    (hsplit : (splitOnChar pkg' '.').contains [] = false)
    (hres : env.comps pkg' (importFile attrs) = .noFile ∨ ∃ tree, env.comps pkg' (importFile attrs) = .doc tree)
    (hin : importSource pkg' (importFile attrs) ∈ st.es.components) :
    startImport env h st attrs = .ok st := by
  rw [startImport_package env h st attrs pkg' hsrc hpkg hfile hcls hsplit]
  have hc : st.es.components.contains (importSource pkg' (importFile attrs)) = true := by simpa using hin
  rcases hres with h1 | ⟨tree, h1⟩ <;> rw [h1] <;> simp only [hc, ↓reduceIte]

/-- not merged yet: the component is recorded first, and read with the record already in place -/
theorem startImport_first (env : Env) (h : Hooks) (st : PSt) (attrs : Attrs) (pkg' : Str) (tree : Node)
    (hsrc : attrStrip attrs "src" = []) (hpkg : attrStrip attrs "package" ≠ [])
    (hfile : (attrStrip attrs "file").contains '/' = false)
    (hcls : getClassname st (attrStrip attrs "package") = .ok pkg')
    (hsplit : (splitOnChar pkg' '.').contains [] = false)
    (hres : env.comps pkg' (importFile attrs) = .doc tree)
    (hin : importSource pkg' (importFile attrs) ∉ st.es.components) :
    startImport env h st attrs =
      (h.loadComponent { st.es with components := st.es.components ++ [importSource pkg' (importFile attrs)] } tree).map
        fun es2 => { st with es := es2 } := by
  rw [startImport_package env h st attrs pkg' hsrc hpkg hfile hcls hsplit, hres]
  have hc : st.es.components.contains (importSource pkg' (importFile attrs)) = false := by
    cases hcc : st.es.components.contains (importSource pkg' (importFile attrs)) with
    | false => rfl
    | true => exact absurd (by simpa using hcc) hin
  simp only [hc, Bool.false_eq_true, ↓reduceIte]

/-! ## `start_abstracttype`, and the error forms of `start_sectiontype` -/

theorem startAbstracttype_named (st : PSt) (attrs : Attrs) (v n : Str) (hv : attr attrs "name" = some v)
    (hn : basicKeyE v = .ok n) :
    startAbstracttype st attrs =
      (addType st.es n (.abstract_ n [] false)).map fun es => { st with es := es, stack := .atype n :: st.stack } := by
  unfold startAbstracttype
  rw [hv]
  cases v with
  | nil => rw [basicKeyE_nil] at hn; cases hn
  | cons c cs =>
    simp only [hn, bind, Except.bind, pure, Except.pure]
    cases addType st.es n (.abstract_ n [] false) <;> rfl

theorem startAbstracttype_noname (st : PSt) (attrs : Attrs) (h : (attr attrs "name").getD [] = []) :
    startAbstracttype st attrs = .error (.schema "abstracttype name must not be omitted or empty") := by
  unfold startAbstracttype
  cases ha : attr attrs "name" with
  | none => rfl
  | some v => rw [ha] at h; simp only [Option.getD_some] at h; subst h; rfl

theorem startAbstracttype_badname (st : PSt) (attrs : Attrs) (v : Str) (e : EFail) (hv : attr attrs "name" = some v)
    (hne : v ≠ []) (hn : basicKeyE v = .error e) : startAbstracttype st attrs = .error e := by
  unfold startAbstracttype
  rw [hv]
  cases v with
  | nil => exact absurd rfl hne
  | cons c cs => simp only [hn, bind, Except.bind]

/-- `<abstracttype>` can only fail with a schema error -/
theorem startAbstracttype_error {st : PSt} {attrs : Attrs} {e : EFail} (h : startAbstracttype st attrs = .error e) :
    e.isSchema := by
  by_cases h0 : (attr attrs "name").getD [] = []
  · rw [startAbstracttype_noname st attrs h0] at h; cases h; trivial
  · cases hv : attr attrs "name" with
    | none => rw [hv] at h0; exact absurd rfl h0
    | some v =>
      have hne : v ≠ [] := by rw [hv] at h0; exact h0
      cases hn : basicKeyE v with
      | error e' =>
        rw [startAbstracttype_badname st attrs v e' hv hne hn] at h
        cases h; exact basicKeyE_error hn
      | ok n =>
        rw [startAbstracttype_named st attrs v n hv hn] at h
        cases ha : addType st.es n (.abstract_ n [] false) with
        | ok es => rw [ha] at h; cases h
        | error e' =>
          rw [ha] at h
          cases h
          rw [(addType_error ha).2]; trivial

theorem startSectiontype_of_base_error (env : Env) (st : PSt) (attrs : Attrs) (v name : Str) (st1 : PSt) (e : EFail)
    (hn : attr attrs "name" = some v) (hb : basicKeyE v = .ok name) (hp : pushPrefix st attrs = .ok st1)
    (he : sectiontypeBase env st1 attrs name = .error e) : startSectiontype env st attrs = .error e := by
  rw [startSectiontype_steps env st attrs v name st1 hn hb hp]
  simp only [he, bind, Except.bind]

theorem startSectiontype_of_implements_error (env : Env) (st : PSt) (attrs : Attrs) (v name : Str) (st1 : PSt) (es2 : ES)
    (e : EFail) (hn : attr attrs "name" = some v) (hb : basicKeyE v = .ok name) (hp : pushPrefix st attrs = .ok st1)
    (h2 : sectiontypeBase env st1 attrs name = .ok es2)
    (he : sectiontypeImplements es2 attrs name = .error e) : startSectiontype env st attrs = .error e := by
  rw [startSectiontype_steps env st attrs v name st1 hn hb hp]
  simp only [h2, he, bind, Except.bind]

/-- lookup in the table extended by the new (concrete) entry -/
theorem gettype_append_concrete (es : ES) (name m : Str) (t : EType) :
    ({ es with types := es.types ++ [(name, .concrete t)] } : ES).gettype m =
      match es.gettype m with
      | some p => some p
      | none => if name = lower m then some (name, .concrete t) else none := by
  simp only [ES.gettype, List.find?_append]
  cases es.types.find? (·.1 == lower m) with
  | some p => rfl
  | none =>
    simp only [Option.none_or, List.find?_cons]
    by_cases h : name = lower m
    · simp [h]
    · have : (name == lower m) = false := by simpa using h
      simp [this, h]

/-! ## defaults re-normalised under a derived key type; collisions reported when the key element ends -/

theorem mapM_append_error {ε α β} (f : α → Except ε β) (pre post : List α) (x : α) (r : List β) (e : ε)
    (hpre : pre.mapM f = .ok r) (hx : f x = .error e) : (pre ++ x :: post).mapM f = .error e := by
  induction pre generalizing r with
  | nil => simp only [List.nil_append, List.mapM_cons, hx, bind, Except.bind]
  | cons a pre ih =>
    obtain ⟨b, bs, h1, h2, _⟩ := mapM_ok_cons f a pre r hpre
    simp only [List.cons_append, List.mapM_cons, h1, bind, Except.bind, ih bs h2]

/-- a wildcard key of the base whose defaults collide under the new key type stops the derivation with that
`SchemaError` (the children before it being derivable) -/
theorem deriveChildren_collision (env : Env) (kt : Str) (pre post : List (Option Str × EInfo)) (pre' : List (Option Str × EInfo))
    (key : Option Str) (k : EKey) (m : List (Str × VI)) (ks : List Str)
    (hpre : deriveChildren env kt pre = .ok pre') (hn : k.name = ['+']) (hm : k.multi = false)
    (hraw : k.raw.getD k.dflt = .keyed m) (hks : normKeys env kt m = .ok ks) (hdup : ¬ ks.Nodup) :
    deriveChildren env kt (pre ++ (key, .key k) :: post) = .error (.schema "duplicate default value for key") := by
  rw [deriveChildren_eq] at hpre ⊢
  apply mapM_append_error _ _ _ _ _ _ hpre
  simp only [deriveChild, hn, beq_self_eq_true, ↓reduceIte,
    (computeDefault_single env kt k m ks hn hm hraw hks).2 hdup, bind, Except.bind]

theorem sectiontypeBase_derive_error (env : Env) (st1 : PSt) (attrs : Attrs) (name b bn key kt dt : Str) (base : EType)
    (e : EFail) (hx : attr attrs "extends" = some b) (hb : basicKeyE b = .ok bn)
    (hg : st1.es.gettype bn = some (key, .concrete base))
    (hi : getSectTypeinfo env st1 attrs (some (base.keytype, base.datatype)) = .ok (kt, dt))
    (hfresh : name ∉ st1.es.typeNames) (hd : deriveChildren env kt base.children = .error e) :
    sectiontypeBase env st1 attrs name = .error e := by
  unfold sectiontypeBase
  rw [hx]; simp only [hb, bind, Except.bind, hg, hi]
  rw [addType_fresh _ _ _ hfresh]
  simp only [hd]

theorem endKey_eq (env : Env) (st : PSt) (k : EKey) (rest : List Frame) (hs : st.stack = .key k :: rest) :
    endKey env st =
      (do let k' ← (if k.name == ['+'] then do
                      let kt ← topKeytype { st with stack := rest }
                      let k1 ← computeDefault env kt k
                      finishKey k1
                    else pure k)
          replaceLastChild { st with stack := rest } k') := by
  unfold endKey
  rw [hs]
  simp only [bind, Except.bind, pure, Except.pure]
  split
  · cases topKeytype { st with stack := rest } with
    | error e => rfl
    | ok kt =>
      simp only
      cases computeDefault env kt k with
      | error e => rfl
      | ok k1 => rfl
  · rfl

/-- `</key>` of a single-valued `+` key: colliding defaults are reported there, as a `SchemaError` -/
theorem endKey_collision (env : Env) (st : PSt) (k : EKey) (rest : List Frame) (kt : Str) (m : List (Str × VI))
    (ks : List Str) (hs : st.stack = .key k :: rest) (hn : k.name = ['+']) (hm : k.multi = false)
    (hkt : topKeytype { st with stack := rest } = .ok kt)
    (hraw : k.raw.getD k.dflt = .keyed m) (hks : normKeys env kt m = .ok ks) (hdup : ¬ ks.Nodup) :
    endKey env st = .error (.schema "duplicate default value for key") := by
  rw [endKey_eq env st k rest hs]
  simp only [hn, beq_self_eq_true, ↓reduceIte, hkt, bind, Except.bind,
    (computeDefault_single env kt k m ks hn hm hraw hks).2 hdup]

/-! ## attribute names, key names under the key type, datatype names -/

theorem getNameInfo_attr_error (env : Env) (st : PSt) (attrs : Attrs) (dflt : Option Str) (n : Str) (e : EFail)
    (hn : effName attrs dflt = some n) (hne : n ≠ []) (ha : attrNameE attrs = .error e) :
    getNameInfo env st attrs dflt = .error e := by
  rw [getNameInfo_eq, hn]
  cases n with
  | nil => exact absurd rfl hne
  | cons c cs => simp only [ha, bind, Except.bind]

/-- `get_name_info` for a fixed name, once the container's key type has accepted it -/
theorem getNameInfo_fixed (env : Env) (st : PSt) (attrs : Attrs) (dflt : Option Str) (n kt nm : Str) (aname : Option Str)
    (hn : effName attrs dflt = some n) (hne : n ≠ []) (hw : ¬ (n = ['*'] ∨ n = ['+']))
    (ha : attrNameE attrs = .ok aname) (hkt : topKeytype st = .ok kt) (hnm : convKeyName env kt n = .ok nm) :
    getNameInfo env st attrs dflt =
      (match aname with
      | some a => .ok (none, some nm, some a)
      | none => (do
        let a ← basicKeyE nm
        let a' ← identifierE (a.map fun ch => if ch == '-' then '_' else ch)
        pure (none, some nm, some a'))) := by
  rw [getNameInfo_eq, hn]
  cases n with
  | nil => exact absurd rfl hne
  | cons c cs =>
    have hc : Gen.anyNames.contains (c :: cs) = false := by
      cases h : Gen.anyNames.contains (c :: cs) with
      | false => rfl
      | true => exact absurd ((anyNames_iff _).1 h) hw
    simp only [ha, hc, hkt, hnm, bind, Except.bind, Bool.false_eq_true, ↓reduceIte]
    cases aname <;> rfl

theorem getNameInfo_fixed_badkey (env : Env) (st : PSt) (attrs : Attrs) (dflt : Option Str) (n kt : Str)
    (aname : Option Str) (e : EFail)
    (hn : effName attrs dflt = some n) (hne : n ≠ []) (hw : ¬ (n = ['*'] ∨ n = ['+']))
    (ha : attrNameE attrs = .ok aname) (hkt : topKeytype st = .ok kt) (hnm : convKeyName env kt n = .error e) :
    getNameInfo env st attrs dflt = .error e := by
  rw [getNameInfo_eq, hn]
  cases n with
  | nil => exact absurd rfl hne
  | cons c cs =>
    have hc : Gen.anyNames.contains (c :: cs) = false := by
      cases h : Gen.anyNames.contains (c :: cs) with
      | false => rfl
      | true => exact absurd ((anyNames_iff _).1 h) hw
    simp only [ha, hc, hkt, hnm, bind, Except.bind, Bool.false_eq_true, ↓reduceIte]

theorem convKeyName_cases (env : Env) (kt name : Str) :
    (∀ r, env.conv.key kt name = .ok r → convKeyName env kt name = .ok r) ∧
    (env.conv.key kt name = .error .valueError →
        convKeyName env kt name = .error (.schema "could not convert key name to keytype")) := by
  constructor
  · intro r h; unfold convKeyName; rw [h]
  · intro h; unfold convKeyName; rw [h]; rfl

/-- `Registry.get`, by cases -/
theorem regGet_cases (env : Env) (name : Str) :
    (name.contains '.' = false → DTSpec.isBasicKey name = false →
        regGet env name = .error (.schema "value did not match regular expression")) ∧
    (name.contains '.' = false → DTSpec.isBasicKey name = true → Gen.stockNames.contains (asciiLower name) = false →
        regGet env name = .error (.schema "unloadable datatype name")) ∧
    (name.contains '.' = false → DTSpec.isBasicKey name = true → Gen.stockNames.contains (asciiLower name) = true →
        regGet env name = .ok (asciiLower name)) ∧
    (name.contains '.' = true → env.dotted name = .valueError →
        regGet env name = .error (.schema "datatype (registry ValueError)")) ∧
    (∀ c, name.contains '.' = true → env.dotted name = .found c → regGet env name = .ok c) ∧
    (∀ x, name.contains '.' = true → env.dotted name = .raises x → regGet env name = .error (.internal x)) := by
  refine ⟨?_, ?_, ?_, ?_, ?_, ?_⟩
  · intro h1 h2
    unfold regGet
    rw [h1, if_neg (by simp), DT.basicKey_eq_spec]; unfold DTSpec.basicKey
    rw [if_neg (by simp [h2])]; rfl
  · intro h1 h2 h3
    unfold regGet
    rw [h1, if_neg (by simp), DT.basicKey_eq_spec]; unfold DTSpec.basicKey
    rw [if_pos h2]; simp only [h3, Bool.false_eq_true, ↓reduceIte]; rfl
  · intro h1 h2 h3
    unfold regGet
    rw [h1, if_neg (by simp), DT.basicKey_eq_spec]; unfold DTSpec.basicKey
    rw [if_pos h2]; simp only [h3, ↓reduceIte]
  · intro h1 h2
    unfold regGet
    rw [h1, if_pos rfl, h2]; rfl
  · intro c h1 h2
    unfold regGet
    rw [h1, if_pos rfl, h2]
  · intro x h1 h2
    unfold regGet
    rw [h1, if_pos rfl, h2]

/-! ## multi-valued wildcard keys: equal keys merge, nothing is refused -/

theorem addValueInfo_multi_ok (k : EKey) (vi : VI) (kk : Str) (m : List (Str × List VI)) (hm : k.multi = true)
    (hn : k.name = ['+']) (hd : k.dflt = .keyedMany m) :
    ∃ m', addValueInfo k vi (some kk) = .ok { k with dflt := .keyedMany m' } := by
  unfold addValueInfo
  simp only [hm, ↓reduceIte, hn, beq_self_eq_true, hd, Option.getD_some]
  split
  · exact ⟨_, rfl⟩
  · exact ⟨_, rfl⟩

theorem foldlM_ok_of_step {ε α β} (P : β → Prop) (f : β → α → Except ε β)
    (hf : ∀ b a, P b → ∃ b', f b a = .ok b' ∧ P b') :
    ∀ (l : List α) (init : β), P init → ∃ r, l.foldlM f init = .ok r ∧ P r := by
  intro l
  induction l with
  | nil => intro init hp; exact ⟨init, rfl, hp⟩
  | cons a l ih =>
    intro init hp
    obtain ⟨b', h1, h2⟩ := hf init a hp
    obtain ⟨r, h3, h4⟩ := ih b' h2
    exact ⟨r, by rw [List.foldlM_cons, h1]; exact h3, h4⟩

theorem foldlM_ok_of_step_mem {ε α β} (P : β → Prop) (f : β → α → Except ε β) :
    ∀ (l : List α) (init : β), (∀ b a, a ∈ l → P b → ∃ b', f b a = .ok b' ∧ P b') → P init →
      ∃ r, l.foldlM f init = .ok r ∧ P r := by
  intro l
  induction l with
  | nil => intro init _ hp; exact ⟨init, rfl, hp⟩
  | cons a l ih =>
    intro init hf hp
    obtain ⟨b', h1, h2⟩ := hf init a (by simp) hp
    obtain ⟨r, h3, h4⟩ := ih b' (fun b x hx => hf b x (List.mem_cons_of_mem _ hx)) h2
    exact ⟨r, by rw [List.foldlM_cons, h1]; exact h3, h4⟩

/-- a multi-valued `+` key: whenever the key type accepts every key as written, `computedefault` succeeds —
defaults whose keys coincide after normalisation are merged, not refused -/
theorem computeDefault_multi_ok (env : Env) (kt : Str) (k : EKey) (m : List (Str × List VI))
    (hn : k.name = ['+']) (hm : k.multi = true) (hraw : k.raw.getD k.dflt = .keyedMany m)
    (hks : ∀ p ∈ m, ∃ key, convDefaultKey env kt p.1 = .ok key) :
    ∃ m', computeDefault env kt k = .ok { k with raw := some (.keyedMany m), dflt := .keyedMany m' } := by
  unfold computeDefault
  rw [if_neg (by simp [hn])]
  simp only [hraw]
  let P : EKey → Prop := fun acc => ∃ m', acc = { k with raw := some (.keyedMany m), dflt := .keyedMany m' }
  have hstep : ∀ (b : EKey) (p : Str × List VI), p ∈ m → P b →
      ∃ b', (do let key ← convDefaultKey env kt p.1
                p.2.foldlM (fun (a : EKey) (vi : VI) => addValueInfo a vi (some key)) b) = .ok b' ∧ P b' := by
    intro b p hp hb
    obtain ⟨key, hkey⟩ := hks p hp
    simp only [hkey, bind, Except.bind]
    refine foldlM_ok_of_step P _ ?_ p.2 b hb
    rintro b2 vi ⟨m2, rfl⟩
    obtain ⟨m3, h3⟩ := addValueInfo_multi_ok { k with raw := some (.keyedMany m), dflt := .keyedMany m2 } vi key m2 hm hn rfl
    exact ⟨_, h3, m3, rfl⟩
  obtain ⟨r, h1, m', rfl⟩ := foldlM_ok_of_step_mem P _ m _ hstep ⟨[], rfl⟩
  exact ⟨m', h1⟩

end ZCV.Elab
