import ZCV.Lemmas.Inet6Loop
/-!
`pton6 s = true ↔ DTSpec.Inet6Text s`: the texts the loop accepts (`V6Tail`) are the colon-joined lists of the grammar.
-/
namespace ZCV.DT
open ZCV ZCV.DTSpec

/-! ### first characters -/

theorem v6_colon_not_v6Hex : v6Hex ':' = false := by decide
theorem v6_colon_not_digit : isAsciiDigit ':' = false := by decide

theorem v6_hexGroup_head (g : Str) (h : HexGroup g) : ∃ ch r, g = ch :: r ∧ ch ≠ ':' := by
  obtain ⟨h1, _, h3⟩ := h
  cases g with
  | nil => simp at h1
  | cons ch r =>
    refine ⟨ch, r, rfl, ?_⟩
    rintro rfl
    have := h3 ':' (List.mem_cons_self ..)
    rw [v6_colon_not_v6Hex] at this; cases this

theorem v6_v4_head (q : Str) (h : V4Text q) : ∃ ch r, q = ch :: r ∧ ch ≠ ':' := by
  obtain ⟨a, b, c, d, rfl, ⟨hne, hd, _, _⟩, _, _, _⟩ := h
  cases a with
  | nil => exact absurd rfl hne
  | cons ch r =>
    refine ⟨ch, _, rfl, ?_⟩
    rintro rfl
    have := hd ':' (List.mem_cons_self ..)
    rw [v6_colon_not_digit] at this; cases this

theorem v6_pieces_mem (ps : List Str) (n : Nat) (h : V6Pieces ps n) : ∀ p ∈ ps, HexGroup p ∨ V4Text p := by
  obtain ⟨gs, hgs, ⟨rfl, _⟩ | ⟨q, hq, rfl, _⟩⟩ := h
  · exact fun p hp => Or.inl (hgs p hp)
  · intro p hp
    rcases List.mem_append.mp hp with hp | hp
    · exact Or.inl (hgs p hp)
    · rw [List.mem_singleton] at hp; subst hp; exact Or.inr hq

theorem v6_piece_head (p : Str) (h : HexGroup p ∨ V4Text p) : ∃ ch r, p = ch :: r ∧ ch ≠ ':' :=
  h.elim (v6_hexGroup_head p) (v6_v4_head p)

theorem v6_join_cons_ne (g : Str) (ps : List Str) (h : ps ≠ []) : joinColon (g :: ps) = g ++ ':' :: joinColon ps := by
  cases ps with
  | nil => exact absurd rfl h
  | cons p ps => rfl

theorem v6_join_head (ch : Char) (r : Str) (ps : List Str) : ∃ r', joinColon ((ch :: r) :: ps) = ch :: r' := by
  cases ps with
  | nil => exact ⟨r, rfl⟩
  | cons p ps => exact ⟨r ++ ':' :: joinColon (p :: ps), rfl⟩

/-- a joined non-empty list of pieces starts with a character other than a colon -/
theorem v6_join_pieces_head (ps : List Str) (n : Nat) (h : V6Pieces ps n) (hne : ps ≠ []) :
    ∃ ch r, joinColon ps = ch :: r ∧ ch ≠ ':' := by
  cases ps with
  | nil => exact absurd rfl hne
  | cons p ps =>
    obtain ⟨ch, r, rfl, hc⟩ := v6_piece_head p (v6_pieces_mem _ n h p (List.mem_cons_self ..))
    obtain ⟨r', hr'⟩ := v6_join_head ch r ps
    exact ⟨ch, r', hr', hc⟩

/-! ### the left part of a compressed address: every group followed by a colon -/

def v6Pre : List Str → Str
  | [] => []
  | g :: gs => g ++ ':' :: v6Pre gs

theorem v6_pre_eq (ls : List Str) (h : ls ≠ []) : v6Pre ls = joinColon ls ++ [':'] := by
  induction ls with
  | nil => exact absurd rfl h
  | cons g ls ih =>
    cases ls with
    | nil => simp [v6Pre, joinColon]
    | cons p ps =>
      rw [v6Pre, ih (List.cons_ne_nil _ _), v6_join_cons_ne g _ (List.cons_ne_nil _ _)]
      simp

/-! ### pieces -/

theorem v6_nil_all : ∀ g ∈ ([] : List Str), HexGroup g := fun _ h => by cases h

theorem v6_pieces_nil : V6Pieces [] 0 := ⟨[], v6_nil_all, Or.inl ⟨rfl, rfl⟩⟩

theorem v6_pieces_cons (g : Str) (hg : HexGroup g) (ps : List Str) (n : Nat) (h : V6Pieces ps n) :
    V6Pieces (g :: ps) (n + 1) := by
  obtain ⟨gs, hgs, hc⟩ := h
  refine ⟨g :: gs, ?_, ?_⟩
  · intro x hx
    rcases List.mem_cons.mp hx with rfl | hx
    · exact hg
    · exact hgs x hx
  · rcases hc with ⟨rfl, rfl⟩ | ⟨q, hq, rfl, rfl⟩
    · exact Or.inl ⟨rfl, rfl⟩
    · exact Or.inr ⟨q, hq, rfl, by simp⟩

theorem v6_tail_nil_zero (n : Nat) (c : Bool) (h : V6Tail [] n c) : n = 0 := by
  generalize ht : ([] : Str) = t at h
  cases h with
  | nil => rfl
  | gap t n _ => cases ht
  | grp g hg => subst ht; exact absurd hg.1 (by simp)
  | v4 q hv =>
    subst ht
    obtain ⟨ch, r, h, _⟩ := v6_v4_head _ hv
    cases h
  | cons g t n c hg _ _ =>
    obtain ⟨ch, r, rfl, _⟩ := v6_hexGroup_head g hg
    cases ht

/-- from the shape the loop accepts to the lists of the grammar -/
theorem v6_tail_lists (t : Str) (n : Nat) (c : Bool) (h : V6Tail t n c) :
    (c = false → ∃ ps, V6Pieces ps n ∧ t = joinColon ps) ∧
    (c = true → ∃ ls rs k, (∀ g ∈ ls, HexGroup g) ∧ V6Pieces rs k ∧ n = ls.length + k ∧
      t = v6Pre ls ++ ':' :: joinColon rs) := by
  induction h with
  | nil => exact ⟨fun _ => ⟨[], v6_pieces_nil, rfl⟩, fun h => by cases h⟩
  | gap t n _ ih =>
    refine ⟨(fun h => by cases h), fun _ => ?_⟩
    obtain ⟨ps, hps, rfl⟩ := ih.1 rfl
    exact ⟨[], ps, n, v6_nil_all, hps, by simp, rfl⟩
  | grp g hg =>
    refine ⟨fun _ => ⟨[g], ?_, rfl⟩, fun h => by cases h⟩
    exact v6_pieces_cons g hg [] 0 v6_pieces_nil
  | v4 q hv =>
    refine ⟨fun _ => ⟨[q], ?_, rfl⟩, fun h => by cases h⟩
    exact ⟨[], v6_nil_all, Or.inr ⟨q, hv, rfl, rfl⟩⟩
  | cons g t n c hg hne _ ih =>
    constructor
    · intro hc
      obtain ⟨ps, hps, rfl⟩ := ih.1 hc
      have hpne : ps ≠ [] := by
        rintro rfl
        exact hne rfl
      exact ⟨g :: ps, v6_pieces_cons g hg ps n hps, (v6_join_cons_ne g ps hpne).symm⟩
    · intro hc
      obtain ⟨ls, rs, k, hls, hrs, rfl, rfl⟩ := ih.2 hc
      refine ⟨g :: ls, rs, k, ?_, hrs, by simp; omega, by simp [v6Pre]⟩
      intro x hx
      rcases List.mem_cons.mp hx with rfl | hx
      · exact hg
      · exact hls x hx

/-- hex groups joined by colons -/
theorem v6_groups_tail : ∀ (gs : List Str), (∀ g ∈ gs, HexGroup g) → V6Tail (joinColon gs) gs.length false := by
  intro gs
  induction gs with
  | nil => intro _; exact V6Tail.nil
  | cons g gs ih =>
    intro h
    have hg := h g (List.mem_cons_self ..)
    have ih := ih (fun x hx => h x (List.mem_cons_of_mem _ hx))
    cases gs with
    | nil => exact V6Tail.grp g hg
    | cons p ps =>
      rw [v6_join_cons_ne g _ (List.cons_ne_nil _ _)]
      refine V6Tail.cons g _ _ false hg ?_ ih
      intro he
      rw [he] at ih
      have := v6_tail_nil_zero _ _ ih
      simp at this

/-- hex groups and a final dotted quad, joined by colons -/
theorem v6_groups_v4_tail (q : Str) (hq : V4Text q) :
    ∀ (gs : List Str), (∀ g ∈ gs, HexGroup g) → V6Tail (joinColon (gs ++ [q])) (gs.length + 2) false := by
  intro gs
  induction gs with
  | nil => intro _; exact V6Tail.v4 q hq
  | cons g gs ih =>
    intro h
    have hg := h g (List.mem_cons_self ..)
    have ih := ih (fun x hx => h x (List.mem_cons_of_mem _ hx))
    rw [List.cons_append, v6_join_cons_ne g _ (by simp)]
    have hlen : (g :: gs).length + 2 = (gs.length + 2) + 1 := by simp
    rw [hlen]
    refine V6Tail.cons g _ _ false hg ?_ ih
    intro he
    rw [he] at ih
    have := v6_tail_nil_zero _ _ ih
    omega

theorem v6_pieces_tail (ps : List Str) (n : Nat) (h : V6Pieces ps n) : V6Tail (joinColon ps) n false := by
  obtain ⟨gs, hgs, ⟨h1, h2⟩ | ⟨q, hq, h1, h2⟩⟩ := h
  · rw [h1, h2]; exact v6_groups_tail gs hgs
  · rw [h1, h2]; exact v6_groups_v4_tail q hq gs hgs

theorem v6_lists_tail (rs : List Str) (k : Nat) (hrs : V6Pieces rs k) :
    ∀ (ls : List Str), (∀ g ∈ ls, HexGroup g) → V6Tail (v6Pre ls ++ ':' :: joinColon rs) (ls.length + k) true := by
  intro ls
  induction ls with
  | nil =>
    intro _
    rw [List.length_nil, Nat.zero_add]
    exact V6Tail.gap _ k (v6_pieces_tail rs k hrs)
  | cons g ls ih =>
    intro h
    have hlen : (g :: ls).length + k = (ls.length + k) + 1 := by simp; omega
    rw [hlen]
    have : v6Pre (g :: ls) ++ ':' :: joinColon rs = g ++ ':' :: (v6Pre ls ++ ':' :: joinColon rs) := by simp [v6Pre]
    rw [this]
    exact V6Tail.cons g _ _ true (h g (List.mem_cons_self ..)) (by simp)
      (ih (fun x hx => h x (List.mem_cons_of_mem _ hx)))

/-- a text that starts with a colon and is accepted by the loop: that colon is the second one of `::` -/
theorem v6_tail_colon' (t : Str) (n : Nat) (c : Bool) (h : V6Tail t n c) :
    ∀ r, t = ':' :: r → c = true ∧ V6Tail r n false := by
  cases h with
  | nil => intro r ht; cases ht
  | gap t n hT => intro r ht; injection ht with _ h2; subst h2; exact ⟨rfl, hT⟩
  | grp g hg =>
    intro r ht
    obtain ⟨ch, r', he, hc⟩ := v6_hexGroup_head _ hg
    rw [he] at ht
    injection ht with h1 _; exact absurd h1 hc
  | v4 q hv =>
    intro r ht
    obtain ⟨ch, r', he, hc⟩ := v6_v4_head _ hv
    rw [he] at ht
    injection ht with h1 _; exact absurd h1 hc
  | cons g t n c hg _ _ =>
    intro r ht
    obtain ⟨ch, r', he, hc⟩ := v6_hexGroup_head g hg
    rw [he] at ht
    injection ht with h1 _; exact absurd h1 hc

theorem v6_tail_colon (r : Str) (n : Nat) (c : Bool) (h : V6Tail (':' :: r) n c) : c = true ∧ V6Tail r n false :=
  v6_tail_colon' _ n c h r rfl

/-! ### the entry point -/

theorem v6_pton6_nil : pton6 [] = false := rfl
theorem v6_pton6_colon_colon (r : Str) : pton6 (':' :: ':' :: r) = pton6Loop (':' :: r) (':' :: r) 0 false 0 := rfl
theorem v6_pton6_colon_nil : pton6 [':'] = false := rfl
theorem v6_pton6_colon_other (c : Char) (r : Str) (h : c ≠ ':') : pton6 (':' :: c :: r) = false := by
  unfold pton6
  split
  · rename_i heq; cases heq
  · rename_i r0 heq
    injection heq with _ h2; subst h2
    split
    · rename_i heq2; injection heq2 with h3 _; exact absurd h3 h
    · rfl
  · rename_i hn; exact absurd rfl (hn _)
theorem v6_pton6_other (c : Char) (r : Str) (h : c ≠ ':') :
    pton6 (c :: r) = pton6Loop (c :: r) (c :: r) 0 false 0 := by
  unfold pton6
  split
  · rename_i heq; cases heq
  · rename_i r0 heq
    injection heq with h1 _; exact absurd h1 h
  · rfl

/-- **glibc's `inet_pton(AF_INET6, ·)` accepts exactly the RFC 4291 §2.2 text forms** -/
theorem v6_pton6_iff (s : Str) : pton6 s = true ↔ Inet6Text s := by
  constructor
  · intro h
    cases s with
    | nil => rw [v6_pton6_nil] at h; cases h
    | cons c r =>
      by_cases hc : c = ':'
      · subst hc
        cases r with
        | nil => rw [v6_pton6_colon_nil] at h; cases h
        | cons c' r' =>
          by_cases hc' : c' = ':'
          · subst hc'
            rw [v6_pton6_colon_colon, v6_loop_iff _ 0 false (by omega)] at h
            obtain ⟨n, c, hT, _, ha⟩ := h
            obtain ⟨rfl, hT'⟩ := v6_tail_colon r' n c hT
            obtain ⟨ps, hps, rfl⟩ := (v6_tail_lists r' n false hT').1 rfl
            simp only [Bool.or_true, if_true] at ha
            exact Or.inr ⟨[], ps, n, v6_nil_all, hps, by simp; omega, rfl⟩
          · rw [v6_pton6_colon_other c' r' hc'] at h; cases h
      · rw [v6_pton6_other c r hc, v6_loop_iff _ 0 false (by omega)] at h
        obtain ⟨n, cc, hT, _, ha⟩ := h
        cases cc with
        | false =>
          obtain ⟨ps, hps, he⟩ := (v6_tail_lists _ n false hT).1 rfl
          simp only [Bool.or_false, Bool.false_eq_true, if_false] at ha
          have hn : n = 8 := by omega
          subst hn
          exact Or.inl ⟨ps, hps, he⟩
        | true =>
          obtain ⟨ls, rs, k, hls, hrs, rfl, he⟩ := (v6_tail_lists _ n true hT).2 rfl
          simp only [Bool.or_true, if_true] at ha
          have hlne : ls ≠ [] := by
            rintro rfl
            rw [v6Pre, List.nil_append] at he
            injection he with h1 _
            exact hc h1
          rw [v6_pre_eq ls hlne] at he
          refine Or.inr ⟨ls, rs, k, hls, hrs, by omega, ?_⟩
          rw [he]; simp
  · rintro (⟨ps, hps, rfl⟩ | ⟨ls, rs, k, hls, hrs, hk, rfl⟩)
    · have hne : ps ≠ [] := by
        rintro rfl
        obtain ⟨gs, _, ⟨h1, h2⟩ | ⟨q, _, h1, _⟩⟩ := hps
        · subst h1; simp at h2
        · simp at h1
      obtain ⟨ch, r, he, hc⟩ := v6_join_pieces_head ps 8 hps hne
      have hT := v6_pieces_tail ps 8 hps
      rw [he] at hT ⊢
      rw [v6_pton6_other ch r hc, v6_loop_iff _ 0 false (by omega)]
      exact ⟨8, false, hT, by simp, by simp⟩
    · by_cases hlne : ls = []
      · subst hlne
        have hT := v6_lists_tail rs k hrs [] v6_nil_all
        rw [v6Pre, List.nil_append] at hT
        show pton6 (':' :: ':' :: joinColon rs) = true
        rw [v6_pton6_colon_colon, v6_loop_iff _ 0 false (by omega)]
        exact ⟨_, true, hT, by simp, by simp at hk ⊢; omega⟩
      · have hT := v6_lists_tail rs k hrs ls hls
        rw [v6_pre_eq ls hlne] at hT
        have he : joinColon ls ++ ':' :: ':' :: joinColon rs = (joinColon ls ++ [':']) ++ ':' :: joinColon rs := by simp
        rw [he]
        obtain ⟨ch, r, hj, hc⟩ := v6_join_pieces_head ls ls.length ⟨ls, hls, Or.inl ⟨rfl, rfl⟩⟩ hlne
        rw [hj] at hT ⊢
        rw [List.cons_append, List.cons_append] at hT ⊢
        rw [v6_pton6_other ch _ hc, v6_loop_iff _ 0 false (by omega)]
        exact ⟨_, true, hT, by simp, by simp; omega⟩

end ZCV.DT
