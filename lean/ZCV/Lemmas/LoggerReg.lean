import ZCV.Model.Logger
/-!
C20 — the registry of re-openable handlers: the invariant of `stepReg` over every operation sequence.
-/
namespace ZCV.Log
open ZCV

/-- a handler the registry still has to know about: referenced and not closed -/
def H.live (h : H) : Bool := h.alive && !h.closed

/-- the invariant of the registry: handler ids are `0..n-1` in creation order, and the registry is exactly the list of
    ids of the live handlers, in creation order -/
structure RegInv (r : Reg) : Prop where
  ids : r.handlers.map (·.id) = List.range r.handlers.length
  reg : r.registry = (r.handlers.filter H.live).map (·.id)

theorem regInv_init : RegInv { handlers := [], registry := [] } := ⟨rfl, rfl⟩

/-! #### generic list facts -/

theorem logreg_uniq_of_nodup {hs : List H} (hn : (hs.map (·.id)).Nodup) {a b : H} (ha : a ∈ hs) (hb : b ∈ hs)
    (hab : a.id = b.id) : a = b := by
  induction hs with
  | nil => cases ha
  | cons x t ih =>
    simp only [List.map_cons, List.nodup_cons, List.mem_map, not_exists, not_and] at hn
    rcases List.mem_cons.1 ha with rfl | ha' <;> rcases List.mem_cons.1 hb with rfl | hb'
    · rfl
    · exact absurd hab.symm (hn.1 b hb')
    · exact absurd hab (hn.1 a ha')
    · exact ih hn.2 ha' hb'

theorem logreg_getH_of_mem {hs : List H} (hn : (hs.map (·.id)).Nodup) {a : H} (ha : a ∈ hs) : getH hs a.id = some a := by
  unfold getH
  cases hf : hs.find? (·.id == a.id) with
  | none =>
    have := List.find?_eq_none.1 hf a ha
    simp at this
  | some b =>
    have hb := List.mem_of_find?_eq_some hf
    have hid := List.find?_some hf
    simp only [beq_iff_eq] at hid
    rw [logreg_uniq_of_nodup hn hb ha hid]

theorem logreg_getH_some {hs : List H} {i : Nat} {a : H} (h : getH hs i = some a) : a ∈ hs ∧ a.id = i := by
  unfold getH at h
  refine ⟨List.mem_of_find?_eq_some h, ?_⟩
  have := List.find?_some h
  simpa using this

theorem logreg_map_ids {hs : List H} {g : H → H} (hg : ∀ h, (g h).id = h.id) : (hs.map g).map (·.id) = hs.map (·.id) := by
  rw [List.map_map]
  apply List.map_congr_left
  intro a _
  exact hg a

theorem logreg_filter_live_map {hs : List H} {g : H → H} (hid : ∀ h, (g h).id = h.id) (hl : ∀ h, (g h).live = h.live) :
    ((hs.map g).filter H.live).map (·.id) = (hs.filter H.live).map (·.id) := by
  induction hs with
  | nil => rfl
  | cons x t ih =>
    simp only [List.map_cons, List.filter_cons, hl x]
    split
    · simp only [List.map_cons, hid x, ih]
    · exact ih

theorem logreg_updH_ids (hs : List H) (i : Nat) {f : H → H} (hf : ∀ h, (f h).id = h.id) :
    (updH hs i f).map (·.id) = hs.map (·.id) := by
  unfold updH
  apply logreg_map_ids
  intro h
  split
  · exact hf h
  · rfl

theorem logreg_updH_length (hs : List H) (i : Nat) (f : H → H) : (updH hs i f).length = hs.length := by
  unfold updH; exact List.length_map _

/-- switching the handlers called `i` off removes exactly `i` from the list of live ids -/
theorem logreg_updH_kill (hs : List H) (i : Nat) {f : H → H} (hl : ∀ h, (f h).live = false) :
    ((updH hs i f).filter H.live).map (·.id) = ((hs.filter H.live).map (·.id)).filter (· != i) := by
  unfold updH
  induction hs with
  | nil => rfl
  | cons x t ih =>
    simp only [List.map_cons, List.filter_cons]
    by_cases hx : x.id = i
    · have hx' : (x.id == i) = true := by simpa using hx
      simp only [hx', ↓reduceIte, hl x, Bool.false_eq_true]
      by_cases hlx : x.live = true
      · simp only [hlx, ↓reduceIte, List.map_cons, List.filter_cons, hx, bne_self_eq_false, Bool.false_eq_true]
        exact ih
      · simp only [hlx, Bool.false_eq_true, ↓reduceIte]
        exact ih
    · have hx' : (x.id == i) = false := by simpa using hx
      simp only [hx', Bool.false_eq_true, ↓reduceIte]
      by_cases hlx : x.live = true
      · have : (x.id != i) = true := by simpa using hx
        simp only [hlx, ↓reduceIte, List.map_cons, List.filter_cons, this]
        rw [ih]
      · simp only [hlx, Bool.false_eq_true, ↓reduceIte]
        exact ih

/-! #### consequences of the invariant -/

theorem RegInv.ids_nodup {r : Reg} (hr : RegInv r) : (r.handlers.map (·.id)).Nodup := by
  rw [hr.ids]; exact List.nodup_range

theorem RegInv.uniq {r : Reg} (hr : RegInv r) {a b : H} (ha : a ∈ r.handlers) (hb : b ∈ r.handlers) (hab : a.id = b.id) :
    a = b := logreg_uniq_of_nodup hr.ids_nodup ha hb hab

/-- membership in the registry, for a handler of the table: exactly the live ones -/
theorem RegInv.contains_iff {r : Reg} (hr : RegInv r) {a : H} (ha : a ∈ r.handlers) :
    r.registry.contains a.id = a.live := by
  rw [Bool.eq_iff_iff, List.contains_iff_mem, hr.reg]
  simp only [List.mem_map, List.mem_filter]
  constructor
  · rintro ⟨b, ⟨hb, hbl⟩, hid⟩
    rw [← hr.uniq hb ha hid]; exact hbl
  · intro hl
    exact ⟨a, ⟨ha, hl⟩, rfl⟩

theorem RegInv.mem_registry_iff {r : Reg} (hr : RegInv r) (i : Nat) :
    i ∈ r.registry ↔ ∃ h ∈ r.handlers, h.id = i ∧ h.alive = true ∧ h.closed = false := by
  rw [hr.reg]
  simp only [List.mem_map, List.mem_filter, H.live, Bool.and_eq_true, Bool.not_eq_true']
  constructor
  · rintro ⟨b, ⟨hb, hbl⟩, hid⟩; exact ⟨b, hb, hid, hbl⟩
  · rintro ⟨b, hb, hid, hbl⟩; exact ⟨b, ⟨hb, hbl⟩, hid⟩

/-- the handler with id `i` sits at position `i` -/
theorem RegInv.getElem_id {r : Reg} (hr : RegInv r) (i : Nat) (hi : i < r.handlers.length) : (r.handlers[i]).id = i := by
  have h1 : (r.handlers.map (·.id))[i]'(by simpa using hi) = (List.range r.handlers.length)[i]'(by simpa using hi) := by
    simp only [hr.ids]
  simpa using h1

/-! #### one step preserves the invariant -/

theorem regInv_create {r : Reg} (hr : RegInv r) : RegInv (stepReg r .create) := by
  constructor
  · simp only [stepReg, List.map_append, List.map_cons, List.map_nil, List.length_append, List.length_cons,
      List.length_nil, Nat.zero_add, List.range_succ, hr.ids]
  · simp only [stepReg, List.filter_append, List.map_append, hr.reg]
    rfl

theorem regInv_drop {r : Reg} (hr : RegInv r) (i : Nat) : RegInv (stepReg r (.drop i)) := by
  constructor
  · simp only [stepReg]
    rw [logreg_updH_ids _ _ (f := fun h => { h with alive := false }) (fun _ => rfl), logreg_updH_length, hr.ids]
  · simp only [stepReg]
    rw [logreg_updH_kill _ _ (f := fun h => { h with alive := false }) (fun h => by simp [H.live]), hr.reg]

theorem regInv_close {r : Reg} (hr : RegInv r) (i : Nat) : RegInv (stepReg r (.close i)) := by
  simp only [stepReg]
  split
  · split
    · constructor
      · simp only
        rw [logreg_updH_ids _ _ (f := fun h => { h with closed := true }) (fun _ => rfl), logreg_updH_length, hr.ids]
      · simp only
        rw [logreg_updH_kill _ _ (f := fun h => { h with closed := true }) (fun h => by simp [H.live]), hr.reg]
    · exact hr
  · exact hr

theorem logreg_prune_eq {r : Reg} (hr : RegInv r) : (stepReg r .reopenFiles).registry = r.registry := by
  simp only [stepReg]
  rw [List.filter_eq_self]
  intro i hi
  obtain ⟨h, hm, hid, ha, _⟩ := (hr.mem_registry_iff i).1 hi
  have := logreg_getH_of_mem hr.ids_nodup hm
  rw [hid] at this
  simp only [this]; exact ha

theorem regInv_reopenFiles {r : Reg} (hr : RegInv r) : RegInv (stepReg r .reopenFiles) := by
  have hid : ∀ h : H, (if r.registry.contains h.id && h.alive then { h with reopened := h.reopened + 1 } else h).id = h.id := by
    intro h; split <;> rfl
  have hl : ∀ h : H, (if r.registry.contains h.id && h.alive then { h with reopened := h.reopened + 1 } else h).live = h.live := by
    intro h; split <;> rfl
  constructor
  · simp only [stepReg, List.length_map]
    rw [logreg_map_ids hid, hr.ids]
  · rw [logreg_prune_eq hr]
    simp only [stepReg]
    rw [logreg_filter_live_map hid hl, hr.reg]

theorem regInv_closeFiles {r : Reg} (hr : RegInv r) : RegInv (stepReg r .closeFiles) := by
  have hid : ∀ h : H, (if r.registry.contains h.id && h.alive then { h with closed := true } else h).id = h.id := by
    intro h; split <;> rfl
  constructor
  · simp only [stepReg, List.length_map]
    rw [logreg_map_ids hid, hr.ids]
  · simp only [stepReg]
    symm
    rw [List.map_eq_nil_iff, List.filter_eq_nil_iff]
    intro a ha
    obtain ⟨b, hb, rfl⟩ := List.mem_map.1 ha
    rw [hr.contains_iff hb]
    by_cases hc : (b.live && b.alive) = true
    · rw [if_pos hc]
      simp only [H.live, Bool.not_true, Bool.and_false, Bool.false_eq_true, not_false_eq_true]
    · rw [if_neg hc]
      intro hl
      apply hc
      simp only [H.live, Bool.and_eq_true, Bool.not_eq_true'] at hl ⊢
      exact ⟨hl, hl.1⟩

theorem regInv_step {r : Reg} (hr : RegInv r) (op : Op) : RegInv (stepReg r op) := by
  cases op with
  | create => exact regInv_create hr
  | drop i => exact regInv_drop hr i
  | close i => exact regInv_close hr i
  | reopenFiles => exact regInv_reopenFiles hr
  | closeFiles => exact regInv_closeFiles hr

theorem regInv_foldl (ops : List Op) {r : Reg} (hr : RegInv r) : RegInv (ops.foldl stepReg r) := by
  induction ops generalizing r with
  | nil => exact hr
  | cons op rest ih => exact ih (regInv_step hr op)

theorem regInv_run (ops : List Op) : RegInv (runReg ops) := regInv_foldl ops regInv_init

theorem runReg_append (ops1 ops2 : List Op) : runReg (ops1 ++ ops2) = ops2.foldl stepReg (runReg ops1) := by
  unfold runReg; rw [List.foldl_append]

end ZCV.Log
