import ZCV.Lemmas.OverrideSim
/-!
C14 at the level of whole loads: `loadTreeOv` against `edit`, and the text-level loader with overrides against
`loadTreeOv` on the tree of the text.
-/
namespace ZCV.Conf
open ZCV ZCV.Cfg

/-! ### editing without pending overrides only drops the overridden key lines -/

/-- is this item kept when the keys `keys` of its section are overridden? -/
def keptItem (norm : Str → Except ConvErr Str) (keys : List Str) : Item → Bool
  | .kv k _ _ => !overridden norm keys k
  | .sect _ _ _ => true

theorem editItems_nopend (conv : Conv) (s : Schema) (asGiven : Bool) (norm : Str → Except ConvErr Str) (keys : List Str) :
    ∀ (l : List Item), editItems conv s asGiven norm keys l [] = .ok (l.filter (keptItem norm keys), [])
  | [] => by rw [editItems]; rfl
  | .kv k v p :: r => by
    rw [editItems, editItem]
    simp only
    rw [editItems_nopend conv s asGiven norm keys r, List.filter_cons]
    have hk : keptItem norm keys (.kv k v p) = !overridden norm keys k := rfl
    rw [hk]
    cases overridden norm keys k <;> rfl
  | .sect ty nm sub :: r => by
    rw [editItems, editItem]
    simp only [List.filter_nil, List.isEmpty_nil, if_true]
    rw [editItems_nopend conv s asGiven norm keys r, List.filter_cons]
    rfl

theorem overridden_nil (norm : Str → Except ConvErr Str) (k : Str) : overridden norm [] k = false := by
  unfold overridden
  cases norm k <;> rfl

theorem filter_kept_nil (norm : Str → Except ConvErr Str) (l : List Item) : l.filter (keptItem norm []) = l := by
  rw [List.filter_eq_self]
  intro i _
  cases i with
  | kv k v p =>
    show (!overridden norm [] k) = true
    rw [overridden_nil]; rfl
  | sect ty nm sub => rfl

/-- no overrides: nothing to edit -/
theorem editBody_nil (conv : Conv) (s : Schema) (asGiven : Bool) (kt : Str) (items : List Item) :
    editBody conv s asGiven kt items [] = .ok items := by
  unfold editBody
  rw [splitOvs]
  simp only
  rw [show groupsOf [] = [] from rfl, List.map_nil, editItems_nopend, filter_kept_nil]
  show Except.ok (items ++ newLines asGiven []) = _
  rw [show newLines asGiven [] = [] from rfl, List.append_nil]

/-! ### the whole load -/

/-- what follows `finishMatcher` at the end of a load -/
def topPost (conv : Conv) (s : Schema) (r : Val × List (Str × Val)) : M Val :=
  match conv.sect s.top.datatype r.1 with
  | .ok v => .ok v
  | .error e => .error (convFail e none { line := -1, url := none } "schema datatype")

theorem topFin_eq (conv : Conv) (s : Schema) (m : Matcher) :
    topFin conv s m = finishMatcher conv s m >>= topPost conv s := rfl

theorem loadTreeOv_body (conv : Conv) (s : Schema) (items : List Item) (o : OptItem) (ovs : List OptItem) :
    loadTreeOv conv s items (o :: ovs) = bodyOv conv s (newMatcher s.top none none) items (o :: ovs) >>= topPost conv s := by
  rw [loadTreeOv_eq]
  unfold bagOf bodyOv
  show ((mkBag conv s.top (o :: ovs)).map some >>= _) =
    (mkBag conv s.top (o :: ovs) >>= fun child =>
      evalItemsB conv s (withBag (newMatcher s.top none none) (some child)) items >>= finishMatcher conv s) >>= topPost conv s
  cases mkBag conv s.top (o :: ovs) with
  | error e => rfl
  | ok b =>
    show (evalItemsB conv s (newMatcher s.top none (some b)) items >>= topFin conv s) =
      (evalItemsB conv s (withBag (newMatcher s.top none none) (some b)) items >>= finishMatcher conv s) >>= topPost conv s
    rw [← newMatcher_withBag]
    cases evalItemsB conv s (newMatcher s.top none (some b)) items with
    | error e => rfl
    | ok m => rfl

/-- **Overrides = edit, then load** (both spellings of the supplied keys) -/
theorem loadTreeOv_editBody (conv : Conv) (s : Schema) (asGiven : Bool) (hsp : SpellOK conv s asGiven) (items : List Item)
    (ovs : List OptItem) (hcan : tyCanon s items = true) (hovs : OvsOK ovs) :
    match editBody conv s asGiven s.top.keytype items ovs with
    | .error _ => ∃ e, loadTreeOv conv s items ovs = .error e
    | .ok items' => loadTreeOv conv s items ovs = loadTree conv s items' := by
  cases ovs with
  | nil =>
    rw [editBody_nil]
    exact loadTreeOv_nil conv s items
  | cons o ovs =>
    have hbody := body_of_sim conv s asGiven hsp items (simItems conv s asGiven hsp items hcan)
      (newMatcher s.top none none) (o :: ovs) rfl (Or.inl rfl) hovs
    rw [show (newMatcher s.top none none).ty.keytype = s.top.keytype from rfl] at hbody
    rw [loadTreeOv_body]
    cases hed : editBody conv s asGiven s.top.keytype items (o :: ovs) with
    | error r =>
      rw [hed] at hbody
      obtain ⟨e, he⟩ := hbody
      exact ⟨e, by rw [he]; rfl⟩
    | ok items' =>
      rw [hed] at hbody
      simp only at hbody ⊢
      rw [hbody, loadTree_evalB]
      cases evalItemsB conv s (newMatcher s.top none none) items' with
      | error e => rfl
      | ok m => rfl

/-! ### from text to tree, with overrides -/

theorem treeFinB_eq : treeFinB = treeFin := rfl

theorem load_ov_eq (conv : Conv) (env : Env) (pkgs : Str → Pkg) (s : Schema) (url : Option Str) (lines : List Str)
    (specs : List Str) :
    load conv env pkgs s url lines specs =
      specs.mapM addOption >>= fun ovs => bagOf conv s ovs >>= fun bag =>
        parseLines 64 env loaderCtx (activeOf url) url lines 0 { ctx := stOv conv pkgs s bag, stack := [], defs := [] } >>=
          loadFin conv s := by
  unfold load bagOf
  cases specs.mapM addOption with
  | error e => rfl
  | ok ovs =>
    simp only [bind, Except.bind]
    cases ovs.isEmpty <;> rfl

/-- running a tree from the initial state with a bag does not depend on the package table -/
theorem runItems_stOv (conv : Conv) (pkgs pkgs' : Str → Pkg) (s : Schema) (bag : Option Bag) (items : List Item) :
    (∀ ls, runItems (stOv conv pkgs s bag) items = .ok ls →
      ∃ m ls', runItems (stOv conv pkgs' s bag) items = .ok ls' ∧ ls.stack = [m] ∧ ls.schema = s ∧
        ls'.stack = [m] ∧ ls'.schema = s) ∧
    (∀ e, runItems (stOv conv pkgs s bag) items = .error e → ∃ e', runItems (stOv conv pkgs' s bag) items = .error e') := by
  have h1 := runItems_evalB conv s items (stOv conv pkgs s bag) (newMatcher s.top none bag) [] rfl rfl rfl
    (stOv_bagSchema conv pkgs s bag)
  have h2 := runItems_evalB conv s items (stOv conv pkgs' s bag) (newMatcher s.top none bag) [] rfl rfl rfl
    (stOv_bagSchema conv pkgs' s bag)
  cases hev : evalItemsB conv s (newMatcher s.top none bag) items with
  | error e =>
    rw [hev] at h1 h2
    refine ⟨?_, ?_⟩
    · intro ls hls; rw [h1] at hls; cases hls
    · intro _ _; exact ⟨e, h2⟩
  | ok m' =>
    rw [hev] at h1 h2
    obtain ⟨_, hr1⟩ := h1
    obtain ⟨_, hr2⟩ := h2
    refine ⟨?_, ?_⟩
    · intro ls hls
      rw [hr1] at hls
      cases hls
      exact ⟨m', _, hr2, rfl, rfl, rfl, rfl⟩
    · intro e he; rw [hr1] at he; cases he

/-- the parse of a text driving the loader that started with bag `bag` = the tree of the text run from the same start -/
theorem parse_tree_bag (conv : Conv) (env : Env) (pkgs : Str → Pkg) (s : Schema) (url : Option Str) (lines : List Str)
    (bag : Option Bag)
    (hni : ∀ l ∈ lines, NoImportLine l)
    (hres : ∀ u ls, env.res u = some ls → ∀ l ∈ ls, NoImportLine l) :
    (parseLines 64 env loaderCtx (activeOf url) url lines 0 { ctx := stOv conv pkgs s bag, stack := [], defs := [] } >>=
        loadFin conv s).toOption.map (·.value) =
      (treeOf env url lines).toOption.bind fun items =>
        (runItems (stOv conv (fun _ => .notImportable) s bag) items >>= treeFinB conv s).toOption := by
  have hsim := parse_sim loaderCtx treeCtx (R (stOv conv pkgs s bag)) (D (stOv conv pkgs s bag))
    (loaderSim (stOv conv pkgs s bag)) env hres 64 (activeOf url) url lines 0
    { ctx := stOv conv pkgs s bag, stack := [], defs := [] }
    { ctx := { stack := [([], none, [])] }, stack := [], defs := [] } [] hni
    ⟨rfl, rfl, by
      refine ⟨?_, ⟨_, rfl⟩, rfl⟩
      show runItems (stOv conv pkgs s bag) [] = _
      rw [runItems]⟩
  rw [treeOf_eq, toOption_bind, toOption_bind]
  cases hL : parseLines 64 env loaderCtx (activeOf url) url lines 0 { ctx := stOv conv pkgs s bag, stack := [], defs := [] } with
  | ok psL =>
    rw [hL] at hsim
    obtain ⟨psT, hT, ⟨_, _, hrep, _, hlen⟩, _⟩ := hsim
    rw [hT]
    simp only [toOption_ok, Option.bind_some]
    cases hstk : psT.ctx.stack with
    | nil => rw [hstk] at hrep; exact absurd rfl (replay_ok_ne _ _ _ hrep)
    | cons x rest =>
      obtain ⟨ty0, nm0, its⟩ := x
      cases rest with
      | nil =>
        rw [hstk] at hrep
        rw [replay] at hrep
        obtain ⟨m, ls', hrun', hs1, hs1s, hs2, hs2s⟩ := (runItems_stOv conv pkgs (fun _ => .notImportable) s bag its.reverse).1 _ hrep
        simp only [pure, Except.pure, toOption_ok, Option.bind_some]
        rw [hrun', treeFinB_eq]
        exact fin_agree conv s psL ls' m hs1 hs1s hs2 hs2s
      | cons y rest =>
        rw [hstk] at hlen
        have hne : ∀ top, psL.ctx.stack ≠ [top] := by
          intro top ht
          rw [ht] at hlen
          simp at hlen
        unfold loadFin
        split
        · rename_i top ht
          exact absurd ht (hne top)
        · rfl
  | error e =>
    rw [hL] at hsim
    simp only [toOption_error, Option.bind_none, Option.map_none]
    cases hT : parseLines 64 env treeCtx (activeOf url) url lines 0 { ctx := { stack := [([], none, [])] }, stack := [], defs := [] } with
    | error e' => rfl
    | ok psT =>
      have hd : D (stOv conv pkgs s bag) psT.ctx := hsim psT (by rw [hT]; rfl)
      obtain ⟨_, e1, he1⟩ := hd
      simp only [toOption_ok, Option.bind_some]
      split
      · rename_i ty0 nm0 its hstk
        rw [hstk, replay] at he1
        obtain ⟨e2, he2⟩ := (runItems_stOv conv pkgs (fun _ => .notImportable) s bag its.reverse).2 _ he1
        simp only [pure, Except.pure, toOption_ok, Option.bind_some]
        rw [he2]
        rfl
      · rfl

/-- **Text with overrides = tree with overrides.**  For a text without `%import` (here and in everything it can include):
    loading the lines with the override specifiers = splitting the specifiers (`addOption`), building the tree of
    the lines, then loading the tree with the overrides. -/
theorem load_eq_loadTreeOv (conv : Conv) (env : Env) (pkgs : Str → Pkg) (s : Schema) (url : Option Str) (lines : List Str)
    (specs : List Str)
    (hni : ∀ l ∈ lines, NoImportLine l)
    (hres : ∀ u ls, env.res u = some ls → ∀ l ∈ ls, NoImportLine l) :
    (load conv env pkgs s url lines specs).toOption.map (·.value) =
      (specs.mapM addOption).toOption.bind fun ovs =>
        (treeOf env url lines).toOption.bind fun items => (loadTreeOv conv s items ovs).toOption := by
  rw [load_ov_eq]
  cases hsp : specs.mapM addOption with
  | error e => rfl
  | ok ovs =>
    show (((bagOf conv s ovs >>= fun bag =>
      parseLines 64 env loaderCtx (activeOf url) url lines 0 { ctx := stOv conv pkgs s bag, stack := [], defs := [] } >>=
        loadFin conv s) : M LoadResult).toOption.map (·.value)) = _
    simp only [toOption_ok, Option.bind_some]
    unfold loadTreeOv
    cases hb : bagOf conv s ovs with
    | error e =>
      show (none : Option Val) = _
      cases (treeOf env url lines).toOption <;> rfl
    | ok bag =>
      show ((parseLines 64 env loaderCtx (activeOf url) url lines 0 { ctx := stOv conv pkgs s bag, stack := [], defs := [] } >>=
        loadFin conv s).toOption.map (·.value)) = _
      rw [parse_tree_bag conv env pkgs s url lines bag hni hres]
      rfl

end ZCV.Conf
