import ZCV.Lemmas.ElabInvTop
/-!
Every handler of the schema parser keeps the invariant `ESInv`.
-/
namespace ZCV.Elab
open ZCV ZCV.Cfg

theorem identifierE_ne_nil {s r : Str} (h : identifierE s = .ok r) : r ≠ [] := by
  unfold identifierE at h
  split at h
  · rename_i r' hr
    simp only [Except.ok.injEq] at h
    subst h
    unfold DT.identifier DT.regexConv at hr
    split at hr
    · rename_i hm
      simp only [Except.ok.injEq] at hr
      subst hr
      rw [DT.identifier_matches] at hm
      intro hnil
      subst hnil
      simp [DTSpec.isIdent] at hm
    · cases hr
  · cases h

theorem anyNames_cases {n : Str} (h : Gen.anyNames.contains n = true) : n = ['*'] ∨ n = ['+'] := by
  simp only [Gen.anyNames, List.contains_iff_mem, List.mem_cons, List.not_mem_nil, or_false] at h
  exact h

theorem bind_ok {ε α β} {x : Except ε α} {f : α → Except ε β} {r : β} :
    (x >>= f) = .ok r ↔ ∃ a, x = .ok a ∧ f a = .ok r := by
  cases x with
  | error e => simp [bind, Except.bind]
  | ok a => simp [bind, Except.bind]

theorem guard_ok {c : Prop} [Decidable c] {t : String} {a : PUnit}
    (h : (if c then (serr t : EM PUnit) else pure PUnit.unit) = .ok a) : ¬ c := by
  intro hc; simp [hc, serr] at h

theorem convKeyName_ok {env : Env} {kt name r : Str} (h : convKeyName env kt name = .ok r) : env.conv.key kt name = .ok r := by
  unfold convKeyName at h
  split at h
  · rename_i r' hr; simp only [Except.ok.injEq] at h; subst h; exact hr
  all_goals cases h

/-- the part of `get_name_info` after name and attribute have been read -/
def nameTail (env : Env) (st : PSt) (name : Str) (aname : Option Str) : EM (Option Str × Option Str × Option Str) :=
  if Gen.anyNames.contains name then
    match aname with
    | some (c :: cs) => pure (some name, none, some (c :: cs))
    | _ => serr "container attribute must be specified"
  else do
    let kt ← topKeytype st
    let nm ← convKeyName env kt name
    match aname with
    | some (c :: cs) => pure (none, some nm, some (c :: cs))
    | _ =>
      let a ← basicKeyE nm
      let a' ← identifierE (a.map fun ch => if ch == '-' then '_' else ch)
      pure (none, some nm, some a')

theorem getNameInfo_tail {env : Env} {st : PSt} {attrs : Attrs} {dflt : Option Str} {r : Option Str × Option Str × Option Str}
    (h : getNameInfo env st attrs dflt = .ok r) :
    ∃ name aname, name ≠ [] ∧ nameTail env st name aname = .ok r := by
  unfold getNameInfo at h
  generalize attr attrs "attribute" = o2 at h
  generalize attr attrs "name" = o1 at h
  have tail : ∀ (o2 : Option Str) (nm : Str), (match o2 with
        | some (c :: cs) => identifierE (c :: cs) >>= fun a =>
            if startsWith a Gen.reservedAttrPrefix = true then
              (serr "attribute names may not start with 'getSection'" : EM Unit) >>= fun _ => nameTail env st nm (some a)
            else nameTail env st nm (some a)
        | _ => nameTail env st nm none) = .ok r →
      nm ≠ [] → ∃ name aname, name ≠ [] ∧ nameTail env st name aname = .ok r := by
    intro o2 nm h hnm
    split at h
    · rw [bind_ok] at h
      obtain ⟨a, hi, h⟩ := h
      by_cases hs : startsWith a Gen.reservedAttrPrefix = true
      · simp [hs, serr, bind, Except.bind] at h
      · simp only [hs, Bool.false_eq_true, ↓reduceIte] at h
        exact ⟨nm, some a, hnm, h⟩
    · exact ⟨nm, none, hnm, h⟩
  rcases o1 with _ | ⟨_ | ⟨c, cs⟩⟩
  · rcases dflt with _ | ⟨_ | ⟨c, cs⟩⟩
    · cases h
    · cases h
    · exact tail o2 _ h (by simp)
  · cases h
  · exact tail o2 _ h (by simp)

theorem nameTail_spec {env : Env} {st : PSt} {name0 : Str} {aname : Option Str} {any name an : Option Str}
    (h : nameTail env st name0 aname = .ok (any, name, an)) :
    (∃ a, an = some a ∧ a ≠ []) ∧
    ((∃ n, any = some n ∧ (n = ['*'] ∨ n = ['+']) ∧ name = none) ∨
     (any = none ∧ ∃ nm kt, name = some nm ∧ Gen.anyNames.contains name0 = false ∧ env.conv.key kt name0 = .ok nm)) := by
  unfold nameTail at h
  split at h
  · rename_i hany
    split at h
    · simp only [pure, Except.pure, Except.ok.injEq, Prod.mk.injEq] at h
      obtain ⟨rfl, rfl, rfl⟩ := h
      exact ⟨⟨_, rfl, by simp⟩, Or.inl ⟨_, rfl, anyNames_cases hany, rfl⟩⟩
    · cases h
  · rename_i hany
    have hany : Gen.anyNames.contains name0 = false := by simpa using hany
    rw [bind_ok] at h
    obtain ⟨kt, _, h⟩ := h
    rw [bind_ok] at h
    obtain ⟨nm, hnm, h⟩ := h
    have hconv := convKeyName_ok hnm
    split at h
    · simp only [pure, Except.pure, Except.ok.injEq, Prod.mk.injEq] at h
      obtain ⟨rfl, rfl, rfl⟩ := h
      exact ⟨⟨_, rfl, by simp⟩, Or.inr ⟨rfl, nm, kt, rfl, hany, hconv⟩⟩
    · rw [bind_ok] at h
      obtain ⟨a, _, h⟩ := h
      rw [bind_ok] at h
      obtain ⟨a', ha', h⟩ := h
      simp only [pure, Except.pure, Except.ok.injEq, Prod.mk.injEq] at h
      obtain ⟨rfl, rfl, rfl⟩ := h
      exact ⟨⟨_, rfl, identifierE_ne_nil ha'⟩, Or.inr ⟨rfl, nm, kt, rfl, hany, hconv⟩⟩

/-- `get_name_info`: the attribute is never empty; a name is either one of the wildcard names or comes out of the key type -/
theorem getNameInfo_spec {env : Env} {st : PSt} {attrs : Attrs} {dflt : Option Str} {any name an : Option Str}
    (h : getNameInfo env st attrs dflt = .ok (any, name, an)) :
    (∃ a, an = some a ∧ a ≠ []) ∧
    ((∃ n, any = some n ∧ (n = ['*'] ∨ n = ['+']) ∧ name = none) ∨
     (any = none ∧ ∃ nm kt src, name = some nm ∧ src ≠ [] ∧ env.conv.key kt src = .ok nm)) := by
  obtain ⟨name0, aname, hne, ht⟩ := getNameInfo_tail h
  obtain ⟨h1, h2⟩ := nameTail_spec ht
  refine ⟨h1, ?_⟩
  rcases h2 with h2 | ⟨h2, nm, kt, h3, _, h5⟩
  · exact Or.inl h2
  · exact Or.inr ⟨h2, nm, kt, name0, h3, hne, h5⟩

theorem getKeyInfo_spec {env : Env} {st : PSt} {attrs : Attrs} {nm dt an : Str} {handler : Option Str}
    (h : getKeyInfo env st attrs = .ok (nm, dt, handler, an)) : nm ≠ [] ∧ an ≠ [] := by
  unfold getKeyInfo at h
  rw [bind_ok] at h
  obtain ⟨⟨any, name, attrName⟩, hni, h⟩ := h
  obtain ⟨⟨a, rfl, ha⟩, _⟩ := getNameInfo_spec hni
  simp only [bind, Except.bind, pure, Except.pure, serr] at h
  cases hd : getDatatype env st attrs "datatype" "string" none with
  | error e =>
    simp only [hd] at h
    rcases ite_ok h with ⟨_, h⟩ | ⟨_, h⟩
    · cases h
    · rcases ite_ok h with ⟨_, h⟩ | ⟨_, h⟩ <;> cases h
  | ok v =>
    cases hh : getHandler attrs with
    | error e =>
      simp only [hd, hh] at h
      rcases ite_ok h with ⟨_, h⟩ | ⟨_, h⟩
      · cases h
      · rcases ite_ok h with ⟨_, h⟩ | ⟨_, h⟩ <;> cases h
    | ok v1 =>
      simp only [hd, hh] at h
      by_cases h1 : (any == some ['*']) = true
      · simp [h1] at h
      · simp only [h1, Bool.false_eq_true, ↓reduceIte] at h
        rcases name with _ | ⟨_ | ⟨x, xs⟩⟩
        · by_cases h2 : any = some ['+']
          · simp only [h2, bne_self_eq_false, Bool.and_false, Bool.false_eq_true, ↓reduceIte, Option.getD_some,
              Except.ok.injEq, Prod.mk.injEq] at h
            obtain ⟨rfl, _, _, rfl⟩ := h
            exact ⟨by simp, ha⟩
          · have : (any != some ['+']) = true := by simpa using h2
            simp [this] at h
        · by_cases h2 : any = some ['+']
          · simp only [h2, bne_self_eq_false, Bool.and_false, Bool.false_eq_true, ↓reduceIte, Option.getD_some,
              Except.ok.injEq, Prod.mk.injEq] at h
            obtain ⟨rfl, _, _, rfl⟩ := h
            exact ⟨by simp, ha⟩
          · have : (any != some ['+']) = true := by simpa using h2
            simp [this] at h
        · simp only [Bool.not_true, Bool.false_and, Bool.false_eq_true, ↓reduceIte, Option.getD_some,
            Except.ok.injEq, Prod.mk.injEq] at h
          obtain ⟨rfl, _, _, rfl⟩ := h
          exact ⟨by simp, ha⟩

/-- what a freshly pushed key frame knows: its key is the last child of the container below -/
def LastKey (es : ES) (stack : List Frame) (k : EKey) : Prop :=
  ∃ ch key k0, topOf es stack = .ok (ch ++ [(key, EInfo.key k0)]) ∧ k0.name = k.name ∧ k0.attr = k.attr

theorem ChildOK.key {tys : List (Str × EEntry)} {k : EKey} (h : KeyShape k) : ChildOK tys (some k.name, EInfo.key k) :=
  ⟨rfl, h⟩

/-- pushing a key that was just appended to the container on top of the stack -/
theorem pushKey_inv {st st' : PSt} {k : EKey} (hinv : ESInv st.es) (hk : KeyShape k) (hattr : k.attr ≠ [])
    (h : (addChild st (some k.name) (EInfo.key k) >>= fun st1 => (pure { st1 with stack := .key k :: st1.stack } : EM PSt)) = .ok st') :
    ESInv st'.es ∧ Grows st.es st'.es ∧ ∃ k', st'.stack = .key k' :: st.stack ∧ KeyShape k' ∧ LastKey st'.es st.stack k' := by
  rw [bind_ok] at h
  obtain ⟨st1, hadd, h⟩ := h
  simp only [pure, Except.pure, Except.ok.injEq] at h
  subst h
  obtain ⟨h1, h2, _, ch, h4⟩ := addChild_inv hinv hadd hattr (by intro k' hk'; cases hk'; exact hk.1) (ChildOK.key hk)
  exact ⟨h1, addChild_grows (st' := st1) hadd, k, by simp only [h2], hk, ch, some k.name, k, h4, rfl, rfl⟩

theorem startKey_inv {env : Env} {st st' : PSt} {attrs : Attrs} (hinv : ESInv st.es)
    (h : startKey env st attrs = .ok st') :
    ESInv st'.es ∧ Grows st.es st'.es ∧ ∃ k, st'.stack = .key k :: st.stack ∧ KeyShape k ∧ LastKey st'.es st.stack k := by
  unfold startKey at h
  rw [bind_ok] at h
  obtain ⟨⟨name, dt, handler, attrName⟩, hki, h⟩ := h
  obtain ⟨hname, hattr⟩ := getKeyInfo_spec hki
  dsimp -zeta only at h
  rw [bind_ok] at h
  obtain ⟨req, hreq, h⟩ := h
  extract_lets k0 jpAdd jpFin at h
  have hAdd : ∀ k2, KeyShape k2 → k2.name = name → k2.attr = attrName → jpAdd k2 = .ok st' →
      ESInv st'.es ∧ Grows st.es st'.es ∧ ∃ k, st'.stack = .key k :: st.stack ∧ KeyShape k ∧ LastKey st'.es st.stack k := by
    intro k2 hk2 hn ha hj
    subst hn ha
    exact pushKey_inv hinv hk2 hattr hj
  have hFin : ∀ k1, KeyShape k1 → k1.name = name → k1.attr = attrName → jpFin k1 = .ok st' →
      ESInv st'.es ∧ Grows st.es st'.es ∧ ∃ k, st'.stack = .key k :: st.stack ∧ KeyShape k ∧ LastKey st'.es st.stack k := by
    intro k1 hk1 hn ha hj
    simp only [jpFin] at hj
    rcases ite_ok hj with ⟨_, hj⟩ | ⟨_, hj⟩
    · rw [bind_ok] at hj
      obtain ⟨k2, hf, hj⟩ := hj
      obtain ⟨hs2, hsame⟩ := finishKey_shape k1 k2 hk1 hf
      exact hAdd k2 hs2 (hsame.name.trans hn) (hsame.attr.trans ha) hj
    · exact hAdd k1 hk1 hn ha hj
  have hk0 : KeyShape k0 := by
    refine ⟨hname, ?_⟩
    by_cases hp : name = ['+']
    · simp [k0, hp, plusShape]
    · simp [k0, hp]
  split at h
  · rcases ite_ok h with ⟨_, h⟩ | ⟨hr, h⟩
    · simp [serr, bind, Except.bind] at h
    · rw [bind_ok] at h
      obtain ⟨k1, hd, h⟩ := h
      have hr' : req = false := by simpa using hr
      obtain ⟨hs1, hsame, _⟩ := addDefault_shape k0 k1 _ none hk0 (by simp [k0, hr']) hd
      exact hFin k1 hs1 hsame.name hsame.attr h
  · exact hFin k0 hk0 rfl rfl h

/-- the `if c then serr …` statement of a do block, followed by the rest of the block -/
theorem guard_jp {α} {c : Prop} [Decidable c] {x : EFail} {jp : Unit → EM α} {r : α}
    (h : (if c then (Except.error x : EM Unit) >>= jp else jp ()) = .ok r) : ¬c ∧ jp () = .ok r := by
  rcases ite_ok h with ⟨_, h⟩ | ⟨hc, h⟩
  · simp [bind, Except.bind] at h
  · exact ⟨hc, h⟩

theorem startMultikey_inv {env : Env} {st st' : PSt} {attrs : Attrs} (hinv : ESInv st.es)
    (h : startMultikey env st attrs = .ok st') :
    ESInv st'.es ∧ Grows st.es st'.es ∧ ∃ k, st'.stack = .key k :: st.stack ∧ KeyShape k ∧ LastKey st'.es st.stack k := by
  unfold startMultikey at h
  extract_lets jp at h
  obtain ⟨_, h⟩ := guard_jp h
  simp -zeta only [jp] at h
  rw [bind_ok] at h
  obtain ⟨⟨name, dt, handler, attrName⟩, hki, h⟩ := h
  obtain ⟨hname, hattr⟩ := getKeyInfo_spec hki
  dsimp -zeta only at h
  rw [bind_ok] at h
  obtain ⟨req, hreq, h⟩ := h
  extract_lets k at h
  have hk : KeyShape k := by
    refine ⟨hname, ?_⟩
    by_cases hp : name = ['+']
    · simp [k, hp, plusShape]
    · simp [k, hp]
  exact pushKey_inv (k := k) hinv hk hattr h

theorem getSectiontype_known {st : PSt} {attrs : Attrs} {ty : Str} (hlow : ∀ x : Str, lower (lower x) = lower x)
    (h : getSectiontype st attrs = .ok ty) : knownIn st.es.types (lower ty) = true := by
  unfold getSectiontype at h
  split at h
  · split at h
    · rename_i n e hg
      simp only [Except.ok.injEq] at h
      subst h
      unfold ES.gettype at hg
      obtain ⟨hmem, hn⟩ := find_key_mem hg
      simp only at hn
      rw [hn, hlow, ← hn]
      exact knownIn_of_mem hmem
    · cases h
  · cases h

/-- appending a section child and pushing its frame -/
theorem pushSect_inv {st st' : PSt} {key : Option Str} {si : SectInfo} (hinv : ESInv st.es) (hattr : si.attr ≠ [])
    (hkey : ∀ k, key = some k → k ≠ []) (hc : ChildOK st.es.types (key, EInfo.sect si))
    (h : (addChild st key (EInfo.sect si) >>= fun st1 => (pure { st1 with stack := .sect false false :: st1.stack } : EM PSt)) = .ok st') :
    ESInv st'.es ∧ Grows st.es st'.es := by
  rw [bind_ok] at h
  obtain ⟨st1, hadd, h⟩ := h
  simp only [pure, Except.pure, Except.ok.injEq] at h
  subst h
  exact ⟨(addChild_inv hinv hadd hattr hkey hc).1, addChild_grows (st' := st1) hadd⟩

theorem startSection_inv {env : Env} {st st' : PSt} {attrs : Attrs} (hinv : ESInv st.es)
    (hkey : ∀ kt s r, s ≠ [] → env.conv.key kt s = .ok r → r ≠ []) (hlow : ∀ x : Str, lower (lower x) = lower x)
    (h : startSection env st attrs = .ok st') : ESInv st'.es ∧ Grows st.es st'.es := by
  unfold startSection at h
  rw [bind_ok] at h
  obtain ⟨ty, hty, h⟩ := h
  rw [bind_ok] at h
  obtain ⟨handler, _, h⟩ := h
  rw [bind_ok] at h
  obtain ⟨req, _, h⟩ := h
  rw [bind_ok] at h
  obtain ⟨⟨anyName, name, attrName⟩, hni, h⟩ := h
  dsimp -zeta only at h
  extract_lets si jp at h
  obtain ⟨hassert, h⟩ := guard_jp h
  simp only [jp] at h
  obtain ⟨⟨a, rfl, ha⟩, hn⟩ := getNameInfo_spec hni
  have hknown := getSectiontype_known hlow hty
  refine pushSect_inv (si := si) hinv (by simpa [si] using ha) ?_ ?_ h
  · rcases hn with ⟨n, rfl, _, rfl⟩ | ⟨rfl, nm, kt, src, rfl, hsrc, hc⟩
    · intro k hk; cases hk
    · intro k hk; cases hk; exact hkey _ _ _ hsrc hc
  · rcases hn with ⟨n, rfl, hn, rfl⟩ | ⟨rfl, nm, kt, src, rfl, hsrc, hc⟩
    · refine ⟨?_, ?_, hknown⟩
      · simp [si, hn]
      · intro hm; simp [si] at hm
    · simp only [Option.some.injEq, Bool.or_eq_true, beq_iff_eq, not_or] at hassert
      refine ⟨?_, ?_, hknown⟩
      · simp only [si, Option.getD_some, hassert.1, hassert.2, or_self, ↓reduceIte, true_and]
        exact hkey _ _ _ hsrc hc
      · intro hm; simp [si] at hm

theorem multisectionNames_cases {n : Str} (h : Gen.multisectionNames.contains n = true) : n = ['*'] ∨ n = ['+'] := by
  simp only [Gen.multisectionNames, List.contains_iff_mem, List.mem_cons, List.not_mem_nil, or_false] at h
  exact h

theorem startMultisection_inv {env : Env} {st st' : PSt} {attrs : Attrs} (hinv : ESInv st.es)
    (hlow : ∀ x : Str, lower (lower x) = lower x)
    (h : startMultisection env st attrs = .ok st') : ESInv st'.es ∧ Grows st.es st'.es := by
  unfold startMultisection at h
  rw [bind_ok] at h
  obtain ⟨ty, hty, h⟩ := h
  rw [bind_ok] at h
  obtain ⟨req, _, h⟩ := h
  rw [bind_ok] at h
  obtain ⟨⟨anyName, name, attrName⟩, hni, h⟩ := h
  dsimp -zeta only at h
  obtain ⟨⟨a, rfl, ha⟩, hn⟩ := getNameInfo_spec hni
  have hknown := getSectiontype_known hlow hty
  split at h
  · rename_i an
    extract_lets jp at h
    obtain ⟨hms, h⟩ := guard_jp h
    simp only [jp] at h
    rw [bind_ok] at h
    obtain ⟨handler, _, h⟩ := h
    have han : an = ['*'] ∨ an = ['+'] := multisectionNames_cases (by simpa using hms)
    rcases hn with ⟨n, hn1, _, rfl⟩ | ⟨hn1, _⟩
    · refine pushSect_inv hinv (by simpa using ha) (by intro k hk; cases hk) ?_ h
      refine ⟨?_, ?_, hknown⟩
      · simp [han]
      · intro _; simpa using han
    · cases hn1
  · cases h

/-! ### writing the finished key back -/

theorem ChildrenOK.replaceLast {tys : List (Str × EEntry)} {ch : List (Option Str × EInfo)} {key : Option Str} {k0 k : EKey}
    (h : ChildrenOK tys (ch ++ [(key, EInfo.key k0)])) (hn : k0.name = k.name) (ha : k0.attr = k.attr) (hk : KeyShape k) :
    ChildrenOK tys (ch ++ [(key, EInfo.key k)]) := by
  refine ⟨?_, ?_, ?_⟩
  · have := h.attrs
    simp only [List.map_append, List.map_cons, List.map_nil, EInfo.attr] at this ⊢
    rw [← ha]; exact this
  · have := h.keys
    simp only [List.filterMap_append] at this ⊢
    exact this
  · intro c hc
    rcases List.mem_append.mp hc with hc | hc
    · exact h.child c (List.mem_append_left _ hc)
    · simp only [List.mem_singleton] at hc
      subst hc
      have h0 := h.child (key, EInfo.key k0) (List.mem_append_right _ (List.mem_singleton.mpr rfl))
      exact ⟨h0.1.trans (by rw [hn]), hk⟩

theorem replaceLastChild_inv {st st' : PSt} {k : EKey} (hinv : ESInv st.es) (hk : KeyShape k)
    (hl : LastKey st.es st.stack k) (h : replaceLastChild st k = .ok st') : ESInv st'.es := by
  unfold replaceLastChild at h
  rw [topChildren_eq] at h
  obtain ⟨ch, key, k0, htop, hn, ha⟩ := hl
  rw [htop] at h
  simp only [bind, Except.bind, List.reverse_append, List.reverse_cons, List.reverse_nil, List.nil_append,
    List.singleton_append, pure, Except.pure, Except.ok.injEq, List.reverse_reverse] at h
  subst h
  rw [setTopChildren_eq]
  exact (setTopOf_inv (ch' := ch ++ [(key, EInfo.key k)]) hinv htop (fun hc => hc.replaceLast hn ha hk)).1

theorem endKey_inv {env : Env} {st st' : PSt} {k : EKey} {rest : List Frame} (hinv : ESInv st.es)
    (hs : st.stack = .key k :: rest) (hk : KeyShape k) (hl : LastKey st.es rest k)
    (h : endKey env st = .ok st') : ESInv st'.es ∧ Grows st.es st'.es := by
  unfold endKey at h
  rw [hs] at h
  dsimp -zeta only at h
  extract_lets st1 jp at h
  have hjp : ∀ k', KeyShape k' → SameKey k k' → jp k' = .ok st' → ESInv st'.es ∧ Grows st.es st'.es := by
    intro k' hk' hsame hj
    obtain ⟨ch, key, k0, htop, hn, ha⟩ := hl
    exact ⟨replaceLastChild_inv (st := st1) hinv hk' ⟨ch, key, k0, htop, hn.trans hsame.name.symm, ha.trans hsame.attr.symm⟩ hj,
      replaceLastChild_grows (st := st1) hj⟩
  rcases ite_ok h with ⟨_, h⟩ | ⟨_, h⟩
  · rw [bind_ok] at h
    obtain ⟨kt, _, h⟩ := h
    rw [bind_ok] at h
    obtain ⟨k1, hc, h⟩ := h
    rw [bind_ok] at h
    obtain ⟨k2, hf, h⟩ := h
    obtain ⟨hs1, hsame1⟩ := computeDefault_shape env kt k k1 hk hc
    obtain ⟨hs2, hsame2⟩ := finishKey_shape k1 k2 hs1 hf
    exact hjp k2 hs2 (hsame1.trans hsame2) h
  · exact hjp k hk (SameKey.refl k) h

theorem endMultikey_inv {env : Env} {st st' : PSt} {k : EKey} {rest : List Frame} (hinv : ESInv st.es)
    (hs : st.stack = .key k :: rest) (hk : KeyShape k) (hl : LastKey st.es rest k)
    (h : endMultikey env st = .ok st') : ESInv st'.es ∧ Grows st.es st'.es := by
  unfold endMultikey at h
  rw [hs] at h
  dsimp -zeta only at h
  extract_lets st1 jp at h
  have hjp : ∀ k', KeyShape k' → SameKey k k' → jp k' = .ok st' → ESInv st'.es ∧ Grows st.es st'.es := by
    intro k' hk' hsame hj
    simp only [jp] at hj
    rw [bind_ok] at hj
    obtain ⟨k2, hf, hj⟩ := hj
    obtain ⟨hs2, hsame2⟩ := finishKey_shape k' k2 hk' hf
    have hsame' := hsame.trans hsame2
    obtain ⟨ch, key, k0, htop, hn, ha⟩ := hl
    exact ⟨replaceLastChild_inv (st := st1) hinv hs2 ⟨ch, key, k0, htop, hn.trans hsame'.name.symm, ha.trans hsame'.attr.symm⟩ hj,
      replaceLastChild_grows (st := st1) hj⟩
  rcases ite_ok h with ⟨_, h⟩ | ⟨_, h⟩
  · rw [bind_ok] at h
    obtain ⟨kt, _, h⟩ := h
    rw [bind_ok] at h
    obtain ⟨k1, hc, h⟩ := h
    obtain ⟨hs1, hsame1⟩ := computeDefault_shape env kt k k1 hk hc
    exact hjp k1 hs1 hsame1 h
  · exact hjp k hk (SameKey.refl k) h

/-! ### the type table -/

theorem ESInv.updType {es : ES} (hinv : ESInv es) (n : Str) (f : EType → EType)
    (hf : ∀ t, ChildrenOK es.types t.children → (f t).name = t.name ∧ ChildrenOK es.types (f t).children) :
    ESInv (es.updType n f) := by
  unfold ES.updType
  refine hinv.map _ ?_ ?_
  · intro ⟨k, e⟩; dsimp only; split <;> rfl
  · intro ⟨k, e⟩ _ hpe
    dsimp only
    split
    · cases e with
      | concrete t => exact ⟨(hf t hpe.2).1.trans hpe.1, (hf t hpe.2).2⟩
      | abstract_ a b c => exact hpe
    · exact hpe

theorem pushPrefix_es {st st1 : PSt} {attrs : Attrs} (h : pushPrefix st attrs = .ok st1) :
    st1.es = st.es ∧ st1.stack = st.stack := by
  unfold pushPrefix at h
  split at h
  · dsimp only at h
    generalize (if st.prefixes.isEmpty = true then DT.dottedName _ else DT.dottedSuffix _) = r at h
    cases r with
    | error e => cases h
    | ok nm =>
      dsimp only at h
      (repeat' split at h) <;> first | (injection h with h; subst h; exact ⟨rfl, rfl⟩) | cases h
  · (repeat' split at h) <;> first | (injection h with h; subst h; exact ⟨rfl, rfl⟩) | cases h

theorem addType_inv {es es' : ES} {n : Str} {e : EEntry} (hinv : ESInv es) (h : addType es n e = .ok es')
    (he : EntryOK (es.types ++ [(n, e)]) n e) : ESInv es' := by
  unfold addType at h
  split at h
  · cases h
  · rename_i hnew
    simp only [Except.ok.injEq] at h
    subst h
    have hm : ∀ x, knownIn es.types x = true → knownIn (es.types ++ [(n, e)]) x = true := by
      intro x hx; rw [knownIn_append, hx]; rfl
    refine ⟨hinv.topName, hinv.top.mono hm, ?_, ?_⟩
    · show ((es.types ++ [(n, e)]).map (·.1)).Nodup
      rw [List.map_append, List.nodup_append]
      refine ⟨hinv.keys, by simp, ?_⟩
      intro a ha b hb
      simp only [List.map_cons, List.map_nil, List.mem_singleton] at hb
      subst hb
      simp only [List.mem_map] at ha
      obtain ⟨p, hp, rfl⟩ := ha
      intro heq
      apply hnew
      rw [List.any_eq_true]
      exact ⟨p, hp, by simpa using heq⟩
    · intro p hp
      rcases List.mem_append.mp hp with hp | hp
      · exact (hinv.entries p hp).mono hm
      · simp only [List.mem_singleton] at hp
        subst hp
        exact he

theorem addType_grows {es es' : ES} {n : Str} {e : EEntry} (h : addType es n e = .ok es') : Grows es es' := by
  unfold addType at h
  split at h
  · cases h
  · simp only [Except.ok.injEq] at h
    subst h
    exact ⟨[n], by simp⟩

theorem startAbstracttype_inv {st st' : PSt} {attrs : Attrs} (hinv : ESInv st.es)
    (h : startAbstracttype st attrs = .ok st') : ESInv st'.es ∧ Grows st.es st'.es := by
  unfold startAbstracttype at h
  split at h
  · rw [bind_ok] at h
    obtain ⟨n, _, h⟩ := h
    rw [bind_ok] at h
    obtain ⟨es, hadd, h⟩ := h
    simp only [pure, Except.pure, Except.ok.injEq] at h
    subst h
    exact ⟨addType_inv hinv hadd rfl, addType_grows hadd⟩
  · cases h

/-- one step of `deriveChildren` -/
theorem deriveStep {env : Env} {kt : Str} {tys : List (Str × EEntry)} {c c' : Option Str × EInfo}
    (h : (match c with
      | (key, info) =>
        match info with
        | .key k =>
          if k.name == ['+'] then do
            let k' ← computeDefault env kt k
            pure (key, EInfo.key k')
          else pure (key, info)
        | _ => (pure (key, info) : EM (Option Str × EInfo))) = .ok c') :
    c'.1 = c.1 ∧ c'.2.attr = c.2.attr ∧ (ChildOK tys c → ChildOK tys c') := by
  obtain ⟨key, info⟩ := c
  dsimp only at h
  cases info with
  | sect si =>
    simp only [pure, Except.pure, Except.ok.injEq] at h
    subst h
    exact ⟨rfl, rfl, id⟩
  | key k =>
    dsimp only at h
    rcases ite_ok h with ⟨_, h⟩ | ⟨_, h⟩
    · rw [bind_ok] at h
      obtain ⟨k', hc, h⟩ := h
      simp only [pure, Except.pure, Except.ok.injEq] at h
      subst h
      have hsame := computeDefault_same env kt k k' hc
      refine ⟨rfl, hsame.attr, ?_⟩
      intro hco
      exact ⟨hco.1.trans (by rw [hsame.name]), (computeDefault_shape env kt k k' hco.2 hc).1⟩
    · simp only [pure, Except.pure, Except.ok.injEq] at h
      subst h
      exact ⟨rfl, rfl, id⟩

theorem deriveChildren_ok {env : Env} {kt : Str} {tys : List (Str × EEntry)} {ch0 ch : List (Option Str × EInfo)}
    (h0 : ChildrenOK tys ch0) (h : deriveChildren env kt ch0 = .ok ch) : ChildrenOK tys ch := by
  unfold deriveChildren at h
  refine ⟨?_, ?_, ?_⟩
  · have := mapM_ok_map' _ (fun c : Option Str × EInfo => c.2.attr) (fun c => c.2.attr)
      (fun a b hab => (deriveStep (tys := tys) hab).2.1) ch0 ch h
    rw [this]; exact h0.attrs
  · have := mapM_ok_map' _ (fun c : Option Str × EInfo => c.1) (fun c => c.1)
      (fun a b hab => (deriveStep (tys := tys) hab).1) ch0 ch h
    have e1 : ch.filterMap (·.1) = (ch.map (·.1)).filterMap id := by rw [List.filterMap_map]; rfl
    have e2 : ch0.filterMap (·.1) = (ch0.map (·.1)).filterMap id := by rw [List.filterMap_map]; rfl
    rw [e1, this, ← e2]; exact h0.keys
  · intro c hc
    obtain ⟨a, ha, hf⟩ := mapM_ok_mem _ ch0 ch h c hc
    exact (deriveStep hf).2.2 (h0.child a ha)

end ZCV.Elab
