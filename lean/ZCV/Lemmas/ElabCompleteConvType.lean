import ZCV.Lemmas.ElabCompleteConvMember
/-!
C10, converse of completeness, step 4: type declarations that are read successfully obey the rules.
-/
namespace ZCV.SchemaRules
open ZCV ZCV.Elab
open ZCV.Cfg (VI SectInfo Default)

/-! ### the type table, backwards -/

theorem TypesRel.lookup_of_find {Γ : Ctx} {ts : List (Str × EEntry)} (h : TypesRel Γ ts) {n k : Str} {e : EEntry}
    (hf : ts.find? (·.1 == n) = some (k, e)) : ∃ sig, Γ.lookup n = some sig ∧ EntryRel sig e := by
  rcases h.find n with ⟨_, h2⟩ | ⟨sig, e', h1, h2, h3⟩
  · rw [h2] at hf; cases hf
  · rw [h2] at hf
    injection hf with hf
    injection hf with _ hf
    subst hf
    exact ⟨sig, by unfold Ctx.lookup; rw [h1]; rfl, h3⟩

theorem lookup_of_gettype {Γ : Ctx} {es : ES} (hrel : TypesRel Γ es.types) {b k : Str} {e : EEntry}
    (hb : DTSpec.isBasicKey b = true) (hg : es.gettype (asciiLower b) = some (k, e)) :
    ∃ sig, Γ.lookup (asciiLower b) = some sig ∧ EntryRel sig e := by
  unfold ES.gettype at hg
  rw [lower_asciiLower hb] at hg
  exact hrel.lookup_of_find hg

theorem notContains_of_notMem {l : List Str} {x : Str} (h : x ∉ l) : (!l.contains x) = true := by
  cases hc : l.contains x with
  | false => rfl
  | true => exact absurd (List.contains_iff_mem.mp hc) h

/-! ### `<abstracttype>`, backwards -/

theorem abstractBody_inv {env : Env} {h : Hooks} {dk : DocKind} {parent : Str} (hl : leafParent parent = true)
    (hpar : ∀ t, nestingOK parent t = true → Gen.cdataTags.contains t = true → t = "description".toList)
    (n nm : Str) (subs : List Str) (pre : List (Str × EEntry)) (rest : List Frame) (hfresh : n ∉ pre.map (·.1)) :
    ∀ (c : List Node) (st st' : PSt) (d : Bool), st.stack = .atype n :: rest →
      st.es.types = pre ++ [(n, .abstract_ nm subs d)] →
      visitChildren env h dk parent st c = .ok st' →
      leafBodyOK parent c = true ∧ OnceIf (isComp dk) d "description".toList c
  | [], _, _, d, _, _, _ => ⟨rfl, OnceIf.nil _ _ _⟩
  | .text s :: r, st, st', d, hs, ht, hv => by
    rw [visitChildren_text] at hv
    by_cases hb : (strip s).isEmpty = true
    · rw [if_pos hb] at hv
      obtain ⟨h1, h2⟩ := abstractBody_inv hl hpar n nm subs pre rest hfresh r st st' d hs ht hv
      exact ⟨by simp only [leafBodyOK, List.all_cons, Bool.and_eq_true]; exact ⟨hb, h1⟩, h2.cons_text⟩
    · rw [if_neg hb] at hv; cases hv
  | .elem t a c0 :: r, st, st', d, hs, ht, hv => by
    rw [visitChildren_elem] at hv
    obtain ⟨st1, hv1, hv2⟩ := er_bind_ok hv
    have hn := check_nestingOK (visitElem_ok_nesting hv1)
    have hc := leafParent_cdata hl hn
    have htag := hpar t hn hc
    subst htag
    obtain ⟨g1, g2⟩ := cdataTag_dispatch dk hc
    rw [visitElem_cdata_eq (nestingOK_check hn) g1 g2 hc] at hv1
    obtain ⟨data, hcol, hch⟩ := er_bind_ok hv1
    have htxt := collectText_ok_all hcol
    have hch' : charactersTag (isComp dk) "description".toList a (strip data) st = .ok st1 := hch
    rw [charactersTag_description] at hch'
    by_cases hd : (d && !isComp dk) = true
    · exfalso
      have hfind : st.es.types.find? (·.1 == n) = some (n, .abstract_ nm subs d) := by
        rw [ht]; exact find_fst_append_fresh _ _ _ hfresh
      unfold markDesc at hch'
      rw [hs] at hch'
      simp only [hfind, hd, ↓reduceIte] at hch'
      cases hch'
    · have hd' : (d && !isComp dk) = false := by simpa using hd
      rw [markDesc_abstract hfresh hs ht hd'] at hch'
      injection hch' with hch'
      have hs1 : st1.stack = .atype n :: rest := by rw [← hch']; exact hs
      have ht1 : st1.es.types = pre ++ [(n, .abstract_ nm subs true)] := by rw [← hch']
      obtain ⟨h1, h2⟩ := abstractBody_inv hl hpar n nm subs pre rest hfresh r st1 st' true hs1 ht1 hv2
      refine ⟨?_, OnceIf.cons_same hd' h2⟩
      simp only [leafBodyOK, List.all_cons, Bool.and_eq_true, cdataOK]
      exact ⟨⟨⟨hn, hc⟩, htxt⟩, h1⟩

/-- **an `<abstracttype>` element that is read successfully obeys the rules** -/
theorem abstracttypeElem_inv {env : Env} {h : Hooks} {d : DocKind} {parent : Str} {st st' : PSt} {Γ : Ctx} {a : Attrs}
    {c : List Node} (hrel : TypesRel Γ st.es.types)
    (hv : visitElem env h d (some parent) st (.elem "abstracttype".toList a c) = .ok st') :
    nestingOK parent "abstracttype".toList = true ∧ abstracttypeOK (!isComp d) Γ a c = true := by
  have hn := check_nestingOK (visitElem_ok_nesting hv)
  refine ⟨hn, ?_⟩
  rw [visitElem_handled hn (by decide +kernel), startHandled_abstracttype] at hv
  obtain ⟨st1, hs1, hv⟩ := er_bind_ok hv
  obtain ⟨st2, hs2, _⟩ := er_bind_ok hv
  cases hv' : attr a "name" with
  | none => rw [startAbstracttype_noname st a (by rw [hv']; rfl)] at hs1; cases hs1
  | some v =>
    by_cases hne : v = []
    · subst hne; rw [startAbstracttype_noname st a (by rw [hv']; rfl)] at hs1; cases hs1
    · cases hb : basicKeyE v with
      | error e => rw [startAbstracttype_badname st a v e hv' hne hb] at hs1; cases hs1
      | ok nn =>
        obtain ⟨hbk, hnn⟩ := basicKeyE_ok hb
        subst hnn
        rw [startAbstracttype_named st a v _ hv' hb] at hs1
        cases hadd : addType st.es (asciiLower v) (.abstract_ (asciiLower v) [] false) with
        | error e => rw [hadd] at hs1; cases hs1
        | ok es1 =>
          obtain ⟨hfresh, hes1⟩ := addType_ok hadd
          rw [hadd] at hs1
          simp only [Except.map, Except.ok.injEq] at hs1
          subst hs1
          subst hes1
          obtain ⟨h1, h2⟩ := abstractBody_inv (env := env) (h := h) (dk := d) leafParent_abstracttype
            (fun t => nestingOK_abstract_cases) (asciiLower v) (asciiLower v) [] st.es.types st.stack hfresh c _ st2 false
            rfl rfl hs2
          have hname : typeNameOf a = asciiLower v := by unfold typeNameOf; rw [hv']; rfl
          unfold abstracttypeOK typeNameOK
          rw [hv', hname]
          simp only [Option.getD_some, Bool.and_eq_true]
          refine ⟨⟨⟨hbk, ?_⟩, h1⟩, descOnce_of_onceIf h2⟩
          rw [hrel.names]; exact notContains_of_notMem hfresh

/-! ### `<sectiontype>`: the start tag, backwards -/

/-- the children of the base could be re-derived under `kt`: the inherited default keys obey rule 8 under `kt` -/
theorem deriveChildren_ok_rules {env : Env} {kt : Str} {ms : List Member} {ch ch' : List (Option Str × EInfo)}
    (h : Pointwise MemberRel ms ch) (hd : deriveChildren env kt ch = .ok ch') :
    inheritedDefaultsOK env kt ms = true := by
  rw [deriveChildren_eq] at hd
  unfold inheritedDefaultsOK
  induction h generalizing ch' with
  | nil => rfl
  | @cons m c ms' ch0 hmc _ ih =>
    obtain ⟨c', cs', h1, h2, _⟩ := mapM_ok_cons _ c ch0 ch' hd
    rw [List.all_cons, ih h2, Bool.and_true]
    obtain ⟨key, info⟩ := c
    cases info with
    | sect s =>
      have : m.plus = none := hmc.2.2
      rw [this]
    | key k =>
      have hp : PlusRel m.plus k := hmc.2.2
      by_cases hplus : k.name = ['+']
      · have hp2 := hp
        unfold PlusRel at hp2
        rw [if_pos hplus] at hp2
        obtain ⟨keys, hm, _, _⟩ := hp2
        rw [hm]
        simp only
        simp only [deriveChild, hplus, beq_self_eq_true, ↓reduceIte] at h1
        obtain ⟨k', hcd, _⟩ := er_bind_ok h1
        exact computeDefault_ok_rules hplus (by rw [← hm]; exact hp) hcd
      · unfold PlusRel at hp
        rw [if_neg hplus] at hp
        rw [hp]

/-- **the start tag of a `<sectiontype>` that is read successfully obeys the rules** -/
theorem startSectiontype_ok_rules {env : Env} {st st1 : PSt} {Γ : Ctx} {outer : Str} {ps : List Str} {a : Attrs}
    (hrel : TypesRel Γ st.es.types) (hp : st.prefixes = outer :: ps) (h : startSectiontype env st a = .ok st1) :
    typeNameOK Γ a = true ∧ prefixOK (some outer) a = true ∧ extendsOK Γ a = true ∧ implementsOK Γ a = true ∧
      dtAttrOK env (prefixOf (some outer) a) a "keytype" = true ∧
      dtAttrOK env (prefixOf (some outer) a) a "valuetype" = true ∧
      dtAttrOK env (prefixOf (some outer) a) a "datatype" = true ∧
      inheritedDefaultsOK env (typeKeytype env outer Γ a) (inheritedOf Γ a) = true := by
  obtain ⟨v, name, s1, es2, es3, hv, hbk, hpush, hbase, himpl, _⟩ := startSectiontype_ok h
  obtain ⟨hvb, hname⟩ := basicKeyE_ok hbk
  subst hname
  have r2 := pushPrefix_ok_rules_inner hp hpush
  rw [pushPrefix_of_rules_inner hp r2] at hpush
  injection hpush with hpush
  subst hpush
  generalize hpfx : prefixOf (some outer) a = pfx at *
  have hp1 : ({ st with prefixes := pfx :: st.prefixes } : PSt).prefixes = pfx :: st.prefixes := rfl
  have hfresh := (sectiontypeBase_ok hbase).1
  have r1 : typeNameOK Γ a = true := by
    unfold typeNameOK typeNameOf
    rw [hv]
    simp only [Option.getD_some, Bool.and_eq_true]
    refine ⟨hvb, ?_⟩
    rw [hrel.names]
    exact notContains_of_notMem hfresh
  -- implements
  have r4 : implementsOK Γ a = true := by
    unfold implementsOK
    cases hi : attr a "implements" with
    | none => rfl
    | some i =>
      obtain ⟨_, _, ifn, an, nm, subs, d, g1, g2, _⟩ := startSectiontype_implements hi h
      obtain ⟨hib, hifn⟩ := basicKeyE_ok g1
      subst hifn
      obtain ⟨sig, hl, hrel'⟩ := lookup_of_gettype hrel hib g2
      simp only [hib, Bool.true_and, hl]
      cases sig with
      | abstract => rfl
      | concrete x y => exact hrel'.elim
  -- extends
  cases hx : attr a "extends" with
  | none =>
    obtain ⟨kt, dt, hti, _, _⟩ := sectiontypeBase_plain_ok hx hbase
    obtain ⟨d1, d2, d3⟩ := getSectTypeinfo_ok_rules hp1 hti
    have hb0 : baseOf Γ a = none := by unfold baseOf; rw [hx]
    refine ⟨r1, r2, by unfold extendsOK; rw [hx], r4, d1, d2, d3, ?_⟩
    unfold inheritedOf; rw [hb0]; rfl
  | some b =>
    obtain ⟨bn, key, base, kt, dt, ch, g1, g2, hti, _, hder, _⟩ := sectiontypeBase_ext_ok hx hbase
    obtain ⟨hbb, hbn⟩ := basicKeyE_ok g1
    subst hbn
    have g2' : st.es.gettype (asciiLower b) = some (key, .concrete base) := g2
    obtain ⟨sig, hl, hrel'⟩ := lookup_of_gettype hrel hbb g2'
    cases sig with
    | abstract => exact hrel'.elim
    | concrete bkt bms =>
      obtain ⟨hbkt, hbch⟩ := hrel'
      have hb0 : baseOf Γ a = some (bkt, bms) := by unfold baseOf; rw [hx]; simp only [hl]
      obtain ⟨d1, d2, d3⟩ := getSectTypeinfo_ok_rules hp1 hti
      obtain ⟨dt', hti'⟩ := getSectTypeinfo_of_rules (env := env) (some (base.keytype, base.datatype)) hp1 d1 d2 d3
      rw [hti] at hti'
      injection hti' with hti'
      injection hti' with hkt _
      have hkt' : kt = typeKeytype env outer Γ a := by
        rw [hkt]; unfold typeKeytype; rw [hb0, hpfx, ← hbkt]; rfl
      refine ⟨r1, r2, ?_, r4, d1, d2, d3, ?_⟩
      · unfold extendsOK; rw [hx]; simp only [hbb, hb0, Option.isSome_some, Bool.and_self]
      · rw [← hkt']
        have : inheritedOf Γ a = bms := by unfold inheritedOf; rw [hb0]; rfl
        rw [this]
        exact deriveChildren_ok_rules hbch hder

end ZCV.SchemaRules
