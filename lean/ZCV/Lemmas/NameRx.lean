import ZCV.Lemmas.Regex
import ZCV.Lemmas.Chars
import ZCV.Model.Subst
import ZCV.Spec.Subst
/-! The generated `_name_match` pattern computes `nameSplit`. -/
namespace ZCV.Subst
open ZCV ZCV.Rx ZCV.SubstSpec

def nameK1 : Cls := ⟨false, [.range 65 90, .range 95 95, .range 97 122]⟩
def nameK2 : Cls := ⟨false, [.range 48 57, .range 65 90, .range 95 95, .range 97 122]⟩

/-- the generated term has the `[k1][k2]*` shape with exactly these classes
    (this is the obligation an edit of `_name_re` breaks) -/
theorem nameRx_shape : Gen.nameRx = .seq (.cls nameK1) (.star (.cls nameK2)) := rfl

theorem nameK1_test (c : Char) : nameK1.test c = isNameStart c := by
  unfold nameK1 isNameStart; cls_arith
theorem nameK2_test (c : Char) : nameK2.test c = isNameChar c := by
  unfold nameK2 isNameChar; cls_arith

theorem nameSplit_split (t name rest : Str) (h : nameSplit t = some (name, rest)) :
    t = name ++ rest := by
  cases t with
  | nil => simp [nameSplit] at h
  | cons c r =>
    simp only [nameSplit] at h
    split at h
    · simp at h; obtain ⟨h1, h2⟩ := h; subst h1 h2; simp [List.takeWhile_append_dropWhile]
    · simp at h

/-- `_name_match(s, pos)` where `s = a ++ t`, `pos = len(a)`: the name is `nameSplit t`'s and
    `m.end()` is `pos + len(name)` -/
theorem nameMatchAt_eq (a t : Str) :
    nameMatchAt (a ++ t) a.length = (nameSplit t).map (fun p => (p.1, a.length + p.1.length)) := by
  unfold nameMatchAt pyMatchAt
  rw [nameRx_shape, List.drop_left,
    cls_star_head _ nameK1 nameK2 [] _ t (by simp)]
  cases t with
  | nil => simp [nameSplit]
  | cons c r =>
    simp only [nameK1_test, nameSplit]
    by_cases hc : isNameStart c
    · simp only [hc, ↓reduceIte, Option.map_some, Option.some.injEq, Prod.mk.injEq]
      rw [dropWhile_congr nameK2_test, takeWhile_congr (p := isNameChar) (fun _ => rfl)]
      have hl := len_take_drop isNameChar r
      have hd := length_dropWhile_le isNameChar r
      simp only [List.length_append, List.length_cons]
      constructor
      · have : a.length + (r.length + 1) - (List.dropWhile isNameChar r).length - a.length
            = (r.takeWhile isNameChar).length + 1 := by omega
        rw [this, List.take_succ_cons, take_len_takeWhile]
      · omega
    · simp [hc]

end ZCV.Subst
