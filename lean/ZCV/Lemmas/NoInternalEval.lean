import ZCV.Lemmas.Grammar
import ZCV.Lemmas.NoInternalLoader
/-!
Evaluation lemmas for closed instances of `load` (used by the counterexamples of `ZCV.Props.C07`): the shape of a
concrete line is read off the regex-free `Grammar.classify` (which `decide` can evaluate), and `parseLines` /
`stepLine` are unfolded one line at a time.
-/
namespace ZCV.Cfg
open ZCV

theorem shape_include (line a : Str) (hn : '\n' ∉ line) (hc : Grammar.classify line = .include_ a) :
    lineShape (strip line) = .include_ a := by
  have h := lineShape_eq_classify line hn
  rw [hc] at h
  cases hs : lineShape (strip line) <;> rw [hs] at h <;> simp only [toSpec, reduceCtorEq] at h
  cases h; rfl

theorem shape_import (line a : Str) (hn : '\n' ∉ line) (hc : Grammar.classify line = .import_ a) :
    lineShape (strip line) = .import_ a := by
  have h := lineShape_eq_classify line hn
  rw [hc] at h
  cases hs : lineShape (strip line) <;> rw [hs] at h <;> simp only [toSpec, reduceCtorEq] at h
  cases h; rfl

theorem shape_define (line a : Str) (hn : '\n' ∉ line) (hc : Grammar.classify line = .define a) :
    lineShape (strip line) = .define a := by
  have h := lineShape_eq_classify line hn
  rw [hc] at h
  cases hs : lineShape (strip line) <;> rw [hs] at h <;> simp only [toSpec, reduceCtorEq] at h
  cases h; rfl

theorem shape_open (line ty : Str) (nm : Option Str) (e : Bool) (hn : '\n' ∉ line)
    (hc : Grammar.classify line = .open_ ty nm e) : lineShape (strip line) = .open_ ty nm e := by
  have h := lineShape_eq_classify line hn
  rw [hc] at h
  cases hs : lineShape (strip line) <;> rw [hs] at h <;> simp only [toSpec, reduceCtorEq] at h
  cases h; rfl

theorem parseLines_nil {σ} (fuel : Nat) (env : Env) (c : PCtx σ) (active : List Str) (url : Option Str) (n : Nat)
    (st : PS σ) :
    parseLines fuel env c active url [] n st =
      if st.stack != [] then .error (synErr url n "unclosed sections") else .ok st := by
  rw [parseLines]

theorem parseLines_cons {σ} (fuel : Nat) (env : Env) (c : PCtx σ) (active : List Str) (url : Option Str) (l : Str)
    (rest : List Str) (n : Nat) (st : PS σ) :
    parseLines fuel env c active url (l :: rest) n st =
      stepLine fuel env c active url (n + 1) (strip l) st >>= parseLines fuel env c active url rest (n + 1) := by
  rw [parseLines]

theorem stepLine_open {σ} (fuel : Nat) (env : Env) (c : PCtx σ) (active : List Str) (url : Option Str) (line : Nat)
    (l ty : Str) (nm : Option Str) (e : Bool) (st : PS σ) (h : lineShape l = .open_ ty nm e) :
    stepLine fuel env c active url line l st = openSection c url line ty nm e st := by
  rw [stepLine]
  simp only [h]

theorem load_no_overrides (conv : Conv) (env : Env) (pkgs : Str → Pkg) (s : Schema) (url : Option Str)
    (lines : List Str) : load conv env pkgs s url lines [] = loadTail conv env pkgs s url lines none := by
  rw [load_eq]
  rfl

end ZCV.Cfg
